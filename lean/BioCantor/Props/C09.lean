/-
  C09 — collection queries return exactly the specified members, self-consistently.

  Model    : Model/Query.lean   (mirror of gene/collections.py 455-974 + gene.py / feature.py / variants.py
             `query_by_guids`, BOTH branches of the position query; executes the GENERATED `Gen.bins` and
             `Gen.SingleInterval_parent_to_relative_pos`)
  Spec     : Spec/Query.lean    (membership clause `keepSpec`, documented bounds, sequence restriction, set-builder
             specs of the id queries; no bins, no interval tree)
  Lemmas   : Proofs/QueryKept, QueryResult, QueryBounds, QueryMain, QueryPos, QueryFindings, QueryIds,
             QueryIntervals, QueryIntervals2, QueryIdentity, QueryOptimized, QueryTies

  T1  position queries keep exactly `specFilter` — the bin pre-filter never changes the answer (this is where the
      C16 theorems `never_hides_bed`, `bins_one_bed`, `bins_all_is_set` about the generated kernel are used), and
      neither does the choice of branch (cgranges interval tree vs. the loop); rejected ranges = exactly the
      documented ones.
  T2  result bounds = documented bounds; `_subset_parent` yields the chromosome stretch of the source sequence for
      whole-chromosome and chunk parents, with bounds taken from the parent or EXPLICIT (inside / equal to / off the
      sequence); member identity (GUID, kind, identifiers, chromosome blocks, strand) is preserved; member sequences
      are the source's restricted to the new bounds.
  T3  GUID / identifier / interval-GUID queries = set-builder specs for genes, feature collections and variant
      collections; kept children keep only requested grandchildren.
  F   the modelled CURRENT code deviates on the one open finding input (F-C19f): witness below; the `meets`
      theorems are stated on the complement (`selfBounds src = some _`).
      Repaired in /repo and now theorems about the code as it is: F-C09a (`coding_only_skips_variants`), F-C09b
      (`subset_parent_noseq`), F-C09c and F-C09d (`subset_parent_whole`, `subset_parent_chunk`: the clamp to the
      stretch the collection has sequence for); the behaviour BEFORE the repairs is kept as regression witnesses
      (`regression_F_C09b`, `regression_F_C09c`, `regression_F_C09d`) about `subsetParentBefore` /
      `subsetParentBeforeD`.
-/
import BioCantor.Proofs.QueryFindings
import BioCantor.Proofs.QueryIds
import BioCantor.Proofs.QueryIntervals2
import BioCantor.Proofs.QueryIdentity
import BioCantor.Proofs.QueryOptimized
import BioCantor.Proofs.QueryTies
import BioCantor.Props.C16
set_option autoImplicit false   -- an unresolved name in a statement must be an error, never a bound variable
namespace BioCantor.Props.C09
open BioCantor BioCantor.Spec BioCantor.Spec.Query BioCantor.Model.Query BioCantor.Proofs.Query

/-! ## T1 — membership -/

/-- T1a: for ALL collections whose children contain their grandchildren (`ChildWF`: true by construction, a gene's
    span is the min/max of its transcripts), ALL valid non-negative ranges and ALL flags, `_query_by_position` keeps
    exactly `specFilter` of the children in iteration order — with or without the bin pre-filter
    (`completely_within and start and end`), whatever `Gen.bins` assigns.  (A variant collection is never coding:
    `Child.isCoding`; F-C09a repaired, no exclusion left.) -/
theorem query_kept_is_specFilter (src : Source) (s e : Int) (cw co : Bool) (hs : 0 ≤ s) (hse : s < e)
    (hwf : ∀ c ∈ src.children, ChildWF c) :
    queryKept src s e cw co = .ok (specFilter (iterChildren src) co cw s e) :=
  queryKept_eq src s e cw co hs hse hwf

/-- T1a': the iteration order is a permutation of the children, so as a SET the kept members are
    `specFilter src.children`. -/
theorem query_kept_perm (src : Source) (s e : Int) (cw co : Bool) :
    (specFilter (iterChildren src) co cw s e).Perm (specFilter src.children co cw s e) :=
  specFilter_perm (iterChildren_perm src) co cw s e

/-- T1b: the bin pre-filter is sound on its own: whenever the span test would keep a child, one of its
    grandchildren's bins is in the query's bin set (C16 `never_hides_bed` on the generated `bins`). -/
theorem prefilter_never_hides_kept (s e : Int) (S : GenP.RangeSet) (c : Child) (hc : ChildWF c) (hs : 0 ≤ s)
    (hS : Gen.bins s e .bed false = .ok (.many S)) (hin : s ≤ c.start ∧ c.stop ≤ e) :
    anyBinIn S c.gcs = .ok true := by
  rw [anyBinIn_eq, prefilter_never_hides s e S c hc hs hS hin]

/-- T1c: rejected ranges = exactly the documented ones (incl. `start == end`), in the coded order of the cascade. -/
theorem rejected_ranges_exact (src : Source) (qs qe : Option Int) (bs be : Int)
    (hb : selfBounds src = some (bs, be)) :
    validate src qs qe =
      if validRange bs be (optOr qs bs) (optOr qe be) = true then .ok (optOr qs bs, optOr qe be)
      else .error (.doc .InvalidQuery) :=
  validate_eq src qs qe bs be hb

/-- the span kernels are the textbook predicates on valid intervals -/
theorem overlap_kernel (s e a b : Int) (h1 : s ≤ e) (h2 : a ≤ b) :
    overlapInt (s, e) (a, b) = decide (a < e ∧ s < b ∧ a < b ∧ s < e) := overlapInt_iff s e a b h1 h2
theorem contains_kernel (s e a b : Int) (h : s < e) (h2 : a ≤ b) :
    containsInt (s, e) (a, b) = decide (s ≤ a ∧ b ≤ e ∧ a < b) := containsInt_iff s e a b h h2

/-- the span kernel used here is the shared model of `SingleInterval._has_overlap_single_interval` (Model/Location,
    C01/C02) on valid blocks -/
theorem overlap_kernel_is_location_kernel (a b : Blk) (ha : a.1 ≤ a.2) (hb : b.1 ≤ b.2) :
    overlapInt ((a.1 : Int), (a.2 : Int)) ((b.1 : Int), (b.2 : Int)) = Model.overlapKernel a b :=
  overlapInt_eq_overlapKernel a b ha hb

/-- T1d (branch independence): the cgranges branch `_optimized_query_by_position` — `tree.overlap` (TRUSTED: the
    interval tree returns exactly the entries with `genomic_start < end ∧ start < genomic_end`) followed by the
    `contains` / `coding_only` post-filters — keeps exactly the members the pure-Python loop keeps, in strict mode
    always and in relaxed mode when no child has a zero-length span.  So the claim does not depend on which branch
    runs (cgranges is absent in this sandbox: proof only). -/
theorem optimized_branch_agrees (src : Source) (s e : Int) (cw co : Bool) (hs : 0 ≤ s) (hse : s < e)
    (hwf : ∀ c ∈ src.children, ChildWF c) (hne : cw = true ∨ ∀ c ∈ src.children, c.start < c.stop) :
    optimizedKept src s e cw co = queryKept src s e cw co :=
  optimizedKept_eq_queryKept src s e cw co hs hse hwf hne

/-- T1d' (the one divergence of the two branches, a finding on paper — it cannot be executed here): in RELAXED mode
    a zero-length child strictly inside the range IS returned by the cgranges branch and is NOT returned by the
    pure-Python branch (nor wanted by the specification: an empty span overlaps nothing). -/
theorem optimized_branch_differs_on_empty_span (src : Source) (s e : Int) (hs : 0 ≤ s) (hse : s < e)
    (hwf : ∀ c ∈ src.children, ChildWF c) (c : Child) (hc : c ∈ src.children) (hz : c.start = c.stop)
    (hin : s < c.start ∧ c.start < e) :
    (∃ kept, optimizedKept src s e false false = .ok kept ∧ c ∈ kept) ∧
    (∃ kept, queryKept src s e false false = .ok kept ∧ c ∉ kept) :=
  optimized_keeps_empty_span_relaxed src s e hs hse hwf c hc hz hin

/-! ## T2 — bounds, the re-chunked parent, member identity and sequences -/

/-- T2a: whole-chromosome source with bounds `[bs, be)` on the sequence (the chromosome's `[0, len)` or explicit
    `start=`/`end=`): `_subset_parent(start, end)` = the stretch `[start, end)` of the sequence cut to the bounds —
    inside the bounds that is `[start, end)` itself; a range reaching beyond them (id queries keeping a member
    outside explicit bounds) is clamped (F-C09d repaired); the bounds themselves keep the parent; nothing of the
    range within the bounds: no parent. -/
theorem subset_parent_whole (src : Source) (seq : List Char) (hp : src.par = .whole seq) (bs be : Int)
    (hb : selfBounds src = some (bs, be)) (hbs : 0 ≤ bs ∧ bs ≤ be ∧ be ≤ seq.length)
    (start stop : Int) (hne : start ≠ stop) :
    subsetParent src start stop =
      .ok (if start = bs ∧ stop = be then .whole seq
           else if max start bs < min stop be then
             .chunk (max start bs) (min stop be) (slice seq (max start bs) (min stop be))
           else .none) :=
  subsetParent_whole src seq hp bs be hb hbs start stop hne

/-- T2b: chunk source `[cs, ce)` whose bounds `[bs, be)` (the chunk's, or explicit: inside, wider, partly on) meet
    the chunk: with `[A, B) = [max bs cs, min be ce)` the stretch the collection has sequence for, the new parent is
    the stretch `[max start A, min stop B)` read at `· - cs` of the chunk — no base lost at the chunk end (F-C09c
    repaired), no InvalidPositionException when the bounds reach beyond the chunk (F-C09d repaired); the bounds
    themselves keep the whole chunk; nothing of the range on `[A, B)`: no parent. -/
theorem subset_parent_chunk (src : Source) (cs : Int) (seq : List Char) (hp : src.par = .chunk cs seq)
    (bs be : Int) (hb : selfBounds src = some (bs, be)) (hcs : 0 ≤ cs) (hbb : bs ≤ be)
    (hov : max bs cs < min be (cs + seq.length)) (start stop : Int) (hne : start ≠ stop) :
    subsetParent src start stop =
      .ok (if start = bs ∧ stop = be then .chunk cs (cs + seq.length) seq
           else if max start (max bs cs) < min stop (min be (cs + seq.length)) then
             .chunk (max start (max bs cs)) (min stop (min be (cs + seq.length)))
               (slice seq (max start (max bs cs) - cs) (min stop (min be (cs + seq.length)) - cs))
           else .none) :=
  subsetParent_chunk src cs seq hp bs be hb hcs hbb hov start stop hne

/-- T2b': explicit bounds that miss the chunk: the collection has no sequence, neither has the result. -/
theorem subset_parent_chunk_off (src : Source) (cs : Int) (seq : List Char) (hp : src.par = .chunk cs seq)
    (bs be : Int) (hb : selfBounds src = some (bs, be)) (hbb : bs ≤ be)
    (hoff : ¬ max bs cs < min be (cs + seq.length)) (start stop : Int) :
    subsetParent src start stop = .ok .none :=
  subsetParent_chunk_off src cs seq hp bs be hb hbb hoff start stop

/-- T2b'': a sequence-less parent is handed on unchanged (F-C09b repaired); a zero-length result drops it. -/
theorem subset_parent_noseq (src : Source) (hp : src.par = .noseq) (start stop : Int) :
    subsetParent src start stop = .ok (if start = stop then .none else .noseq) :=
  subsetParent_noseq src hp start stop

/-- T2b''': declaratively — the sequence cut for `[start, stop)` holds, at every chromosome position `p` of the new
    range, the source's base at `p` (`lo` = chromosome position of the source sequence's first base). -/
theorem new_chunk_base_at (lo : Int) (seq : List Char) (start stop p : Int) (h0 : lo ≤ start)
    (hp : start ≤ p ∧ p < stop) :
    (stretch lo seq start stop)[(p - start).toNat]? = seq[(p - lo).toNat]? :=
  stretch_base lo seq start stop p h0 hp

/-- T2b⁗: for every well-formed source — any parent kind, bounds inferred or explicit in ANY relation to the
    sequence — `_subset_parent` succeeds on every non-inverted range and carries, in normal form, exactly the
    specified parent. -/
theorem subset_parent_is_expected (src : Source) (wf : SrcWF src) (bs be : Int)
    (hb : selfBounds src = some (bs, be)) (start stop : Int) (hdom : SubsetDomain src start stop) :
    ∃ rp, subsetParent src start stop = .ok rp ∧ rp.norm = (expectPar src start stop).norm := by
  obtain ⟨rp, h1, h2, _, _⟩ := subsetParent_spec src wf bs be hb start stop hdom
  exact ⟨rp, h1, h2⟩

/-- T2c: a member's sequence computed the model's way (lift onto the new chunk, slice the chunk's sequence) is the
    spec's (bases of the member ∩ new range read at chromosome coordinates). -/
theorem member_sequence (rp : RPar) (g : GChild) (hg : g.start ≤ g.stop)
    (hrp : match rp with
           | .whole seq => seq ≠ [] ∧ 0 ≤ g.start ∧ g.stop ≤ seq.length
           | .chunk cs ce seq => seq ≠ [] ∧ cs ≤ ce
           | _ => True) :
    (memberSeq rp g).norm = (expectMSeq rp g).norm := memberSeq_norm_eq_expect rp g hg hrp

/-- T2d (member identity, position queries): whatever `query_by_position` returns — every range, every flag
    combination, every parent kind, bounds explicit or not — each member of the result is a member of the source
    with the same GUID, kind, identifiers, chromosome span and grandchildren (GUID, chromosome block, strand),
    `to_dict()`-equal.  No hypothesis on the parent or on the bounds. -/
theorem position_query_preserves_members (src : Source) (q : PosQ) (hh : ∀ c ∈ src.children, ChildHull c)
    (r : Result) (h : queryByPosition src q = .ok r) :
    ∀ rc ∈ r.children, ∃ c ∈ src.children, SameMember rc c :=
  queryByPosition_identity src q hh r h

/-- T1 + T2 (the full clause for position queries): for EVERY well-formed source that has bounds — no parent,
    sequence-less parent, whole chromosome, chunk; bounds inferred or explicit —, EVERY range (incl. None, negative,
    inverted, empty, out of bounds) and EVERY flag combination, the answer of the modelled `query_by_position` is
    accepted by the specification: rejected iff the range is not a non-empty sub-range of the bounds or the
    expansion leaves the sequence, else exactly the `specFilter` members with unchanged coordinates / identifiers /
    guids / strands, the documented bounds, the source's sequence restricted to them, and member sequences
    restricted likewise.
    Excluded (finding, witness below): F-C19f only (`hb`: no bounds at all). -/
theorem query_by_position_meets_spec (src : Source) (q : PosQ) (wf : SrcWF src) (b : Int × Int)
    (hb : selfBounds src = some b) :
    okQueryByPosition src q (toAns (queryByPosition src q)) = true :=
  queryByPosition_meets src q wf b hb

/-- T2e (corollary): an accepted answer carries the documented bounds. -/
theorem result_bounds_documented (src : Source) (q : PosQ) (wf : SrcWF src) (bs be : Int)
    (hb : selfBounds src = some (bs, be))
    (r : Result) (hr : queryByPosition src q = .ok r) :
    (r.start, r.stop) = resultBounds q (optOr q.s bs) (optOr q.e be)
      (specFilter src.children q.codingOnly q.cw (optOr q.s bs) (optOr q.e be)) := by
  have h := queryByPosition_meets src q wf (bs, be) hb
  rw [hr] at h
  have hx : expectQueryByPosition src q = .reject ∨ expectQueryByPosition src q = .result (expectResult src
      (resultBounds q (optOr q.s bs) (optOr q.e be)
        (specFilter src.children q.codingOnly q.cw (optOr q.s bs) (optOr q.e be))).1
      (resultBounds q (optOr q.s bs) (optOr q.e be)
        (specFilter src.children q.codingOnly q.cw (optOr q.s bs) (optOr q.e be))).2
      (specFilter src.children q.codingOnly q.cw (optOr q.s bs) (optOr q.e be))) := by
    unfold expectQueryByPosition
    rw [specBounds_eq_self hb]
    simp only []
    repeat' split
    all_goals first | exact Or.inl rfl | exact Or.inr rfl
  unfold okQueryByPosition at h
  rcases hx with hx | hx
  · rw [hx] at h; simp [meets, toAns] at h
  · rw [hx] at h
    simp only [meets, toAns, beq_iff_eq] at h
    have h1 := congrArg Result.start h
    have h2 := congrArg Result.stop h
    simp only [Result.norm, expectResult] at h1 h2
    rw [h1, h2]

/-! ## hypotheses are satisfiable (non-vacuity) -/

def exG1 : GChild := ⟨2, 5, .plus, 1000⟩
def exG2 : GChild := ⟨3, 8, .minus, 1001⟩
def exGene : Child := ⟨.gene, 2, 8, true, 1, [['a'], ['b']], [exG1, exG2]⟩
def exFeat : Child := ⟨.feat, 6, 10, false, 2, [['a']], [⟨6, 10, .minus, 1100⟩]⟩
def exSeq : List Char := ['A','C','G','T','T','G','C','A','A','G','C','T']
def exW : Source := ⟨.whole exSeq, none, [exGene, exFeat]⟩
def exK : Source := ⟨.chunk 3 ['T','T','G','C','A','A'], none, [exGene, exFeat]⟩
/-- the same chromosome with EXPLICIT bounds `[1, 11)` -/
def exWB : Source := ⟨.whole exSeq, some (1, 11), [exGene, exFeat]⟩
/-- a chunk `[3, 9)` with EXPLICIT bounds `[4, 8)` inside it -/
def exKB : Source := ⟨.chunk 3 ['T','T','G','C','A','A'], some (4, 8), [exGene, exFeat]⟩

example : ChildWF exGene := ⟨by decide, by decide⟩
example : ChildHull exGene := ⟨by decide, by decide⟩

theorem ex_hull : ∀ c ∈ [exGene, exFeat], ChildHull c := by
  intro c hc
  simp only [List.mem_cons, List.not_mem_nil, or_false] at hc
  rcases hc with rfl | rfl <;> exact ⟨by decide, by decide⟩

theorem ex_on_seq : ∀ c ∈ [exGene, exFeat], ∀ g ∈ c.gcs, 0 ≤ g.start ∧ g.stop ≤ (exSeq.length : Int) := by
  intro c hc
  simp only [List.mem_cons, List.not_mem_nil, or_false] at hc
  rcases hc with rfl | rfl <;> decide

theorem exW_wf : SrcWF exW := ⟨ex_hull, by decide, by decide, ⟨by decide, ex_on_seq⟩⟩
theorem exWB_wf : SrcWF exWB := ⟨ex_hull, by decide, by decide, ⟨by decide, ex_on_seq⟩⟩
theorem exK_wf : SrcWF exK := ⟨ex_hull, by decide, by decide, ⟨by decide, by decide⟩⟩
theorem exKB_wf : SrcWF exKB := ⟨ex_hull, by decide, by decide, ⟨by decide, by decide⟩⟩

example : selfBounds exW = some (0, 12) := rfl
example : selfBounds exKB = some (4, 8) := rfl
example : okQueryByPosition exW ⟨some 4, some 7, false, false, false⟩
    (toAns (queryByPosition exW ⟨some 4, some 7, false, false, false⟩)) = true :=
  query_by_position_meets_spec exW _ exW_wf (0, 12) rfl
/-- explicit bounds on a whole chromosome, expansion requested -/
example : okQueryByPosition exWB ⟨some 4, some 7, false, false, true⟩
    (toAns (queryByPosition exWB ⟨some 4, some 7, false, false, true⟩)) = true :=
  query_by_position_meets_spec exWB _ exWB_wf (1, 11) rfl
/-- explicit bounds inside a chunk -/
example : okQueryByPosition exKB ⟨some 5, none, true, false, false⟩
    (toAns (queryByPosition exKB ⟨some 5, none, true, false, false⟩)) = true :=
  query_by_position_meets_spec exKB _ exKB_wf (4, 8) rfl

/-! ## T3 — GUID / identifier queries are their set-builder specifications -/

/-- T3a: `query_by_guids(ids)` (ids a set) returns exactly { c | c.guid ∈ ids }: unchanged members, bounds = the
    source bounds widened to the kept members, the source's sequence (clamped to the stretch the collection has
    sequence for).  No exclusion left (F-C09c, F-C09d repaired). -/
theorem query_by_guids_meets_spec (src : Source) (wf : SrcWF src) (ids : List Nat) (hids : ids.Nodup) (bs be : Int)
    (hb : selfBounds src = some (bs, be)) :
    okQueryByGuids src ids (toAns (queryByGuids src ids)) = true :=
  queryByGuids_meets src wf ids hids bs be hb

/-- T3b: `query_by_feature_identifiers(ids)` returns exactly { c | c.identifiers ∩ ids ≠ ∅ }. -/
theorem query_by_identifiers_meets_spec (src : Source) (wf : SrcWF src) (ids : List (List Char)) (bs be : Int)
    (hb : selfBounds src = some (bs, be)) :
    okQueryByIdentifiers src ids (toAns (queryByIdentifiers src ids)) = true :=
  queryByIdentifiers_meets src wf ids bs be hb

/-- T3c: `query_by_interval_guids` (kinds = all), `query_by_transcript_interval_guids` (kinds = [gene]),
    `query_by_feature_interval_guids` (kinds = [feat]) return exactly the children of a requested kind owning a
    requested grandchild, each keeping ONLY its requested grandchildren (span = their hull, same guid and
    identifiers) — genes, feature collections AND variant collections.
    `GcWF`: grandchild guids are distinct and owned by one child.  `hvar`: the variants of a variant collection are
    listed by start, pairwise disjoint and non-empty (what `VariantIntervalCollection.__init__` sorts and checks;
    its constructor re-checks the selection, which therefore passes). -/
theorem query_by_interval_guids_meets_spec (src : Source) (wf : SrcWF src) (gw : GcWF src) (kinds : List Kind)
    (ids : List Nat) (hids : ids.Nodup) (hvar : ∀ c ∈ src.children, c.kind = .var → VarOK c) (bs be : Int)
    (hb : selfBounds src = some (bs, be)) :
    okQueryByIntervalGuids src kinds ids (toAns (queryByIntervalGuids src kinds ids)) = true :=
  queryByIntervalGuids_meets src wf gw kinds ids hids hvar bs be hb

/-- T3d: `GeneInterval / FeatureIntervalCollection / VariantIntervalCollection.query_by_guids`: `None` iff nothing
    is requested, else the same child reduced to the requested grandchildren on the unchanged parent. -/
theorem child_query_by_guids_meets_spec (src : Source) (wf : SrcWF src) (gw : GcWF src) (c : Child)
    (hc : c ∈ src.children) (hk : c.kind = .var → VarOK c) (ids : List Nat) (hids : ids.Nodup) :
    okChildQueryByGuids src c ids (toCAns (childQueryResult src c ids)) = true :=
  childQuery_meets src wf gw c hc hk ids hids

/-- T3e (member identity, GUID and identifier queries): every returned member is a source member, unchanged. -/
theorem guid_query_preserves_members (src : Source) (ids : List Nat) (hh : ∀ c ∈ src.children, ChildHull c)
    (r : Result) (h : queryByGuids src ids = .ok r) : ∀ rc ∈ r.children, ∃ c ∈ src.children, SameMember rc c :=
  queryByGuids_identity src ids hh r h
theorem identifier_query_preserves_members (src : Source) (ids : List (List Char))
    (hh : ∀ c ∈ src.children, ChildHull c) (r : Result) (h : queryByIdentifiers src ids = .ok r) :
    ∀ rc ∈ r.children, ∃ c ∈ src.children, SameMember rc c :=
  queryByIdentifiers_identity src ids hh r h

/-- T3f (member identity, interval-GUID queries): every returned member is a source member (same GUID, kind,
    identifiers) holding ONLY grandchildren of that member that were requested, each unchanged (GUID, chromosome
    block, strand) — all three kinds, any parent, any bounds. -/
theorem interval_guid_query_keeps_only_requested (src : Source) (kinds : List Kind) (ids : List Nat)
    (hv : ∀ c ∈ src.children, ∀ g ∈ c.gcs, g.start ≤ g.stop) (r : Result)
    (h : queryByIntervalGuids src kinds ids = .ok r) :
    ∀ rc ∈ r.children, ∃ c ∈ src.children, ReducedMember ids rc c :=
  queryByIntervalGuids_identity src kinds ids hv r h

def exVar : Child := ⟨.var, 9, 12, false, 3, [], [⟨9, 10, .plus, 1200⟩, ⟨11, 12, .plus, 1201⟩]⟩
/-- no parent, explicit bounds, a gene and a variant collection -/
def exN : Source := ⟨.none, some (0, 12), [exGene, exVar]⟩

theorem exN_hull : ∀ c ∈ exN.children, ChildHull c := by
  intro c hc
  simp only [exN, List.mem_cons, List.not_mem_nil, or_false] at hc
  rcases hc with rfl | rfl <;> exact ⟨by decide, by decide⟩

theorem exN_wf : SrcWF exN := ⟨exN_hull, by decide, by decide, trivial⟩

theorem exN_var : ∀ c ∈ exN.children, c.kind = .var → VarOK c := by
  intro c hc hk
  simp only [exN, List.mem_cons, List.not_mem_nil, or_false] at hc
  rcases hc with rfl | rfl
  · cases hk
  · exact ⟨by decide, by decide⟩

theorem gcwf_of_pair (par : Par) (b : Option (Int × Int)) (c1 c2 : Child)
    (h1 : (c1.gcs.map GChild.guid).Nodup) (h2 : (c2.gcs.map GChild.guid).Nodup)
    (hd : ∀ x ∈ c1.gcs, ∀ y ∈ c2.gcs, x.guid ≠ y.guid) : GcWF ⟨par, b, [c1, c2]⟩ := by
  refine ⟨?_, ?_⟩
  · intro c hc
    simp only [List.mem_cons, List.not_mem_nil, or_false] at hc
    rcases hc with rfl | rfl <;> assumption
  · intro c hc c' hc' x hx y hy hg
    simp only [List.mem_cons, List.not_mem_nil, or_false] at hc hc'
    rcases hc with rfl | rfl <;> rcases hc' with rfl | rfl
    · rfl
    · exact absurd hg (hd x hx y hy)
    · exact absurd hg.symm (hd y hy x hx)
    · rfl

theorem exW_gcwf : GcWF exW := gcwf_of_pair _ _ exGene exFeat (by decide) (by decide) (by decide)
theorem exN_gcwf : GcWF exN := gcwf_of_pair _ _ exGene exVar (by decide) (by decide) (by decide)

example : okQueryByGuids exW [2, 999] (toAns (queryByGuids exW [2, 999])) = true :=
  query_by_guids_meets_spec exW exW_wf [2, 999] (by decide) 0 12 rfl

/-- id query on a chunk keeping members that reach beyond it on both sides: clamped, nothing lost -/
example : okQueryByGuids exK [1, 2] (toAns (queryByGuids exK [1, 2])) = true :=
  query_by_guids_meets_spec exK exK_wf [1, 2] (by decide) 3 9 rfl

example : okQueryByIdentifiers exW [['b'], ['z']] (toAns (queryByIdentifiers exW [['b'], ['z']])) = true :=
  query_by_identifiers_meets_spec exW exW_wf _ 0 12 rfl

example : okQueryByIntervalGuids exW [.gene, .feat, .var] [1001, 1100]
    (toAns (queryByIntervalGuids exW [.gene, .feat, .var] [1001, 1100])) = true :=
  query_by_interval_guids_meets_spec exW exW_wf exW_gcwf _ [1001, 1100] (by decide)
    (by
      intro c hc hk
      simp only [exW, List.mem_cons, List.not_mem_nil, or_false] at hc
      rcases hc with rfl | rfl <;> cases hk)
    0 12 rfl

/-- interval-GUID query reaching into a VARIANT collection (ids given out of order) -/
example : okQueryByIntervalGuids exN [.gene, .feat, .var] [1201, 1000, 1200]
    (toAns (queryByIntervalGuids exN [.gene, .feat, .var] [1201, 1000, 1200])) = true :=
  query_by_interval_guids_meets_spec exN exN_wf exN_gcwf _ [1201, 1000, 1200] (by decide) exN_var
    0 12 rfl

example : okChildQueryByGuids exN exVar [1201] (toCAns (childQueryResult exN exVar [1201])) = true :=
  child_query_by_guids_meets_spec exN exN_wf exN_gcwf exVar (by decide) (fun _ => ⟨by decide, by decide⟩)
    [1201] (by decide)

example : okChildQueryByGuids exW exGene [1001] (toCAns (childQueryResult exW exGene [1001])) = true :=
  child_query_by_guids_meets_spec exW exW_wf exW_gcwf exGene (by decide) (by intro h; cases h) [1001] (by decide)

/-! ## F — findings: repaired ones as theorems about the code as it is + regression witnesses; open ones as witnesses -/

/-- F-C09a, REPAIRED in /repo (88921fc; before the repair this loop ended in AttributeError for every collection
    holding a VariantIntervalCollection — regression line in corpus/C09/regress.ops): a coding-only query succeeds
    and keeps no variant collection, only coding genes. -/
theorem coding_only_skips_variants (src : Source) (s e : Int) (cw : Bool) (hs : 0 ≤ s) (hse : s < e)
    (hwf : ∀ c ∈ src.children, ChildWF c) :
    ∃ kept, queryKept src s e cw true = .ok kept ∧ ∀ c ∈ kept, c.kind ≠ .var ∧ c.coding = true :=
  queryKept_codingOnly_variant src s e cw hs hse hwf

/-- F-C19f (open): an empty collection without a located parent has no bounds: AttributeError, not
    InvalidQueryError. -/
theorem F_C19f_empty_collection :
    queryByPosition ⟨.none, none, []⟩ ⟨some 0, some 1, false, true, false⟩ = .error .attributeError
    ∧ okQueryByPosition ⟨.none, none, []⟩ ⟨some 0, some 1, false, true, false⟩ .raised = false := ⟨rfl, rfl⟩

/-- F-C09b, regression: BEFORE the repair (996fc35) `_subset_parent` ran into `extract_sequence()` on a
    sequence-less parent; the code as it is hands the parent on. -/
theorem regression_F_C09b :
    subsetParentBefore false false ⟨.noseq, some (2, 8), [⟨.gene, 2, 8, false, 1, [], [⟨2, 8, .plus, 1000⟩]⟩]⟩ 3 8
      = .error (.doc .NullSequence)
    ∧ subsetParent ⟨.noseq, some (2, 8), [⟨.gene, 2, 8, false, 1, [], [⟨2, 8, .plus, 1000⟩]⟩]⟩ 3 8
      = .ok .noseq := ⟨rfl, rfl⟩

/-- F-C09c, regression: BEFORE the repair an id query on the chunk `[3,9)` keeping members from 2 to 10 got the
    chunk `[3,8)` (clamp `end = chromosome_location.end - 1`) — one base short; the code as it is yields the
    specified `[3,9)`. -/
theorem regression_F_C09c :
    subsetParentBefore false false exK 2 10 = .ok (.chunk 3 8 ['T','T','G','C','A'])
    ∧ subsetParent exK 2 10 = .ok (.chunk 3 9 ['T','T','G','C','A','A'])
    ∧ (expectPar exK 2 10).norm = (RPar.chunk 3 9 ['T','T','G','C','A','A']).norm := ⟨rfl, rfl, by decide⟩

/-- a chunk `[3, 9)` whose collection has bounds `[3, 10)`: what an id query that kept the feature `[6, 10)`
    returns -/
def exKwide : Source := ⟨.chunk 3 ['T','T','G','C','A','A'], some (3, 10), [exFeat]⟩

/-- a whole chromosome with EXPLICIT bounds `[0, 8)` narrower than the feature `[6, 10)` -/
def exWnarrow : Source := ⟨.whole exSeq, some (0, 8), [exFeat]⟩

/-- F-C09d, regression (repaired in /repo 7f0e193).  BEFORE: a collection whose bounds exceed its sequence chunk —
    e.g. the RESULT of an id query that kept a member reaching beyond the chunk — could not be position-queried
    near the excess (`_subset_parent` compared with the bounds, converted on the located range `[3,9)`:
    `parent_to_relative_pos(9)` raised InvalidPositionException), and an id query on a whole chromosome with
    explicit bounds narrower than a kept member raised as well.  The code as it is clamps to the stretch the
    collection has sequence for and yields the specified parents. -/
theorem regression_F_C09d :
    subsetParentBeforeD exKwide 8 10 = .error (.doc .InvalidPosition)
    ∧ subsetParent exKwide 8 10 = .ok (.chunk 8 9 ['A'])
    ∧ (expectPar exKwide 8 10).norm = (RPar.chunk 8 9 ['A']).norm
    ∧ subsetParentBeforeD exWnarrow 0 10 = .error (.doc .InvalidPosition)
    ∧ subsetParent exWnarrow 0 10 = .ok (.chunk 0 8 ['A','C','G','T','T','G','C','A'])
    ∧ (expectPar exWnarrow 0 10).norm = (RPar.chunk 0 8 ['A','C','G','T','T','G','C','A']).norm :=
  ⟨rfl, rfl, by decide, rfl, rfl, by decide⟩

theorem exFeat_hull : ∀ c ∈ [exFeat], ChildHull c := by
  intro c hc; simp only [List.mem_singleton] at hc; subst hc; exact ⟨by decide, by decide⟩

theorem exKwide_wf : SrcWF exKwide := ⟨exFeat_hull, by decide, by decide, ⟨by decide, by decide⟩⟩
theorem exWnarrow_wf : SrcWF exWnarrow :=
  ⟨exFeat_hull, by decide, by decide, ⟨by decide, by
    intro c hc; simp only [exWnarrow, List.mem_singleton] at hc; subst hc; decide⟩⟩

/-- … and the full clauses now hold on these sources: a position query touching the excess of the bounds, an
    expansion over it, an id query keeping the member beyond the explicit bounds -/
example : okQueryByPosition exKwide ⟨some 8, some 10, false, false, false⟩
    (toAns (queryByPosition exKwide ⟨some 8, some 10, false, false, false⟩)) = true :=
  query_by_position_meets_spec exKwide _ exKwide_wf (3, 10) rfl
example : okQueryByPosition exKwide ⟨some 7, some 8, false, false, true⟩
    (toAns (queryByPosition exKwide ⟨some 7, some 8, false, false, true⟩)) = true :=
  query_by_position_meets_spec exKwide _ exKwide_wf (3, 10) rfl
example : okQueryByGuids exWnarrow [2] (toAns (queryByGuids exWnarrow [2])) = true :=
  query_by_guids_meets_spec exWnarrow exWnarrow_wf [2] (by decide) 0 8 rfl

/-- the repair does not touch what already was right: inside the located range both versions agree -/
theorem regression_F_C09d_agree_inside :
    subsetParentBeforeD exKwide 4 7 = subsetParent exKwide 4 7
    ∧ subsetParent exKwide 4 7 = .ok (.chunk 4 7 ['T','G','C']) := ⟨rfl, rfl⟩

/-! ## more non-vacuity: the theorems above instantiated on concrete non-trivial inputs -/

theorem exW_childwf : ∀ c ∈ exW.children, ChildWF c := fun c hc => (exW_wf.hull c hc).wf

example : queryKept exW 3 9 true false = .ok (specFilter (iterChildren exW) false true 3 9) :=
  query_kept_is_specFilter exW 3 9 true false (by decide) (by decide) exW_childwf

example : optimizedKept exW 3 9 false true = queryKept exW 3 9 false true :=
  optimized_branch_agrees exW 3 9 false true (by decide) (by decide) exW_childwf (Or.inr (by
    intro c hc
    simp only [exW, List.mem_cons, List.not_mem_nil, or_false] at hc
    rcases hc with rfl | rfl <;> decide))

def exEmpty : Child := ⟨.gene, 5, 5, false, 7, [], [⟨5, 5, .plus, 1700⟩]⟩
example : (∃ kept, optimizedKept ⟨.none, some (0, 12), [exEmpty]⟩ 2 9 false false = .ok kept ∧ exEmpty ∈ kept) ∧
    (∃ kept, queryKept ⟨.none, some (0, 12), [exEmpty]⟩ 2 9 false false = .ok kept ∧ exEmpty ∉ kept) :=
  optimized_branch_differs_on_empty_span _ 2 9 (by decide) (by decide)
    (by intro c hc; simp only [List.mem_singleton] at hc; subst hc; exact ⟨by decide, by decide⟩)
    exEmpty (by simp) rfl (by decide)

example : ∃ S, Gen.bins 2 9 .bed false = .ok (.many S) ∧ anyBinIn S exGene.gcs = .ok true := by
  obtain ⟨S, hS⟩ := Props.C16.bins_all_is_set 2 9 .bed
  exact ⟨S, hS, prefilter_never_hides_kept 2 9 S exGene (exW_childwf exGene (by decide)) (by decide) hS (by decide)⟩

example : validate exW (some 12) (some 12) = .error (.doc .InvalidQuery) := by
  rw [rejected_ranges_exact exW (some 12) (some 12) 0 12 rfl]; rfl

example : subsetParent exW 4 7 = .ok (.chunk 4 7 ['T','G','C']) :=
  subset_parent_whole exW exSeq rfl 0 12 rfl (by decide) 4 7 (by decide)

/-- explicit bounds `[1, 11)` on the whole chromosome -/
example : subsetParent exWB 4 7 = .ok (.chunk 4 7 ['T','G','C']) :=
  subset_parent_whole exWB exSeq rfl 1 11 rfl (by decide) 4 7 (by decide)

example : subsetParent exK 4 7 = .ok (.chunk 4 7 ['T','G','C']) :=
  subset_parent_chunk exK 3 _ rfl 3 9 rfl (by decide) (by decide) (by decide) 4 7 (by decide)

/-- a range reaching beyond the chunk on both sides (id query): clamped to `[3, 9)` -/
example : subsetParent exK 2 10 = .ok (.chunk 3 9 ['T','T','G','C','A','A']) :=
  subset_parent_chunk exK 3 _ rfl 3 9 rfl (by decide) (by decide) (by decide) 2 10 (by decide)

/-- explicit bounds that miss the chunk -/
example : subsetParent ⟨.chunk 3 ['T','T','G'], some (7, 9), [exFeat]⟩ 7 8 = .ok .none :=
  subset_parent_chunk_off _ 3 _ rfl 7 9 rfl (by decide) (by decide) 7 8

example : ∃ rp, subsetParent exKB 5 7 = .ok rp ∧ rp.norm = (expectPar exKB 5 7).norm :=
  subset_parent_is_expected exKB exKB_wf 4 8 rfl 5 7 (fun _ => by decide)

/-- bounds `[3, 10)` reaching beyond the chunk `[3, 9)`, range touching the excess -/
example : ∃ rp, subsetParent exKwide 8 10 = .ok rp ∧ rp.norm = (expectPar exKwide 8 10).norm :=
  subset_parent_is_expected exKwide exKwide_wf 3 10 rfl 8 10
    (fun _ => by decide)

example : (memberSeq (.chunk 4 7 ['T','G','C']) exG2).norm = (expectMSeq (.chunk 4 7 ['T','G','C']) exG2).norm :=
  member_sequence _ exG2 (by decide) ⟨by decide, by decide⟩

example : (stretch 3 ['T','T','G','C','A','A'] 4 7)[(5 - 4 : Int).toNat]? = ['T','T','G','C','A','A'][(5 - 3 : Int).toNat]? :=
  new_chunk_base_at 3 _ 4 7 5 (by decide) (by decide)

example : ∃ kept, queryKept exN 1 12 true true = .ok kept ∧ ∀ c ∈ kept, c.kind ≠ .var ∧ c.coding = true :=
  coding_only_skips_variants exN 1 12 true (by decide) (by decide) (fun c hc => (exN_hull c hc).wf)

example : overlapInt ((2 : Nat), (8 : Nat)) ((6 : Nat), (10 : Nat)) = Model.overlapKernel (2, 8) (6, 10) :=
  overlap_kernel_is_location_kernel (2, 8) (6, 10) (by decide) (by decide)

end BioCantor.Props.C09
