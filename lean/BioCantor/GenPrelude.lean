/-
  Static prelude of the generated files (hand-written, import-free): the target vocabulary of
  tools/translate.py.  Python values: int ↦ Int, bool ↦ Bool/Prop, enum members ↦ Base constructors,
  `raise X(...)` ↦ `Except.error PyExc.X`, a SingleInterval ↦ `SI` (+ the constructor's own check).
-/
import BioCantor.Base
namespace BioCantor.GenP
open BioCantor

/-- Python exception classes a translated kernel may raise (class names as in the source). -/
inductive PyExc where
  | InvalidPositionException | InvalidStrandException | ValueError | TypeError | KeyError
  | UnsupportedOperationException | EmptyLocationException | LocationException
  | NotImplementedError | MismatchedFrameException | InvalidCDSIntervalError
  deriving DecidableEq, Repr, Inhabited

abbrev PyR := Except PyExc

/-- start / end / strand of a SingleInterval (parent-less view) -/
structure SI where
  start : Int
  «end» : Int
  strand : Strand
  deriving DecidableEq, Repr, Inhabited

/-- `SingleInterval(start, end, strand)`: `if not 0 <= start <= end: raise InvalidPositionException` -/
def mkSI (s e : Int) (st : Strand) : PyR SI :=
  if 0 ≤ s ∧ s ≤ e then .ok ⟨s, e, st⟩ else .error .InvalidPositionException

/-- `CDSFrame(value)` / `CDSFrame.from_int` : ValueError for other ints -/
def frameOfInt (v : Int) : PyR CDSFrame :=
  if v = -1 then .ok .NONE else if v = 0 then .ok .ZERO else if v = 1 then .ok .ONE
  else if v = 2 then .ok .TWO else .error .ValueError

def phaseOfInt (v : Int) : PyR CDSPhase :=
  if v = -1 then .ok .NONE else if v = 0 then .ok .ZERO else if v = 1 then .ok .ONE
  else if v = 2 then .ok .TWO else .error .ValueError

def strandOfInt (v : Int) : PyR Strand :=
  if v = 1 then .ok .plus else if v = -1 then .ok .minus else if v = 0 then .ok .unstranded
  else .error .ValueError

/-- `d[k]` on a dict literal with int keys: KeyError when absent -/
def dictGet : List (Int × Int) → Int → PyR Int
  | [], _ => .error .KeyError
  | (k, v) :: rest, x => if k = x then .ok v else dictGet rest x

def pyAbs (x : Int) : Int := if x < 0 then -x else x

/-- a Python set of ints built from `{c}` and `.update(range(a, b))`: list of inclusive ranges -/
abbrev RangeSet := List (Int × Int)
def RangeSet.mem (s : RangeSet) (x : Int) : Bool := s.any (fun r => decide (r.1 ≤ x) && decide (x ≤ r.2))

/-- result of `bins()` : an int (`one=True`) or a set (`one=False`) -/
inductive BinsResult where
  | one (n : Int)
  | many (s : RangeSet)
  deriving Repr

/-- variant view used by the lift-over kernel: chromosome_location.start/.end and len(sequence) -/
structure VI where
  vstart : Int
  vend : Int
  seqLen : Int
  deriving DecidableEq, Repr, Inhabited

end BioCantor.GenP
