/-
  Static prelude of the generated files (hand-written, import-free): the target vocabulary of
  tools/translate.py.  Python values: int ↦ Int, bool ↦ Bool/Prop, enum members ↦ Base constructors,
  `raise X(...)` ↦ `Except.error PyExc.X`, a SingleInterval ↦ `SI` (+ the constructor's own check).
-/
import BioCantor.Base
namespace BioCantor.GenP
open BioCantor

/-- Python exception classes a translated kernel may raise (class names as in the source). -/
inductive PyExc where
  | InvalidPositionException | InvalidStrandException | ValueError | TypeError | KeyError
  | UnsupportedOperationException | EmptyLocationException | LocationException
  | NotImplementedError | MismatchedFrameException | InvalidCDSIntervalError
  deriving DecidableEq, Repr, Inhabited

abbrev PyR := Except PyExc

/-- start / end / strand of a SingleInterval (parent-less view) -/
structure SI where
  start : Int
  «end» : Int
  strand : Strand
  deriving DecidableEq, Repr, Inhabited

/-- `SingleInterval(start, end, strand)`: `if not 0 <= start <= end: raise InvalidPositionException` -/
def mkSI (s e : Int) (st : Strand) : PyR SI :=
  if 0 ≤ s ∧ s ≤ e then .ok ⟨s, e, st⟩ else .error .InvalidPositionException

/-- `CDSFrame(value)` / `CDSFrame.from_int` : ValueError for other ints -/
def frameOfInt (v : Int) : PyR CDSFrame :=
  if v = -1 then .ok .NONE else if v = 0 then .ok .ZERO else if v = 1 then .ok .ONE
  else if v = 2 then .ok .TWO else .error .ValueError

def phaseOfInt (v : Int) : PyR CDSPhase :=
  if v = -1 then .ok .NONE else if v = 0 then .ok .ZERO else if v = 1 then .ok .ONE
  else if v = 2 then .ok .TWO else .error .ValueError

def strandOfInt (v : Int) : PyR Strand :=
  if v = 1 then .ok .plus else if v = -1 then .ok .minus else if v = 0 then .ok .unstranded
  else .error .ValueError

/-- `d[k]` on a dict literal with int keys: KeyError when absent -/
def dictGet : List (Int × Int) → Int → PyR Int
  | [], _ => .error .KeyError
  | (k, v) :: rest, x => if k = x then .ok v else dictGet rest x

def pyAbs (x : Int) : Int := if x < 0 then -x else x

/-- a Python set of ints built from `{c}` and `.update(range(a, b))`: list of inclusive ranges -/
abbrev RangeSet := List (Int × Int)
def RangeSet.mem (s : RangeSet) (x : Int) : Bool := s.any (fun r => decide (r.1 ≤ x) && decide (x ≤ r.2))

/-- result of `bins()` : an int (`one=True`) or a set (`one=False`) -/
inductive BinsResult where
  | one (n : Int)
  | many (s : RangeSet)
  deriving Repr

/-- variant view used by the lift-over kernel: chromosome_location.start/.end and len(sequence) -/
structure VI where
  vstart : Int
  vend : Int
  seqLen : Int
  deriving DecidableEq, Repr, Inhabited

/-! ### Loop fragment (tools/translate.py, kernel specs with `loops=True`) -/

/-- A parent-less CompoundInterval as the block loops see it: `blocks` = `self._single_intervals` = `self.blocks`
    in the STORED order (ascending, as `_sort_starts_ends` leaves `_starts`/`_ends`), every block carrying the
    location's strand.  The translator checks on every run that the class still defines these attributes that way
    (`ci_view_guards`). -/
structure CI where
  blocks : List SI
  strand : Strand
  deriving DecidableEq, Repr, Inhabited

/-- `self._starts` -/
def CI.starts (c : CI) : List Int := c.blocks.map (fun b => b.start)
/-- `self._ends` -/
def CI.ends (c : CI) : List Int := c.blocks.map (fun b => b.«end»)

/-- `length = 0; for start, end in zip(self._starts, self._ends): length += end - start` -/
def sumLens : List SI → Int
  | [] => 0
  | b :: bs => (b.«end» - b.start) + sumLens bs

/-- `len(self)` = `self.length` of a CompoundInterval -/
def CI.length (c : CI) : Int := sumLens c.blocks

/-- How a translated `for` loop ends: `ret r` = a `return r` was executed in the body;
    `done s` = `break`, or the iterable was exhausted, with the loop's mutable locals `s`. -/
inductive LoopOut (ρ σ : Type) where
  | ret (r : ρ)
  | done (s : σ)
  deriving Repr

/-- `any(f(x) for x in xs)` where `f` may raise: stops at the first `True`, an exception raised before that propagates -/
def pyAny {α : Type} (f : α → PyR Bool) : List α → PyR Bool
  | [] => .ok false
  | x :: xs =>
    match f x with
    | .error e => .error e
    | .ok true => .ok true
    | .ok false => pyAny f xs

/-- result of the translated `CompoundInterval.relative_interval_to_parent_location`, which is CUT before
    `CompoundInterval._from_single_intervals_no_validation(new_blocks).optimize_blocks()`:
    `single` = the zero-length request's `SingleInterval(...)`; `blocks` = (`new_blocks`, `new_strand`) at the cut. -/
inductive RelOut where
  | single (s : SI)
  | blocks (bs : List SI) (strand : Strand)
  deriving DecidableEq, Repr

/-- an `Optional[int]` local used as an int (arithmetic, `<`/`>=`, `min`/`max`): `None` raises TypeError -/
def optGet : Option Int → PyR Int
  | none => .error .TypeError
  | some v => .ok v

/-! Element access `xs[0]`, `xs[-1]` (load and store).  On an empty list Python raises IndexError, which has no
    constructor in `PyExc`; it is reported as `.KeyError`, the other `LookupError` subclass (the translator refuses
    `except KeyError` in the loop fragment, and `KeyError` has no documented counterpart, so a kernel that could take
    such a path agrees with no model answer: the tie theorems prove these paths unreachable). -/

/-- `xs[0]` -/
def listGetFirst {α : Type} : List α → PyR α
  | [] => .error .KeyError
  | x :: _ => .ok x

/-- `xs[-1]` -/
def listGetLast {α : Type} (xs : List α) : PyR α :=
  match xs.getLast? with
  | none => .error .KeyError
  | some x => .ok x

/-- `xs[0] = v` -/
def listSetFirst {α : Type} : List α → α → PyR (List α)
  | [], _ => .error .KeyError
  | _ :: rest, v => .ok (v :: rest)

/-- `xs[-1] = v` -/
def listSetLast {α : Type} (xs : List α) (v : α) : PyR (List α) :=
  match xs with
  | [] => .error .KeyError
  | _ :: _ => .ok (xs.dropLast ++ [v])

/-- `location.num_blocks` = `len(self._starts)` -/
def CI.numBlocks (c : CI) : Int := (c.blocks.length : Nat)

/-- result of the translated `CompoundInterval._combine_blocks`: `same` = `return self`; `empty` =
    `return EmptyLocation()`; `rebuilt starts ends` = the ARGUMENTS of the final
    `CompoundInterval(new_starts, new_ends, self.strand, new_parent)` (the constructor itself is not translated). -/
inductive CombineOut where
  | same
  | empty
  | rebuilt (starts ends : List Int)
  deriving DecidableEq, Repr

/-! ### Reading-frame cleaning (kernels `CDSInterval_exon_iter`, `CDSInterval_frame_iter`, `CDSInterval_clean_frames`) -/

/-- A parent-less chromosome-level `CDSInterval` as the frame-cleaning loop sees it: `self.chromosome_location`
    (a CompoundInterval, also with one block: view `CI`) and `self.frames`; `self.strand` is
    `self.chromosome_location.strand` (AbstractInterval.strand).  The translator checks on every run that the classes
    still say so (`cdsv_view_guards`). -/
structure CDSV where
  chromosome_location : CI
  frames : List CDSFrame
  deriving DecidableEq, Repr, Inhabited

/-- `itertools.zip_longest(xs, ys)` (fillvalue None): once one list is exhausted its side is `None` -/
def zipLongest {α β : Type} : List α → List β → List (Option α × Option β)
  | [], bs => bs.map (fun b => (none, some b))
  | as, [] => as.map (fun a => (some a, none))
  | a :: as, b :: bs => (some a, some b) :: zipLongest as bs

/-- `sum(<ints>)` -/
def pySum : List Int → Int
  | [] => 0
  | x :: xs => x + pySum xs

/-! ### Parent-less set algebra (kernels with result type `LocOut`) -/

/-- A returned location with the object constructions the translator does not compile kept SYMBOLIC (constructor cut):
    `single s` = a SingleInterval value (constructed by `mkSI`, or `self`); `empty` = `EmptyLocation()`;
    `compound starts ends strand opt` = the ARGUMENTS of `CompoundInterval(starts, ends, strand, …)`;
    `fromBlocks bs opt` = the argument of `CompoundInterval._from_single_intervals_no_validation(bs)`;
    `opt = true` when `.optimize_blocks()` is applied to the constructed object. -/
inductive LocOut where
  | single (s : SI)
  | empty
  | compound (starts ends : List Int) (strand : Strand) (optimize : Bool)
  | fromBlocks (bs : List SI) (optimize : Bool)
  deriving DecidableEq, Repr

/-- `len(x)` for `x` a SingleInterval or `EmptyLocation()` (`_EmptyLocation.length` is 0) -/
def optSILen : Option SI → Int
  | none => 0
  | some s => s.«end» - s.start

/-- `min(xs)` of a list of ints: ValueError on an empty list -/
def pyMinList : List Int → PyR Int
  | [] => .error .ValueError
  | x :: xs => .ok (xs.foldl min x)

/-- `max(xs)` -/
def pyMaxList : List Int → PyR Int
  | [] => .error .ValueError
  | x :: xs => .ok (xs.foldl max x)

/-- `CompoundInterval.from_single_intervals(bs)` on parent-less intervals (the set of parents is `{None}`): ValueError
    for an empty list or more than one strand among the members, otherwise the list handed to
    `_from_single_intervals_no_validation`.  The translator pins the Python text this was written from
    (`FROM_SINGLE_INTERVALS_SRC`, guard `from_single_intervals`). -/
def fromSingleIntervalsCheck : List SI → PyR (List SI)
  | [] => .error .ValueError
  | b :: bs => if bs.all (fun x => x.strand == b.strand) then .ok (b :: bs) else .error .ValueError

end BioCantor.GenP
