/- Spec-driver operations for C03 (imports Base/Spec only): `<op> <args> => <answer>` ↦ pass | fail -/
import BioCantor.Driver.Proto
import BioCantor.Spec.Sequence
namespace BioCantor.Driver.SpecSequence
open BioCantor BioCantor.Proto BioCantor.Spec BioCantor.Spec.Sq

def pText : P (List Char) := do let t ← tok; pure t.toList

def pStr : P Str := do
  match (← tok).toList with
  | '~' :: cs => pure cs
  | t => throw s!"str? {String.ofList t}"

def pArrow : P Unit := do
  match (← tok) with
  | "=>" => pure ()
  | t => throw s!"=>? {t}"

partial def pRest {α} (p : P α) : P (List α) := do
  match (← get) with
  | [] => pure []
  | _ => do let x ← p; let xs ← pRest p; pure (x :: xs)

def pAns {α} (p : P α) : P (Option α) := do
  match (← tok) with
  | "ok" => do let a ← p; pure (some a)
  | "err" => do let _ ← pRest tok; pure none
  | "err!" => do let _ ← pRest tok; pure none
  | t => throw s!"ans? {t}"

def pOptInt : P (Option Int) := do
  let t ← tok
  if t == "N" then pure none
  else match t.toInt? with
    | some i => pure (some i)
    | none => throw s!"optint? {t}"

def pStep : P Step := do
  match (← tok) with
  | "sl" => do let a ← pOptInt; let b ← pOptInt; let c ← pOptInt; pure (.sl a b c)
  | "ix" => do let i ← pInt; pure (.ix i)
  | "rc" => pure .rc
  | t => throw s!"step? {t}"

/-- constructor validity on a parent of length `n`, stated independently of the model -/
def specBuildOn (n : Nat) : RawLoc → Option Location
  | .single s e st => if 0 ≤ s ∧ s ≤ e ∧ e ≤ n then some (.single (s.toNat, e.toNat) st) else none
  | .compound bs st =>
      if bs.isEmpty ∨ bs.any (fun b => b.1 < 0 ∨ b.1 > b.2 ∨ b.2 > n) then none
      else some (.compound ⟨sortBlocks st (bs.map fun b => (b.1.toNat, b.2.toNat)), st⟩)
  | .empty => some .empty

def rawToLocation : RawLoc → Location
  | .single s e st => .single (s.toNat, e.toNat) st
  | .compound bs st => .compound ⟨bs.map (fun b => (b.1.toNat, b.2.toNat)), st⟩
  | .empty => .empty

def pOptStrand : P (Option Strand) := do
  match (← tok) with
  | "+" => pure (some .plus) | "-" => pure (some .minus) | "." => pure (some .unstranded) | "N" => pure none
  | t => throw s!"strand? {t}"

def pOptLoc : P (Option Location) := do
  match (← get) with
  | "N" :: rest => do set rest; pure none
  | _ => do let r ← pRawLoc; pure (some (rawToLocation r))

def pObj : P ObjAns := do
  let d ← pStr
  match (← tok) with
  | "nopar" => pure ⟨d, none⟩
  | "par" => do let st ← pOptStrand; let l ← pOptLoc; pure ⟨d, some (st, l)⟩
  | t => throw s!"obj? {t}"

def pSemi : P Unit := do
  match (← tok) with
  | ";" => pure ()
  | t => throw s!";? {t}"

def verdict (b : Bool) : String := if b then "pass" else "fail"

def ops : List (String × Op) := [
  ("xform", do
      let a ← pText; let p ← pStr; let raw ← pRawLoc
      let (want, mustAnswer) ← (do
        match (← tok) with
        | "rs" => do
            match (← tok) with
            | "+" => pure (some Strand.plus, true) | "-" => pure (some Strand.minus, true)
            | "." => pure (some Strand.unstranded, true)
            | t => throw s!"strand? {t}"
        | "rev2" => pure (none, true) | "rp" => pure (none, true) | "opt" => pure (none, true)
        | "sh0" => pure (none, true)
        | t => throw s!"xform? {t}" : P (Option Strand × Bool))
      pArrow
      let ans ← pAns (do
        let r ← pRawLoc; pSemi
        let sq ← (do
          match (← get) with
          | "err" :: _ => do let _ ← pRest tok; pure none
          | "err!" :: _ => do let _ ← pRest tok; pure none
          | _ => do let d ← pStr; pure (some d) : P (Option Str))
        pure (rawToLocation r, sq))
      match specBuildOn p.length raw with
      | none => pure (verdict ans.isNone)
      | some l =>
        match ans with
        | none => pure (verdict (l == .empty && mustAnswer))     -- only EmptyLocation may refuse these calls
        | some (res, sq) => pure (verdict (okXform p a l want res sq))),
  ("extract", do
      let a ← pText; let p ← pStr; let raw ← pRawLoc; pArrow; let ans ← pAns pStr
      match specBuildOn p.length raw with
      | none => pure (verdict ans.isNone)
      | some l => pure (verdict (okExtract p a l ans))),
  ("revstrand", do
      let a ← pText; let p ← pStr; let raw ← pRawLoc; pArrow; let ans ← pAns pStr
      match specBuildOn p.length raw with
      | none => pure (verdict ans.isNone)
      | some l => pure (verdict (okRevStrand p a l ans))),
  ("split", do
      let a ← pText; let p ← pStr; let raw ← pRawLoc; let k ← pInt; pArrow
      let ans ← pAns (do let x ← pStr; let y ← pStr; pure (x, y))
      match specBuildOn p.length raw with
      | none => pure (verdict ans.isNone)
      | some l => pure (verdict (okSplit p a l k ans))),
  ("seqprog", do
      let a ← pText; let p ← pStr; let raw ← pRawLoc; let prog ← pList pStep; pArrow
      let ans ← pAns pObj
      match specBuildOn p.length raw with
      | none => pure (verdict ans.isNone)
      | some l => pure (verdict (okProgram p a l prog ans))),
  ("append", do
      let a ← pText; let p ← pStr
      let raw1 ← pRawLoc; let prog1 ← pList pStep
      let raw2 ← pRawLoc; let prog2 ← pList pStep
      pArrow
      let ans ← pAns (do
        let x ← pObj; pSemi; let y ← pObj; pSemi
        let z ← (do
          match (← get) with
          | "err" :: _ => do let _ ← pRest tok; pure none
          | "err!" :: _ => do let _ ← pRest tok; pure none
          | _ => do let o ← pObj; pure (some o) : P (Option ObjAns))
        pure (x, y, z))
      match specBuildOn p.length raw1, specBuildOn p.length raw2 with
      | some l1, some l2 =>
        match ans with
        | none =>
          -- an operand could not be built: acceptable only if one of the operand programs may refuse
          pure (verdict (!(okProgram p a l1 prog1 none == false && okProgram p a l2 prog2 none == false)))
        | some (x, y, z) =>
          let exact := (match toLoc l1, toLoc l2 with
                        | some u, some v => nonOverlap u.blocks && nonOverlap v.blocks
                        | _, _ => true)
          pure (verdict (okProgram p a l1 prog1 (some x) && okProgram p a l2 prog2 (some y) &&
                         (if isNt a then okAppend p a exact x y z else true)))
      | _, _ => pure (verdict ans.isNone))
]

end BioCantor.Driver.SpecSequence
