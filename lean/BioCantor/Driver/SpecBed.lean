/- Spec-driver operations for C14 (imports Base/Spec only): `<op line> => <answer>` ↦ pass | fail | n/a. -/
import BioCantor.Driver.Proto
import BioCantor.Spec.Bed
namespace BioCantor.Driver.SpecBed
open BioCantor BioCantor.Proto BioCantor.Spec.Bed

def pArrow : P Unit := do
  match (← tok) with
  | "=>" => pure ()
  | t => throw s!"=>? {t}"

partial def pRest : P (List String) := do
  match (← get) with
  | [] => pure []
  | _ => do let x ← tok; let xs ← pRest; pure (x :: xs)

def verdict (b : Bool) : String := if b then "pass" else "fail"

def optName (t : String) : List Char := if t = "~" then "None".toList else t.toList

/-- ascending, non-empty, non-overlapping blocks (the layouts C14 quantifies over) -/
def goodBlocks : List (Int × Int) → Bool
  | [] => true
  | [a] => decide (0 ≤ a.1) && decide (a.1 < a.2)
  | a :: b :: rest => decide (0 ≤ a.1) && decide (a.1 < a.2) && decide (a.2 ≤ b.1) && goodBlocks (b :: rest)

def toNatBlocks (bs : List (Int × Int)) : List Blk := bs.map fun b => (b.1.toNat, b.2.toNat)

/-- Failure diagnosis used ONLY to keep the matcher of the known finding F-C14a narrow: `some line'` when the
    answer is a 12-column line whose block-start column holds (possibly negative) integers; `line'` is the
    same line with `off` added to every block start. -/
def addToStarts (line : String) (off : Nat) : Option String :=
  match line.splitOn "\t" with
  | [c1, c2, c3, c4, c5, c6, c7, c8, c9, c10, c11, c12] =>
    let parts := (c12.splitOn ",").map String.toInt?
    if parts.all Option.isSome then
      let vals := parts.filterMap id
      let fixed := vals.map (· + (off : Int))
      some ("\t".intercalate [c1, c2, c3, c4, c5, c6, c7, c8, c9, c10, c11, ",".intercalate (fixed.map toString)])
    else none
  | _ => none

def ops : List (String × Op) := [
  ("bed12", do
      let kind ← tok
      let st ← pStrand
      let exons ← pList pIntPair
      let cds ← pList pIntPair
      let seqName ← tok; let symbol ← tok; let ident ← tok
      let sel ← tok
      let score ← pNat; let r ← pNat; let g ← pNat; let b ← pNat
      let mode ← tok
      let parKind ← tok
      let win : Option (Nat × Nat) ← (if parKind = "K" then do let a ← pNat; let c ← pNat; pure (some (a, c)) else pure none)
      pArrow
      let ans ← pRest
      let ex := toNatBlocks exons
      let cd := toNatBlocks cds
      -- domain of the property: a valid transcript/feature, window containing it
      let validIv := !exons.isEmpty && goodBlocks exons && goodBlocks cds
      let cdsInside := match minStart cd, maxEndOf cd, minStart ex, maxEndOf ex with
        | some a, some b, some s, some e => decide (s ≤ a) && decide (b ≤ e)
        | none, none, _, _ => true
        | _, _, _, _ => false
      let winOk := match win, minStart ex, maxEndOf ex with
        | some (a, c), some s, some e => decide (a ≤ s) && decide (e ≤ c)
        | none, _, _ => true
        | _, _, _ => false
      if !(validIv && cdsInside && winOk) || (kind = "F" && !cds.isEmpty) then pure "n/a" else
      let name : List Char :=
        if sel = "sym" then optName symbol else if sel = "id" then optName ident
        else if sel = "attr:sequence_name" then optName seqName      -- `name=` may name ANY attribute of the record
        else sel.toList.drop 4
      let off := match mode, win with
        | "chunk", some (a, _) => a
        | _, _ => 0
      let w : Want := {
        exons := ex, strand := st,
        cds := spanOf cd,
        chrom := optName seqName, name := name, score := score, rgb := (r, g, b), off := off,
        mayRefuse := mode = "chunk" && win.isNone }
      match ans with
      | ["ok", line] =>
        if okBed12 w (some line.toList) then pure "pass"
        else match addToStarts line off with
          | some line' =>
            if off > 0 && okBed12 w (some line'.toList) then
              pure "fail F-C14a-shape (only the block starts are wrong: they are relative to the chromosome start; adding the chunk start repairs the line)"
            else pure "fail"
          | none => pure "fail"
      | "err" :: _ => pure (verdict (okBed12 w none))
      | "err!" :: _ => pure (verdict (okBed12 w none))
      | _ => pure "fail unreadable-answer")
]
end BioCantor.Driver.SpecBed
