/-
  Spec-driver operations for C11 (imports Base/Spec only) + the token codec and the collection-line parser shared
  with the model driver (Driver/Gff.lean).

  String tokens are "armoured" so that the line protocol stays whitespace-free and ASCII:
     `~` = None;  `\e` = the empty string (only as a whole token);  `\\ \s \t \n \r \~` = backslash, space, tab,
     LF, CR, tilde;  `\xHEX;` = the code point HEX (everything < 0x21 or > 0x7e);  other characters literally.

  Operation lines (`=> <answer>` appended by the harness for the spec driver)
     esckey <str> <lower 0|1>                                     -> ok <str>
     escval <str> <comma 0|1>                                     -> ok <str>
     attrs  <raise 0|1> <id> <parent|~> <name|~> <quals>          -> ok <str> | err Export
     row    <seqid> <type> <start> <end> <strand> <phase .|0|1|2> <raise> <id> <parent|~> <name|~> <quals>
                                                                  -> ok <line> | err Export
     rows   <chrom|chunk> <raise 0|1> <seqname|~> <N | W | K cs ce> <n> child*
                                                                  -> ok <text> | err <Class>
        child := G <guid> <gene_id|~> <symbol|~> <type|~> <locus|~> <quals> <ntx> tx*
               | F <guid> <name|~> <id|~> <type|~> <locus|~> <quals> <nfeat> feat*
        tx    := <guid> <strand> <k> (s e)* <tid|~> <sym|~> <type|~> <pid|~> <product|~> <quals> <m> [<cdsguid> (s e frame)*]
        feat  := <guid> <strand> <k> (s e)* <name|~> <id|~> <ntypes> type* <quals>
        quals := <n> (<key> <m> <value>*)*
     gfftext <addseq 0|1> <ordered 0|1> <chromrel 0|1> <raise 0|1> <n> (<sequence|~> <seqname|~> <N|W|K cs ce> <m> child*)*
                                                                  -> ok <text> | err <Class>
     coll   <seed> …                                              -> ok clean | ok viol <clause>…   (checked in Python)
-/
import BioCantor.Driver.Proto
import BioCantor.Spec.Gff
namespace BioCantor.Driver.SpecGff
open BioCantor BioCantor.Proto BioCantor.Spec.Gff

/-! ### token codec -/

def hexDigit (n : Nat) : Char := if n < 10 then Char.ofNat (48 + n) else Char.ofNat (87 + n)

partial def hexOf (n : Nat) : List Char := if n < 16 then [hexDigit n] else hexOf (n / 16) ++ [hexDigit (n % 16)]

def armChar (c : Char) : List Char :=
  if c = '\\' then ['\\', '\\'] else if c = ' ' then ['\\', 's'] else if c = '\t' then ['\\', 't']
  else if c = '\n' then ['\\', 'n'] else if c = '\r' then ['\\', 'r'] else if c = '~' then ['\\', '~']
  else if c.toNat < 0x21 ∨ c.toNat > 0x7e then ['\\', 'x'] ++ hexOf c.toNat ++ [';']
  else [c]

def arm (s : Str) : String := if s.isEmpty then "\\e" else String.ofList (s.flatMap armChar)

def hexNat (s : List Char) : Option Nat :=
  s.foldl (fun acc c => match acc, hexVal c with | some a, some v => some (16 * a + v) | _, _ => none) (some 0)

partial def unarmAux : List Char → Option (List Char)
  | [] => some []
  | '\\' :: 'e' :: r => unarmAux r
  | '\\' :: '\\' :: r => ('\\' :: ·) <$> unarmAux r
  | '\\' :: 's' :: r => (' ' :: ·) <$> unarmAux r
  | '\\' :: 't' :: r => ('\t' :: ·) <$> unarmAux r
  | '\\' :: 'n' :: r => ('\n' :: ·) <$> unarmAux r
  | '\\' :: 'r' :: r => ('\r' :: ·) <$> unarmAux r
  | '\\' :: '~' :: r => ('~' :: ·) <$> unarmAux r
  | '\\' :: 'x' :: r =>
    let hex := r.takeWhile (· ≠ ';')
    match r.dropWhile (· ≠ ';'), hexNat hex with
    | ';' :: r', some n => (Char.ofNat n :: ·) <$> unarmAux r'
    | _, _ => none
  | '\\' :: _ => none
  | c :: r => (c :: ·) <$> unarmAux r

def pStr : P Str := do
  let t ← tok
  match unarmAux t.toList with
  | some s => pure s
  | none => throw s!"str? {t}"

def pOptStr : P (Option Str) := do
  let t ← tok
  if t = "~" then pure none else
  match unarmAux t.toList with
  | some s => pure (some s)
  | none => throw s!"str? {t}"

def pQuals : P Quals := pList (do let k ← pStr; let vs ← pList pStr; pure (k, vs))

def pBlk : P Blk := do let a ← pNat; let b ← pNat; pure (a, b)

def pFrame : P CDSFrame := do
  match (← tok) with
  | "ZERO" => pure .ZERO | "ONE" => pure .ONE | "TWO" => pure .TWO | "NONE" => pure .NONE
  | t => throw s!"frame? {t}"

def pTx : P STx := do
  let guid ← pStr; let st ← pStrand; let exons ← pList pBlk
  let tid ← pOptStr; let sym ← pOptStr; let ttype ← pOptStr; let pid ← pOptStr; let product ← pOptStr
  let quals ← pQuals
  let m ← pNat
  let cds ← (if m = 0 then pure none else do
    let cg ← pStr
    let rec go : Nat → List (Blk × CDSFrame) → P (List (Blk × CDSFrame))
      | 0, acc => pure acc.reverse
      | k+1, acc => do let b ← pBlk; let f ← pFrame; go k ((b, f) :: acc)
    let bf ← go m []
    pure (some ({ guid := cg, blocks := bf.map (·.1), frames := bf.map (·.2) } : SCds)))
  pure { guid, strand := st, exons, cds, tid, sym, ttype, pid, product, quals }

def pFeat : P SFeat := do
  let guid ← pStr; let st ← pStrand; let blocks ← pList pBlk
  let name ← pOptStr; let fid ← pOptStr; let ftypes ← pList pStr; let quals ← pQuals
  pure { guid, strand := st, blocks, name, fid, ftypes, quals }

def pChild : P SChild := do
  match (← tok) with
  | "G" => do
    let guid ← pStr; let gid ← pOptStr; let sym ← pOptStr; let gtype ← pOptStr; let locus ← pOptStr
    let quals ← pQuals; let txs ← pList pTx
    pure (.gene { guid, gid, sym, gtype, locus, quals, txs })
  | "F" => do
    let guid ← pStr; let name ← pOptStr; let fcid ← pOptStr; let fctype ← pOptStr; let locus ← pOptStr
    let quals ← pQuals; let feats ← pList pFeat
    pure (.fc { guid, name, fcid, fctype, locus, quals, feats })
  | t => throw s!"child? {t}"

def pPar : P SPar := do
  match (← tok) with
  | "N" => pure .none
  | "W" => pure .chrom
  | "K" => do let a ← pNat; let b ← pNat; pure (.chunk a b)
  | t => throw s!"par? {t}"

/-- (chromosome-relative?, raise_on_reserved_attributes, collection) -/
def pRowsArgs : P (Bool × Bool × SColl) := do
  let mode ← tok
  let chromRel ← (if mode = "chrom" then pure true else if mode = "chunk" then pure false else throw s!"mode? {mode}")
  let raise ← pBool
  let seqName ← pOptStr
  let par ← pPar
  let children ← pList pChild
  pure (chromRel, raise, { seqName, par, children })

def pGColl : P GColl := do
  let seq ← pOptStr
  let seqName ← pOptStr
  let par ← pPar
  let children ← pList pChild
  pure { coll := { seqName, par, children }, seq }

/-- (add_sequences, ordered, chromosome_relative_coordinates, raise_on_reserved_attributes, collections) -/
def pTextArgs : P (Bool × Bool × Bool × Bool × List GColl) := do
  let addSeq ← pBool; let ordered ← pBool; let chromRel ← pBool; let raise ← pBool
  let cs ← pList pGColl
  pure (addSeq, ordered, chromRel, raise, cs)

def pArrow : P Unit := do
  match (← tok) with
  | "=>" => pure ()
  | t => throw s!"=>? {t}"

/-- the answer after `=>`: `some text` for `ok <text>`, `none` for `err …` -/
def pAnswer : P (Option Str) := do
  match (← tok) with
  | "ok" => do let s ← pStr; pure (some s)
  | "err" => do let _ ← tok; pure none
  | "err!" => do let _ ← tok; pure none
  | t => throw s!"answer? {t}"

def verdict (b : Bool) : String := if b then "pass" else "fail"

def failList (l : List String) : String := if l.isEmpty then "pass" else "fail " ++ " ".intercalate l

/-! ### what the source layouts must satisfy for the export clauses to be claimed (the property's quantifier) -/

def goodBlocks : List Blk → Bool
  | [] => true
  | [a] => decide (a.1 < a.2)
  | a :: b :: rest => decide (a.1 < a.2) && decide (a.2 ≤ b.1) && goodBlocks (b :: rest)

def within (inner outer : List Blk) : Bool :=
  match minStart inner, maxEnd inner, minStart outer, maxEnd outer with
  | some a, some b, some s, some e => decide (s ≤ a) && decide (b ≤ e)
  | _, _, _, _ => false

def txOk (t : STx) : Bool :=
  !t.exons.isEmpty && goodBlocks t.exons &&
  (match t.cds with
   | none => true
   | some c => !c.blocks.isEmpty && goodBlocks c.blocks && within c.blocks t.exons &&
               c.frames.length == c.blocks.length && c.frames.all (· ≠ .NONE))

def keysDistinctFolded (q : Quals) : Bool := nodup (q.map fun kv => kv.1)

def collOk (c : SColl) (chromRel : Bool) : Bool :=
  (c.children.all fun x => match x with
    | .gene g => !g.txs.isEmpty && g.txs.all txOk && keysDistinctFolded g.quals && g.txs.all (keysDistinctFolded ·.quals)
    | .fc f => !f.feats.isEmpty && f.feats.all (fun t => !t.blocks.isEmpty && goodBlocks t.blocks) &&
               keysDistinctFolded f.quals && f.feats.all (keysDistinctFolded ·.quals)) &&
  (allGuids c).all uuidShaped &&
  (match c.par, chromRel with
   | .chunk cs ce, false =>
     c.children.all fun x => match x with
       -- chunk-relative export documents the loss of programmed frameshifts: claimed for in-frame CDSs only
       | .gene g => g.txs.all fun t => within t.exons [(cs, ce)] &&
           (match t.cds with | some k => inFrame k.blocks t.strand k.frames | none => true)
       | .fc f => f.feats.all fun t => within t.blocks [(cs, ce)]
   | _, _ => true)

def hasNameSep (s : Str) : Bool := s.any fun ch => ch = '\t' || ch = '\n' || ch = '\r'

/-- expected refusal of the export, if any (documented): missing sequence name; chunk-relative coordinates
    without a chunk; a reserved tag among the qualifiers with `raise_on_reserved_attributes` -/
def mustRefuse (c : SColl) (chromRel raise : Bool) : Bool :=
  !c.children.isEmpty &&
  ((match c.seqName with | none => true | some s => s.isEmpty) ||
   (!chromRel && (match c.par with | .chunk _ _ => false | _ => true)) ||
   (raise && hasReservedQual c))

def lowerIf (b : Bool) (s : Str) : Str := if b then lowerStr s else s

def ops : List (String × Op) := [
  ("esckey", do
      let s ← pStr; let lower ← pBool; pArrow
      match (← pAnswer) with
      | none => pure "fail raised"
      | some a =>
        pure (failList (
          (if wellEscaped structural a then [] else ["structural-char-survives"]) ++
          (if a.all (fun ch => ch ≠ ' ' && ch ≠ '>') then [] else ["space-or->-survives"]) ++
          (if percentDecode a = lowerIf lower s then [] else ["decode≠original"]))))
  , ("escval", do
      let s ← pStr; let comma ← pBool; pArrow
      match (← pAnswer) with
      | none => pure "fail raised"
      | some a =>
        if s.isEmpty then pure (verdict (a = ['n', 'a', 'n'])) else
        pure (failList (
          (if wellEscaped (if comma then structuralValue else structural) a then [] else ["structural-char-survives"]) ++
          (if percentDecode a = s then [] else ["decode≠original"]))))
  , ("attrs", do
      let raise ← pBool; let id ← pStr; let parent ← pOptStr; let name ← pOptStr; let quals ← pQuals; pArrow
      let ans ← pAnswer
      if !keysDistinctFolded quals then pure "n/a" else
      let reservedPresent := quals.any fun kv => isReservedTag kv.1 && !kv.2.isEmpty
      match ans with
      | none => pure (verdict (raise && reservedPresent))
      | some a =>
        if raise && reservedPresent then pure "fail reserved-key-not-refused" else
        match parseAttrs a with
        | none => pure "fail attribute-syntax"
        | some l =>
          let row : PRow := ⟨[], [], [], 1, 1, [], .plus, none, l⟩
          pure (failList (
            (if reservedOnce row then [] else ["reserved-attributes"]) ++
            (if row.id = some (reservedReadsAs id) then [] else ["ID"]) ++
            (if row.parent = parent.map reservedReadsAs then [] else ["Parent"]) ++
            (if row.name = name.map reservedReadsAs then [] else ["Name"]) ++
            (if row.info.attrs = expectAttrs quals then [] else ["qualifiers"]))))
  , ("row", do
      let seqid ← pStr; let type ← tok; let s ← pNat; let e ← pNat; let st ← pStrand; let ph ← tok
      let raise ← pBool; let id ← pStr; let parent ← pOptStr; let name ← pOptStr; let quals ← pQuals; pArrow
      let ans ← pAnswer
      if !keysDistinctFolded quals || hasNameSep seqid || seqid.isEmpty then pure "n/a" else
      let reservedPresent := quals.any fun kv => isReservedTag kv.1 && !kv.2.isEmpty
      match ans with
      | none => pure (verdict (raise && reservedPresent))
      | some a =>
        if raise && reservedPresent then pure "fail reserved-key-not-refused" else
        match parseLine a with
        | none => pure (if 1 ≤ s ∧ s ≤ e then "fail line-syntax" else "n/a")
        | some r =>
          let wantType : Str := match type with
            | "gene" => tGene | "transcript" => tTranscript | "exon" => tExon | "cds" => tCDS
            | "featureCollection" => tFc | "featureInterval" => tFeat | _ => tSub
          let wantPhase : Option Nat := match ph with | "0" => some 0 | "1" => some 1 | "2" => some 2 | _ => none
          pure (failList (
            (if r.seqid = seqid ∧ r.type = wantType ∧ r.start = s ∧ r.stop = e ∧ r.strand = st ∧ r.phase = wantPhase
              then [] else ["columns"]) ++
            (if reservedOnce r then [] else ["reserved-attributes"]) ++
            (if r.id = some (reservedReadsAs id) ∧ r.parent = parent.map reservedReadsAs ∧
                r.name = name.map reservedReadsAs then [] else ["ID/Parent/Name"]) ++
            (if r.info.attrs = expectAttrs quals then [] else ["qualifiers"]))))
  , ("rows", do
      let (chromRel, raise, c) ← pRowsArgs; pArrow
      let ans ← pAnswer
      if !collOk c chromRel then pure "n/a" else
      if (match c.seqName with | some s => hasNameSep s | none => false) then pure "n/a" else
      match ans with
      | none => pure (verdict (mustRefuse c chromRel raise))
      | some text =>
        if mustRefuse c chromRel raise then pure "fail export-not-refused" else
        let off := match chromRel, c.par with | false, .chunk cs _ => cs | _, _ => 0
        let lines := if text.isEmpty then [] else
          (let ls := splitOnChar '\n' text; if ls.getLast? = some [] then ls.dropLast else ls)
        -- with colliding GUIDs (hypothesis of the unique-ID clause violated by the INPUT) the Parent→ID linkage
        -- is ambiguous: only the per-line and ordering clauses are claimed
        let cl := checkLines c off lines
        pure (failList (if nodup (allGuids c) then cl else cl.filter (· ≠ "decode(rows)=source"))))
  , ("gfftext", do
      let (addSeq, ordered, chromRel, raise, cs) ← pTextArgs; pArrow
      let ans ← pAnswer
      let names := cs.map gName
      -- claimed: well-formed collections on pairwise distinct, separator-free, non-empty sequence names, each with
      -- a non-empty sequence when sequences are requested
      if !(cs.all fun g => collOk g.coll chromRel) || !nodup names || names.any (fun n => n.isEmpty || hasNameSep n || n.contains ' ')
         || (addSeq && cs.any fun g => match g.seq with | some s => s.isEmpty | none => false) then pure "n/a" else
      let isChunk := fun (g : GColl) => match g.coll.par with | .chunk _ _ => true | _ => false
      let refuse := (chromRel && addSeq && cs.any isChunk) || (addSeq && cs.any fun g => g.seq.isNone) ||
                    cs.any (fun g => mustRefuse g.coll chromRel raise)
      match ans with
      | none => pure (verdict refuse)
      | some text =>
        if refuse then pure "fail export-not-refused" else
        let ls := splitOnChar '\n' text
        if ls.getLast? ≠ some [] then pure "fail no-final-newline" else
        pure (failList (checkFile cs addSeq ordered chromRel ls.dropLast)))
  , ("coll", do
      let _seed ← tok; let _profile ← tok; let fasta ← pBool; let mode ← tok; let par ← tok
      pArrow
      let ans ← get
      set ([] : List String)
      -- documented refusals of collection_to_gff3 / to_gff
      let refuse := (fasta && mode = "chrom" && par = "K") || (mode = "chunk" && par ≠ "K") || (fasta && par = "N")
      match ans with
      | ["ok", "clean"] => pure (if refuse then "fail export-not-refused" else "pass")
      | ["ok", "clean", _] => pure (if refuse then "fail export-not-refused" else "n/a")
      | "ok" :: "viol" :: cl => pure ("fail " ++ " ".intercalate cl)
      | "err" :: _ => pure (if refuse then "pass" else "fail raised")
      | other => pure ("fail " ++ " ".intercalate other))
]
end BioCantor.Driver.SpecGff
