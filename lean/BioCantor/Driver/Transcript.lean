/-
  Model-driver operations for C06 (transcript coordinate systems).

  line:  <op> <P> <strand> <k> (s e)^k <cds> <args>
         <P>   = N (no parent) | n (whole-chromosome parent with a sequence of length n)
         <cds> = nc (non-coding) | <c> (s e)^c
  position-vector ops take `<lo> <hi>` and answer `ok v_lo … v_hi` with `x` for a refused position;
  location ops answer `ok <location>`; interval ops take `<s> <e> <strand>`.
-/
import BioCantor.Driver.Proto
import BioCantor.Model.Transcript
namespace BioCantor.Driver.Transcript
open BioCantor BioCantor.Proto BioCantor.Model

structure RawTx where
  plen : Option Nat
  st : Strand
  exons : List (Int × Int)
  cds : Option (List (Int × Int))
  /-- `cds_frames` as given on the line (`F f1 … fc` after the CDS blocks); absent = one frame per block -/
  frames : Option (List CDSFrame)

def pPlen : P (Option Nat) := do
  match (← get) with
  | "N" :: rest => set rest; pure none
  | _ => do let n ← pNat; pure (some n)

def pCds : P (Option (List (Int × Int))) := do
  match (← get) with
  | "nc" :: rest => set rest; pure none
  | _ => do let bs ← pList pIntPair; pure (some bs)

def pFrame : P CDSFrame := do
  match (← tok) with
  | "0" => pure .ZERO
  | "1" => pure .ONE
  | "2" => pure .TWO
  | t => throw s!"frame? {t}"

/-- optional `F f1 … fc` (as many frames as CDS blocks) -/
def pFrames (c : Nat) : P (Option (List CDSFrame)) := do
  match (← get) with
  | "F" :: rest => do
      set rest
      let rec go : Nat → List CDSFrame → P (List CDSFrame)
        | 0, acc => pure acc.reverse
        | k+1, acc => do let f ← pFrame; go k (f :: acc)
      let fs ← go c []
      pure (some fs)
  | _ => pure none

def pRawTx : P RawTx := do
  let pl ← pPlen; let st ← pStrand; let ex ← pList pIntPair; let cds ← pCds
  let fr ← pFrames (cds.map List.length |>.getD 0)
  pure ⟨pl, st, ex, cds, fr⟩

def framesOf (r : RawTx) : List CDSFrame :=
  match r.frames with
  | some fs => fs
  | none => List.replicate (r.cds.map List.length |>.getD 0) .ZERO

def toBlks (bs : List (Int × Int)) : List Blk := bs.map fun b => (b.1.toNat, b.2.toNat)

/-- Run the modelled constructor.  Two input classes are refused up front because the real
    constructors treat them inconsistently and the harness never sends them on this op family:
    negative coordinates (F-C19g: CompoundInterval accepts them) and blocks reaching past the parent's
    sequence (SingleInterval refuses at once, CompoundInterval only when its blocks are first read). -/
def build (r : RawTx) : R Transcript :=
  let all := r.exons ++ (r.cds.getD [])
  if all.any (fun b => b.1 < 0 ∨ b.2 < 0) then throw .InvalidPosition
  else if (match r.plen with | some n => all.any (fun b => b.2 > n) | none => false) then throw .InvalidPosition
  else mkTranscriptF (toBlks r.exons) r.st (r.cds.map toBlks) (framesOf r) r.plen

def showCell : R Int → String
  | .ok v => toString v
  | .error _ => "x"

/-- `ok v_lo … v_hi` -/
def showVec (t : R Model.Transcript) (lo hi : Int) (f : Model.Transcript → Int → R Int) : String :=
  match t with
  | .error e => "err " ++ showErr e
  | .ok tx =>
    let n := (hi - lo + 1).toNat
    "ok " ++ " ".intercalate ((List.range n).map fun (i : Nat) => showCell (f tx (lo + (i : Int))))

def vecOp (f : Model.Transcript → Int → R Int) : Op := do
  let r ← pRawTx; let lo ← pInt; let hi ← pInt
  pure (showVec (build r) lo hi f)

def locOp (f : Model.Transcript → R Location) : Op := do
  let r ← pRawTx
  pure (showR showLocation (do let t ← build r; f t))

def ivOp (f : Model.Transcript → Int → Int → Strand → R Location) : Op := do
  let r ← pRawTx; let s ← pInt; let e ← pInt; let st ← pStrand
  pure (showR showLocation (do let t ← build r; f t s e st))

open Model.Transcript in
def ops : List (String × Op) := [
  ("c2t", vecOp sequencePosToTranscript),
  ("t2c", vecOp transcriptPosToSequence),
  ("c2d", vecOp sequencePosToCds),
  ("d2c", vecOp cdsPosToSequence),
  ("d2t", vecOp cdsPosToTranscript),
  ("t2d", vecOp transcriptPosToCds),
  ("aa", vecOp sequencePosToAminoAcid),
  -- composed calls (the harness composes the same real API calls)
  ("c2t2d", vecOp fun t p => do let r ← sequencePosToTranscript t p; transcriptPosToCds t r),
  ("rt_t", vecOp fun t r => do let p ← transcriptPosToSequence t r; sequencePosToTranscript t p),
  ("rt_c", vecOp fun t p => do let r ← sequencePosToTranscript t p; transcriptPosToSequence t r),
  ("rt_d", vecOp fun t c => do let r ← cdsPosToTranscript t c; transcriptPosToCds t r),
  ("rt_dc", vecOp fun t c => do let p ← cdsPosToSequence t c; sequencePosToCds t p),
  ("rt_td", vecOp fun t r => do let c ← transcriptPosToCds t r; cdsPosToTranscript t c),
  ("utr5", locOp get5pInterval),
  ("utr3", locOp get3pInterval),
  ("introns", locOp chromosomeGapsLocation),
  ("span", locOp chromosomeSpan),
  ("exloc", locOp Model.Transcript.chromosomeLocation),
  ("cdsloc", locOp cdsLocation),
  ("ci2t", ivOp sequenceIntervalToTranscript),
  ("ti2c", ivOp transcriptIntervalToSequence),
  ("ci2d", ivOp sequenceIntervalToCds),
  ("di2c", ivOp cdsIntervalToSequence)
]

/-! ### transcripts built on a chunk: `<op> <tx> <ws> <we> <wstrand> <args>` (`<P>` of `<tx>` is the chromosome length) -/

def buildChunk (r : RawTx) (ws we : Nat) (wst : Strand) : R ChunkTranscript :=
  let all := r.exons ++ (r.cds.getD [])
  if all.any (fun b => b.1 < 0 ∨ b.2 < 0) then throw .InvalidPosition
  else mkChunkTranscriptF (toBlks r.exons) r.st (r.cds.map toBlks) (framesOf r) (ws, we) wst

def showVecC (t : R ChunkTranscript) (lo hi : Int) (f : ChunkTranscript → Int → R Int) : String :=
  match t with
  | .error e => "err " ++ showErr e
  | .ok tx =>
    let n := (hi - lo + 1).toNat
    "ok " ++ " ".intercalate ((List.range n).map fun (i : Nat) => showCell (f tx (lo + (i : Int))))

def pWin : P (Nat × Nat × Strand) := do
  let ws ← pNat; let we ← pNat; let wst ← pStrand; pure (ws, we, wst)

def kvecOp (f : ChunkTranscript → Int → R Int) : Op := do
  let r ← pRawTx; let (ws, we, wst) ← pWin; let lo ← pInt; let hi ← pInt
  pure (showVecC (buildChunk r ws we wst) lo hi f)

def klocOp (f : ChunkTranscript → R Location) : Op := do
  let r ← pRawTx; let (ws, we, wst) ← pWin
  pure (showR showLocation (do let t ← buildChunk r ws we wst; f t))

def kivOp (f : ChunkTranscript → Int → Int → Strand → R Location) : Op := do
  let r ← pRawTx; let (ws, we, wst) ← pWin; let s ← pInt; let e ← pInt; let st ← pStrand
  pure (showR showLocation (do let t ← buildChunk r ws we wst; f t s e st))

open Model.ChunkTranscript in
def chunkOps : List (String × Op) := [
  -- chromosome-level methods of the chunk-built transcript
  ("kc2t", kvecOp fun c => c.base.sequencePosToTranscript),
  ("kt2c", kvecOp fun c => c.base.transcriptPosToSequence),
  ("kc2d", kvecOp fun c => c.base.sequencePosToCds),
  ("kd2c", kvecOp fun c => c.base.cdsPosToSequence),
  ("kd2t", kvecOp fun c => c.base.cdsPosToTranscript),
  ("kt2d", kvecOp fun c => c.base.transcriptPosToCds),
  ("kaa", kvecOp fun c => c.base.sequencePosToAminoAcid),
  ("kci2t", kivOp fun c => c.base.sequenceIntervalToTranscript),
  -- chunk-relative methods
  ("cr2t", kvecOp chunkRelativePosToTranscript),
  ("t2cr", kvecOp transcriptPosToChunkRelative),
  ("cr2d", kvecOp chunkRelativePosToCds),
  ("d2cr", kvecOp cdsPosToChunkRelative),
  ("cri2t", kivOp chunkRelativeIntervalToTranscript),
  ("ti2cr", kivOp transcriptIntervalToChunkRelative),
  ("cri2d", kivOp chunkRelativeIntervalToCds),
  ("di2cr", kivOp cdsIntervalToChunkRelative),
  ("kutr5", klocOp get5pInterval),
  ("kutr3", klocOp get3pInterval),
  ("kloc", klocOp fun c => pure c.location),
  ("kcdsloc", klocOp fun c => c.requireCodingLocation)
]

/-- One answer per line; the lines are independent, so they are answered on all cores
    (the interpreter behind `lean --run` is the bottleneck of this check, not the library). -/
def answer (line : String) : String :=
  runOp (ops ++ chunkOps) (line.trimRight)

def main : IO Unit := do
  let stdin ← IO.getStdin
  let stdout ← IO.getStdout
  let mut lines : Array String := #[]
  repeat
    let line ← stdin.getLine
    if line.isEmpty then break
    lines := lines.push line
  let n := lines.size
  let nchunks := 64
  let size := (n + nchunks - 1) / nchunks
  let tasks := (List.range nchunks).map fun c =>
    Task.spawn fun _ =>
      let sub := lines.extract (c * size) (min n ((c + 1) * size))
      "\n".intercalate (sub.map answer).toList
  for t in tasks do
    let s := t.get
    if !s.isEmpty then stdout.putStrLn s

end BioCantor.Driver.Transcript
