/- Spec-driver operations for C15 (imports Base/Spec only): `<op> <args> => <answer>` ↦ pass | fail -/
import BioCantor.Driver.Proto
import BioCantor.Spec.Tables
namespace BioCantor.Driver.SpecTables
open BioCantor BioCantor.Proto BioCantor.Spec.Tab

def pText : P (List Char) := do let t ← tok; pure t.toList

def pChar : P Char := do
  match (← tok).toList with
  | [c] => pure c
  | t => throw s!"char? {String.ofList t}"

def pArrow : P Unit := do
  match (← tok) with
  | "=>" => pure ()
  | t => throw s!"=>? {t}"

partial def pRest {α} (p : P α) : P (List α) := do
  match (← get) with
  | [] => pure []
  | _ => do let x ← p; let xs ← pRest p; pure (x :: xs)

/-- answer: `ok …` parsed by `p`; `err X` / `err! X` / `none` ↦ none -/
def pAns {α} (p : P α) : P (Option α) := do
  match (← tok) with
  | "ok" => do let a ← p; pure (some a)
  | "none" => pure none
  | "err" => do let _ ← pRest tok; pure none
  | "err!" => do let _ ← pRest tok; pure none
  | t => throw s!"ans? {t}"

def pBoolWord : P Bool := do
  match (← tok) with
  | "true" => pure true
  | "false" => pure false
  | t => throw s!"bool? {t}"

def pCodons : P (List (List Char)) := pList pText

def verdict (b : Bool) : String := if b then "pass" else "fail"

def upper (s : List Char) : List Char := s.map Char.toUpper

def pStrandName : P Strand := do
  match (← tok) with
  | "PLUS" => pure .plus | "MINUS" => pure .minus | "UNSTRANDED" => pure .unstranded
  | t => throw s!"strand? {t}"
def pFrame : P CDSFrame := do
  match (← tok) with
  | "NONE" => pure .NONE | "ZERO" => pure .ZERO | "ONE" => pure .ONE | "TWO" => pure .TWO
  | t => throw s!"frame? {t}"
def pPhase : P CDSPhase := do
  match (← tok) with
  | "NONE" => pure .NONE | "ZERO" => pure .ZERO | "ONE" => pure .ONE | "TWO" => pure .TWO
  | t => throw s!"phase? {t}"

/-- `NAME=v,NAME=v` -/
def parseMembers (s : String) : Option (List (List Char × Int)) :=
  (s.splitOn ",").mapM fun item =>
    match item.splitOn "=" with
    | [n, v] => v.toInt?.map fun i => (n.toList, i)
    | _ => none

def stripSeq (t : List Char) : List Char :=
  match t with
  | 's' :: 'e' :: 'q' :: ':' :: r => r
  | _ => t

def pOC : P (Option Char) := do
  match (← tok).toList with
  | ['!'] => pure none
  | [c] => pure (some c)
  | t => throw s!"ochar? {String.ofList t}"

def pOB : P (Option Bool) := do
  match (← tok) with
  | "T" => pure (some true) | "F" => pure (some false) | "!" => pure none
  | t => throw s!"obool? {t}"

def pB : P Bool := do
  match (← tok) with
  | "T" => pure true | "F" => pure false
  | t => throw s!"bool? {t}"

/-- `n:c1,c2,…` or `!` -/
def pOSyn : P (Option (List (List Char))) := do
  let t ← tok
  if t == "!" then pure none
  else
    match t.splitOn ":" with
    | [n, rest] =>
      let cs := if rest == "" then [] else (rest.splitOn ",").map String.toList
      if n.toNat? == some cs.length then pure (some cs) else throw s!"syn count? {t}"
    | _ => throw s!"syn? {t}"

def pAnswers : P CodonAnswers := do
  let text ← pText; let a ← pOC; let b ← pOC; let c ← pOB; let d ← pOB; let e ← pOB
  let f ← pOB; let g ← pOB; let h ← pOB; let i ← pOSyn; let j ← pOSyn
  pure ⟨text, a, b, c, d, e, f, g, h, i, j⟩

def pBar : P Unit := do
  match (← tok) with
  | "|" => pure ()
  | t => throw s!"|? {t}"

def pOutcome : P Outcome := do
  match (← tok) with
  | "OY" => pure (true, true) | "ON" => pure (true, false) | "X-" => pure (false, false)
  | t => throw s!"outcome? {t}"

def ops : List (String × Op) := [
  ("hist", do
      let h ← pText; let sps ← pList pText; pArrow
      let a ← pAns (do
        let a0 ← pAnswers; pBar
        let outs ← pList pOutcome; pBar
        let a1 ← pAnswers; pBar
        let x ← pB; let y ← pB; let z ← pB
        pure (a0, outs, a1, (x, y, z)))
      pure (verdict (okHist (stripSeq h) (sps.map stripSeq) a))),
  ("translate", do
      let s ← pText; let strict ← pBool; pArrow; let a ← pAns pChar
      pure (verdict (okTranslate (upper s) strict a))),
  ("syn", do
      let s ← pText; let incl ← pBool; pArrow; let a ← pAns pCodons
      pure (verdict (okSynonymous (upper s) incl a))),
  ("is_stop", do let s ← pText; pArrow; let a ← pAns pBoolWord; pure (verdict (okIsStop (upper s) a))),
  ("is_strict", do let s ← pText; pArrow; let a ← pAns pBoolWord; pure (verdict (okIsStrict (upper s) a))),
  ("is_canon", do
      let s ← pText; pArrow; let a ← pAns pBoolWord
      match expansions (upper s) with
      | none => pure (verdict a.isNone)
      | some _ => pure (verdict (a == some (upper s == "ATG".toList)))),
  ("is_start", do
      let s ← pText; let t ← pInt; pArrow; let a ← pAns pBoolWord
      pure (verdict (okIsStart (upper s) t a))),
  ("aacodons", do let aa ← pChar; pArrow; let a ← pAns pCodons; pure (verdict (okAaCodons aa a))),
  ("complement", do let n ← pText; let c ← pChar; pArrow; let a ← pAns pChar; pure (verdict (okComplement n c a))),
  ("complement2", do
      let n ← pText; let c ← pChar; pArrow; let a ← pAns pChar
      pure (verdict (okComplementTwice n c a))),
  ("revcomp", do
      let n ← pText; let t ← pText; pArrow
      let a ← pAns (do let r ← pText; pure (if r == "_".toList then [] else r))
      pure (verdict (okRevComp n (if t == "_".toList then [] else t) a))),
  ("alphabet", do
      let n ← pText; pArrow
      let a ← pAns (do let l ← pText; let f ← pBoolWord; pure (l, f))
      match a with
      | some (l, f) => pure (verdict (okAlphabet n l f))
      | none => pure (verdict (!((ntAlphabets.map (·.1)).contains n || otherAlphabets.contains n)))),
  ("shift", do
      let f ← pFrame; let n ← pInt; pArrow; let a ← pAns pFrame
      pure (verdict (a == some (shift f n)))),
  ("to_phase", do let f ← pFrame; pArrow; let a ← pAns pPhase; pure (verdict (a == some (phaseOfFrame f)))),
  ("to_frame", do let p ← pPhase; pArrow; let a ← pAns pFrame; pure (verdict (a == some (frameOfPhase p)))),
  ("frame_int", do let v ← pInt; pArrow; let a ← pAns pFrame; pure (verdict (a == frameOfInt? v))),
  ("phase_int", do let v ← pInt; pArrow; let a ← pAns pPhase; pure (verdict (a == phaseOfInt? v))),
  ("frame_val", do let f ← pFrame; pArrow; let a ← pAns pInt; pure (verdict (a == some f.value))),
  ("phase_val", do let p ← pPhase; pArrow; let a ← pAns pInt; pure (verdict (a == some p.value))),
  ("strand_rev", do
      let s ← pStrandName; pArrow; let a ← pAns pStrandName
      pure (verdict (a == some (strandReverse s)))),
  ("strand_rel", do
      let x ← pStrandName; let y ← pStrandName; pArrow; let a ← pAns pStrandName
      pure (verdict (a == some (Spec.compose x y)))),
  ("strand_sym", do let x ← pText; pArrow; let a ← pAns pStrandName; pure (verdict (a == strandOfSymbol? x))),
  ("strand_tosym", do let s ← pStrandName; pArrow; let a ← pAns pText; pure (verdict (a == some (strandSymbol s)))),
  ("strand_int", do let v ← pInt; pArrow; let a ← pAns pStrandName; pure (verdict (a == strandOfInt? v))),
  ("strand_val", do let s ← pStrandName; pArrow; let a ← pAns pInt; pure (verdict (a == some s.value))),
  ("strand_lt", do
      let x ← pStrandName; let y ← pStrandName; pArrow; let a ← pAns pBoolWord
      pure (verdict (a == some (strandLt x y)))),
  ("biotype", do
      let x ← pText; let y ← pText; pArrow
      let a ← pAns (do let u ← pInt; let v ← pInt; pure (u, v))
      pure (verdict (okBiotypePair x y a))),
  ("enum", do
      let which ← tok; pArrow
      let a ← pAns tok
      match a.bind parseMembers with
      | none => pure "fail"
      | some ms =>
        match which with
        | "Strand" => pure (verdict (ms == strandMembers))
        | "CDSFrame" => pure (verdict (ms == frameMembers))
        | "CDSPhase" => pure (verdict (ms == frameMembers))
        | "TranslationTable" => pure (verdict (ms == translationTables))
        | "StrandOrder" =>
          match ms.lookup "PLUS".toList, ms.lookup "MINUS".toList, ms.lookup "UNSTRANDED".toList with
          | some p, some m, some u => pure (verdict (decide (p < m) && decide (m < u) && ms.length == 3))
          | _, _, _ => pure "fail"
        | _ => pure "n/a"),
  -- Biopython as the implementation: validates the reference tables themselves
  ("bio.std", do
      let s ← pText; pArrow; let a ← pAns pChar
      pure (verdict (a == stdTranslate s && a.isSome))),
  ("bio.consensus", do
      let s ← pText; pArrow; let a ← pAns pChar
      let want := match consensus s with | some r => r | none => 'X'
      pure (verdict ((expansions s).isSome && a == some want))),
  ("bio.complement", do
      let c ← pChar; pArrow; let a ← pAns pChar
      pure (verdict (a == iupacComplement.lookup c))),
  ("bio.starts", do
      let t ← pInt; pArrow; let a ← pAns pCodons
      match a, startCodonsOf.lookup t with
      | some cs, some ws => pure (verdict (sameSet cs ws && nodupB cs))
      | _, _ => pure "fail"),
  ("bio.stops", do
      pArrow; let a ← pAns pCodons
      match a with
      | some cs => pure (verdict (sameSet cs stopCodons && nodupB cs))
      | none => pure "fail")
]

end BioCantor.Driver.SpecTables
