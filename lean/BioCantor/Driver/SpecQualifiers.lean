/- Spec-driver operations for C18 (imports Base/Spec only) + the string token codec shared with the model driver. -/
import BioCantor.Driver.Proto
import BioCantor.Spec.Qualifiers
namespace BioCantor.Driver.SpecQual
open BioCantor BioCantor.Proto BioCantor.Spec.Qual

/-! ### string tokens: `s:` + characters, everything but `[A-Za-z0-9_]` as `%XX` (ASCII) -/

def hexVal (c : Char) : Option Nat :=
  if c.isDigit then some (c.toNat - '0'.toNat)
  else if 'A' ≤ c ∧ c ≤ 'F' then some (c.toNat - 'A'.toNat + 10)
  else if 'a' ≤ c ∧ c ≤ 'f' then some (c.toNat - 'a'.toNat + 10)
  else none

def decodeChars : List Char → Option (List Char)
  | [] => some []
  | '%' :: a :: b :: rest =>
    match hexVal a, hexVal b, decodeChars rest with
    | some x, some y, some r => some (Char.ofNat (16 * x + y) :: r)
    | _, _, _ => none
  | '%' :: _ => none
  | c :: rest => (decodeChars rest).map (c :: ·)

def hexDigit (n : Nat) : Char := if n < 10 then Char.ofNat (n + 48) else Char.ofNat (n - 10 + 65)

def encodeStr (s : Str) : String :=
  "s:" ++ String.ofList (s.flatMap fun c =>
    if c.isAlphanum || c == '_' then [c] else ['%', hexDigit (c.toNat / 16), hexDigit (c.toNat % 16)])

def pStr : P Str := do
  let t ← tok
  match t.toList with
  | 's' :: ':' :: rest =>
    match decodeChars rest with
    | some cs => pure cs
    | none => throw s!"str? {t}"
  | _ => throw s!"str? {t}"

def pOptStr : P (Option Str) := do
  match (← get) with
  | "None" :: ts => set ts; pure none
  | _ => do let s ← pStr; pure (some s)

def pEntry : P (Str × List Str) := do let k ← pStr; let vs ← pList pStr; pure (k, vs)
def pDict : P QDict := pList pEntry

def showStrs (l : List Str) : String := " ".intercalate (toString l.length :: l.map encodeStr)
def showDict (d : QDict) : String :=
  " ".intercalate (toString d.length :: d.map fun e => encodeStr e.1 ++ " " ++ showStrs e.2)
def showOptStr : Option Str → String
  | none => "None"
  | some s => encodeStr s

def pKind : P Kind := do
  match (← tok) with
  | "g" => pure .gene
  | "t" => pure .transcript
  | "c" => pure .cds
  | "o" => pure .other
  | t => throw s!"kind? {t}"

def pFeat : P Feat := do let t ← pStr; let k ← pKind; let u ← pNat; pure ⟨t, k, u⟩

def pGroup : P Group := do
  let t ← pStr
  let g ← (do match (← get) with
              | "None" :: ts => set ts; pure none
              | _ => do let n ← pNat; pure (some n))
  let ts ← pList pNat
  let cs ← pList pNat
  pure ⟨t, g, ts, cs⟩

def showGroup (g : Group) : String :=
  s!"{encodeStr g.tag} {match g.gene with | none => "None" | some n => toString n} " ++
  " ".intercalate (toString g.transcripts.length :: g.transcripts.map toString) ++ " " ++
  " ".intercalate (toString g.cdss.length :: g.cdss.map toString)

def showGroups (gs : List Group) : String := " ".intercalate (toString gs.length :: gs.map showGroup)

def pIvKind : P IvKind := do
  match (← tok) with
  | "f" => pure .feature
  | "t" => pure .transcript
  | "c" => pure .cds
  | t => throw s!"ivkind? {t}"

def pOptDict : P (Option QDict) := do
  match (← tok) with
  | "N" => pure none
  | "P" => do let d ← pDict; pure (some d)
  | t => throw s!"optdict? {t}"

def pArrow : P Unit := do
  match (← tok) with
  | "=>" => pure ()
  | t => throw s!"=>? {t}"

def verdict (b : Bool) : String := if b then "pass" else "fail"

/-- parse `ok <payload>` with `p`, anything else (`err …`, `err! …`) is "raised" -/
def pAns {α} (p : P α) : P (Option α) := do
  match (← tok) with
  | "ok" => do let a ← p; pure (some a)
  | _ => do set ([] : List String); pure none

def ops : List (String × Op) := [
  ("extract", do
      let qs ← pDict; pArrow
      let a ← pAns (do let n ← pOptStr; let i ← pOptStr; pure (n, i))
      if !extractDomain qs then pure "n/a" else pure (verdict (okExtract qs a))),
  ("types", do
      let init ← pList pStr; let qs ← pDict; pArrow
      let a ← pAns (pList pStr)
      if !keysDistinct qs then pure "n/a" else pure (verdict (okTypes init qs a))),
  ("merge", do
      let a ← pDict; let b ← pDict; pArrow
      let r ← pAns pDict
      if !(keysDistinct a && keysDistinct b) then pure "n/a" else pure (verdict (okMerge a b r))),
  ("fsq", do
      let q ← pDict; pArrow
      let r ← pAns (do match (← get) with
                        | "None" :: ts => set ts; pure none
                        | _ => do let d ← pDict; pure (some d))
      if !keysDistinct q then pure "n/a" else pure (verdict (okFilterSort q r))),
  -- export_qualifiers(parent_qualifiers) of a feature / transcript / CDS interval: own ∪ parent ∪ identifiers
  ("xq", do
      let k ← pIvKind; let own ← pDict; let par ← pOptDict; let attrs ← pList pOptStr; pArrow
      let a ← pAns pDict
      let parOk := match par with | some p => keysDistinct p | none => true
      if !(keysDistinct own && parOk) then pure "n/a" else pure (verdict (okExport k own par attrs a))),
  -- gene biotype of one locus from its transcript feature types (mRNA ↦ protein_coding, else the type's own name)
  ("gbiotype", do
      let tys ← pList pStr; pArrow
      let a ← pAns pStr
      let names := tys.map fun t => if t == "mRNA".toList then "protein_coding".toList else t
      if names.isEmpty then pure "n/a" else pure (verdict (okBiotype names a))),
  ("ltgroup", do
      let fs ← pList pFeat; pArrow
      let r ← pAns (pList pGroup)
      pure (verdict (okGroup fs r))),
  -- parse_genbank on a record and on a permutation of its features: same gene models up to child order.
  -- Domain ("locus-tag-complete"): every tag has exactly one gene feature and is a single chain.
  ("gbperm", do
      let fs ← pList (do
        let t ← pStr; let ty ← tok; let _ ← pNat; let _ ← pNat
        let k : Kind := if ty == "gene" then .gene else if ty == "CDS" then .cds
          else if ["mRNA", "ncRNA", "tRNA", "rRNA", "misc_RNA", "tmRNA"].contains ty then .transcript else .other
        pure (⟨t, k, 0⟩ : Feat))
      let _ ← (List.range fs.length).mapM (fun _ => pNat)
      pArrow
      let a ← get; set ([] : List String)
      let complete := fs.all fun f => (uidsOf fs f.tag .gene).length == 1 && singleChain fs f.tag
      if !complete then pure "n/a" else pure (verdict (a == ["ok", "same"])))
]
end BioCantor.Driver.SpecQual
