/- Model-driver operations for C14 (BED12 export): runs `Model.Bed` on one export per line.

   bed12 <T|F> <strand> <k> s e … <m> cs ce … <seqName|~> <symbol|~> <ident|~> <sym|id|lit:NAME>
         <score> <r> <g> <b> <chrom|chunk> <N | W | K cs ce>
   T = TranscriptInterval (m = 0: non-coding), F = FeatureInterval; `~` = None.
   Answer: `ok <the BED12 line>` (tabs inside the single answer token) / `err <Class>`. -/
import BioCantor.Driver.Proto
import BioCantor.Model.Bed
namespace BioCantor.Driver.Bed
open BioCantor BioCantor.Proto BioCantor.Model.Bed

def pOptName : P (Option (List Char)) := do
  match (← tok) with
  | "~" => pure none
  | t => pure (some t.toList)

def pSel : P NameSel := do
  let t ← tok
  if t = "sym" then pure .symbol
  else if t = "id" then pure .ident
  else if t = "attr:sequence_name" then pure .seqname
  else if t.startsWith "lit:" then pure (.literal (t.toList.drop 4))
  else throw s!"sel? {t}"

def pPar : P Par := do
  match (← tok) with
  | "N" => pure .none
  | "W" => pure .chromosome
  | "K" => do let a ← pNat; let b ← pNat; pure (.chunk a b)
  | t => throw s!"par? {t}"

def pMode : P Bool := do
  match (← tok) with
  | "chrom" => pure true
  | "chunk" => pure false
  | t => throw s!"mode? {t}"

def pBlocks : P (List Blk) := do
  let bs ← pList pIntPair
  if bs.any (fun b => b.1 < 0 ∨ b.2 < 0) then throw "negative coordinate" else
  pure (bs.map fun b => (b.1.toNat, b.2.toNat))

/-- `repaired = false`: the code as it is; `true`: with the repair of F-C14a -/
def opsFor (repaired : Bool) : List (String × Op) := [
  ("bed12", do
      let kind ← tok
      let st ← pStrand
      let exons ← pBlocks
      let cds ← pBlocks
      let seqName ← pOptName; let symbol ← pOptName; let ident ← pOptName
      let sel ← pSel
      let score ← pNat; let r ← pNat; let g ← pNat; let b ← pNat
      let chromRel ← pMode
      let par ← pPar
      if kind ≠ "T" ∧ kind ≠ "F" then throw s!"kind? {kind}"
      if kind = "F" ∧ ¬ cds.isEmpty then throw "feature with cds"
      match mkIv exons st (if cds.isEmpty then none else some cds) seqName symbol ident par with
      | .error e => pure ("err " ++ showErr e)
      | .ok x =>
        let out := if kind = "T" then txCore repaired x score (r, g, b) sel chromRel
                   else featCore repaired x score (r, g, b) sel chromRel
        match out with
        | some rec => pure ("ok " ++ String.ofList rec.str)
        | none => pure "bad-op window-cuts-interval (outside the modelled domain)")
]
/-- the operations on the code as it is (`txToBed12` / `featToBed12`) -/
def ops : List (String × Op) := opsFor false
/-- the operations on the repaired code (switch `drivers/C14.lean` to this table once the fix is in /repo) -/
def opsRepaired : List (String × Op) := opsFor true

end BioCantor.Driver.Bed
