/-
  Model-driver operations for C07: executes `Model.Chunk` on the op lines documented in harness/impl_chunk.py.
  The literal parser is shared with the spec driver (Driver/SpecChunk.lean: `pHead`).
-/
import BioCantor.Driver.Proto
import BioCantor.Driver.CDS
import BioCantor.Driver.SpecChunk
import BioCantor.Model.Chunk
namespace BioCantor.Driver.Chunk
open BioCantor BioCantor.Proto BioCantor.Model BioCantor.Model.Chunk
open BioCantor.Driver.SpecChunk (Head pHead Mods pMods)
open BioCantor.Spec.Chunk (Via Desc)
open BioCantor.Driver.CDS (showLocs showS)

/-- the chunk of the line: `letters[ws:we]`, reverse-complemented for a minus-strand chunk (done by the harness,
    not by the library) -/
def chunkOf (h : Head) : R Chunk := do
  let piece := (h.letters.drop h.win.w.1).take (h.win.w.2 - h.win.w.1)
  let letters ← (if h.win.wst = .minus then reverseComplement piece else pure piece)
  pure ⟨h.win.w, h.win.wst, letters⟩

def showNode (n : Node) : String :=
  if n.tag = 'X' then "X"
  else s!"{n.tag} {n.start} {n.«end»} {showLocation n.chrom} {showLocation n.location}"

def showFlag (b : Bool) : String := if b then "1" else "0"

def showCell (r : R (List Char)) : String :=
  match r with
  | .ok s => "s:" ++ String.ofList s
  | .error _ => "x"

/-- the chunk `[ws, we)` on strand `wst` of the chromosome `letters` -/
def chunkAt (letters : List Char) (w : Blk) (wst : Strand) : R Chunk := do
  let piece := (letters.drop w.1).take (w.2 - w.1)
  let ls ← (if wst = .minus then reverseComplement piece else pure piece)
  pure ⟨w, wst, ls⟩

/-- the harness's "other letter" at the position of `via:snv:<p>` -/
def rot (c : Char) : Char :=
  match c.toUpper with
  | 'A' => 'C' | 'C' => 'G' | 'G' => 'T' | 'T' => 'A' | _ => 'A'

/-- both twins of a line -/
structure Built where
  whole : List Node
  nodes : List Node
  /-- the chunk the chunk twin lives on (the variant's chunk for `via:snv`) -/
  chunk : Chunk
  /-- the description the ordinary constructor finally received on that chunk -/
  desc : Desc

def twins (h : Head) (m : Mods) : R Built := do
  let ch ← chunkOf h
  match m.via with
  | none => do
      let (a, b) ← buildTwins h.desc h.letters ch
      pure ⟨a, b, ch, h.desc⟩
  | some v => do
      let a ← buildNodes h.desc (.whole h.letters)
      let other ← chunkAt h.letters (0, h.letters.length) (if h.win.wst = .minus then .plus else .minus)
      let before ← (match v with
        | .snv p =>
            chunkAt (h.letters.take p ++ (match h.letters[p]? with | some c => [rot c] | none => []) ++ h.letters.drop (p + 1))
              h.win.w h.win.wst
        | _ => pure ch)
      let (b, d', ch') ← viaNodes v h.desc h.letters ch before other
      pure ⟨a, b, ch', d'⟩

def coding (h : Head) (m : Mods) : R ChunkCDS := do
  let t ← twins h m
  match t.desc with
  | .cds x => mkChunkCDS x t.chunk
  | .tx tx => if tx.cds.isEmpty then throw .NoncodingTranscript else mkChunkCDS tx.cdsD t.chunk
  | _ => throw .NoncodingTranscript

/-! ### `same`: the alternatively constructed twin against the ordinary construction on the line's chunk -/

def flagCh (b : Bool) : Char := if b then '1' else '0'

def sameRows (chY chX : Chunk) : List Node → List Node → List String
  | y :: ys, x :: xs =>
    let row :=
      if y.tag = 'X' ∨ x.tag = 'X' then (if y.tag = x.tag then "X 11111" else "X 00000")
      else
        let loc := x.start == y.start && x.«end» == y.«end» && showLocation x.chrom == showLocation y.chrom
        let crl := showLocation x.location == showLocation y.location
        let sx := subtree (x :: xs)
        let sy := subtree (y :: ys)
        let dic := sx.map (fun n => (n.tag, n.dictKey)) == sy.map (fun n => (n.tag, n.dictKey))
        let gid := if y.tag = 'G' ∨ y.tag = 'Q' ∨ y.tag = 'A' then '-' else flagCh (subtreeKeys sx == subtreeKeys sy)
        let sq := if y.tag = 'D' then '-' else flagCh (showCell (nodeSequence chX x) == showCell (nodeSequence chY y))
        s!"{y.tag} " ++ String.ofList [flagCh loc, flagCh crl, flagCh dic, gid, sq]
    row :: sameRows chY chX ys xs
  | [], [] => []
  | _, _ => ["X 00000"]

def codingOf (d : Desc) (ch : Chunk) : Option (R ChunkCDS) :=
  match d with
  | .cds x => some (mkChunkCDS x ch)
  | .tx t => if t.cds.isEmpty then none else some (mkChunkCDS t.cdsD ch)
  | _ => none

def sameTail (y : Built) (dX : Desc) (chX : Chunk) : R String :=
  match codingOf dX chX, codingOf y.desc y.chunk with
  | some rx, some ry => do
      let kx ← rx
      let ky ← ry
      let fr := kx.base.frames == ky.base.frames
      let cs := showCell (extractSequenceChunk kx) == showCell (extractSequenceChunk ky)
      let pr := showCell (translateChunk kx) == showCell (translateChunk ky)
      pure ("| " ++ String.ofList [flagCh fr, flagCh cs, flagCh pr])
  | _, _ => pure "| ---"

def ops : List (String × Op) := [
  ("loc", do
      let h ← pHead; let m ← pMods
      pure (showR (fun (x : Built) => " ".intercalate (x.nodes.map showNode)) (twins h m))),
  ("ident", do
      let h ← pHead; let m ← pMods
      pure (showR (fun (x : Built) =>
        " ".intercalate (showFlag (dictEqual x.whole x.nodes) :: (guidFlags x.whole x.nodes).map showFlag)) (twins h m))),
  ("seq", do
      let h ← pHead; let m ← pMods
      pure (showR (fun (x : Built) =>
        " ".intercalate ((x.nodes.filter (fun n => n.tag ≠ 'D' ∧ n.tag ≠ 'X')).map
          (fun n => showCell (nodeSequence x.chunk n)))) (twins h m))),
  ("same", do
      let h ← pHead; let m ← pMods
      pure (showR id (do
        let y ← twins h m
        let chX ← chunkOf h
        let xs ← buildNodes h.desc (.chunk chX)
        let tail ← sameTail y h.desc chX
        pure (" ".intercalate (sameRows y.chunk chX y.nodes xs ++ [tail]))))),
  ("ccodons", do
      let h ← pHead; let m ← pMods
      pure (showR (fun (x : Nat × List Location) => s!"{x.1} {showLocs x.2}") (do
        let k ← coding h m
        let n ← numCodonsChunk k
        let ls ← chromosomeCodonLocations k
        pure (n, ls)))),
  ("kcodons", do
      let h ← pHead; let m ← pMods
      pure (showR showLocs (do let k ← coding h m; chunkRelativeCodonLocations k))),
  ("kwcodons", do
      let h ← pHead; let lo ← pInt; let hi ← pInt; let m ← pMods
      pure (showR showLocs (do let k ← coding h m; scanChunkRelativeCodonLocations k lo hi))),
  ("cwcodons", do
      let h ← pHead; let lo ← pInt; let hi ← pInt; let m ← pMods
      pure (showR showLocs (do let k ← coding h m; scanChromosomeCodonLocationsChunk k lo hi))),
  ("cdsseq", do
      let h ← pHead; let m ← pMods
      pure (showR showS (do
        let k ← coding h m
        if m.pre = some 'k' then extractSequenceChunkAfterCodons k else extractSequenceChunk k))),
  ("prot", do
      let h ← pHead; let m ← pMods
      pure (showR showS (do
        let k ← coding h m
        if m.pre = some 'k' then translateChunkAfterCodons k else translateChunk k))),
  ("kframes", do
      let h ← pHead; let m ← pMods
      pure (match (do let k ← coding h m; chunkRelativeFrames k : R (List CDSFrame)) with
        | .ok fs => "ok" ++ String.join (fs.map fun f => " " ++ toString f.value)
        | .error e => "err " ++ showErr e))
]

end BioCantor.Driver.Chunk
