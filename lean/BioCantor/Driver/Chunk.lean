/-
  Model-driver operations for C07: executes `Model.Chunk` on the op lines documented in harness/impl_chunk.py.
  The literal parser is shared with the spec driver (Driver/SpecChunk.lean: `pHead`).
-/
import BioCantor.Driver.Proto
import BioCantor.Driver.CDS
import BioCantor.Driver.SpecChunk
import BioCantor.Model.Chunk
namespace BioCantor.Driver.Chunk
open BioCantor BioCantor.Proto BioCantor.Model BioCantor.Model.Chunk
open BioCantor.Driver.SpecChunk (Head pHead)
open BioCantor.Driver.CDS (showLocs showS)

/-- the chunk of the line: `letters[ws:we]`, reverse-complemented for a minus-strand chunk (done by the harness,
    not by the library) -/
def chunkOf (h : Head) : R Chunk := do
  let piece := (h.letters.drop h.win.w.1).take (h.win.w.2 - h.win.w.1)
  let letters ← (if h.win.wst = .minus then reverseComplement piece else pure piece)
  pure ⟨h.win.w, h.win.wst, letters⟩

def showNode (n : Node) : String :=
  if n.tag = 'X' then "X"
  else s!"{n.tag} {n.start} {n.«end»} {showLocation n.chrom} {showLocation n.location}"

def showFlag (b : Bool) : String := if b then "1" else "0"

def showCell (r : R (List Char)) : String :=
  match r with
  | .ok s => "s:" ++ String.ofList s
  | .error _ => "x"

def twins (h : Head) : R (List Node × List Node × Chunk) := do
  let ch ← chunkOf h
  let (a, b) ← buildTwins h.desc h.letters ch
  pure (a, b, ch)

def coding (h : Head) : R ChunkCDS := do
  let ch ← chunkOf h
  codingTwin h.desc h.letters ch

def ops : List (String × Op) := [
  ("loc", do
      let h ← pHead
      pure (showR (fun (x : List Node × List Node × Chunk) => " ".intercalate (x.2.1.map showNode)) (twins h))),
  ("ident", do
      let h ← pHead
      pure (showR (fun (x : List Node × List Node × Chunk) =>
        " ".intercalate (showFlag (dictEqual x.1 x.2.1) :: (guidFlags x.1 x.2.1).map showFlag)) (twins h))),
  ("seq", do
      let h ← pHead
      pure (showR (fun (x : List Node × List Node × Chunk) =>
        " ".intercalate ((x.2.1.filter (fun n => n.tag ≠ 'D' ∧ n.tag ≠ 'X')).map
          (fun n => showCell (nodeSequence x.2.2 n)))) (twins h))),
  ("ccodons", do
      let h ← pHead
      pure (showR (fun (x : Nat × List Location) => s!"{x.1} {showLocs x.2}") (do
        let k ← coding h
        let n ← numCodonsChunk k
        let ls ← chromosomeCodonLocations k
        pure (n, ls)))),
  ("kcodons", do
      let h ← pHead
      pure (showR showLocs (do let k ← coding h; chunkRelativeCodonLocations k))),
  ("kwcodons", do
      let h ← pHead; let lo ← pInt; let hi ← pInt
      pure (showR showLocs (do let k ← coding h; scanChunkRelativeCodonLocations k lo hi))),
  ("cdsseq", do
      let h ← pHead
      pure (showR showS (do let k ← coding h; extractSequenceChunk k))),
  ("prot", do
      let h ← pHead
      pure (showR showS (do let k ← coding h; translateChunk k))),
  ("kframes", do
      let h ← pHead
      pure (match (do let k ← coding h; chunkRelativeFrames k : R (List CDSFrame)) with
        | .ok fs => "ok" ++ String.join (fs.map fun f => " " ++ toString f.value)
        | .error e => "err " ++ showErr e))
]

end BioCantor.Driver.Chunk
