/- Model-driver operations for C18: runs `Model.Qual.*` (with the generated priority tables). -/
import BioCantor.Driver.Proto
import BioCantor.Driver.SpecQualifiers
import BioCantor.Model.Qualifiers
namespace BioCantor.Driver.Qual
open BioCantor BioCantor.Proto BioCantor.Spec.Qual BioCantor.Model.Qual BioCantor.Driver.SpecQual

def showQ {α} (sh : α → String) : R α → String
  | .ok a => "ok " ++ sh a
  | .error .keyError => "err! KeyError"
  | .error .indexError => "err! IndexError"
  | .error .locusTag => "err Export"

/-- a Python set is reported sorted -/
def showSet (l : List Str) : String := showStrs (sortStrs l)

def ops : List (String × Op) := [
  ("extract", do
      let qs ← pDict
      pure (showQ (fun r => showOptStr r.1 ++ " " ++ showOptStr r.2) (extract qs))),
  ("types", do
      let init ← pList pStr; let qs ← pDict
      pure ("ok " ++ showSet (extractTypes init qs))),
  ("merge", do
      let a ← pDict; let b ← pDict
      pure ("ok " ++ showDict (mergeQualifiers a b))),
  ("fsq", do
      let q ← pDict
      pure ("ok " ++ (match filterSort q with | none => "None" | some d => showDict d))),
  ("xq", do
      let k ← pIvKind; let own ← pDict; let par ← pOptDict; let attrs ← pList pOptStr
      pure (match exportQualifiers k own par attrs with
            | some d => "ok " ++ showDict d
            | none => "err! AttributeError")),
  ("gbiotype", do
      let tys ← pList pStr
      pure (match geneBiotype (tys.map txBiotypeName) with
            | some b => "ok " ++ encodeStr b
            | none => "err! ValueError")),
  ("ltgroup", do
      let fs ← pList pFeat
      pure (showQ showGroups (groupByLocusTag fs)))
]
end BioCantor.Driver.Qual
