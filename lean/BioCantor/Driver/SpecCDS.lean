/-
  Spec-driver operations for coding intervals (C05): `<op> <args> => <answer>` ↦ pass | fail <class> | n/a.
  Imports Base and Spec only.  `fail <class>`: the class names a known deviation of the pinned library
  (Spec.codonsClass …) or `unclassified`; findings/C05.json matches on it.
-/
import BioCantor.Driver.Proto
import BioCantor.Driver.SpecLoc
import BioCantor.Spec.ReadingFrame
namespace BioCantor.Driver.SpecCDS
open BioCantor BioCantor.Proto BioCantor.Spec BioCantor.Driver.SpecLoc

/-- answer classes: returned / raised a documented exception / raised an internal Python error (`err!`) -/
inductive Ans (α : Type) where
  | ok (a : α)
  | err
  | internal

def Ans.toOption {α} : Ans α → Option α
  | .ok a => some a
  | _ => none

def pAns3 {α} (p : P α) : P (Ans α) := do
  match (← tok) with
  | "ok" => do let a ← p; pure (.ok a)
  | "err" => do let _ ← tok; pure .err
  | "err!" => do let _ ← tok; pure .internal
  | t => throw s!"ans? {t}"

partial def pRest {α} (p : P α) : P (List α) := do
  match (← get) with
  | [] => pure []
  | _ => do let x ← p; let xs ← pRest p; pure (x :: xs)

def pTriple : P (Int × Int × Int) := do
  let a ← pInt; let b ← pInt; let c ← pInt; pure (a, b, c)

/-- raw literal → (is the literal a constructible CDS?, spec input).
    `none` = the documented constructor must refuse it (empty, start > end, negative, zero total length, bad value). -/
structure RawCDS where
  strand : Strand
  isFrame : Bool
  exons : List (Int × Int × Int)
  seq : Option (List Char)

def pRawCDS : P RawCDS := do
  let st ← pStrand
  let kind ← tok
  let isFrame ← match kind with
    | "F" => pure true
    | "P" => pure false
    | t => throw s!"F|P? {t}"
  let ex ← pList pTriple
  let sq ← tok
  pure ⟨st, isFrame, ex, if sq = "_" then none else some sq.toList⟩

/-- GFF3 phase ↦ frame: the number of bases to skip is the phase; frame = (3 - phase) mod 3 -/
def phaseToFrameVal (p : Int) : Int := (3 - p) % 3

inductive Built where
  | refuse            -- the constructor must refuse
  | outOfScope        -- C05 does not speak about this input (overlapping / empty exons, frame NONE, unsorted, …)
  | cds (c : CDSIn)

def specBuildCDS (r : RawCDS) : Built :=
  if r.exons.isEmpty ∨ r.exons.any (fun e => e.1 < 0 ∨ e.1 > e.2.1) then .refuse
  else if r.exons.any (fun e => e.2.2 < -1 ∨ e.2.2 > 2) then .refuse
  else if r.exons.all (fun e => e.1 = e.2.1) then .refuse
  else if r.exons.any (fun e => e.2.2 = -1) then .outOfScope
  else
    let blocks : List Blk := r.exons.map (fun e => (e.1.toNat, e.2.1.toNat))
    let frames : List Nat := r.exons.map (fun e => (if r.isFrame then e.2.2 else phaseToFrameVal e.2.2).toNat)
    let c : CDSIn := ⟨⟨blocks, r.strand⟩, frames, r.seq⟩
    -- sorted as given (frames are paired with the sorted blocks by the library) and inside the C05 scope
    if sortBlocks r.strand blocks = blocks ∧ c.inScope then .cds c else .outOfScope

def pOptInt : P (Option Int) := do
  let t ← tok
  if t = "_" then pure none
  else match t.toInt? with
    | some i => pure (some i)
    | none => throw s!"int|_? {t}"

def pWin : P (Option Win) := do
  match (← tok) with
  | "-" => pure none
  | "W" => do
      let s ← pOptInt; let e ← pOptInt; let x ← pBool
      -- both bounds `None` is "no window" by the method's own definition
      if s.isNone ∧ e.isNone then pure none else pure (some ⟨s, e, x⟩)
  | t => throw s!"win? {t}"

def pLocs : P (List Location) := pList pOutLoc

def pS : P (List Char) := do
  let t ← tok
  match t.toList with
  | 's' :: ':' :: rest => pure rest
  | _ => throw s!"s:? {t}"

def pBoolWord : P Bool := do
  match (← tok) with
  | "true" => pure true
  | "false" => pure false
  | t => throw s!"bool? {t}"

def pCodonList : P (List (List Char)) := pList (do let t ← tok; pure t.toList)

def verdictC (ok : Bool) (cls : String) : String := if ok then "pass" else "fail " ++ cls

/-- common frame of the CDS ops: refuse / out of scope / judge -/
def withCDS {α} (r : RawCDS) (a : Ans α) (judge : CDSIn → String) : String :=
  match specBuildCDS r with
  | .refuse => if a.toOption.isNone then "pass" else "fail constructed-invalid-cds"
  | .outOfScope => "n/a"
  | .cds c => judge c

/-- letters the codon machinery accepts (IUPAC nucleotides, either case); other sequences are out of scope -/
def seqInScope (c : CDSIn) : Bool :=
  match c.seq with
  | none => true
  | some s => s.all (fun ch => (iupacBases (upper ch)).length > 0)

def firstCodonClass {α} (c : CDSIn) (a : Ans α) : String :=
  match a, c.codonLetters with
  | .internal, some [] => "codonless-internal-error"
  | _, _ => "unclassified"

def ops : List (String × Op) := [
  ("codons", do
      let _api ← tok
      let r ← pRawCDS; let w ← pWin; pArrow; let a ← pAns3 pLocs
      pure (withCDS r a fun c => verdictC (okCodons c w a.toOption) (codonsClass c w a.toOption))),
  ("numcodons", do
      let r ← pRawCDS; pArrow; let a ← pAns3 pNat
      pure (withCDS r a fun c =>
        verdictC (okNumCodons c a.toOption) (codonsClass c none (a.toOption.map fun _ => [])))),
  ("cdsseq", do
      let r ← pRawCDS; pArrow; let a ← pAns3 pS
      pure (withCDS r a fun c =>
        if ¬ seqInScope c then "n/a"
        else verdictC (okCdsSeq c a.toOption) (codonsClass c none (a.toOption.map fun _ => [])))),
  ("cdsseqc", do
      let r ← pRawCDS; pArrow; let a ← pAns3 pS
      pure (withCDS r a fun c =>
        if ¬ seqInScope c then "n/a"
        else verdictC (okCdsSeq c a.toOption) (codonsClass c none (a.toOption.map fun _ => [])))),
  ("scancodons", do
      let r ← pRawCDS; let t ← pBool; pArrow; let a ← pAns3 pCodonList
      pure (withCDS r a fun c =>
        if ¬ seqInScope c then "n/a"
        else verdictC (okScanCodons c t a.toOption) (codonsClass c none (a.toOption.map fun _ => [])))),
  ("translate", do
      let r ← pRawCDS; let t ← pBool; let tab ← pNat; let s ← pBool; pArrow; let a ← pAns3 pS
      pure (withCDS r a fun c =>
        if ¬ seqInScope c then "n/a"
        else verdictC (okTranslate c t tab s a.toOption) (codonsClass c none (a.toOption.map fun _ => [])))),
  ("hasstop", do
      let r ← pRawCDS; pArrow; let a ← pAns3 pBoolWord
      pure (withCDS r a fun c =>
        if ¬ seqInScope c then "n/a"
        else match a with
          | .internal => "fail " ++ firstCodonClass c a
          | _ => verdictC (okHasValidStop c a.toOption) (codonsClass c none (a.toOption.map fun _ => [])))),
  ("inframestop", do
      let r ← pRawCDS; pArrow; let a ← pAns3 pBoolWord
      pure (withCDS r a fun c =>
        if ¬ seqInScope c then "n/a"
        else match a with
          | .internal => "fail " ++ firstCodonClass c a
          | _ => verdictC (okInFrameStop c a.toOption) (codonsClass c none (a.toOption.map fun _ => [])))),
  ("canonstart", do
      let r ← pRawCDS; pArrow; let a ← pAns3 pBoolWord
      pure (withCDS r a fun c =>
        if ¬ seqInScope c then "n/a"
        else match a with
          | .internal => "fail " ++ firstCodonClass c a
          | _ => verdictC (okFirstCodon c ["ATG".toList] a.toOption)
                   (codonsClass c none (a.toOption.map fun _ => [])))),
  ("startin", do
      let r ← pRawCDS; let tab ← pNat; pArrow; let a ← pAns3 pBoolWord
      pure (withCDS r a fun c =>
        if ¬ seqInScope c then "n/a"
        else match startCodonsOf tab, a with
          | none, _ => if a.toOption.isNone then "pass" else "fail unknown-table-accepted"
          | some _, .internal => "fail " ++ firstCodonClass c a
          | some st, _ => verdictC (okFirstCodon c st a.toOption)
                            (codonsClass c none (a.toOption.map fun _ => [])))),
  ("frames", do
      let l ← pRawLoc; let f ← pInt; pArrow; let a ← pAns3 (pRest pNat)
      match specBuild l with
      | none => pure (if a.toOption.isNone then "pass" else "fail")
      | some .empty => pure "n/a"
      | some x =>
        match toLoc x with
        | none => pure "n/a"
        | some loc =>
          if f < 0 ∨ f > 2 then pure "n/a"
          else if ¬ loc.strand.isDirectional then
            -- a location without direction has no 5' end; refusing and (for one block) echoing the frame are accepted
            pure (if a.toOption.isNone ∨ loc.blocks.length = 1 then "pass" else "fail undirected-accepted")
          else if ¬ nonOverlap loc.blocks then pure "n/a"
          else
            let ok := okFrames loc f.toNat a.toOption
            -- known deviation: the first exon (5') is shorter than the start offset
            let firstLen := match (if loc.strand = .minus then loc.blocks.reverse else loc.blocks) with
              | b :: _ => b.len
              | [] => 0
            pure (verdictC ok (if firstLen < f.toNat ∧ loc.blocks.length > 1 then "first-exon-shorter-than-offset"
                               else "unclassified")))
]

end BioCantor.Driver.SpecCDS
