/- Driver operations on locations (C01–C03): model.* mirrors the code, spec.* is the reference. -/
import BioCantor.Driver.Proto
import BioCantor.Spec.Location
import BioCantor.Model.Location
import BioCantor.Model.RelativeTo
import BioCantor.Model.LoopGlue
namespace BioCantor.Driver.Loc
open BioCantor BioCantor.Proto BioCantor.Model

/-- Run the modelled constructor on a raw location. -/
def build : RawLoc → R Location
  | .single s e st => mkSingle s e st
  | .compound bs st =>
      -- negative coordinates: the real CompoundInterval constructor does not reject them (F-C19g);
      -- the driver refuses such lines up front (harness never sends them on this op family)
      if bs.any (fun b => b.1 < 0 ∨ b.2 < 0) then throw .InvalidPosition
      else if bs.isEmpty then throw .Location
      else if bs.any (fun b => b.1 > b.2) then throw .InvalidPosition
      else mkCompound (bs.map fun b => (b.1.toNat, b.2.toNat)) st
  | .empty => pure .empty

def pLoc : P (R Location) := do let r ← pRawLoc; pure (build r)

/-- answer of a GENERATED kernel (`Gen/Kernels.lean`, regenerated from /repo's sources on every run) in the
    protocol's text: documented classes as `err <Class>`, anything else as `err! <PythonClass>` -/
def showExc (e : GenP.PyExc) : String :=
  match LoopGlue.excErr e with
  | some c => "err " ++ showErr c
  | none => "err! KeyError"

def showG {α} (sh : α → String) : GenP.PyR α → String
  | .ok a => "ok " ++ sh a
  | .error e => showExc e

/-- run a generated-kernel operation on a constructed location (constructor errors are printed as usual) -/
def withLoc (l : R Location) (f : Location → String) : String :=
  match l with
  | .ok x => f x
  | .error e => "err " ++ showErr e

def ops : List (String × Op) := [
  ("mk", do let l ← pLoc; pure (showR showLocation l)),
  ("len", do let l ← pLoc; pure (showR toString (do let x ← l; pure (locLen x)))),
  ("r2p", do let l ← pLoc; let r ← pInt; pure (showR toString (do let x ← l; r2p x r))),
  ("p2r", do let l ← pLoc; let p ← pInt; pure (showR toString (do let x ← l; p2r x p))),
  ("relint", do
      let l ← pLoc; let rs ← pInt; let re ← pInt; let st ← pStrand
      pure (showR showLocation (do let x ← l; relInterval x rs re st))),
  ("optimize", do let l ← pLoc; pure (showR showLocation (do let x ← l; optimizeBlocks x))),
  ("optcombine", do let l ← pLoc; pure (showR showLocation (do let x ← l; optimizeAndCombine x))),
  ("overlap", do
      let a ← pLoc; let b ← pLoc; let ms ← pBool; let fs ← pBool
      pure (showR showBool (do let x ← a; let y ← b; hasOverlap x y ms fs))),
  ("locrel", do
      let a ← pLoc; let b ← pLoc; let opt ← pBool
      pure (showR showLocation (do let x ← a; let y ← b; locationRelativeTo x y opt))),
  -- the same three calls answered by the GENERATED kernels (compound loops included) instead of the hand model
  ("gp2r", do let l ← pLoc; let p ← pInt; pure (withLoc l fun x => showG toString (LoopGlue.gp2r x p))),
  ("gr2p", do let l ← pLoc; let r ← pInt; pure (withLoc l fun x => showG toString (LoopGlue.gr2p x r))),
  ("grelint", do
      let l ← pLoc; let rs ← pInt; let re ← pInt; let st ← pStrand
      pure (withLoc l fun x =>
        match LoopGlue.grelint x rs re st with
        | .inl e => showExc e
        | .inr r => showR showLocation r)),
  ("goptimize", do
      let l ← pLoc
      pure (withLoc l fun x => match LoopGlue.goptimize true x with
        | .inl e => showExc e
        | .inr r => showR showLocation r)),
  ("goptcombine", do
      let l ← pLoc
      pure (withLoc l fun x => match LoopGlue.goptimize false x with
        | .inl e => showExc e
        | .inr r => showR showLocation r)),
  ("gisov", do
      let l ← pLoc
      pure (withLoc l fun x => match x with
        | .compound c => showG showBool (Gen.CompoundInterval_is_overlapping (LoopGlue.toCI c))
        | _ => "ok false")),
  ("ghasov", do
      let a ← pLoc; let b ← pLoc; let ms ← pBool
      pure (withLoc a fun x => withLoc b fun y => match x, y with
        | .compound c, .single bb sb =>
            showG showBool (Gen.CompoundInterval_has_overlap (LoopGlue.toCI c) (LoopGlue.toSI bb sb) ms)
        | .single ba sa, .single bb sb =>
            showG showBool (Gen.SingleInterval_has_overlap (LoopGlue.toSI ba sa) (LoopGlue.toSI bb sb) ms)
        | _, _ => "bad-args ghasov expects a compound or single location and a single location")),
  ("ggaplist", do
      let l ← pLoc
      pure (withLoc l fun x => match LoopGlue.ggaplist x with
        | .inl e => showExc e
        | .inr r => showR (fun gs => " ".intercalate (toString gs.length ::
            gs.map fun g => s!"{g.start} {g.«end»} {strandSym g.strand}")) r)),
  ("spec.bases", do
      let l ← pLoc
      pure (showR showNatList (do let x ← l; pure (Spec.locationBases x))))
]

end BioCantor.Driver.Loc
