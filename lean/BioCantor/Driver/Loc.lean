/- Driver operations on locations (C01–C03): model.* mirrors the code, spec.* is the reference. -/
import BioCantor.Driver.Proto
import BioCantor.Spec.Location
import BioCantor.Model.Location
import BioCantor.Model.RelativeTo
namespace BioCantor.Driver.Loc
open BioCantor BioCantor.Proto BioCantor.Model

/-- Run the modelled constructor on a raw location. -/
def build : RawLoc → R Location
  | .single s e st => mkSingle s e st
  | .compound bs st =>
      -- negative coordinates: the real CompoundInterval constructor does not reject them (F-C19g);
      -- the driver refuses such lines up front (harness never sends them on this op family)
      if bs.any (fun b => b.1 < 0 ∨ b.2 < 0) then throw .InvalidPosition
      else if bs.isEmpty then throw .Location
      else if bs.any (fun b => b.1 > b.2) then throw .InvalidPosition
      else mkCompound (bs.map fun b => (b.1.toNat, b.2.toNat)) st
  | .empty => pure .empty

def pLoc : P (R Location) := do let r ← pRawLoc; pure (build r)

def ops : List (String × Op) := [
  ("mk", do let l ← pLoc; pure (showR showLocation l)),
  ("len", do let l ← pLoc; pure (showR toString (do let x ← l; pure (locLen x)))),
  ("r2p", do let l ← pLoc; let r ← pInt; pure (showR toString (do let x ← l; r2p x r))),
  ("p2r", do let l ← pLoc; let p ← pInt; pure (showR toString (do let x ← l; p2r x p))),
  ("relint", do
      let l ← pLoc; let rs ← pInt; let re ← pInt; let st ← pStrand
      pure (showR showLocation (do let x ← l; relInterval x rs re st))),
  ("optimize", do let l ← pLoc; pure (showR showLocation (do let x ← l; optimizeBlocks x))),
  ("optcombine", do let l ← pLoc; pure (showR showLocation (do let x ← l; optimizeAndCombine x))),
  ("overlap", do
      let a ← pLoc; let b ← pLoc; let ms ← pBool; let fs ← pBool
      pure (showR showBool (do let x ← a; let y ← b; hasOverlap x y ms fs))),
  ("locrel", do
      let a ← pLoc; let b ← pLoc; let opt ← pBool
      pure (showR showLocation (do let x ← a; let y ← b; locationRelativeTo x y opt))),
  ("spec.bases", do
      let l ← pLoc
      pure (showR showNatList (do let x ← l; pure (Spec.locationBases x))))
]

end BioCantor.Driver.Loc
