/- Spec-driver operations for C08 (imports Base/Spec only) + the token codec of Python values shared with the
   model driver.

   string token   `s:` + characters; everything outside [A-Za-z0-9_] as `%XX` (code point < 256) or `%uXXXXXX`
   value tokens   N | T | F | i <int> | s:<str> | u <32 hex> | o s:<str()> s:<repr()> | L <n> val*n | S <n> val*n
                  | D <n> (s:<key> val)*n
-/
import BioCantor.Driver.Proto
import BioCantor.Spec.Digest
import BioCantor.Spec.DigestDict
namespace BioCantor.Driver.SpecDig
open BioCantor BioCantor.Proto BioCantor.Spec.Digest
open BioCantor.Spec.Qual (Str)

def hexVal (c : Char) : Option Nat :=
  if c.isDigit then some (c.toNat - '0'.toNat)
  else if 'A' ≤ c ∧ c ≤ 'F' then some (c.toNat - 'A'.toNat + 10)
  else if 'a' ≤ c ∧ c ≤ 'f' then some (c.toNat - 'a'.toNat + 10)
  else none

def hexNum (cs : List Char) : Option Nat :=
  cs.foldl (fun acc c => match acc, hexVal c with | some a, some v => some (16 * a + v) | _, _ => none) (some 0)

partial def decodeChars : List Char → Option (List Char)
  | [] => some []
  | '%' :: 'u' :: a :: b :: c :: d :: e :: f :: rest =>
    match hexNum [a, b, c, d, e, f], decodeChars rest with
    | some n, some r => some (Char.ofNat n :: r)
    | _, _ => none
  | '%' :: a :: b :: rest =>
    match hexNum [a, b], decodeChars rest with
    | some n, some r => some (Char.ofNat n :: r)
    | _, _ => none
  | '%' :: _ => none
  | c :: rest => (decodeChars rest).map (c :: ·)

def hexDigit (n : Nat) : Char := if n < 10 then Char.ofNat (n + 48) else Char.ofNat (n - 10 + 65)

def hexFixed (n width : Nat) : List Char :=
  (List.range width).reverse.map fun i => hexDigit (n / 16 ^ i % 16)

def encodeStr (s : Str) : String :=
  "s:" ++ String.ofList (s.flatMap fun c =>
    if (c.toNat < 128 && c.isAlphanum) || c == '_' then [c]
    else if c.toNat < 256 then '%' :: hexFixed c.toNat 2
    else '%' :: 'u' :: hexFixed c.toNat 6)

def pStr : P Str := do
  let t ← tok
  match t.toList with
  | 's' :: ':' :: rest =>
    match decodeChars rest with
    | some cs => pure cs
    | none => throw s!"str? {t}"
  | _ => throw s!"str? {t}"

partial def pVal : P PyVal := do
  let t ← tok
  match t with
  | "N" => pure .none
  | "T" => pure (.bool true)
  | "F" => pure (.bool false)
  | "i" => do let n ← pInt; pure (.int n)
  | "u" => do let h ← tok; pure (.uuid h.toList)
  | "o" => do let s ← pStr; let r ← pStr; pure (.obj s r)
  | "L" => do let vs ← pList pVal; pure (.list vs)
  | "S" => do let vs ← pList pVal; pure (.set vs)
  | "D" => do let kvs ← pList (do let k ← pStr; let v ← pVal; pure (k, v)); pure (.dict kvs)
  | _ =>
    match t.toList with
    | 's' :: ':' :: rest =>
      match decodeChars rest with
      | some cs => pure (.str cs)
      | none => throw s!"val? {t}"
    | _ => throw s!"val? {t}"

partial def showVal : PyVal → String
  | .none => "N"
  | .bool true => "T"
  | .bool false => "F"
  | .int n => s!"i {n}"
  | .str s => encodeStr s
  | .uuid h => "u " ++ String.ofList h
  | .obj s r => s!"o {encodeStr s} {encodeStr r}"
  | .list vs => " ".intercalate (s!"L {vs.length}" :: vs.map showVal)
  | .set vs => " ".intercalate (s!"S {vs.length}" :: vs.map showVal)
  | .dict kvs => " ".intercalate (s!"D {kvs.length}" :: kvs.map fun e => encodeStr e.1 ++ " " ++ showVal e.2)

def pKwargs : P (List (Str × PyVal)) := pList (do let k ← pStr; let v ← pVal; pure (k, v))

def showStrs (l : List Str) : String := " ".intercalate (toString l.length :: l.map encodeStr)

def pArrow : P Unit := do
  match (← tok) with
  | "=>" => pure ()
  | t => throw s!"=>? {t}"

def pBar : P Unit := do
  match (← tok) with
  | "|" => pure ()
  | t => throw s!"|? {t}"

def verdict (b : Bool) : String := if b then "pass" else "fail"

/-- parse `ok <payload>` with `p`; anything else (`err …`, `err! …`) is "raised" -/
def pAns {α} (p : P α) : P (Option α) := do
  match (← tok) with
  | "ok" => do let a ← p; pure (some a)
  | _ => do set ([] : List String); pure none

/-- the rest of the line -/
def pRest : P (List String) := do let r ← get; set ([] : List String); pure r

/-- skip the operands (everything up to `=>`), return the answer tokens -/
def pAfterArrow : P (List String) := do
  let ts ← get
  set ([] : List String)
  pure ((ts.dropWhile (· != "=>")).drop 1)

/-- round-trip / determinism / sensitivity clauses evaluated on real objects: `ok clean` passes, `ok skip …`
    (the object could not be built: outside the property's domain) is not applicable, anything else fails -/
def cleanVerdict (ans : List String) : String :=
  if okClean ans then "pass"
  else match ans with
    | "ok" :: "skip" :: _ => "n/a"
    | _ => "fail " ++ " ".intercalate (ans.take 3)

def pQualIn : P (List (Str × List PyVal)) := pList (do let k ← pStr; let vs ← pList pVal; pure (k, vs))
def pQualOut : P (Option (List (Str × List Str))) := do
  match (← get) with
  | "None" :: ts => set ts; pure none
  | _ => do let d ← pList (do let k ← pStr; let vs ← pList pStr; pure (k, vs)); pure (some d)

def keysDistinctQ (q : List (Str × List PyVal)) : Bool :=
  (q.map (·.1)).eraseDups.length == q.length

def ops : List (String × Op) := [
  ("tokens", do
      let args ← pList pVal; let kw ← pKwargs; pArrow
      let a ← pAns (pList pStr)
      if !(wfList args && wfVal (.dict kw)) then pure "n/a" else pure (verdict (okTokens args kw a))),
  ("tokeq", do
      let _ ← pList pVal; let _ ← pKwargs; pBar
      let _ ← pList pVal; let _ ← pKwargs; pArrow
      let a ← pAns (do let x ← pList pStr; let y ← pList pStr; pure (x, y))
      pure (verdict (okSameStream a))),
  ("qexport", do
      let q ← pQualIn; pArrow
      let a ← pAns pQualOut
      if !keysDistinctQ q then pure "n/a"
      else pure (verdict (okQExport (q.map fun e => (e.1, e.2.map pyStr)) a))),
  -- two variants that differ in a coordinate (all other fields equal) must not share a GUID
  ("vcollide", do
      let s1 ← pInt; let e1 ← pInt; let s2 ← pInt; let e2 ← pInt; pArrow
      let a ← pRest
      if s1 == s2 && e1 == e2 then pure "n/a" else pure (verdict (a == ["ok", "differ"]))),
  -- `Cls.from_dict(d).to_dict()`: documented keys, values carried over (only `ok` answers are judged here; which
  -- dictionaries are refused is C19's subject)
  ("dictrt", do
      let cls ← tok; let d ← pVal; pArrow
      match (← get) with
      | "ok" :: _ => do
        let a ← pAns pVal
        pure (verdict (okDictRt cls d a))
      | _ => do set ([] : List String); pure "n/a"),
  -- two descriptions: same content (re-ordered insertions) / one coordinate, strand or frame changed
  ("digest2", do
      let flag ← tok; let _ ← tok; let _ ← pVal; pBar; let _ ← pVal; pArrow
      match (← get) with
      | "ok" :: _ => do
        let a ← pAns (do
          let g1 ← tok; let t1 ← pList pStr; pBar
          let g2 ← tok; let t2 ← pList pStr
          pure ((g1.toList, t1), (g2.toList, t2)))
        pure (verdict (okDigestPair (flag == "same") a))
      | _ => do set ([] : List String); pure "n/a"),
  -- the dictionary an object exports must be loadable by its data model (`rt`); `raw` lines only tie the model
  ("schema", do
      let _ ← tok; let mode ← tok; let a ← pAfterArrow
      if mode != "rt" then pure "n/a"
      else match a with
        | ["ok", "accept"] => pure "pass"
        | "ok" :: _ => pure ("fail " ++ " ".intercalate (a.take 3))
        | _ => pure "n/a"),
  ("indep", do
      let a ← pAfterArrow
      match a with
      | "ok" :: "skip" :: _ => pure "n/a"
      | "ok" :: "shared" :: rest =>
        let run : P String := do
          let sh ← pList pStr
          match (← tok) with | "changed" => pure () | t => throw s!"changed? {t}"
          let _ ← pList pStr
          match (← tok) with | "stale" => pure () | t => throw s!"stale? {t}"
          let _ ← pList pStr
          match (← tok) with | "exports" => pure () | t => throw s!"exports? {t}"
          let e1 ← tok; let e2 ← tok; let e3 ← tok
          match (← tok) with | "guids" => pure () | t => throw s!"guids? {t}"
          let g1 ← tok; let g2 ← tok; let g3 ← tok
          match (← tok) with | "state" => pure () | t => throw s!"state? {t}"
          let s1 ← tok; let s2 ← tok
          pure (verdict (okIndep sh.length [e1, e2, e3] [g1, g2, g3] [s1, s2]))
        match run.run rest with
        | .ok (v, _) => pure v
        | .error e => pure ("fail unparsable " ++ e)
      | _ => pure ("fail " ++ " ".intercalate (a.take 3))),
  ("obj", do let a ← pAfterArrow; pure (cleanVerdict a)),
  ("sweep", do let a ← pAfterArrow; pure (cleanVerdict a)),
  ("pickleleaf", do let a ← pAfterArrow; pure (cleanVerdict a)),
  ("dumpobj", do let a ← pAfterArrow; pure (cleanVerdict a))
]
end BioCantor.Driver.SpecDig
