/- Spec-driver operations for C20 (imports Base/Spec only) + the token codec shared with the model driver. -/
import BioCantor.Driver.Proto
import BioCantor.Driver.SpecQualifiers
import BioCantor.Spec.Aggregates
namespace BioCantor.Driver.SpecAgg
open BioCantor BioCantor.Proto BioCantor.Spec.Agg
open BioCantor.Driver.SpecQual (pStr encodeStr pArrow verdict pAns)

def pBlk : P Blk := do let s ← pNat; let e ← pNat; pure (s, e)

/-- `<strand> <primary 0|1> <k≥1> (s e)* <c> (s e)* <nt> str*`  (c = 0: non-coding) -/
def pChild : P Child := do
  let st ← pStrand
  let prim ← pBool
  let bl ← pList pBlk
  let cds ← pList pBlk
  let types ← pList pStr
  match bl with
  | [] => throw "child without blocks"
  | b0 :: bs => pure { strand := st, primary := prim, b0 := b0, bs := bs,
                       cds := (if cds.isEmpty then none else some cds), types := types }

def pChildren : P (List Child) := pList pChild

def showBlks (bs : List Blk) : String := " ".intercalate (toString bs.length :: bs.map fun b => s!"{b.1} {b.2}")

def pOptBlks : P (Option (List Blk)) := do
  match (← get) with
  | "None" :: ts => set ts; pure none
  | _ => do let l ← pList pBlk; pure (some l)

def pMergedAns : P (Strand × List Blk) := do let st ← pStrand; let l ← pList pBlk; pure (st, l)

def pOptNat : P (Option Nat) := do
  match (← get) with
  | "-" :: ts => set ts; pure none
  | _ => do let n ← pNat; pure (some n)

def pMembers (isGene : Bool) : P (List Member) := do
  let l ← pList pBlk
  pure (l.zipIdx.map fun (b, i) => ⟨isGene, i, b.1, b.2⟩)

def pKindIdx : P (Bool × Nat) := do
  match (← tok) with
  | "g" => do let i ← pNat; pure (true, i)
  | "f" => do let i ← pNat; pure (false, i)
  | t => throw s!"kind? {t}"

/-- label for F-C20b: several children are flagged and every flagged child but the last has length 0 -/
def zeroLenFlagShape (cs : List Child) : Bool :=
  let fl := cs.filter (·.primary)
  decide (fl.length ≥ 2) && (fl.dropLast.all fun c => c.len == 0)

def verdictFlag {α} (cs : List Child) (a : Option α) (ok : Bool) : String :=
  if ok then "pass" else if a.isSome && zeroLenFlagShape cs then "fail multiflag-zero-length" else "fail"

def ops : List (String × Op) := [
  ("gene", do
      let cs ← pChildren; pArrow
      let a ← pAns (do
        let s ← pNat; let e ← pNat; let c ← pBool; let p ← pNat; let pc ← pOptBlks
        pure ({ start := s, stop := e, coding := c, primary := p, primaryCds := pc } : GeneAns))
      pure (verdictFlag cs a (okGene cs a))),
  -- chunk-built twins (`<lo> <hi> <strand>` of the chunk first): the property's aggregates are stated over the
  -- chromosome-level children, whatever window of the chromosome the object was built on
  ("genek", do
      let _ ← pNat; let _ ← pNat; let _ ← pStrand
      let cs ← pChildren; pArrow
      let a ← pAns (do
        let s ← pNat; let e ← pNat; let c ← pBool; let p ← pNat; let pc ← pOptBlks
        pure ({ start := s, stop := e, coding := c, primary := p, primaryCds := pc } : GeneAns))
      pure (verdictFlag cs a (okGene cs a))),
  ("fcollk", do
      let _ ← pNat; let _ ← pNat; let _ ← pStrand
      let cs ← pChildren; pArrow
      let a ← pAns (do
        let s ← pNat; let e ← pNat; let p ← pNat; let ts ← pList pStr
        pure ({ start := s, stop := e, primary := p, types := ts } : FcollAns))
      pure (verdictFlag cs a (okFcoll cs a))),
  ("gmt", do
      let _ ← pBool; let cs ← pChildren; pArrow
      let a ← pAns pMergedAns
      pure (verdict (okMergedAll cs a))),
  ("gmc", do
      let _ ← pBool; let cs ← pChildren; pArrow
      let a ← pAns pMergedAns
      pure (verdict (okMergedCds cs a))),
  ("fcoll", do
      let cs ← pChildren; pArrow
      let a ← pAns (do
        let s ← pNat; let e ← pNat; let p ← pNat; let ts ← pList pStr
        pure ({ start := s, stop := e, primary := p, types := ts } : FcollAns))
      pure (verdictFlag cs a (okFcoll cs a))),
  ("fmf", do
      let cs ← pChildren; pArrow
      let a ← pAns pMergedAns
      pure (verdict (okMergedAll cs a))),
  ("acoll", do
      let bs ← pOptNat; let be ← pOptNat
      let genes ← pMembers true; let fcs ← pMembers false; pArrow
      let a ← pAns (do
        let n ← pNat; let e ← pBool
        let b ← (do match (← get) with
                    | "None" :: ts => set ts; pure none
                    | _ => do let s ← pNat; let e ← pNat; pure (some (s, e)))
        let o ← pList pKindIdx
        pure ({ len := n, empty := e, bounds := b, order := o } : AcollAns))
      pure (verdict (okAcoll genes fcs (bs, be) a))),
  -- `aciter <genes> <feature collections> <variant collections>`: the members the collection iterates and names
  -- (`iter_children`, `children_guids`, `guid_map`): ALL members - variant collections included, also when there is no
  -- gene and no feature collection - ordered by start, members of equal start in the order genes, feature collections,
  -- variant collections.  Variant collection i is reported as `f <1000 + i>`.
  ("aciter", do
      let genes ← pMembers true; let fcs ← pMembers false; let vcs0 ← pMembers false; pArrow
      let vcs := vcs0.map (fun m => { m with idx := m.idx + 1000 })
      let chain := genes ++ fcs ++ vcs
      let a ← pAns (do
        let o ← pList pKindIdx
        let ng ← pNat; let nm ← pNat
        pure (o, ng, nm))
      pure (verdict (match a with
        | none => false
        | some (o, ng, nm) =>
          ng == chain.length && nm == chain.length &&
          (match recoverOrder chain o with
           | some out => isStableSortByStart chain out
           | none => false)))),
  -- the same with a chromosome parent: `<ps> <pe>` = its location ("- -": a parent without location)
  ("acollp", do
      let ps ← pOptNat; let pe ← pOptNat
      let bs ← pOptNat; let be ← pOptNat
      let genes ← pMembers true; let fcs ← pMembers false; pArrow
      let a ← pAns (do
        let n ← pNat; let e ← pBool
        let b ← (do match (← get) with
                    | "None" :: ts => set ts; pure none
                    | _ => do let s ← pNat; let e ← pNat; pure (some (s, e)))
        let o ← pList pKindIdx
        pure ({ len := n, empty := e, bounds := b, order := o } : AcollAns))
      let pb := match ps, pe with | some s, some e => some (s, e) | _, _ => none
      pure (verdict (okAcollP pb genes fcs (bs, be) a))),
  -- chunk-built twin of `acollp` (members and collection on the sequence chunk [ps, pe)): same required answers
  ("acollk", do
      let ps ← pOptNat; let pe ← pOptNat
      let bs ← pOptNat; let be ← pOptNat
      let genes ← pMembers true; let fcs ← pMembers false; pArrow
      let a ← pAns (do
        let n ← pNat; let e ← pBool
        let b ← (do match (← get) with
                    | "None" :: ts => set ts; pure none
                    | _ => do let s ← pNat; let e ← pNat; pure (some (s, e)))
        let o ← pList pKindIdx
        pure ({ len := n, empty := e, bounds := b, order := o } : AcollAns))
      let pb := match ps, pe with | some s, some e => some (s, e) | _, _ => none
      pure (verdict (okAcollP pb genes fcs (bs, be) a))),
  -- accessors of the primary member, compared by the harness on real objects with sequence:
  -- `ok <p> <flags>`: every flag must be 1 (get_primary_transcript/feature is member p, and the sequence, CDS
  -- sequence and protein accessors return member p's values)
  ("gacc", do
      let cs ← pChildren; pArrow
      let a ← pAns (do let p ← pNat; let fl ← pList pBool; pure (p, fl))
      if cs.isEmpty || multiFlag cs then pure (verdictFlag cs a a.isNone)
      else match a with
        | none => pure "fail"
        | some (p, fl) => pure (verdict (okPrimary cs p && fl.all id)))
]
end BioCantor.Driver.SpecAgg
