/-
  Model-driver operations of C02 (location set algebra with parents).

  Located literal on an op line:   <parent> <rawloc>
     <parent>  ::= P <n> (<id> <sequence_type> <sequence>){n}      chain parent, grand-parent, …; `_` = None;
                                                                     `P 0` = no parent
     <rawloc>  ::= as in Driver/Proto.lean (S/C/E)
  Located answer:                  <loc> <parent>
-/
import BioCantor.Driver.Proto
import BioCantor.Driver.Loc
import BioCantor.Model.Algebra
namespace BioCantor.Driver.Algebra
open BioCantor BioCantor.Proto BioCantor.Model

def pOptStr : P (Option String) := do
  let t ← tok
  pure (if t = "_" then none else some t)

def pPInfo : P PInfo := do
  let i ← pOptStr
  let t ← pOptStr
  let s ← pOptStr
  pure (i, t, s.map String.toList)

def pPar : P PKey := do
  match (← tok) with
  | "P" => pList pPInfo
  | t => throw s!"parent? {t}"

def showOptStr : Option String → String
  | none => "_"
  | some s => s

def showPar (p : PKey) : String :=
  let items := p.map (fun i => s!"{showOptStr (pinfoId i)} {showOptStr (pinfoType i)} {showOptStr ((pinfoSeq i).map String.ofList)}")
  " ".intercalate (s!"P {p.length}" :: items)

def showPLoc (l : PLoc) : String := showLocation l.1 ++ " " ++ showPar l.2

/-- the modelled constructors, with the bounds test against the parent's sequence -/
def buildP (par : PKey) (raw : RawLoc) : R PLoc := do
  let l ← Loc.build raw
  match l with
  | .empty => pure (.empty, [])
  | .single b _ => do checkEnd b.2 par; pure (l, par)
  | .compound c => do checkEnd (maxEnd c.blocks) par; pure (l, par)

def pPLoc : P (R PLoc) := do
  let par ← pPar
  let r ← pRawLoc
  pure (buildP par r)

def pDist : P DistType := do
  match (← tok) with
  | "inner" => pure .inner
  | "outer" => pure .outer
  | "starts" => pure .starts
  | "ends" => pure .ends
  | t => throw s!"dist? {t}"

def showGaps (gs : List (Strand × Blk)) : String :=
  " ".intercalate (toString gs.length :: gs.map (fun g => s!"{strandSym g.1} {g.2.1} {g.2.2}"))

def unary (f : PLoc → R PLoc) : Op := do
  let a ← pPLoc
  pure (showR showPLoc (do let x ← a; f x))

def ops : List (String × Op) := [
  ("mk", unary pure),
  ("overlap", do
      let a ← pPLoc; let b ← pPLoc; let ms ← pBool; let fs ← pBool; let st ← pBool
      pure (showR showBool (do let x ← a; let y ← b; hasOverlapP x y ms fs st))),
  ("isect", do
      let a ← pPLoc; let b ← pPLoc; let ms ← pBool; let fs ← pBool; let st ← pBool
      pure (showR showPLoc (do let x ← a; let y ← b; intersectionP x y ms fs st))),
  ("union", do
      let a ← pPLoc; let b ← pPLoc
      pure (showR showPLoc (do let x ← a; let y ← b; unionP x y))),
  ("unionpo", do
      let a ← pPLoc; let b ← pPLoc
      pure (showR showPLoc (do let x ← a; let y ← b; unionPreserveP x y))),
  ("minus", do
      let a ← pPLoc; let b ← pPLoc; let ms ← pBool; let st ← pBool
      pure (showR showPLoc (do let x ← a; let y ← b; minusP x y ms st))),
  ("contains", do
      let a ← pPLoc; let b ← pPLoc; let ms ← pBool; let fs ← pBool; let st ← pBool
      pure (showR showBool (do let x ← a; let y ← b; containsP x y ms fs st))),
  ("gaplist", do
      let a ← pPLoc
      pure (showR showGaps (do let x ← a; gapListP x))),
  ("gaps", unary gapsLocationP),
  ("optimize", unary optimizeBlocksP),
  ("optcombine", unary optimizeAndCombineP),
  ("mergeov", unary mergeOverlappingP),
  ("extabs", do
      let a ← pPLoc; let es ← pInt; let ee ← pInt
      pure (showR showPLoc (do let x ← a; extendAbsoluteP x es ee))),
  ("extrel", do
      let a ← pPLoc; let up ← pInt; let down ← pInt
      pure (showR showPLoc (do let x ← a; extendRelativeP x up down))),
  ("dist", do
      let a ← pPLoc; let b ← pPLoc; let ty ← pDist
      pure (showR toString (do let x ← a; let y ← b; distanceP x y ty))),
  ("eqhash", do
      let a ← pPLoc; let b ← pPLoc
      pure (showR (fun (p : Bool × Bool) => showBool p.1 ++ " " ++ showBool p.2)
        (do let x ← a; let y ← b
            pure (eqHashP x y)))),
  ("reverse", unary reverseP),
  ("revstrand", unary reverseStrandP),
  ("resetstrand", do
      let a ← pPLoc; let ns ← pStrand
      pure (showR showPLoc (do let x ← a; resetStrandP x ns))),
  ("shift", do
      let a ← pPLoc; let k ← pInt
      pure (showR showPLoc (do let x ← a; shiftP x k)))
]

end BioCantor.Driver.Algebra
