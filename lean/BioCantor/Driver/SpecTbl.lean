/-
  Spec-driver operations of C17 (imports Base / Proto / Spec only): `<op line> => <answer>` ↦ pass | fail … | n/a.
  The failure text names the violated clauses; it is used only to keep the matchers of the known findings narrow.
-/
import BioCantor.Driver.Proto
import BioCantor.Spec.Tbl
namespace BioCantor.Driver.SpecTbl
open BioCantor BioCantor.Proto BioCantor.Spec BioCantor.Spec.Tbl

def pArrow : P Unit := do
  match (← tok) with
  | "=>" => pure ()
  | t => throw s!"=>? {t}"

partial def pRest : P (List String) := do
  match (← get) with
  | [] => pure []
  | _ => do let x ← tok; let xs ← pRest; pure (x :: xs)

def decChars : List Char → List Char
  | '\\' :: 't' :: r => '\t' :: decChars r
  | '\\' :: 'n' :: r => '\n' :: decChars r
  | '\\' :: 'r' :: r => '\r' :: decChars r
  | '\\' :: 's' :: r => ' ' :: decChars r
  | '\\' :: '-' :: r => '~' :: decChars r
  | '\\' :: '\\' :: r => '\\' :: decChars r
  | c :: r => c :: decChars r
  | [] => []

def decText (t : String) : List Char := if t = "\\e" then [] else decChars t.toList

def decTok (t : String) : Option (List Char) :=
  if t = "~" then none else if t = "\\e" then some [] else some (decChars t.toList)

def pOptStr : P (Option (List Char)) := do let t ← tok; pure (decTok t)
def pStr : P (List Char) := do
  match ← pOptStr with
  | some s => pure s
  | none => throw "str? ~"

def pNatPair : P Blk := do let a ← pNat; let b ← pNat; pure (a, b)

/-- a parsed transcript with what only the diagnosis needs (`ttype` missing) -/
structure TxTok where
  tx : TxIn
  ttypeNone : Bool

def pTx : P TxTok := do
  let ttype ← pOptStr
  let st ← pStrand
  let exons ← pList pNatPair
  let cds ← pList pNatPair
  if cds.isEmpty then pure ⟨⟨st, exons, none⟩, ttype.isNone⟩
  else do
    let f ← pNat; let _sh ← pNat
    pure ⟨⟨st, exons, some (cds, f)⟩, ttype.isNone⟩

structure GeneTok where
  gene : GeneIn
  ttypeNoneNoncoding : Bool

def pGene : P GeneTok := do
  let gtype ← pOptStr
  let _sym ← pOptStr
  let txs ← pList pTx
  let g : GeneIn := ⟨gtype, txs.map (·.tx)⟩
  let special := gtype = some "rRNA".toList ∨ gtype = some "tRNA".toList
  pure ⟨g, g.noneCoding && !special && txs.any (·.ttypeNone)⟩

def goodAll (bs : List Blk) : Bool := !bs.isEmpty && goodBlocks bs

/-- block lists the property quantifies over, CDS inside the genome -/
def geneInScope (genome : Str) (g : GeneIn) : Bool :=
  !g.txs.isEmpty && g.txs.all (fun t =>
    goodAll t.exons && t.exons.all (fun b => decide (b.2 ≤ genome.length)) && t.strand.isDirectional &&
    (match t.cds with
     | none => true
     | some (c, f) => goodAll c && decide (f < 3) && c.all (fun b => decide (b.2 ≤ genome.length))))

def mixedGene (g : GeneIn) : Bool := !g.allCoding && !g.noneCoding

def codonless (genome : Str) (_table : Nat) (g : GeneIn) : Bool :=
  g.txs.any (fun t => match t.cdsIn genome with
    | some c => c.codons == some []
    | none => false)

/-- names of the clauses feature `f` violates against expectation `w` -/
def featFailures (pre : Str) (w : Want) (f : Feat) : List String :=
  (if w.keyOk f.key then [] else ["key"]) ++
  (if okRowsMerged w f then []
   else if okRowsExact w f then
     (if rnaKeys.contains f.key then ["rna-rows-unmerged"] else ["rows-unmerged"])
   else ["rows"]) ++
  (if okMarks w f then [] else ["partial-marks"]) ++
  (if okPseudo w f then [] else ["pseudo"]) ++
  (if okCodonStart w f then [] else ["codon_start"]) ++
  (if okLocusTag pre w f then [] else ["locus_tag"])

def allFailures (pre : Str) : List Want → List Feat → List String
  | [], [] => []
  | w :: ws, f :: fs => featFailures pre w f ++ allFailures pre ws fs
  | _, _ => ["feature-count"]

def dedup : List String → List String
  | [] => []
  | x :: xs => if xs.contains x then dedup xs else x :: dedup xs

def verdictOf (fails : List String) : String :=
  match dedup fails with
  | [] => "pass"
  | l => "fail " ++ ",".intercalate l

/-- frame vector of ONE uninterrupted reading frame that starts `f` bases into the CDS, ascending block order:
    the 5'-most block shows `f`; a block that begins `n` CDS bases downstream shows `(n − f) mod 3`, or `f − n`
    (the part of the offset still to be skipped) while `n < f` -/
def consistentFrames (blocks : List Blk) (st : Strand) (f : Nat) : List Nat :=
  let order := if st = .minus then blocks.reverse else blocks
  let rec go : List Blk → Nat → List Nat
    | [], _ => []
    | b :: rest, n => (if n < f then f - n else (n - f) % 3) :: go rest (n + b.len)
  let fr := match order with
    | [] => []
    | b :: rest => f :: go rest b.len
  if st = .minus then fr.reverse else fr

/-- the 5'-most block of the merged CDS is shorter than the start frame (F-C05h territory) -/
def shortFirstBlock (t : TxIn) : Bool :=
  match t.cds with
  | none => false
  | some (c, f) =>
    let m := mergedBlocks c
    match (if t.strand = .minus then m.getLast? else m.head?) with
    | some b => decide (b.len < f) && decide (m.length > 1)
    | none => false

def ops : List (String × Op) := [
  ("locstr", do
      let key ← tok
      let st ← pStrand
      let si ← pBool; let ei ← pBool
      let bl ← pList pNatPair
      pArrow
      let ans ← pRest
      if !goodAll bl then pure "n/a" else
      match ans with
      | ["ok", text] =>
        match readFeatures (decText text) with
        | some [f] =>
          let w : Want := ⟨fun k => k = key.toList, [st], bl, si, ei, false, none, 0⟩
          pure (verdictOf (
            (if w.keyOk f.key then [] else ["key"]) ++ (if okRowsExact w f then [] else ["rows"]) ++
            (if okMarks w f then [] else ["partial-marks"]) ++ (if f.quals.isEmpty then [] else ["quals"])))
        | _ => pure "fail unreadable"
      | _ => pure "fail refused"),
  ("quals", do
      let _key ← tok
      let pseudo ← pBool
      let q ← pList (do let k ← pStr; let vs ← pList pOptStr; pure (k, vs))
      pArrow
      let ans ← pRest
      -- keys / values with a tab or a line break are outside the format
      let clean := q.all (fun kv => (kv.1 :: kv.2.filterMap id).all (fun s => !s.contains '\t' && !s.contains '\n'))
      if !clean then pure "n/a" else
      match ans with
      | ["ok", text] =>
        match readFeatures ("1\t1\tgene\t\t\n".toList ++ decText text) with
        | some [f] =>
          let w : Want := ⟨fun _ => true, [], [], false, false, pseudo, none, 0⟩
          pure (verdictOf (if okPseudo w f then [] else ["pseudo"]))
        | _ => pure "fail unreadable"
      | _ => pure "fail refused"),
  ("cdsfeat", do
      let table ← pNat
      let st ← pStrand
      let genome ← tok
      let ex ← pList (do let a ← pNat; let b ← pNat; let f ← pNat; pure ((a, b), f))
      pArrow
      let ans ← pRest
      let blocks := ex.map (·.1)
      let frames := ex.map (·.2)
      let g := genome.toList
      if !(goodAll blocks && blocks.all (fun b => decide (b.2 ≤ g.length)) && st.isDirectional) then pure "n/a" else
      let f0 := (if st = .minus then frames.getLast? else frames.head?)
      match f0 with
      | none => pure "n/a"
      | some f =>
      if f ≥ 3 then pure "n/a" else
      let c : CdsIn := ⟨blocks, st, f, g⟩
      let plain := frames == consistentFrames blocks st f
      match ans with
      | ["ok", cs, si, ei, ps, text] =>
        match readFeatures (decText text) with
        | some [ft] =>
          let wRows : Want := ⟨fun k => k = "CDS".toList, [st], blocks, si = "1", ei = "1", false, none, 0⟩
          let base := (if cs.toNat? = some (f + 1) then [] else ["codon_start"]) ++
                      (if okRowsExact wRows ft then [] else ["rows"]) ++
                      (if okMarks wRows ft then [] else ["marks-vs-flags"]) ++
                      (if wRows.keyOk ft.key then [] else ["key"])
          if !plain then pure (verdictOf base) else
          match c.startPartial table, c.endPartial, c.inFrameStop with
          | some wsi, some wei, some wps =>
            pure (verdictOf (base ++ (if (si = "1") = wsi then [] else ["partial5"]) ++
                                     (if (ei = "1") = wei then [] else ["partial3"]) ++
                                     (if (ps = "1") = wps then [] else ["pseudo"])))
          | _, _, _ => pure "fail answered-without-first-codon"
        | _ => pure "fail unreadable"
      | "err" :: _ =>
        pure (if plain && (c.startPartial table).isSome && !(cdsCodons ⟨blocks, st⟩ frames).isEmpty then "fail refused"
              else "pass")
      | "err!" :: _ =>
        -- "no complete codon" by the reference walk of C05 over the frame vector as given
        pure (if (cdsCodons ⟨blocks, st⟩ frames).isEmpty then "fail internal-error,codonless-cds"
              else "fail internal-error")
      | _ => pure "fail unreadable-answer"),
  ("seed", do
      let t ← tok
      pArrow
      let ans ← pRest
      -- "output for a fixed seed is reproducible": every given seed must take effect
      if t = "~" then pure "n/a" else
      pure (if ans = ["ok", "applied"] then "pass" else "fail repro")),
  ("locustags", do
      let pre ← pStr
      let step ← pInt
      let ns ← pList pNat
      pArrow
      let ans ← pRest
      if step < 0 then pure "n/a" else
      match ans with
      | "ok" :: toks =>
        let tags := toks.map decText
        let n := ns.foldl (· + ·) 0
        pure (verdictOf ((if tags.length = n then [] else ["count"]) ++
                         (if okTags pre step.toNat tags then [] else ["tags"])))
      | _ => pure "fail refused"),
  -- `headers <how> <m> {name n}…`: one export call over m collections (names may repeat, in any order; handed over as a
  -- list, a tuple or a one-shot iterator): the file lists, in the order of the collections, one `>Features <name>` header
  -- per collection, each followed by exactly that collection's genes
  ("headers", do
      let _how ← tok
      let cs ← pList (do let nm ← tok; let n ← pNat; pure (nm, n))
      pArrow
      let ans ← pRest
      match ans with
      | "ok" :: toks =>
        let want := cs.map (fun c => s!"{c.1}:{c.2}")
        pure (verdictOf (if toks = want then [] else ["headers"]))
      | _ => pure "fail refused"),
  ("coll", do
      let flavor ← tok
      let table ← pNat
      let pre ← pOptStr
      let step ← pInt
      let _seed ← tok
      let _lab ← pOptStr
      let seqName ← pOptStr
      let genome ← tok
      let gts ← pList pGene
      pArrow
      let ans ← pRest
      let g := genome.toList
      let genes := gts.map (·.gene)
      if !(genes.all (geneInScope g)) || step < 0 then pure "n/a" else
      let anyMixed := genes.any mixedGene
      let anyCodonless := genes.any (codonless g table)
      let anyTtypeNone := gts.any (·.ttypeNoneNoncoding)
      let shortTag := if genes.any (fun g => g.txs.any shortFirstBlock) then " [short-first-cds-block]" else ""
      match ans, pre, seqName with
      | ["ok", repro, text], some pre, some seqName =>
        let c : CollIn := ⟨seqName, g, genes, table, flavor = "P", pre, step.toNat⟩
        if anyMixed then pure "fail answered-outside-claim" else
        match read (decText text), wantAll c 1 genes with
        | some [s], some ws =>
          let v := verdictOf ((if s.seqId == seqName then [] else ["header"]) ++ allFailures pre ws s.feats ++
                             (if repro = "R0" then ["repro"] else []))
          pure (if v ≠ "pass" then v ++ shortTag else v)
        | some _, some _ => pure "fail sections"
        | none, _ => pure "fail unreadable"
        | _, none => pure "n/a"
      | "err" :: cls :: _, _, _ =>
        -- documented refusals: a gene with coding and non-coding isoforms; no sequence name; an unreadable CDS
        if anyMixed && cls = "NoncodingTranscript" then pure "pass"
        else if seqName.isNone && cls = "Export" then pure "pass"
        else if anyCodonless then pure "pass"
        else pure ("fail refused" ++ shortTag)
      | "err!" :: _, _, _ =>
        pure ("fail internal-error" ++ (if anyCodonless then ",codonless-cds" else "") ++
              (if anyTtypeNone then ",ttype-none" else "") ++ shortTag)
      | _, _, _ => pure "n/a")
]

end BioCantor.Driver.SpecTbl
