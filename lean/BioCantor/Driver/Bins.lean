/- Model-driver operations for C16: the GENERATED `Gen.bins`. -/
import BioCantor.Driver.Proto
import BioCantor.Gen.Kernels
import BioCantor.Spec.Bins
namespace BioCantor.Driver.Bins
open BioCantor BioCantor.Proto BioCantor.GenP BioCantor.Gen

def pFmt : P CoordFmt := do
  match (← tok) with
  | "bed" => pure .bed
  | "gff" => pure .gff
  | t => throw s!"fmt? {t}"

def showRuns (rs : List (Int × Int)) : String :=
  " ".intercalate (rs.map fun r => s!"{r.1}-{r.2}")

def showBins : PyR BinsResult → String
  | .ok (.one n) => s!"ok one {n}"
  | .ok (.many s) => s!"ok many {showRuns (Spec.normRuns s)}"
  | .error _ => "err ValueError"

def ops : List (String × Op) := [
  ("bins", do
      let s ← pInt; let e ← pInt; let f ← pFmt; let one ← pBool
      pure (showBins (bins s e f one))),
  ("binpair", do
      let qs ← pInt; let qe ← pInt; let fs ← pInt; let fe ← pInt; let f ← pFmt
      match bins qs qe f false, bins fs fe f true with
      | .ok (.many S), .ok (.one b) => pure s!"ok {showBool (S.mem b)}"
      | _, _ => pure "err TypeError")
]
end BioCantor.Driver.Bins
