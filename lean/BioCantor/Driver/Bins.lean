/- Model-driver operations for C16: the GENERATED `Gen.bins`. -/
import BioCantor.Driver.Proto
import BioCantor.Gen.Kernels
import BioCantor.Spec.Bins
namespace BioCantor.Driver.Bins
open BioCantor BioCantor.Proto BioCantor.GenP BioCantor.Gen

def pFmt : P CoordFmt := do
  match (← tok) with
  | "bed" => pure .bed
  | "gff" => pure .gff
  | t => throw s!"fmt? {t}"

def showRuns (rs : List (Int × Int)) : String :=
  " ".intercalate (rs.map fun r => s!"{r.1}-{r.2}")

def showBins : PyR BinsResult → String
  | .ok (.one n) => s!"ok one {n}"
  | .ok (.many s) => s!"ok many {showRuns (Spec.normRuns s)}"
  | .error _ => "err ValueError"

/-- body of the `bquery` op (shared with `bqueryk`, whose four leading ints — chunk window and collection bounds —
    do not enter the expected answer: membership is decided on chromosome coordinates) -/
def bqBody : Op := do
      let cw ← pBool; let qs ← pInt; let qe ← pInt
      let kids ← pList (do let _k ← tok; pList pIntPair)
      -- `if completely_within and start and end` (Python truthiness of ints)
      let useBins := cw && qs != 0 && qe != 0
      let myBins : Option RangeSet :=
        if useBins then (match bins qs qe .bed false with | .ok (.many S) => some S | _ => none) else none
      let keep (members : List (Int × Int)) : Bool :=
        match members with
        | [] => false
        | m :: ms =>
          let cs := ms.foldl (fun a x => min a x.1) m.1
          let ce := ms.foldl (fun a x => max a x.2) m.2
          let binOk := match myBins with
            | none => true
            | some S => members.any (fun x => match bins x.1 x.2 .bed true with | .ok (.one b) => S.mem b | _ => false)
          -- contains(full_span) / has_overlap(full_span) of the query interval against the child span
          let spanOk := if cw then decide (qs ≤ cs ∧ ce ≤ qe ∧ cs < ce ∧ qs < qe) else decide (cs < qe ∧ qs < ce ∧ cs < ce ∧ qs < qe)
          binOk && spanOk
      let idx := (List.range kids.length).filter (fun i => match kids[i]? with | some m => keep m | none => false)
      pure ("ok " ++ " ".intercalate (idx.map toString))

def ops : List (String × Op) := [
  ("bins", do
      let s ← pInt; let e ← pInt; let f ← pFmt; let one ← pBool
      pure (showBins (bins s e f one))),
  ("binpair", do
      let qs ← pInt; let qe ← pInt; let fs ← pInt; let fe ← pInt; let f ← pFmt
      match bins qs qe f false, bins fs fe f true with
      | .ok (.many S), .ok (.one b) => pure s!"ok {showBool (S.mem b)}"
      | _, _ => pure "err TypeError"),
  -- the bin stored on an interval object at construction: bins(start, end, fmt="bed")
  ("objbin", do
      let _kind ← tok; let s ← pInt; let e ← pInt
      pure (showBins (bins s e .bed true))),
  -- `_query_by_position` on children given as lists of member spans (pure-Python branch)
  ("bquery", bqBody),
  ("bqueryk", do let _ ← pInt; let _ ← pInt; let _ ← pInt; let _ ← pInt; bqBody)
]
end BioCantor.Driver.Bins
