/- Model-driver operations for C15: `Model.Tab.*` (look-ups in the GENERATED tables) and the GENERATED kernels. -/
import BioCantor.Driver.Proto
import BioCantor.Model.Tables
namespace BioCantor.Driver.Tables
open BioCantor BioCantor.Proto BioCantor.GenP BioCantor.Model.Tab

def pText : P (List Char) := do let t ← tok; pure t.toList

def pChar : P Char := do
  match (← tok).toList with
  | [c] => pure c
  | t => throw s!"char? {String.ofList t}"

def str (cs : List Char) : String := String.ofList cs

def showExc : PyExc → String
  | .InvalidPositionException => "InvalidPosition" | .InvalidStrandException => "InvalidStrand"
  | .ValueError => "ValueError" | .TypeError => "TypeError" | .KeyError => "KeyError"
  | .UnsupportedOperationException => "UnsupportedOperation" | .EmptyLocationException => "EmptyLocation"
  | .LocationException => "Location" | .NotImplementedError => "NotImplemented"
  | .MismatchedFrameException => "MismatchedFrame" | .InvalidCDSIntervalError => "InvalidCDSInterval"

def showP {α} (sh : α → String) : PyR α → String
  | .ok a => "ok " ++ sh a
  | .error e => "err " ++ showExc e

def showCodons (cs : List (List Char)) : String :=
  " ".intercalate (toString cs.length :: cs.map str)

def insertStr (x : String) : List String → List String
  | [] => [x]
  | y :: ys => if x ≤ y then x :: y :: ys else y :: insertStr x ys
def sortStr (xs : List String) : List String := xs.foldr insertStr []

def showSorted (cs : List (List Char)) : String :=
  " ".intercalate (toString cs.length :: sortStr (cs.map str))

def strandNameOf : Strand → String
  | .plus => "PLUS" | .minus => "MINUS" | .unstranded => "UNSTRANDED"

def pStrandName : P Strand := do
  match (← tok) with
  | "PLUS" => pure .plus | "MINUS" => pure .minus | "UNSTRANDED" => pure .unstranded
  | t => throw s!"strand? {t}"

def frameName : CDSFrame → String
  | .NONE => "NONE" | .ZERO => "ZERO" | .ONE => "ONE" | .TWO => "TWO"
def phaseName : CDSPhase → String
  | .NONE => "NONE" | .ZERO => "ZERO" | .ONE => "ONE" | .TWO => "TWO"

def pFrame : P CDSFrame := do
  match (← tok) with
  | "NONE" => pure .NONE | "ZERO" => pure .ZERO | "ONE" => pure .ONE | "TWO" => pure .TWO
  | t => throw s!"frame? {t}"
def pPhase : P CDSPhase := do
  match (← tok) with
  | "NONE" => pure .NONE | "ZERO" => pure .ZERO | "ONE" => pure .ONE | "TWO" => pure .TWO
  | t => throw s!"phase? {t}"

def showOptChar : Option Char → String
  | some c => s!"ok {c}"
  | none => "none"

def showMembers (ms : List (List Char × Int)) : String :=
  "ok " ++ ",".intercalate (ms.map fun p => s!"{str p.1}={p.2}")

/-- codon op: construct, then apply -/
def withCodon {α} (s : List Char) (f : List Char → PyR α) : PyR α :=
  match mkCodon s with
  | .error e => .error e
  | .ok v => f v

/-- codon arguments may be written `seq:TEXT` (the harness then passes a Sequence object): `str()` of it is TEXT -/
def stripSeq (t : List Char) : List Char :=
  match t with
  | 's' :: 'e' :: 'q' :: ':' :: r => r
  | _ => t

def showOC : Option Char → String
  | some c => c.toString
  | none => "!"
def showOB : Option Bool → String
  | some true => "T" | some false => "F" | none => "!"
def showOSyn : Option (List (List Char)) → String
  | some cs => s!"{cs.length}:" ++ ",".intercalate (cs.map str)
  | none => "!"

def showAnswers (a : Answers) : String :=
  " ".intercalate [str a.text, showOC a.trStrict, showOC a.trLoose, showOB a.stop, showOB a.strict, showOB a.canon,
    showOB a.st0, showOB a.st1, showOB a.st11, showOSyn a.syn0, showOSyn a.syn1]

def showOutcome (o : Bool × Bool) : String :=
  if o.1 then (if o.2 then "OY" else "ON") else "X-"

def ops : List (String × Op) := [
  ("hist", do
      let h ← pText; let sps ← pList pText
      pure (showP (fun (r : Answers × List (Bool × Bool) × Answers × (Bool × Bool × Bool)) =>
          let (a0, outs, a1, (x, y, z)) := r
          s!"{showAnswers a0} | {outs.length} {" ".intercalate (outs.map showOutcome)} | {showAnswers a1} | {showOB (some x)} {showOB (some y)} {showOB (some z)}")
        (hist (stripSeq h) (sps.map stripSeq)))),
  ("translate", do
      let s ← pText; let strict ← pBool
      pure (showP (fun (c : Char) => c.toString) (withCodon s fun v => .ok (translate v strict)))),
  ("syn", do
      let s ← pText; let incl ← pBool
      pure (showP showCodons (withCodon s fun v => synonymousCodons v incl))),
  ("is_stop", do let s ← pText; pure (showP showBool (withCodon s isStopCodon))),
  ("is_strict", do let s ← pText; pure (showP showBool (withCodon s fun v => .ok (isStrictCodon v)))),
  ("is_canon", do let s ← pText; pure (showP showBool (withCodon s fun v => .ok (isCanonicalStart v)))),
  ("is_start", do
      let s ← pText; let t ← pInt
      pure (showP showBool (withCodon s fun v => isStartCodon v t))),
  ("aacodons", do let a ← pChar; pure (showP showCodons (aaCodons a))),
  ("complement", do let n ← pText; let c ← pChar; pure (showOptChar (complementChar n c))),
  ("complement2", do let n ← pText; let c ← pChar; pure (showOptChar (complementTwice n c))),
  ("revcomp", do
      let n ← pText; let t ← pText
      pure (match reverseComplement n (if t == "_".toList then [] else t) with
            | some r => "ok " ++ (if r.isEmpty then "_" else String.ofList r)
            | none => "none")),
  ("alphabet", do
      let n ← pText
      pure (showP (fun (p : List Char × Bool) => s!"{str p.1} {showBool p.2}") (alphabetInfo n))),
  ("shift", do
      let f ← pFrame; let n ← pInt
      pure (showP frameName (Gen.CDSFrame_shift f n))),
  ("to_phase", do let f ← pFrame; pure (showP phaseName (Gen.CDSFrame_to_phase f))),
  ("to_frame", do let p ← pPhase; pure (showP frameName (Gen.CDSPhase_to_frame p))),
  ("frame_int", do let v ← pInt; pure (showP frameName (frameOfInt v))),
  ("phase_int", do let v ← pInt; pure (showP phaseName (phaseOfInt v))),
  ("frame_val", do let f ← pFrame; pure s!"ok {f.value}"),
  ("phase_val", do let p ← pPhase; pure s!"ok {p.value}"),
  ("strand_rev", do let s ← pStrandName; pure (showP strandNameOf (Gen.Strand_reverse s))),
  ("strand_rel", do
      let a ← pStrandName; let b ← pStrandName
      pure (showP strandNameOf (Gen.Strand_relative_to a b))),
  ("strand_sym", do let x ← pText; pure (showP strandNameOf (Gen.Strand_from_symbol x))),
  ("strand_tosym", do let s ← pStrandName; pure (showP str (Gen.Strand_to_symbol s))),
  ("strand_int", do let v ← pInt; pure (showP strandNameOf (strandOfInt v))),
  ("strand_val", do let s ← pStrandName; pure s!"ok {s.value}"),
  ("strand_lt", do let a ← pStrandName; let b ← pStrandName; pure (showP showBool (strandLt a b))),
  ("biotype", do
      let a ← pText; let b ← pText
      pure (showP (fun (p : Int × Int) => s!"{p.1} {p.2}") (biotypePair a b))),
  ("enum", do
      match (← tok) with
      | "Strand" => pure (showMembers Gen.strandMembers)
      | "CDSFrame" => pure (showMembers Gen.cdsFrameMembers)
      | "CDSPhase" => pure (showMembers Gen.cdsPhaseMembers)
      | "TranslationTable" => pure (showMembers Gen.translationTables)
      | "StrandOrder" => pure (showMembers Gen.strandOrder)
      | t => throw s!"enum? {t}"),
  -- operations whose implementation side is Biopython (oracle); the model side are the generated tables
  ("bio.std", do
      let s ← pText
      pure (showP (fun (c : Char) => c.toString) (dictGetE Gen.gencode s))),
  ("bio.complement", do let c ← pChar; pure (showOptChar (complementChar "NT_EXTENDED_GAPPED".toList c))),
  ("bio.starts", do
      let t ← pInt
      pure (showP showSorted (dictGetE Gen.startCodons t))),
  ("bio.stops", do pure (showP showSorted (aaCodons '*')))
]

end BioCantor.Driver.Tables
