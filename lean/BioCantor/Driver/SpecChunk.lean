/-
  Spec-driver operations for C07 (imports Base and Spec only):
      <op> <chromosome letters> <ws> <we> <wst> <OBJ> [extras] [via:<ctor>] [@k|@c] => <answer>   ↦   pass | fail <class> | n/a
  The line format is documented in harness/impl_chunk.py.  `via:` (alternative constructor of the chunk twin) and
  `@k` / `@c` (which views were evaluated first) do not change the predicate an answer is judged by.  `fail <class>`: the class names a known deviation of the
  pinned library (Spec.Chunk.*Class) or `unclassified`; findings/C07.json matches on it.
  The literal parser `pDesc` is shared with the model driver (Driver/Chunk.lean).
-/
import BioCantor.Driver.Proto
import BioCantor.Driver.SpecLoc
import BioCantor.Driver.SpecCDS
import BioCantor.Spec.Chunk
namespace BioCantor.Driver.SpecChunk
open BioCantor BioCantor.Proto BioCantor.Spec BioCantor.Spec.Chunk BioCantor.Driver.SpecLoc
open BioCantor.Driver.SpecCDS (Ans pAns3 pRest pS pLocs verdictC)

def pBlk : P Blk := do let a ← pNat; let b ← pNat; pure (a, b)
def pBlkF : P (Blk × Nat) := do let a ← pNat; let b ← pNat; let f ← pNat; pure ((a, b), f)

def expectTok (t : String) : P Unit := do
  let x ← tok
  if x = t then pure () else throw s!"{t}? {x}"

def pFeatBody : P FeatD := do let st ← pStrand; let bs ← pList pBlk; pure ⟨st, bs⟩
def pTxBody : P TxD := do let st ← pStrand; let ex ← pList pBlk; let cds ← pList pBlkF; pure ⟨st, ex, cds⟩
def pCdsBody : P CdsD := do let st ← pStrand; let ex ← pList pBlkF; pure ⟨st, ex⟩
def pGeneBody : P GeneD := do let txs ← pList (do expectTok "T"; pTxBody); pure ⟨txs⟩
def pFicBody : P FicD := do let fs ← pList (do expectTok "F"; pFeatBody); pure ⟨fs⟩
def pAcBody : P AcD := do
  let genes ← pList (do expectTok "G"; pGeneBody)
  let fics ← pList (do expectTok "Q"; pFicBody)
  let b ← tok
  let bounds ← match b with
    | "B" => do let x ← pBlk; pure (some x)
    | "N" => pure none
    | t => throw s!"B|N? {t}"
  pure ⟨genes, fics, bounds⟩

def pDesc : P Desc := do
  match (← tok) with
  | "F" => do let x ← pFeatBody; pure (.feat x)
  | "T" => do let x ← pTxBody; pure (.tx x)
  | "D" => do let x ← pCdsBody; pure (.cds x)
  | "G" => do let x ← pGeneBody; pure (.gene x)
  | "Q" => do let x ← pFicBody; pure (.fic x)
  | "A" => do let x ← pAcBody; pure (.ac x)
  | t => throw s!"obj? {t}"

structure Head where
  letters : List Char
  win : Chunk.Win
  desc : Desc

def pHead : P Head := do
  let letters ← tok
  let ws ← pNat; let we ← pNat; let wst ← pStrand
  let d ← pDesc
  pure ⟨letters.toList, ⟨(ws, we), wst⟩, d⟩

/-! ### trailing modifiers -/

def peek : P (Option String) := do
  match (← get) with
  | [] => pure none
  | t :: _ => pure (some t)

structure Mods where
  via : Option Via
  pre : Option Char

def pMods : P Mods := do
  let via ← (do
    match (← peek) with
    | some t =>
      if t.startsWith "via:" then do
        let _ ← tok
        match t.splitOn ":" with
        | ["via", "fcrl"] => pure (some Via.fcrl)
        | ["via", "dict"] => pure (some Via.dict)
        | ["via", "lift"] => pure (some Via.lift)
        | ["via", "relift"] => pure (some Via.relift)
        | ["via", "snv", p] => match p.toNat? with
          | some n => pure (some (Via.snv n))
          | none => throw s!"via? {t}"
        | _ => throw s!"via? {t}"
      else pure none
    | none => pure none : P (Option Via))
  let pre ← (do
    match (← peek) with
    | some "@k" => do let _ ← tok; pure (some 'k')
    | some "@c" => do let _ ← tok; pure (some 'c')
    | _ => pure none : P (Option Char))
  pure ⟨via, pre⟩

/-! ### answers -/

def pNodeAns : P NodeAns := do
  let t ← tok
  if t = "X" then pure .dropped
  else match t.toList with
    | [c] => do
      let s ← pNat; let e ← pNat; let chrom ← pOutLoc; let chunk ← pOutLoc
      pure (.node c s e chrom chunk)
    | _ => throw s!"node? {t}"

def pFlag : P Bool := pBool

def pCell : P Cell := do
  let t ← tok
  match t.toList with
  | 's' :: ':' :: rest => pure (.letters rest)
  | ['x'] => pure .refused
  | 'X' :: '!' :: _ => pure .internal
  | _ => throw s!"cell? {t}"

/-- the letters the sequence clauses speak about: IUPAC nucleotides with a complement -/
def lettersOk (s : List Char) : Bool := s.all (fun ch => (complement ch).isSome)

/-- common frame: the chunk is a chunk, the description is in scope and lies on the chromosome; with an alternative
    constructor, the clause speaks about the input -/
def withScope (h : Head) (m : Mods) (judge : Unit → String) : String :=
  if !h.win.ok || !h.desc.inScope || !h.desc.fits h.letters.length h.win then "n/a"
  else match m.via with
    | some v => if v.applies h.desc h.win then judge () else "n/a"
    | none => judge ()

def pFlags : P (List (Option Bool)) := do
  let t ← tok
  t.toList.mapM (fun ch => match ch with
    | '1' => pure (some true)
    | '0' => pure (some false)
    | '-' => pure none
    | _ => throw s!"flags? {t}")

partial def pSameRows : P (List (Char × List (Option Bool))) := do
  match (← tok) with
  | "|" => pure []
  | t => match t.toList with
    | [c] => do let fl ← pFlags; let rest ← pSameRows; pure ((c, fl) :: rest)
    | _ => throw s!"row? {t}"

def pSame : P SameAns := do
  let rows ← pSameRows
  let tail ← pFlags
  pure ⟨rows, tail⟩

def splitBar : List String → List String × List String
  | [] => ([], [])
  | "|" :: rest => ([], rest)
  | t :: rest => let (a, b) := splitBar rest; (t :: a, b)

def internalOr {α} (a : Ans α) (cls : String) : String :=
  match a with
  | .internal => "internal-error"
  | _ => cls

def ops : List (String × Op) := [
  ("loc", do
      let h ← pHead; let m ← pMods; pArrow; let a ← pAns3 (pRest pNodeAns)
      pure (withScope h m fun _ => verdictC (okLoc h.desc h.win a.toOption)
        (internalOr a (if chromosomeHalfOk h.desc h.win a.toOption then "chunk-view-only" else "unclassified")))),
  ("ident", do
      let h ← pHead; let m ← pMods; pArrow; let a ← pAns3 (do let d ← pFlag; let gs ← pRest pFlag; pure (d, gs))
      pure (withScope h m fun _ =>
        match h.desc, m.via with
        | .ac ⟨_, _, none⟩, _ => "n/a"      -- bounds inferred from the parent: the twins are different collections
        -- `from_dict` copies the identifier of the SOURCE collection, which was itself built on a chunk (F-C07a there)
        | .gene _, some .relift => "n/a"
        | .fic _, some .relift => "n/a"
        | .ac _, some .relift => "n/a"
        | _, _ => verdictC (okIdent h.desc h.win a.toOption) (internalOr a (identClass h.desc h.win a.toOption)))),
  ("seq", do
      let h ← pHead; let m ← pMods; pArrow; let a ← pAns3 (pRest pCell)
      pure (withScope h m fun _ =>
        if !lettersOk h.letters then "n/a"
        else verdictC (okSeq h.letters h.desc h.win a.toOption) (internalOr a "unclassified"))),
  ("ccodons", do
      let h ← pHead; let m ← pMods; pArrow; let a ← pAns3 (do let n ← pNat; let ls ← pLocs; pure (n, ls))
      pure (withScope h m fun _ =>
        match h.desc.coding with
        | none => "n/a"
        | some x => verdictC (okChromCodons x a.toOption) (internalOr a (chromCodonsClass x a.toOption.isSome)))),
  ("kcodons", do
      let h ← pHead; let m ← pMods; pArrow; let a ← pAns3 pLocs
      pure (withScope h m fun _ =>
        match h.desc.coding with
        | none => "n/a"
        | some x => verdictC (okChunkCodons x h.win a.toOption)
                      (internalOr a (chunkCodonsClass x h.win a.toOption.isSome)))),
  ("cdsseq", do
      let h ← pHead; let m ← pMods; pArrow; let a ← pAns3 pS
      pure (withScope h m fun _ =>
        match h.desc.coding with
        | none => "n/a"
        | some x =>
          if !lettersOk h.letters then "n/a"
          else verdictC (okChunkCdsSeq h.letters x h.win a.toOption)
                 (internalOr a (chunkCodonsClass x h.win a.toOption.isSome)))),
  ("prot", do
      let h ← pHead; let m ← pMods; pArrow; let a ← pAns3 pS
      pure (withScope h m fun _ =>
        match h.desc.coding with
        | none => "n/a"
        | some x =>
          if !lettersOk h.letters then "n/a"
          else verdictC (okChunkProtein h.letters x h.win a.toOption)
                 (internalOr a (chunkCodonsClass x h.win a.toOption.isSome)))),
  ("kwcodons", do
      let h ← pHead; let lo ← pNat; let hi ← pNat; let m ← pMods; pArrow; let a ← pAns3 pLocs
      pure (withScope h m fun _ =>
        match h.desc.coding with
        | none => "n/a"
        | some x =>
          if hi ≤ lo ∨ hi > h.letters.length then "n/a"     -- empty window: C05 (F-C05d); past the chromosome: refused
          else verdictC (okChunkWindowCodons x h.win lo hi a.toOption)
                 (internalOr a (chunkWindowClass x h.win lo hi a.toOption.isSome)))),
  ("cwcodons", do
      let h ← pHead; let lo ← pNat; let hi ← pNat; let m ← pMods; pArrow; let a ← pAns3 pLocs
      pure (withScope h m fun _ =>
        match h.desc.coding with
        | none => "n/a"
        | some x =>
          if hi ≤ lo ∨ hi > h.letters.length then "n/a"     -- as for kwcodons
          else
            let w : Spec.Win := ⟨some (lo : Int), some (hi : Int), false⟩
            verdictC (okCodons (x.toIn none) (some w) a.toOption)
              (internalOr a (codonsClass (x.toIn none) (some w) a.toOption)))),
  ("same", do
      let h ← pHead; let m ← pMods; pArrow; let a ← pAns3 pSame
      pure (withScope h m fun _ =>
        match m.via with
        | none => "n/a"
        | some _ => verdictC (okAltCtor h.desc h.win a.toOption) (internalOr a "unclassified"))),
  ("order", do
      let h ← pHead; let _lo ← pNat; let _hi ← pNat; let m ← pMods; pArrow; let a ← pAns3 (pRest tok)
      pure (withScope h m fun _ =>
        match a with
        | .ok toks =>
          let (ck, kc) := splitBar toks
          if okOrder ck kc then "pass" else "fail order-dependent " ++ firstDifference ck kc "?"
        | .err => "n/a"                        -- the construction itself was refused: nothing to ask twice
        | .internal => "fail internal-error")),
  ("kframes", do
      let h ← pHead; let m ← pMods; pArrow; let a ← pAns3 (pRest pNat)
      pure (withScope h m fun _ =>
        match h.desc.coding with
        | none => "n/a"
        | some x =>
          if !oneFrame x then "n/a"       -- programmed frameshifts are documented to be lost
          else verdictC (okChunkFrames x h.win a.toOption) (internalOr a (chunkFramesClass x h.win))))
]

/-- parallel main loop (`lake env lean --run` interprets: one task per slice of the input) -/
def parMain (spec : Bool) (table : List (String × Op)) : IO Unit := do
  let stdin ← IO.getStdin
  let stdout ← IO.getStdout
  let mut lines : Array String := #[]
  repeat
    let line ← stdin.getLine
    if line.isEmpty then break
    lines := lines.push line
  let n := lines.size
  let nchunks := 48
  let size := (n + nchunks - 1) / nchunks
  let answer := fun (line : String) =>
    let r := runOp table (String.ofList (line.toList.filter (fun c => c != '\n' && c != '\r')))
    if spec && r.startsWith "bad-op" then "n/a" else r
  let tasks := (List.range nchunks).map fun c =>
    Task.spawn fun _ =>
      let sub := lines.extract (c * size) (min n ((c + 1) * size))
      "\n".intercalate (sub.map answer).toList
  for t in tasks do
    let s := t.get
    if !s.isEmpty then stdout.putStrLn s

end BioCantor.Driver.SpecChunk
