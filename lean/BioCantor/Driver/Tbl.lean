/-
  Model-driver operations of C17: executes `Model.Tbl` (line formats: harness/impl_tbl.py).
  Internal Python errors (StopIteration / AttributeError / IndexError) are not representable in the model's
  error type; such cases answer `bad-op …-not-modelled`, so that only the spec verdict on the implementation's
  answer counts there (findings F-C19e, F-C17b).
-/
import BioCantor.Driver.Proto
import BioCantor.Model.Tbl
namespace BioCantor.Driver.Tbl
open BioCantor BioCantor.Proto BioCantor.Model BioCantor.Model.Tbl

/-! ### text tokens (`enc` / `dec` of harness/gen_c17.py) -/

def encChars : List Char → List Char
  | [] => []
  | c :: cs =>
    (if c = '\\' then ['\\', '\\'] else if c = '\t' then ['\\', 't'] else if c = '\n' then ['\\', 'n']
     else if c = '\r' then ['\\', 'r'] else if c = ' ' then ['\\', 's'] else if c = '~' then ['\\', '-'] else [c])
    ++ encChars cs

def enc (s : List Char) : String := if s.isEmpty then "\\e" else String.ofList (encChars s)

def decChars : List Char → List Char
  | '\\' :: 't' :: r => '\t' :: decChars r
  | '\\' :: 'n' :: r => '\n' :: decChars r
  | '\\' :: 'r' :: r => '\r' :: decChars r
  | '\\' :: 's' :: r => ' ' :: decChars r
  | '\\' :: '-' :: r => '~' :: decChars r
  | '\\' :: '\\' :: r => '\\' :: decChars r
  | c :: r => c :: decChars r
  | [] => []

/-- `~` = None, `\e` = empty string -/
def decTok (t : String) : Option (List Char) :=
  if t = "~" then none else if t = "\\e" then some [] else some (decChars t.toList)

def pOptStr : P (Option (List Char)) := do let t ← tok; pure (decTok t)

def pStr : P (List Char) := do
  match ← pOptStr with
  | some s => pure s
  | none => throw "str? ~"

def pNatPair : P Blk := do let a ← pNat; let b ← pNat; pure (a, b)

def frameOfNat : Nat → P CDSFrame
  | 0 => pure .ZERO | 1 => pure .ONE | 2 => pure .TWO
  | n => throw s!"frame? {n}"

/-- frame vector (ascending block order) of an uninterrupted reading frame with start frame `f`, optionally with
    the frame of the block with 5'→3' index `shift ≥ 1` advanced by one — `frames_for` of harness/gen_c17.py -/
def framesFor (blocks : List Blk) (st : Strand) (f shift : Nat) : List Nat :=
  let order := if st = .minus then blocks.reverse else blocks
  let rec go : List Blk → Nat → Nat → List Nat
    | [], _, _ => []
    | b :: rest, j, n =>
      let v := if j = 0 then f else if n < f then f - n else (n - f) % 3
      let v := if shift ≠ 0 ∧ j = shift then (v + 1) % 3 else v
      v :: go rest (j + 1) (n + b.len)
  let fr := go order 0 0
  if st = .minus then fr.reverse else fr

def pTx : P Tx := do
  let ttype ← pOptStr
  let st ← pStrand
  let exons ← pList pNatPair
  let cds ← pList pNatPair
  if cds.isEmpty then pure ⟨st, exons, none, ttype⟩
  else do
    let f ← pNat; let sh ← pNat
    let frs ← (framesFor cds st f sh).mapM frameOfNat
    pure ⟨st, exons, some (cds, frs), ttype⟩

def pGene : P Gene := do
  let gtype ← pOptStr
  let _sym ← pOptStr
  let txs ← pList pTx
  pure ⟨gtype, txs⟩

def showSkel (s : Skel) : String :=
  let cs := match s.codonStart with | some n => toString n | none => "~"
  s!"{String.ofList s.key} {strandSym s.strand} {if s.si then 1 else 0} {if s.ei then 1 else 0} " ++
  s!"{if s.pseudo then 1 else 0} {cs} LT_5 {s.blocks.length}" ++
  String.join (s.blocks.map fun b => s!" {b.1} {b.2}")

def showRT {α} (sh : α → String) : RT α → String
  | .ok a => "ok " ++ sh a
  | .error (.doc e) => "err " ++ showErr e
  | .error (.internal w) => s!"bad-op {w}-not-modelled"

def b01 (b : Bool) : String := if b then "1" else "0"

def ops : List (String × Op) := [
  ("locstr", do
      let key ← tok
      let st ← pStrand
      let si ← pBool; let ei ← pBool
      let bl ← pList pNatPair
      let blocks : R (List Blk) := match bl with
        | [b] => if b.1 ≤ b.2 then pure [b] else throw .InvalidPosition
        | _ => do let l ← mkCompoundLoc bl st; pure l.blocks
      match blocks with
      | .error e => pure ("err " ++ showErr e)
      | .ok bs =>
        match locationToStr key.toList bs st si ei with
        | some s => pure ("ok " ++ enc s)
        | none => pure "bad-op IndexError-not-modelled"),
  ("quals", do
      let key ← tok
      let pseudo ← pBool
      let q ← pList (do let k ← pStr; let vs ← pList pOptStr; pure (k, vs))
      pure ("ok " ++ enc (qualifiersToStr (validKeys key.toList) q pseudo))),
  ("cdsfeat", do
      let table ← pInt
      let st ← pStrand
      let genome ← tok
      let ex ← pList (do let a ← pNat; let b ← pNat; let f ← pNat; let fr ← frameOfNat f; pure ((a, b), fr))
      let r : RT String := do
        let c ← liftR (mkCDS (ex.map (·.1)) st (.frames (ex.map (·.2))) (some genome.toList))
        -- TranscriptInterval.__init__ builds the exon location first (same blocks), then the CDS
        let pseudo ← liftR (hasInFrameStop c)
        let (cs, si, ei) ← cdsFlags c table
        match locationToStr "CDS".toList c.loc.blocks c.loc.strand si ei with
        | some s => pure s!"{cs} {b01 si} {b01 ei} {b01 pseudo} {enc s}"
        | none => throw (.internal "IndexError")
      pure (showRT id r)),
  ("tblgene", do
      let table ← pInt
      let genome ← tok
      let g ← pGene
      pure (showRT (fun l => s!"{l.length}" ++ String.join (l.map fun s => " " ++ showSkel s))
              (tblGene g (some genome.toList) table))),
  ("seed", do
      let t ← tok
      let seed : Option Int := if t = "~" then none else t.toInt?
      pure (if seedApplied seedRepaired seed then "ok applied" else "ok ignored")),
  ("locustags", do
      let pre ← pStr
      let step ← pInt
      let ns ← pList pNat
      -- one call over several collections: the offset runs on from collection to collection
      pure ("ok " ++ " ".intercalate ((collectionTags pre step ns).flatten.map enc)))
]

end BioCantor.Driver.Tbl
