/- Spec-driver operations for locations: `<op> <args> => <answer>` ↦ pass | fail … | n/a -/
import BioCantor.Driver.Proto
import BioCantor.Spec.LocationCheck
namespace BioCantor.Driver.SpecLoc
open BioCantor BioCantor.Proto BioCantor.Spec

/-- Constructor validity, stated independently of the model: what the documentation of the two
    constructors requires.  `none` = the constructor must refuse. -/
def specBuild : RawLoc → Option Location
  | .single s e st => if 0 ≤ s ∧ s ≤ e then some (.single (s.toNat, e.toNat) st) else none
  | .compound bs st =>
      if bs.isEmpty ∨ bs.any (fun b => b.1 < 0 ∨ b.1 > b.2) then none
      else some (.compound ⟨sortBlocks st (bs.map fun b => (b.1.toNat, b.2.toNat)), st⟩)
  | .empty => some .empty

def pArrow : P Unit := do
  match (← tok) with
  | "=>" => pure ()
  | t => throw s!"=>? {t}"

/-- answer: `ok …` parsed by `p`, or `err X` / `err! X` (class ignored here) -/
def pAns {α} (p : P α) : P (Option α) := do
  match (← tok) with
  | "ok" => do let a ← p; pure (some a)
  | "err" => do let _ ← tok; pure none
  | "err!" => do let _ ← tok; pure none
  | t => throw s!"ans? {t}"

def pOutLoc : P Location := do
  match ← pRawLoc with
  | .single s e st => pure (.single (s.toNat, e.toNat) st)
  | .compound bs st => pure (.compound ⟨bs.map (fun b => (b.1.toNat, b.2.toNat)), st⟩)
  | .empty => pure .empty

def verdict (b : Bool) : String := if b then "pass" else "fail"

def ops : List (String × Op) := [
  ("r2p", do
      let l ← pRawLoc; let r ← pInt; pArrow; let a ← pAns pInt
      match specBuild l with
      | none => pure (verdict a.isNone)
      | some x => pure (verdict (okR2P x r a))),
  ("p2r", do
      let l ← pRawLoc; let p ← pInt; pArrow; let a ← pAns pInt
      match specBuild l with
      | none => pure (verdict a.isNone)
      | some x => pure (verdict (okP2R x p a))),
  ("relint", do
      let l ← pRawLoc; let rs ← pInt; let re ← pInt; let st ← pStrand; pArrow; let a ← pAns pOutLoc
      match specBuild l with
      | none => pure (verdict a.isNone)
      | some x => pure (verdict (okRelint x rs re st a))),
  ("locrel", do
      let a ← pRawLoc; let b ← pRawLoc; let opt ← pBool; pArrow; let r ← pAns pOutLoc
      match specBuild a, specBuild b with
      | some x, some y => pure (verdict (okLocRel x y opt r))
      | _, _ => pure (verdict r.isNone))
]

end BioCantor.Driver.SpecLoc
