/-
  Line protocol shared by every driver module: token parsing and canonical printing.
  One operation per line, space separated tokens; answers are `ok <value>` or `err <Class>`.
-/
import BioCantor.Base
namespace BioCantor.Proto
open BioCantor

abbrev P := StateT (List String) (Except String)

def tok : P String := do
  match (← get) with
  | [] => throw "eol"
  | t :: ts => set ts; pure t

def pInt : P Int := do
  let t ← tok
  match t.toInt? with
  | some i => pure i
  | none => throw s!"int? {t}"

def pNat : P Nat := do
  let i ← pInt
  if i < 0 then throw s!"nat? {i}" else pure i.toNat

def pBool : P Bool := do
  match (← tok) with
  | "1" => pure true
  | "0" => pure false
  | t => throw s!"bool? {t}"

def pStrand : P Strand := do
  match (← tok) with
  | "+" => pure .plus
  | "-" => pure .minus
  | "." => pure .unstranded
  | t => throw s!"strand? {t}"

def pList {α} (p : P α) : P (List α) := do
  let n ← pNat
  let rec go : Nat → List α → P (List α)
    | 0, acc => pure acc.reverse
    | k+1, acc => do let x ← p; go k (x :: acc)
  go n []

def pIntPair : P (Int × Int) := do
  let a ← pInt; let b ← pInt; pure (a, b)

/-- raw location as given on the line (before the constructor's validation) -/
inductive RawLoc where
  | single (s e : Int) (st : Strand)
  | compound (bs : List (Int × Int)) (st : Strand)
  | empty

def pRawLoc : P RawLoc := do
  match (← tok) with
  | "S" => do let st ← pStrand; let s ← pInt; let e ← pInt; pure (.single s e st)
  | "C" => do let st ← pStrand; let bs ← pList pIntPair; pure (.compound bs st)
  | "E" => pure .empty
  | t => throw s!"loc? {t}"

def strandSym : Strand → String
  | .plus => "+" | .minus => "-" | .unstranded => "."

def showBlocks (bs : List Blk) : String :=
  " ".intercalate (bs.map fun b => s!"{b.1} {b.2}")

def showLocation : Location → String
  | .single b st => s!"S {strandSym st} {b.1} {b.2}"
  | .compound l => s!"C {strandSym l.strand} {l.blocks.length} {showBlocks l.blocks}"
  | .empty => "E"

def showErr (e : Err) : String :=
  match e with
  | .InvalidPosition => "InvalidPosition" | .InvalidStrand => "InvalidStrand" | .ValueError => "ValueError"
  | .TypeError => "TypeError" | .EmptyLocation => "EmptyLocation" | .LocationOverlap => "LocationOverlap"
  | .Location => "Location" | .NullParent => "NullParent" | .MismatchedParent => "MismatchedParent"
  | .NoSuchAncestor => "NoSuchAncestor" | .NullSequence => "NullSequence" | .Parent => "Parent"
  | .UnsupportedOperation => "UnsupportedOperation" | .InvalidCDSInterval => "InvalidCDSInterval"
  | .MismatchedFrame => "MismatchedFrame" | .NoncodingTranscript => "NoncodingTranscript"
  | .Validation => "Validation" | .InvalidAnnotation => "InvalidAnnotation" | .InvalidQuery => "InvalidQuery"
  | .Alphabet => "Alphabet" | .Export => "Export" | .NotImplemented => "NotImplemented"

def showR {α} (sh : α → String) : Except Err α → String
  | .ok a => "ok " ++ sh a
  | .error e => "err " ++ showErr e

def showBool (b : Bool) : String := if b then "true" else "false"
def showNatList (l : List Nat) : String := " ".intercalate (l.map toString)
def showIntList (l : List Int) : String := " ".intercalate (l.map toString)

/-- An operation: parses its arguments from the token stream and renders an answer. -/
abbrev Op := P String

def runOp (table : List (String × Op)) (line : String) : String :=
  let toks := (line.splitOn " ").filter (· ≠ "")
  match toks with
  | [] => "bad-op empty"
  | name :: args =>
    match table.lookup name with
    | none => s!"bad-op {name}"
    | some op =>
      match (op.run args) with
      | .ok (out, []) => out
      | .ok (_, rest) => s!"bad-args trailing {rest.length}"
      | .error e => s!"bad-args {e}"

end BioCantor.Proto
