/- Spec-driver operations of C02: `<op> <args> => <answer>` ↦ pass | fail <clause> | n/a.
   Imports Base / Spec only (plus the shared token parsers). -/
import BioCantor.Driver.Proto
import BioCantor.Driver.SpecLoc
import BioCantor.Spec.Algebra
namespace BioCantor.Driver.SpecAlgebra
open BioCantor BioCantor.Proto BioCantor.Spec BioCantor.Driver.SpecLoc

def pOptStr : P (Option String) := do
  let t ← tok
  pure (if t = "_" then none else some t)

def pParentInfo : P ParentInfo := do
  let i ← pOptStr
  let t ← pOptStr
  let s ← pOptStr
  pure (i, t, s.map String.toList)

def pPar : P Par := do
  match (← tok) with
  | "P" => pList pParentInfo
  | t => throw s!"parent? {t}"

/-- what the constructors must accept: `specBuild` and the end inside the parent's sequence -/
def specBuildP (par : Par) (raw : RawLoc) : Option LocP :=
  match specBuild raw with
  | none => none
  | some .empty => some (.empty, [])
  | some l =>
    match parLen par with
    | none => some (l, par)
    | some n => if endsWithin l n then some (l, par) else none

def pIn : P (Option LocP) := do
  let par ← pPar
  let r ← pRawLoc
  pure (specBuildP par r)

def pOutPLoc : P LocP := do
  let l ← pOutLoc
  let par ← pPar
  pure (l, par)

def pGapList : P (List (Strand × Blk)) :=
  pList (do let st ← pStrand; let s ← pNat; let e ← pNat; pure (st, (s, e)))

def pDistTy : P Nat := do
  match (← tok) with
  | "inner" => pure 0
  | "outer" => pure 1
  | "starts" => pure 2
  | "ends" => pure 3
  | t => throw s!"dist? {t}"

/-- first failing clause -/
def clauses (cs : List (String × Bool)) : String :=
  match cs.find? (fun c => !c.2) with
  | none => "pass"
  | some c => "fail " ++ c.1

def unaryOp (ok : LocP → Option LocP → Bool) (name : String) : Op := do
  let a ← pIn; pArrow; let r ← pAns pOutPLoc
  match a with
  | none => pure (clauses [("constructor-must-refuse", r.isNone)])
  | some x => pure (clauses [(name, ok x r)])

def ops : List (String × Op) := [
  ("mk", do
      let par ← pPar; let raw ← pRawLoc; pArrow; let r ← pAns pOutPLoc
      match specBuildP par raw with
      | none => pure (clauses [("constructor-must-refuse", r.isNone)])
      | some x => pure (clauses [("constructed", r == some x)])),
  ("overlap", do
      let a ← pIn; let b ← pIn; let ms ← pBool; let fs ← pBool; let st ← pBool; pArrow; let r ← pAns pBool'
      match a, b with
      | some x, some y => pure (clauses [("overlap", okOverlap x y ms fs st r)])
      | _, _ => pure (clauses [("constructor-must-refuse", r.isNone)])),
  ("isect", do
      let a ← pIn; let b ← pIn; let ms ← pBool; let fs ← pBool; let st ← pBool; pArrow; let r ← pAns pOutPLoc
      match a, b with
      | some x, some y => pure (clauses [("intersection", okIntersection x y ms fs st r),
                                         ("intersection-normal", okIntersectionNormal x y fs r)])
      | _, _ => pure (clauses [("constructor-must-refuse", r.isNone)])),
  ("union", do
      let a ← pIn; let b ← pIn; pArrow; let r ← pAns pOutPLoc
      match a, b with
      | some x, some y => pure (clauses [("union", okUnion x y r), ("union-disjoint", okUnionDisjoint x y r)])
      | _, _ => pure (clauses [("constructor-must-refuse", r.isNone)])),
  ("unionpo", do
      let a ← pIn; let b ← pIn; pArrow; let r ← pAns pOutPLoc
      match a, b with
      | some x, some y => pure (clauses [("union-preserve", okUnionPreserve x y r)])
      | _, _ => pure (clauses [("constructor-must-refuse", r.isNone)])),
  ("minus", do
      let a ← pIn; let b ← pIn; let ms ← pBool; let st ← pBool; pArrow; let r ← pAns pOutPLoc
      match a, b with
      | some x, some y => pure (clauses [("minus", okMinus x y ms st r)])
      | _, _ => pure (clauses [("constructor-must-refuse", r.isNone)])),
  ("contains", do
      let a ← pIn; let b ← pIn; let ms ← pBool; let fs ← pBool; let st ← pBool; pArrow; let r ← pAns pBool'
      match a, b with
      | some x, some y => pure (clauses [("contains", okContains x y ms fs st r)])
      | _, _ => pure (clauses [("constructor-must-refuse", r.isNone)])),
  ("gaplist", do
      let a ← pIn; pArrow; let r ← pAns pGapList
      match a with
      | none => pure (clauses [("constructor-must-refuse", r.isNone)])
      | some x => pure (clauses [("gap-list", okGapList x r)])),
  ("gaps", unaryOp okGaps "gaps"),
  ("optimize", unaryOp okOptimize "optimize"),
  ("optcombine", unaryOp okOptCombine "optimize-and-combine"),
  ("mergeov", unaryOp okMergeOverlapping "merge-overlapping"),
  ("extabs", do
      let a ← pIn; let es ← pInt; let ee ← pInt; pArrow; let r ← pAns pOutPLoc
      match a with
      | none => pure (clauses [("constructor-must-refuse", r.isNone)])
      | some x => pure (clauses [("extend-absolute", okExtendAbs x es ee r), ("extend-normal", okExtendAbsNormal x r)])),
  ("extrel", do
      let a ← pIn; let up ← pInt; let down ← pInt; pArrow; let r ← pAns pOutPLoc
      match a with
      | none => pure (clauses [("constructor-must-refuse", r.isNone)])
      | some x => pure (clauses [("extend-relative", okExtendRel x up down r)])),
  ("dist", do
      let a ← pIn; let b ← pIn; let ty ← pDistTy; pArrow; let r ← pAns pNat
      match a, b with
      | some x, some y => pure (clauses [("distance", okDistance x y ty r)])
      | _, _ => pure (clauses [("constructor-must-refuse", r.isNone)])),
  ("eqhash", do
      let a ← pIn; let b ← pIn; pArrow; let r ← pAns (do let e ← pBool'; let h ← pBool'; pure (e, h))
      match a, b with
      | some x, some y => pure (clauses [("eq-hash", okEq x y r)])
      | _, _ => pure (clauses [("constructor-must-refuse", r.isNone)])),
  ("reverse", unaryOp okReverse "reverse"),
  ("revstrand", unaryOp okReverseStrand "reverse-strand"),
  ("resetstrand", do
      let a ← pIn; let ns ← pStrand; pArrow; let r ← pAns pOutPLoc
      match a with
      | none => pure (clauses [("constructor-must-refuse", r.isNone)])
      | some x => pure (clauses [("reset-strand", okResetStrand x ns r)])),
  ("shift", do
      let a ← pIn; let k ← pInt; pArrow; let r ← pAns pOutPLoc
      match a with
      | none => pure (clauses [("constructor-must-refuse", r.isNone)])
      | some x => pure (clauses [("shift", okShift x k r)]))
]
where
  pBool' : P Bool := do
    match (← tok) with
    | "true" => pure true
    | "false" => pure false
    | t => throw s!"bool? {t}"

end BioCantor.Driver.SpecAlgebra
