/- Model-driver operations for C12: runs `Model.Gb.*` (writer as data, parser as list functions). -/
import BioCantor.Driver.Proto
import BioCantor.Driver.SpecGenbank
import BioCantor.Model.GenbankWrite
import BioCantor.Model.GenbankParse
namespace BioCantor.Driver.Gb
open BioCantor BioCantor.Proto BioCantor.Spec.Qual BioCantor.Spec.Gb BioCantor.Model.Gb BioCantor.Driver.SpecQual
open BioCantor.Driver.SpecGb

def showP {α} (sh : α → String) : Model.Gb.P α → String
  | .ok a => "ok " ++ sh a
  | .error (.doc e) => "err " ++ showErr e
  | .error .indexError => "err! IndexError"
  | .error .keyError => "err! KeyError"

def showRecs (rs : List Rec) : String :=
  " ".intercalate (toString rs.length :: rs.map (showRec Model.Qual.sortStrs))

/-- canonical multiset of gene models: the rendered genes, sorted -/
def canonGenes (gs : List PGene) : List String := (gs.map showPGene).mergeSort (fun a b => decide (a ≤ b))

/-- the two Lean models of the locus-tag grouping (record level, and C18's `Model.Qual` on uids) must agree -/
def c18Agree (rs : List Rec) : Bool :=
  let inp := (rs.filter validFeature).filter fun r => isGeneLike r && hasKey Model.Gb.kLocusTag r.quals
  match groupByLocusTagRecs inp, groupByLocusTagViaC18 inp with
  | .ok a, .ok b => a == b
  | .error e1, .error e2 => e1 == e2
  | _, _ => false

def ops : List (String × Op) := [
  ("gbw", do
      let fl ← pFlavor; let force ← pBool; let trans ← pBool; let c ← pColl
      pure (showR showRecs (writeModel ⟨fl, force, trans, currentWriterRule⟩ c))),
  ("gbp", do
      let m ← pMode; let rs ← pList pRec
      if !c18Agree rs then pure "err! ModelMismatch-C18"
      else pure (showP showPGenes (parseModel m rs))),
  ("gbrt", do
      let fl ← pFlavor; let m ← pMode; let c ← pColl
      match writeModel ⟨fl, true, false, currentWriterRule⟩ c with
      | .error e => pure ("err " ++ showErr e)
      | .ok rs => pure (showP showPGenes (parseModel m rs))),
  ("gbm", do
      let rs ← pList pRec
      let a := parseModel .sorted rs
      let b := parseModel .locusTag rs
      let c := parseModel .hybrid rs
      match a, b, c with
      | .ok x, .ok y, .ok z =>
        pure (if canonGenes x == canonGenes y && canonGenes y == canonGenes z then "ok same" else "ok differ")
      | .error _, .error _, .error _ => pure "ok same"
      | _, _, _ => pure "ok differ")
]
end BioCantor.Driver.Gb
