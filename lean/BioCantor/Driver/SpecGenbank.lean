/- Spec-driver operations for C12 (imports Base/Spec only) + the token codec shared with the model driver.
   Grammar: see harness/impl_genbank.py. -/
import BioCantor.Driver.Proto
import BioCantor.Driver.SpecQualifiers
import BioCantor.Spec.Genbank
namespace BioCantor.Driver.SpecGb
open BioCantor BioCantor.Proto BioCantor.Spec.Qual BioCantor.Spec.Gb BioCantor.Driver.SpecQual

def pBlk : P Blk := do let s ← pNat; let e ← pNat; pure (s, e)
def pBlocks : P (List Blk) := pList pBlk

def pFrame : P CDSFrame := do
  match (← tok) with
  | "Z" => pure .ZERO
  | "O" => pure .ONE
  | "T" => pure .TWO
  | "N" => pure .NONE
  | t => throw s!"frame? {t}"

def pFlavor : P Flavor := do
  match (← tok) with
  | "P" => pure .prokaryotic
  | "E" => pure .eukaryotic
  | t => throw s!"flavor? {t}"

def pMode : P Mode := do
  match (← tok) with
  | "S" => pure .sorted
  | "L" => pure .locusTag
  | "H" => pure .hybrid
  | t => throw s!"mode? {t}"

def pTx : P Tx := do
  let st ← pStrand; let ex ← pBlocks; let cds ← pBlocks; let fr ← pList pFrame
  let txId ← pOptStr; let sym ← pOptStr; let ty ← pOptStr; let prot ← pOptStr; let prod ← pOptStr
  let q ← pDict
  pure { strand := st, exons := ex, cds := cds, frames := fr, txId := txId, txSymbol := sym, txType := ty,
         proteinId := prot, product := prod, quals := q }

def pFeatI : P FeatI := do
  let st ← pStrand; let bl ← pBlocks; let nm ← pOptStr; let id ← pOptStr; let tys ← pList pStr; let q ← pDict
  pure { strand := st, blocks := bl, featName := nm, featId := id, types := tys, quals := q }

def pItem : P Item := do
  match (← tok) with
  | "G" => do
    let gid ← pOptStr; let sym ← pOptStr; let ty ← pOptStr; let tag ← pOptStr; let q ← pDict
    let txs ← pList pTx
    pure (.gene { geneId := gid, geneSymbol := sym, geneType := ty, locusTag := tag, quals := q, txs := txs })
  | "F" => do
    let nm ← pOptStr; let id ← pOptStr; let ty ← pOptStr; let tag ← pOptStr; let q ← pDict
    let fs ← pList pFeatI
    pure (.fcoll { name := nm, id := id, type := ty, locusTag := tag, quals := q, feats := fs })
  | t => throw s!"item? {t}"

def pColl : P Coll := do
  let seq ← pOptStr
  let items ← pList pItem
  pure ⟨seq, items⟩

/-- WIN := <ws> <we> <+|-> -/
def pChunk : P Chunk := do
  let ws ← pNat; let we ← pNat; let st ← pStrand
  pure ⟨(ws, we), st⟩

def pRec : P Rec := do
  let ty ← pStr; let st ← pStrand; let parts ← pBlocks; let q ← pDict
  pure { type := ty, strand := st, parts := parts, quals := q }

def pPTx : P PTx := do
  let st ← pStrand; let ex ← pBlocks; let cds ← pBlocks; let fr ← pList pFrame
  let txId ← pOptStr; let sym ← pOptStr; let prot ← pOptStr; let prod ← pOptStr; let ty ← pStr; let q ← pDict
  pure { strand := st, exons := ex, cds := cds, frames := fr, txId := txId, txSymbol := sym, proteinId := prot,
         product := prod, txType := ty, quals := q }

def pPGene : P PGene := do
  let gid ← pOptStr; let sym ← pOptStr; let tag ← pOptStr; let ty ← pStr
  let txs ← pList pPTx
  pure { geneId := gid, geneSymbol := sym, locusTag := tag, geneType := ty, txs := txs }

/-! printers (used by the model driver) -/

def showBlks (bs : List Blk) : String := " ".intercalate (toString bs.length :: bs.map fun b => s!"{b.1} {b.2}")

def frameSym : CDSFrame → String
  | .ZERO => "Z" | .ONE => "O" | .TWO => "T" | .NONE => "N"

def showFrames (fs : List CDSFrame) : String := " ".intercalate (toString fs.length :: fs.map frameSym)

def showRec (sortVals : List Str → List Str) (r : Rec) : String :=
  s!"{encodeStr r.type} {Proto.strandSym r.strand} {showBlks r.parts} " ++ showDict (r.quals.map fun e => (e.1, sortVals e.2))

def showPTx (t : PTx) : String :=
  s!"{Proto.strandSym t.strand} {showBlks t.exons} {showBlks t.cds} {showFrames t.frames} {showOptStr t.txId} " ++
  s!"{showOptStr t.txSymbol} {showOptStr t.proteinId} {showOptStr t.product} {encodeStr t.txType} {showDict t.quals}"

def showPGene (g : PGene) : String :=
  " ".intercalate ([showOptStr g.geneId, showOptStr g.geneSymbol, showOptStr g.locusTag, encodeStr g.geneType,
                    toString g.txs.length] ++ g.txs.map showPTx)

def showPGenes (gs : List PGene) : String := " ".intercalate (toString gs.length :: gs.map showPGene)

def report (viol : List String) : String :=
  if viol.isEmpty then "pass" else "fail " ++ " ".intercalate viol.eraseDups

def ops : List (String × Op) := [
  -- (a)/(d): the feature list produced by the real `gene_to_feature`
  ("gbw", do
      let fl ← pFlavor; let _force ← pBool; let trans ← pBool; let c ← pColl; pArrow
      let a ← pAns (pList pRec)
      -- a CDS with a programmed frameshift can make the requested translation itself fail (C05's finding F-C05b:
      -- InvalidPositionException from the re-synchronising walk); that refusal is C05's, not the writer's
      let shifted := (genesOf c).any fun g => g.txs.any fun t => t.coding && !t.oneFrame
      -- a collection without sequence is refused as documented (GenBankExportError)
      if !writeDomain c || c.seq.isNone || (a.isNone && trans && shifted) then pure "n/a"
      else pure (report (writeViolations fl trans c a))),
  -- (b): real text -> real parse_genbank in one mode
  ("gbrt", do
      let fl ← pFlavor; let m ← pMode; let c ← pColl; pArrow
      let a ← pAns (pList pPGene)
      if !rtDomain fl m c then pure "n/a" else pure (report (rtViolations fl c a))),
  -- (a)(b)(c) judged in Python against Bio.SeqIO: the answer must be `ok clean`
  ("gbc", do
      let _fl ← pFlavor; let _trans ← pBool; let c ← pColl; pArrow
      let a ← get; set ([] : List String)
      if !writeDomain c then pure "n/a"
      else pure (if a == ["ok", "clean"] then "pass" else "fail " ++ " ".intercalate (a.drop 2))),
  -- the same three legs for a collection built on a sequence chunk (the line carries the CHROMOSOME sequence)
  ("gbwk", do
      let fl ← pFlavor; let _force ← pBool; let trans ← pBool; let k ← pChunk; let c ← pColl; pArrow
      let internal := (← get).head? == some "err!"          -- an undocumented exception is never a refusal
      let a ← pAns (pList pRec)
      let shifted := (genesOf c).any fun g => g.txs.any fun t => t.coding && !t.oneFrame
      if !chunkDomain k c || c.seq.isNone || (a.isNone && trans && shifted) then pure "n/a"
      else if internal then pure "fail internal-error"
      -- something has no base in the chunk and the writer did not refuse: no claim about what is written then
      else if mayRefuse k c && a.isSome then pure "n/a"
      else pure (report (writeViolationsK fl trans k c a))),
  ("gbrtk", do
      let fl ← pFlavor; let m ← pMode; let k ← pChunk; let c ← pColl; pArrow
      let internal := (← get).head? == some "err!"
      let a ← pAns (pList pPGene)
      if !rtDomainK fl m k c || c.seq.isNone || (mayRefuse k c && a.isSome) then pure "n/a"
      else if internal then pure "fail internal-error"
      else pure (report (rtViolationsK fl k c a))),
  ("gbck", do
      let _fl ← pFlavor; let _trans ← pBool; let k ← pChunk; let c ← pColl; pArrow
      let a ← get; set ([] : List String)
      if !chunkDomain k c then pure "n/a"
      else if a == ["ok", "refused"] then pure (if mayRefuse k c then "pass" else "fail refused")
      else pure (if a == ["ok", "clean"] then "pass" else "fail " ++ " ".intercalate (a.drop 2))),
  -- (c): the three strategies on one feature list
  ("gbm", do
      let rs ← pList pRec; pArrow
      let a ← get; set ([] : List String)
      if !modesDomain rs then pure "n/a"
      else pure (if a == ["ok", "same"] then "pass" else "fail modes-differ"))
]
end BioCantor.Driver.SpecGb
