/-
  Model-driver operations for C10 (executes `Model.Cache`; capacity of the Parent cache from `Gen.Tables`).

    lru <cap> <n> k1 … kn                 functools.lru_cache(maxsize=cap) around f(k) = 3k+1
                                           -> ok <n> f(k1) … f(kn) <pattern>      pattern: H hit, M miss, E miss+evict
    plru <cap> <n> k1 … kn                the REAL Parent cache, keys = Parent ids; cap must be Gen.parentCacheSize
                                           -> ok <pattern>
    memo <cap> <n> (o k)…                 methodtools.lru_cache(maxsize=cap) on a method, objects o; f(o,k) = 100o+k
                                           -> ok <n> outs <pattern>
    lazyloc <strand> <k> (s e)… <m> r…    reads r ∈ {ov, bl} of a CompoundInterval's lazily filled attributes
                                           -> ok <answer>…           true|false   /   b:s-e,s-e
    pstrand <strand|N> <N | strand len> <n>   n reads of Parent(strand=…, location=…).strand, asked twice: under cold
                                           caches / after Parents differing only in one strand were built
                                           -> ok <half> / <half>      half = <+|-|.|N>… | err:InvalidStrand
    cdshist <letters|_> <nchunk> <ntotal> <ops> …
                                           ops word over c (chunk_relative_codon_locations), n (num_chunk_relative_codons),
                                           e (extract_sequence), v (has_valid_stop), N (num_codons); the rest of the line
                                           (the CDS literal for the implementation, optionally with a chunk window) is
                                           ignored: `letters` IS the coding sequence seen on the parent, `nchunk` the number
                                           of codon locations on the parent, `ntotal` the number of codons of the whole CDS
                                           -> ok <answer>…           n:<k> / Sequence:<letters> / str:<letters> / true|false / err!
    merge <own> <other>                   dict literal: <nkeys> (key <nvals> v…)…      `_merge_qualifiers` as coded (copies the sets)
                                           -> ok <result dict> <own dict after>
    export <own> <other> <n> (key val){n} `CDSInterval.export_qualifiers(parent_qualifiers=other)`; key 100 = protein_id,
                                           101 = product; (key val) = the identifiers the exporter adds (`.add()` loop)
                                           -> ok <result dict> <own dict after> <other dict after>
-/
import BioCantor.Driver.Proto
import BioCantor.Model.Cache
import BioCantor.Gen.Tables
namespace BioCantor.Driver.Cache
open BioCantor BioCantor.Proto BioCantor.Model.Cache
open BioCantor.Spec.Cache (Ev Ans CdsOp)

/-! The two switches below make the model mirror THE CODE THAT EXISTS in /repo (both defects are repaired there, so both
    are `true`).  Setting one to `false` gives the model of the code before the repair — only useful to reproduce the
    old behaviour next to a scratch copy of /repo with the fix reverted. -/

/-- cds.py:456-460 — the cached-codon path of `extract_sequence` is guarded by "at least one codon" and wraps its
    result in a `Sequence` (`CdsCfg.repaired`).  `true` since a04ad26 + 588ca9c; `false` reproduces defect F-C10a. -/
def pathBWrapsAsCoded : Bool := true

/-- gene/interval.py:780 — `_merge_qualifiers` copies the qualifier SETS, not only the dict.
    `true` since b1a89c3; `false` reproduces defect F-C10b. -/
def mergeCopiesSetsAsCoded : Bool := true

def pureF (k : Int) : Int := 3 * k + 1
def pureM (o k : Int) : Int := 100 * o + k

def pattern (evs : List Ev) : String := String.ofList (evs.map Ev.sym)

def showOuts (outs : List Int) (evs : List Ev) : String :=
  s!"ok {outs.length} {showIntList outs} {pattern evs}"

partial def pRestToks : P (List String) := do
  match (← get) with
  | [] => pure []
  | _ => do let x ← tok; let xs ← pRestToks; pure (x :: xs)

def pStrandOpt : P (Option Strand) := do
  match (← tok) with
  | "+" => pure (some .plus)
  | "-" => pure (some .minus)
  | "." => pure (some .unstranded)
  | "N" => pure none
  | t => throw s!"strand? {t}"

def showStrandOpt : Option Strand → String
  | some s => strandSym s
  | none => "N"

def pNatPair : P (Nat × Nat) := do
  let a ← pNat; let b ← pNat; pure (a, b)

def pLocAttr : P LocAttr := do
  match (← tok) with
  | "ov" => pure .isOverlapping
  | "bl" => pure .blocks
  | t => throw s!"attr? {t}"

def showLocVal : LocVal → String
  | .bool b => showBool b
  | .blocks bs => "b:" ++ ",".intercalate (bs.map fun b => s!"{b.1}-{b.2}")

def pCdsOps (w : String) : Except String (List CdsOp) :=
  w.toList.mapM fun c =>
    match c with
    | 'c' => .ok CdsOp.listCodons
    | 'n' => .ok CdsOp.numCodons
    | 'e' => .ok CdsOp.extract
    | 'v' => .ok CdsOp.validStop
    | 'N' => .ok CdsOp.totalCodons
    | _ => .error s!"cdsop? {c}"

def showAns : Ans → String
  | .seqObj l => "Sequence:" ++ String.ofList l
  | .str l => "str:" ++ String.ofList l
  | .bool b => showBool b
  | .count n => s!"n:{n}"
  | .internalError => "err!"

def pQDict : P (List (Nat × List Nat)) := pList (do let k ← pNat; let vs ← pList pNat; pure (k, vs))

def showQDict (d : List (Nat × List Nat)) : String :=
  let d := Spec.Cache.normDict d
  s!"{d.length}" ++ String.join (d.map fun kv => s!" {kv.1} {kv.2.length}" ++ String.join (kv.2.map fun v => s!" {v}"))

def ops : List (String × Op) := [
  ("lru", do
      let cap ← pNat; let ks ← pList pInt
      let r := run pureF cap [] ks
      pure (showOuts (outputs r) (events r))),
  ("plru", do
      let cap ← pNat; let ks ← pList pInt
      if cap ≠ Gen.parentCacheSize then pure s!"err CapacityMismatch {Gen.parentCacheSize}"
      else
        let r := run (fun k => k) cap [] ks
        pure s!"ok {pattern (events r)}"),
  ("memo", do
      let cap ← pNat; let cs ← pList pIntPair
      let r := runObj pureM cap Table.empty cs
      pure (showOuts (outputs r) (events r))),
  ("lazyloc", do
      let st ← pStrand; let bs ← pList pNatPair; let rs ← pList pLocAttr
      -- the constructor sorts the blocks (`_sort_starts_ends`) and refuses start > end
      if bs.isEmpty then pure "err Location"
      else if bs.any (fun b => b.1 > b.2) then pure "err InvalidPosition"
      else
        let r := LazyObj.reads locAttr (LazyObj.fresh (sortBlocks st bs)) rs
        pure ("ok " ++ " ".intercalate (r.2.map showLocVal))),
  ("pstrand", do
      let sa ← pStrandOpt
      let loc ← (do
        match (← tok) with
        | "N" => pure none
        | "+" => do let n ← pNat; pure (some (Strand.plus, n))
        | "-" => do let n ← pNat; pure (some (Strand.minus, n))
        | "." => do let n ← pNat; pure (some (Strand.unstranded, n))
        | t => throw s!"loc? {t}")
      let n ← pNat
      -- Parent.__init__: `if strand and location.strand and strand is not location.strand: raise InvalidStrandException`
      let half : String :=
        match sa, loc with
        | some a, some (b, _) =>
          if a ≠ b then "err:InvalidStrand"
          else " ".intercalate ((ParentS.reads ⟨sa, loc, none⟩ n).2.map showStrandOpt)
        | _, _ => " ".intercalate ((ParentS.reads ⟨sa, loc, none⟩ n).2.map showStrandOpt)
      -- the model has no process-wide cache: the answer under cold caches and after the siblings were built coincide
      pure s!"ok {half} / {half}"),
  ("cdshist", do
      let lt ← tok; let nChunk ← pNat; let nTotal ← pNat; let w ← tok; let _ ← pRestToks
      let letters := if lt = "_" then "" else lt
      match pCdsOps w with
      | .error e => throw e
      | .ok hist =>
        let cfg : CdsCfg (List Char) := ⟨fun l => l, fun l => l, pathBWrapsAsCoded, fun _ => nChunk, fun _ => nTotal⟩
        let r := cdsRun cfg (CdsState.fresh letters.toList) hist
        pure ("ok " ++ " ".intercalate (r.2.map showAns))),
  ("merge", do
      let own ← pQDict; let other ← pQDict
      let h0 := alloc [] own
      let r := if mergeCopiesSetsAsCoded then mergeDeep h0.1 h0.2 other else mergeShallow h0.1 h0.2 other
      pure s!"ok {showQDict (deref r.1 r.2)} {showQDict (deref r.1 h0.2)}"),
  ("export", do
      -- own qualifiers and the `parent_qualifiers` ARGUMENT both live on the heap; identifiers in the order of the code
      let own ← pQDict; let other ← pQDict; let ids ← pList pNatPair
      let o := alloc [] own
      let p := alloc o.1 other
      let r := exportQualifiers p.1 o.2 p.2 ids
      pure s!"ok {showQDict (deref r.1 r.2)} {showQDict (deref r.1 o.2)} {showQDict (deref r.1 p.2)}")
]
end BioCantor.Driver.Cache
