/- Spec-driver operations for C13 (imports Base/Spec only): `<op line> => <answer>` ↦ pass | fail … | n/a.
   Grammar of lines and answers: harness/impl_variants.py. -/
import BioCantor.Driver.Proto
import BioCantor.Spec.Variants
namespace BioCantor.Driver.SpecVariants
open BioCantor BioCantor.Proto BioCantor.Spec.Variants

def pArrow : P Unit := do
  match (← tok) with
  | "=>" => pure ()
  | t => throw s!"=>? {t}"

partial def pRest : P (List String) := do
  match (← get) with
  | [] => pure []
  | _ => do let x ← tok; let xs ← pRest; pure (x :: xs)

def pSeq : P Seq := do
  let t ← tok
  pure (if t = "." then [] else t.toList)

/-- chunk start (0 for a whole chromosome) -/
def pOff : P Nat := do
  let t ← tok
  if t = "W" then pure 0
  else if t.startsWith "K:" then
    match (String.ofList (t.toList.drop 2)).toNat? with
    | some n => pure n
    | none => throw s!"par? {t}"
  else throw s!"par? {t}"

def pRawVar : P (Nat × Nat × Seq) := do
  let s ← pNat; let e ← pNat; let a ← pSeq; pure (s, e, a)

def pRawVariants : P (Bool × List (Nat × Nat × Seq)) := do
  match (← tok) with
  | "1" => do let v ← pRawVar; pure (true, [v])
  | "N" => do let vs ← pList pRawVar; pure (false, vs)
  | t => throw s!"variants? {t}"

def pBlocks : P (List Blk) := do
  let bs ← pList pIntPair
  if bs.any (fun b => b.1 < 0 ∨ b.2 < 0) then throw "negative coordinate" else
  pure (bs.map fun b => (b.1.toNat, b.2.toNat))

/-- chromosome coordinates → coordinates of the reference sequence; `none` when something lies left of it -/
def relEdits (off : Nat) (raw : List (Nat × Nat × Seq)) : Option (List Edit) :=
  if raw.all (fun r => decide (off ≤ r.1)) then some (raw.map fun r => ⟨r.1 - off, r.2.1 - off, r.2.2⟩) else none

def relBlocks (off : Nat) (bs : List Blk) : Option (List Blk) :=
  if bs.all (fun b => decide (off ≤ b.1)) then some (bs.map fun b => (b.1 - off, b.2 - off)) else none

def showVerdict (shape : Bool) : Verdict → String
  | .pass => "pass"
  | .na => "n/a"
  | .fail => if shape then "fail F-C13a-shape (collection: a length-changing variant precedes another variant and a block is not wholly to its left)" else "fail"
  | .failDeletedRaises =>
    "fail deleted-location-raises (location deleted entirely: an exception instead of the EmptyLocation; the former F-C13b, repaired in /repo)"
    ++ (if shape then " F-C13a-shape (and the collection has the sequential-application shape)" else "")

/-- `<strand> <k> (<s> <e>)*k` -/
def pStBlocks : P (Strand × List Blk) := do
  let st ← pStrand; let bs ← pBlocks; pure (st, bs)

def pBar : P Unit := do
  match (← tok) with
  | "|" => pure ()
  | t => throw s!"|? {t}"

/-- answer of an `inc*` op after `ok`: strand, chromosome blocks | rel blocks | seq -/
def pShown : P (Strand × List Blk × List Blk × Seq) := do
  let (st, chrom) ← pStBlocks; pBar
  let rel ← pBlocks; pBar
  let sq ← pSeq
  pure (st, chrom, rel, sq)

/-- chromosome blocks of an answer must be its chunk-relative blocks moved by the chunk start -/
def chromConsistent (off : Nat) (chrom rel : List Blk) : Bool :=
  normBlocks chrom = normBlocks (rel.map fun b => (b.1 + off, b.2 + off))

def combine (a b : Verdict) : Verdict :=
  if a = .fail ∨ b = .fail ∨ a = .failDeletedRaises ∨ b = .failDeletedRaises then .fail
  else if a = .pass ∨ b = .pass then .pass else .na

def pPS : P PS := do
  let t ← tok
  if t = "." then pure .absent
  else if t = "none" then pure .missing
  else match t.toInt? with
    | some n => pure (.val n)
    | none => throw s!"ps? {t}"

def pVcfRec : P VcfRec := do
  let chrom ← tok; let s ← pNat; let e ← pNat; let nsamp ← pNat; let ps ← pPS
  let alts ← pList (do let a ← pSeq; let ty ← tok; pure (a, ty.toList))
  pure ⟨chrom.toList, s, e, nsamp, ps, alts⟩

def pVarOut : P VarOut := do
  let s ← pNat; let e ← pNat; let sq ← pSeq; let ty ← tok; let ph ← tok
  pure ⟨s, e, sq, ty.toList, if ph = "." then none else ph.toInt?⟩

def pCollOut : P CollOut := do
  match (← tok) with
  | "coll" => do
    let idT ← tok; let sn ← tok
    let vs ← pList pVarOut
    pure ⟨if idT = "." then none else some idT.toList, sn.toList, vs⟩
  | t => throw s!"coll? {t}"

partial def pVcfOut : P (List (List Char × List CollOut)) := do
  match (← get) with
  | [] => pure []
  | _ => do
    match (← tok) with
    | "seq" => do
      let sid ← tok
      let cs ← pList pCollOut
      let rest ← pVcfOut
      pure ((sid.toList, cs) :: rest)
    | t => throw s!"seq? {t}"

def ops : List (String × Op) := [
  ("altseq", do
      let off ← pOff; let ref ← pSeq; let (_, raw) ← pRawVariants; pArrow
      let ans ← pRest
      match relEdits off raw with
      | none => pure "n/a"
      | some es =>
        let a : Option Seq := match ans with
          | ["ok", s] => some (if s = "." then [] else s.toList)
          | _ => none
        pure (showVerdict false (okAltSeq ref es a))),
  ("lift", do
      let off ← pOff; let ref ← pSeq; let (one, raw) ← pRawVariants
      let (st, bs) ← pStBlocks; pArrow
      match relEdits off raw, relBlocks off bs with
      | some es, some rb =>
        let shape := !one && seqShiftShape es rb
        match (← tok) with
        | "ok" =>
          match (← get) with
          | ["E"] => do let _ ← pRest; pure (showVerdict shape (okLift ref es st rb (some none)))
          | _ => do
            let (ast, abl) ← pStBlocks; let sq ← pSeq
            pure (showVerdict shape (okLift ref es st rb (some (some ⟨ast, abl, sq⟩))))
        | _ => do let _ ← pRest; pure (showVerdict shape (okLift ref es st rb none))
      | _, _ => do let _ ← pRest; pure "n/a"),
  ("incF", do
      let off ← pOff; let ref ← pSeq; let (one, raw) ← pRawVariants
      let (st, bs) ← pStBlocks; pArrow
      match relEdits off raw, relBlocks off bs with
      | some es, some rb =>
        let shape := !one && seqShiftShape es rb
        match (← tok) with
        | "ok" => do
          let (ast, chrom, rel, sq) ← pShown
          let v := okIncorporate ref es st rb (some ⟨ast, rel, sq⟩)
          pure (showVerdict shape (if v = .pass ∧ !chromConsistent off chrom rel then .fail else v))
        | _ => do let _ ← pRest; pure (showVerdict shape (okIncorporate ref es st rb none))
      | _, _ => do let _ ← pRest; pure "n/a"),
  ("incC", do
      let off ← pOff; let ref ← pSeq; let (one, raw) ← pRawVariants
      let (st, bs) ← pStBlocks; let _f0 ← pInt; pArrow
      match relEdits off raw, relBlocks off bs with
      | some es, some rb =>
        let shape := !one && seqShiftShape es rb
        match (← tok) with
        | "ok" => do
          let (ast, chrom, rel, sq) ← pShown
          let v := okIncorporate ref es st rb (some ⟨ast, rel, sq⟩)
          pure (showVerdict shape (if v = .pass ∧ !chromConsistent off chrom rel then .fail else v))
        | _ => do let _ ← pRest; pure (showVerdict shape (okIncorporate ref es st rb none))
      | _, _ => do let _ ← pRest; pure "n/a"),
  ("incT", do
      let off ← pOff; let ref ← pSeq; let (one, raw) ← pRawVariants
      let (st, bs) ← pStBlocks; let cb ← pBlocks; let _f0 ← pInt; pArrow
      match relEdits off raw, relBlocks off bs, relBlocks off cb with
      | some es, some rb, some rcb =>
        let shape := !one && (seqShiftShape es rb || seqShiftShape es rcb)
        match (← tok) with
        | "ok" => do
          let (ast, chrom, rel, sq) ← pShown; pBar
          let ve := okIncorporate ref es st rb (some ⟨ast, rel, sq⟩)
          let ve := if ve = .pass ∧ !chromConsistent off chrom rel then .fail else ve
          let _ ← tok   -- "cds"
          let vc ← (do
            match (← get) with
            | ["none"] => do
              let _ ← pRest
              pure (if rcb.isEmpty then Verdict.na else okIncorporate ref es st rcb none)
            | _ => do
              let (cst, cchrom, crel, csq) ← pShown
              let v := okIncorporate ref es st rcb (some ⟨cst, crel, csq⟩)
              pure (if v = .pass ∧ !chromConsistent off cchrom crel then Verdict.fail else v))
          pure (showVerdict shape (combine ve vc))
        | _ => do
          let _ ← pRest
          let ve := okIncorporate ref es st rb none
          let vc := if rcb.isEmpty then Verdict.na else okIncorporate ref es st rcb none
          -- a refusal is justified when either part is deleted entirely
          let v := if ve = .pass ∨ vc = .pass then Verdict.pass
                   else if ve = .na ∨ vc = .na then (if rcb.isEmpty ∧ ve = .fail then .fail else .na)
                   else .fail
          pure (showVerdict shape v)
      | _, _, _ => do let _ ← pRest; pure "n/a"),
  ("hap", do
      let off ← pOff; let ref ← pSeq
      let rawHaps ← pList (pList pRawVar)
      let rawMembers ← pList (do
        let _kind ← tok
        pList (do let st ← pStrand; let bs ← pBlocks; pure (st, bs)))
      pArrow
      let haps? := rawHaps.mapM (relEdits off)
      let members? := rawMembers.mapM (fun m => m.mapM (fun l => (relBlocks off l.2).map (fun b => (l.1, b))))
      match haps?, members? with
      | some haps, some members =>
        match (← tok) with
        | "ok" => do
          -- (hap <i> <count> (member <j> <nleaf> (<strand> <k> blocks <seq>)*nleaf)*count)*nh [extra <n>]
          let rec pBuckets : Nat → P (Option (List BucketOut))
            | 0 => pure (some [])
            | n + 1 => do
              let h ← tok
              if h ≠ "hap" then pure none else
              let _i ← pNat
              let es ← pList (do
                let m ← tok
                if m ≠ "member" then throw "member?"
                let j ← pNat
                let leaves ← pList (do
                  let (st, bl) ← pStBlocks; let sq ← pSeq
                  match relBlocks off bl with
                  | some rb => pure (Lifted.mk st rb sq)
                  | none => throw "block left of the window")
                pure (j, leaves))
              match ← pBuckets n with
              | some rest => pure (some (es :: rest))
              | none => pure none
          let tbl ← pBuckets haps.length
          let trailing ← pRest
          match tbl with
          | some t =>
            if !trailing.isEmpty then pure "fail unexpected-keys-in-mapping" else
            let v := okHap ref members haps (some t)
            pure (showVerdict (v = .fail && hapFailureIsShaped ref members haps t) v)
          | none => pure "fail unreadable-answer"
        | _ => do
          let _ ← pRest
          let v := okHap ref members haps none
          pure (showVerdict (v = .fail && hapRefusalIsShaped members haps) v)
      | _, _ => do let _ ← pRest; pure "n/a"),
  ("vcf", do
      let recs ← pList pVcfRec; pArrow
      match (← tok) with
      | "ok" => do let out ← pVcfOut; pure (showVerdict false (okVcf recs (some out)))
      | _ => do let _ ← pRest; pure (showVerdict false (okVcf recs none)))
]
end BioCantor.Driver.SpecVariants
