/- Model-driver operations for C08: runs `Model.Digest.*` on token-encoded Python values.
   MD5 (RFC 1321) is implemented here, in the driver only, so that the model's GUIDs can be compared with the real
   ones; no theorem mentions it. -/
import BioCantor.Driver.Proto
import BioCantor.Driver.SpecDigest
import BioCantor.Model.DigestDict
import BioCantor.Model.DigestSchema
namespace BioCantor.Driver.Dig
open BioCantor BioCantor.Proto BioCantor.Spec.Digest BioCantor.Model.Digest BioCantor.Driver.SpecDig
open BioCantor.Spec.Qual (Str)

/-! ### MD5 -/

def md5S : Array UInt32 := #[
  7, 12, 17, 22, 7, 12, 17, 22, 7, 12, 17, 22, 7, 12, 17, 22,
  5, 9, 14, 20, 5, 9, 14, 20, 5, 9, 14, 20, 5, 9, 14, 20,
  4, 11, 16, 23, 4, 11, 16, 23, 4, 11, 16, 23, 4, 11, 16, 23,
  6, 10, 15, 21, 6, 10, 15, 21, 6, 10, 15, 21, 6, 10, 15, 21]

def md5K : Array UInt32 := #[
  0xd76aa478, 0xe8c7b756, 0x242070db, 0xc1bdceee, 0xf57c0faf, 0x4787c62a, 0xa8304613, 0xfd469501, 0x698098d8,
  0x8b44f7af, 0xffff5bb1, 0x895cd7be, 0x6b901122, 0xfd987193, 0xa679438e, 0x49b40821, 0xf61e2562, 0xc040b340,
  0x265e5a51, 0xe9b6c7aa, 0xd62f105d, 0x2441453, 0xd8a1e681, 0xe7d3fbc8, 0x21e1cde6, 0xc33707d6, 0xf4d50d87,
  0x455a14ed, 0xa9e3e905, 0xfcefa3f8, 0x676f02d9, 0x8d2a4c8a, 0xfffa3942, 0x8771f681, 0x6d9d6122, 0xfde5380c,
  0xa4beea44, 0x4bdecfa9, 0xf6bb4b60, 0xbebfbc70, 0x289b7ec6, 0xeaa127fa, 0xd4ef3085, 0x4881d05, 0xd9d4d039,
  0xe6db99e5, 0x1fa27cf8, 0xc4ac5665, 0xf4292244, 0x432aff97, 0xab9423a7, 0xfc93a039, 0x655b59c3, 0x8f0ccc92,
  0xffeff47d, 0x85845dd1, 0x6fa87e4f, 0xfe2ce6e0, 0xa3014314, 0x4e0811a1, 0xf7537e82, 0xbd3af235, 0x2ad7d2bb,
  0xeb86d391]

def rotl (x : UInt32) (c : UInt32) : UInt32 := (x <<< c) ||| (x >>> (32 - c))

def md5Pad (msg : ByteArray) : ByteArray := Id.run do
  let bitLen : UInt64 := msg.size.toUInt64 * 8
  let mut m := msg.push 0x80
  while m.size % 64 != 56 do
    m := m.push 0
  for i in [0:8] do
    m := m.push ((bitLen >>> (8 * i.toUInt64)).toUInt8)
  return m

def word (m : ByteArray) (off : Nat) : UInt32 :=
  (m.get! off).toUInt32 ||| ((m.get! (off + 1)).toUInt32 <<< 8) ||| ((m.get! (off + 2)).toUInt32 <<< 16) |||
    ((m.get! (off + 3)).toUInt32 <<< 24)

def md5Bytes (msg : ByteArray) : Array UInt32 := Id.run do
  let m := md5Pad msg
  let mut a0 : UInt32 := 0x67452301
  let mut b0 : UInt32 := 0xefcdab89
  let mut c0 : UInt32 := 0x98badcfe
  let mut d0 : UInt32 := 0x10325476
  for chunk in [0:m.size / 64] do
    let mut a := a0
    let mut b := b0
    let mut c := c0
    let mut d := d0
    for i in [0:64] do
      let mut f : UInt32 := 0
      let mut g : Nat := 0
      if i < 16 then
        f := (b &&& c) ||| ((~~~ b) &&& d); g := i
      else if i < 32 then
        f := (d &&& b) ||| ((~~~ d) &&& c); g := (5 * i + 1) % 16
      else if i < 48 then
        f := b ^^^ c ^^^ d; g := (3 * i + 5) % 16
      else
        f := c ^^^ (b ||| (~~~ d)); g := (7 * i) % 16
      let f2 := f + a + md5K[i]! + word m (chunk * 64 + 4 * g)
      a := d; d := c; c := b
      b := b + rotl f2 md5S[i]!
    a0 := a0 + a; b0 := b0 + b; c0 := c0 + c; d0 := d0 + d
  return #[a0, b0, c0, d0]

def hexLower (n : Nat) : Char := if n < 10 then Char.ofNat (n + 48) else Char.ofNat (n - 10 + 97)

/-- `hashlib.md5(b"".join(tok.encode("utf-8")…)).hexdigest()` as 32 hex characters -/
def md5Hex (tokens : List Str) : Str :=
  let bytes := tokens.foldl (fun acc t => acc ++ (String.ofList t).toUTF8) ByteArray.empty
  (md5Bytes bytes).toList.flatMap fun w =>
    (List.range 4).flatMap fun i =>
      let byte := ((w >>> (8 * i).toUInt32) &&& 0xff).toNat
      [hexLower (byte / 16), hexLower (byte % 16)]

/-! ### operations -/

def showD {α} (sh : α → String) : D α → String
  | .ok a => "ok " ++ sh a
  | .error .keyError => "err! KeyError"
  | .error .typeError => "err! TypeError"
  | .error .attributeError => "err! AttributeError"
  | .error .invalidCDS => "err InvalidCDSInterval"
  | .error .invalidAnnotation => "err InvalidAnnotation"
  | .error .emptyLocation => "err EmptyLocation"

def showTokens (guid : Str) (args : List PyVal) : String :=
  String.ofList guid ++ " " ++ showStrs (encodeObjectForDigest args [])

/-- `dictrt <cls> <dict>`: `Cls.from_dict(d).to_dict()`;  `digest <cls> <dict>`: GUID and token stream of the digest
    call of the top-level object built by `Cls.from_dict(d)` (no parent) -/
def classOp (rt : Bool) : Op := do
  let cls ← tok
  let d ← pVal
  let md5 := md5Hex
  match cls with
  | "tx" => pure (showD id ((txFromDict md5 d).map fun o =>
      if rt then showVal (txToDict o) else showTokens o.guid (txDigestArgs md5 o.args)))
  | "cds" => pure (showD id ((cdsFromDict md5 d).map fun o =>
      if rt then showVal (cdsToDict o) else showTokens o.guid (cdsDigestArgs o.args)))
  | "feat" => pure (showD id ((featFromDict md5 d).map fun o =>
      if rt then showVal (featToDict o) else showTokens o.guid (featDigestArgs o.args)))
  | "var" => pure (showD id ((varFromDict md5 d).map fun o =>
      if rt then showVal (varToDict o) else showTokens o.guid (varDigestArgs o.args)))
  | "gene" => pure (showD id ((geneFromDict md5 Frame.none d).map fun o =>
      if rt then showVal (geneToDict o) else
        match geneObjDigestArgs o.transcripts o.geneId o.geneSymbol o.geneType o.locusTag o.sequenceName o.quals Frame.none with
        | some a => showTokens o.guid a
        | none => "?"))
  | "fc" => pure (showD id ((fcFromDict md5 Frame.none d).map fun o =>
      if rt then showVal (fcToDict o) else
        match fcObjDigestArgs o.features o.name o.id o.ctype o.locusTag o.sequenceName o.quals Frame.none with
        | some a => showTokens o.guid a
        | none => "?"))
  | "vc" => pure (showD id ((vcFromDict md5 Frame.none d).map fun o =>
      if rt then showVal (vcToDict o) else
        match vcObjDigestArgs o.variants o.name o.id o.sequenceName o.quals Frame.none with
        | some a => showTokens o.guid a
        | none => "?"))
  | "ac" => pure (showD id ((acFromDict md5 d .none).bind fun o =>
      if rt then (acToDict o true).map showVal else
        pure (showTokens o.guid (acDigestArgs o.bounds o.parent.frame o.name o.sequenceName o.quals
          o.completelyWithin (o.genes.map (·.guid) ++ o.fcs.map (·.guid) ++ o.vcs.map (·.guid))))))
  | c => throw s!"class? {c}"

/-- GUID and token stream of the top-level digest call of `Cls.from_dict(d)` (no parent) -/
def digestOf (cls : String) (d : PyVal) : Except String (D String) :=
  let md5 := md5Hex
  match cls with
  | "tx" => .ok ((txFromDict md5 d).map fun o => showTokens o.guid (txDigestArgs md5 o.args))
  | "cds" => .ok ((cdsFromDict md5 d).map fun o => showTokens o.guid (cdsDigestArgs o.args))
  | "feat" => .ok ((featFromDict md5 d).map fun o => showTokens o.guid (featDigestArgs o.args))
  | "var" => .ok ((varFromDict md5 d).map fun o => showTokens o.guid (varDigestArgs o.args))
  | "gene" => .ok ((geneFromDict md5 Frame.none d).map fun o =>
      match geneObjDigestArgs o.transcripts o.geneId o.geneSymbol o.geneType o.locusTag o.sequenceName o.quals Frame.none with
      | some a => showTokens o.guid a
      | none => "?")
  | "fc" => .ok ((fcFromDict md5 Frame.none d).map fun o =>
      match fcObjDigestArgs o.features o.name o.id o.ctype o.locusTag o.sequenceName o.quals Frame.none with
      | some a => showTokens o.guid a
      | none => "?")
  | "vc" => .ok ((vcFromDict md5 Frame.none d).map fun o =>
      match vcObjDigestArgs o.variants o.name o.id o.sequenceName o.quals Frame.none with
      | some a => showTokens o.guid a
      | none => "?")
  | "ac" => .ok ((acFromDict md5 d .none).map fun o =>
      showTokens o.guid (acDigestArgs o.bounds o.parent.frame o.name o.sequenceName o.quals
        o.completelyWithin (o.genes.map (·.guid) ++ o.fcs.map (·.guid) ++ o.vcs.map (·.guid))))
  | c => .error s!"class? {c}"

def mclsOf : String → Option MCls
  | "tx" => some .tx | "feat" => some .feat | "var" => some .var | "gene" => some .gene | "fc" => some .fc
  | "vc" => some .vc | "ac" => some .ac | "parent" => some .parent
  | _ => none

/-- `Cls.from_dict(d).to_dict()` as a value (ac: with the parent exported) -/
def reexport (cls : String) (d : PyVal) : Except String (D PyVal) :=
  let md5 := md5Hex
  match cls with
  | "tx" => .ok ((txFromDict md5 d).map txToDict)
  | "feat" => .ok ((featFromDict md5 d).map featToDict)
  | "var" => .ok ((varFromDict md5 d).map varToDict)
  | "gene" => .ok ((geneFromDict md5 Frame.none d).map geneToDict)
  | "fc" => .ok ((fcFromDict md5 Frame.none d).map fcToDict)
  | "vc" => .ok ((vcFromDict md5 Frame.none d).map vcToDict)
  | "ac" => .ok ((acFromDict md5 d .none).bind fun o => acToDict o true)
  | c => .error s!"class? {c}"

def showQualOut : Option (List (Str × List Str)) → String
  | none => "None"
  | some d => " ".intercalate (toString d.length :: d.map fun e => encodeStr e.1 ++ " " ++ showStrs e.2)

def ops : List (String × Op) := [
  ("tokens", do
      let args ← pList pVal; let kw ← pKwargs
      pure ("ok " ++ showStrs (encodeObjectForDigest args kw))),
  ("tokeq", do
      let a ← pList pVal; let k ← pKwargs; pBar
      let a' ← pList pVal; let k' ← pKwargs
      pure ("ok " ++ showStrs (encodeObjectForDigest a k) ++ " " ++ showStrs (encodeObjectForDigest a' k'))),
  ("qexport", do
      let q ← pQualIn
      pure ("ok " ++ showQualOut (exportQuals (importQuals (some q))))),
  ("vcollide", do
      let s1 ← pInt; let e1 ← pInt; let s2 ← pInt; let e2 ← pInt
      let v : VarArgs := ⟨s1, e1, [], ['A'], "SNV".toList, none, none, none⟩
      let w : VarArgs := { v with start := s2, stop := e2 }
      let same := concatTokens (encodeObjectForDigest (varDigestArgs v) []) ==
                  concatTokens (encodeObjectForDigest (varDigestArgs w) [])
      pure (if same then "ok same" else "ok differ")),
  ("digest2", do
      let _ ← tok; let cls ← tok; let d1 ← pVal; pBar; let d2 ← pVal
      match digestOf cls d1, digestOf cls d2 with
      | .ok (.ok a), .ok (.ok b) => pure s!"ok {a} | {b}"
      | .ok (.error _), .ok _ => pure (showD id (digestOf cls d1 |>.toOption.getD (.error .typeError)))
      | .ok _, .ok (.error _) => pure (showD id (digestOf cls d2 |>.toOption.getD (.error .typeError)))
      | .error e, _ => throw e
      | _, .error e => throw e),
  -- `XModel.Schema().load(...)`: of the re-exported dictionary (`rt`) / of the dictionary itself (`raw`)
  ("schema", do
      let cls ← tok; let mode ← tok; let d ← pVal
      match mclsOf cls with
      | none => throw s!"class? {cls}"
      | some c =>
        let verdict (v : PyVal) : String := if accepts c v then "accept" else "reject"
        if mode == "raw" then pure ("ok " ++ verdict d)
        else match reexport cls d with
          | .ok r => pure (showD verdict r)
          | .error e => throw e),
  ("schemafields", do
      let cls ← tok
      match mclsOf cls with
      | none => throw s!"class? {cls}"
      | some c =>
        let fs := fieldFacts c
        pure ("ok " ++ " ".intercalate (toString fs.length :: fs.map fun f =>
          s!"{encodeStr f.1} {if f.2.1 then "T" else "F"} {if f.2.2 then "T" else "F"}"))),
  ("dictrt", classOp true),
  ("digest", classOp false)
]
end BioCantor.Driver.Dig
