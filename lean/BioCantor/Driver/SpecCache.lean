/-
  Spec-driver operations for C10 (imports Base and Spec only):  `<op line> => <implementation answer>` ↦ pass | fail … | n/a

  A `fail` carries a short classification of the deviation, so that a known finding can be matched narrowly
  (`x['spec']` in the `when` expression of findings/C10.json).
-/
import BioCantor.Driver.Proto
import BioCantor.Spec.Cache
namespace BioCantor.Driver.SpecCache
open BioCantor BioCantor.Proto BioCantor.Spec.Cache

def pureF (k : Int) : Int := 3 * k + 1
def pureM (o k : Int) : Int := 100 * o + k

def pArrow : P Unit := do
  match (← tok) with
  | "=>" => pure ()
  | t => throw s!"=>? {t}"

partial def pRestToks : P (List String) := do
  match (← get) with
  | [] => pure []
  | _ => do let x ← tok; let xs ← pRestToks; pure (x :: xs)

/-- consume tokens up to and including `=>` -/
partial def pSkipToArrow : P Unit := do
  match (← tok) with
  | "=>" => pure ()
  | _ => pSkipToArrow

def verdict (b : Bool) : String := if b then "pass" else "fail"

def pPattern (w : String) : Option (List Ev) :=
  w.toList.mapM fun c =>
    match c with
    | 'H' => some Ev.hit
    | 'M' => some Ev.miss
    | 'E' => some Ev.missEvict
    | _ => none

def pCdsOps (w : String) : Option (List CdsOp) :=
  w.toList.mapM fun c =>
    match c with
    | 'c' => some CdsOp.listCodons
    | 'n' => some CdsOp.numCodons
    | 'e' => some CdsOp.extract
    | 'v' => some CdsOp.validStop
    | 'N' => some CdsOp.totalCodons
    | _ => none

def pAnsTok (t : String) : Option Ans :=
  if t.startsWith "Sequence:" then some (.seqObj (t.toList.drop 9))
  else if t.startsWith "str:" then some (.str (t.toList.drop 4))
  else if t.startsWith "n:" then (String.ofList (t.toList.drop 2)).toNat?.map .count
  else if t = "true" then some (.bool true)
  else if t = "false" then some (.bool false)
  else if t = "err!" then some .internalError
  else none

/-- forget the Python type of a sequence answer / replace an internal error by what the fresh object says -/
def eraseType (letters : List Char) : CdsOp → Ans → Ans
  | _, .str l => .seqObj l
  | .validStop, .internalError => freshAns letters 0 0 .validStop
  | _, a => a

def pQDict : P QDict := pList (do let k ← pNat; let vs ← pList pNat; pure (k, vs))

/-- own sets that would result if the merge had been done IN the interval's own sets -/
def ownGained (own other : QDict) : QDict :=
  normDict (own.map fun kv => (kv.1, kv.2 ++ qget other kv.1))

def ops : List (String × Op) := [
  ("lru", do
      let cap ← pNat; let ks ← pList pInt; pArrow
      match (← tok) with
      | "ok" => do
        let outs ← pList pInt
        match pPattern (← tok) with
        | some evs => pure (verdict (okLru pureF cap ks outs evs))
        | none => pure "fail pattern?"
      | _ => do let _ ← pRestToks; pure "fail raised"),
  ("plru", do
      let cap ← pNat; let ks ← pList pInt; pArrow
      match (← tok) with
      | "ok" => do
        match pPattern (← tok) with
        | some evs => pure (verdict (okLru (fun k => k) cap ks ks evs))
        | none => pure "fail pattern?"
      | _ => do let _ ← pRestToks; pure "fail raised"),
  ("memo", do
      let cap ← pNat; let cs ← pList pIntPair; pArrow
      match (← tok) with
      | "ok" => do
        let outs ← pList pInt
        match pPattern (← tok) with
        | some evs => pure (verdict (okMemo pureM cap cs outs evs))
        | none => pure "fail pattern?"
      | _ => do let _ ← pRestToks; pure "fail raised"),
  ("lazyloc", do
      let _ ← pStrand; let _ ← pList pIntPair; let rs ← pList tok; pArrow
      match (← tok) with
      | "ok" => do
        let answers ← pRestToks
        pure (verdict (answers.length == rs.length && okSameAnswers (rs.zip answers)))
      | _ => do let _ ← pRestToks; pure "n/a"),     -- constructor refusals are C19's business
  ("pstrand", do
      pSkipToArrow
      match (← tok) with
      | "ok" => do
        let answers ← pRestToks
        -- `<cold half> / <warm half>`: the halves must coincide (fresh twin vs. history) and every read within a half too
        let cold := answers.takeWhile (· ≠ "/")
        let warm := (answers.dropWhile (· ≠ "/")).drop 1
        pure (verdict (decide (cold = warm) && okSameAnswers (cold.map fun a => ((), a))))
      | _ => do let _ ← pRestToks; pure "fail raised"),
  ("cdshist", do
      let lt ← tok; let nChunk ← pNat; let nTotal ← pNat; let w ← tok; pSkipToArrow
      let letters := if lt = "_" then "" else lt
      match (← tok), pCdsOps w with
      | "ok", some hist => do
        let toks ← pRestToks
        match toks.mapM pAnsTok with
        | none => pure "fail answer?"
        | some answers =>
          if okCdsHist letters.toList nChunk nTotal hist answers then pure "pass"
          else if answers.length == hist.length &&
              okCdsHist letters.toList nChunk nTotal hist
                ((hist.zip answers).map fun p => eraseType letters.toList p.1 p.2) then
            pure "fail type-only"       -- the VALUES are history independent, a Python type / internal error is not
          else pure "fail value"
      | _, _ => do let _ ← pRestToks; pure "fail raised"),
  ("merge", do
      let own ← pQDict; let other ← pQDict; pArrow
      match (← tok) with
      | "ok" => do
        let result ← pQDict; let ownAfter ← pQDict
        if okMerge own other result ownAfter then pure "pass"
        else if decide (normDict result = unionDict own other) && decide (normDict ownAfter = ownGained own other) then
          pure "fail operand-gained-merged-values"
        else if decide (normDict result = unionDict own other) then pure "fail operand-changed"
        else pure "fail result"
      | _ => do let _ ← pRestToks; pure "fail raised"),
  ("export", do
      let own ← pQDict; let other ← pQDict; let ids ← pList (do let k ← pNat; let v ← pNat; pure (k, v)); pArrow
      match (← tok) with
      | "ok" => do
        let result ← pQDict; let ownAfter ← pQDict; let otherAfter ← pQDict
        if okExport own other ids result ownAfter otherAfter then pure "pass"
        else if decide (normDict otherAfter ≠ normDict other) then pure "fail argument-changed"
        else if decide (normDict ownAfter ≠ normDict own) then pure "fail operand-changed"
        else pure "fail result"
      | _ => do let _ ← pRestToks; pure "fail raised"),
  -- warm <km> <seed> <who> <op>… => ok <n> (<op> <cold> <warm>){n} snap <pristine> <cold> <warm> …
  ("warm", do
      pSkipToArrow
      match (← tok) with
      | "ok" => do
        let answers ← pList (do let o ← tok; let c ← tok; let w ← tok; pure (o, c, w))
        match (← tok) with
        | "snap" => do
          let p ← tok; let c ← tok; let w ← tok; let _ ← pRestToks
          if okWarm answers p c w then pure "pass"
          else match firstWarmDiff answers with
            | some op => pure s!"fail result-answers-depend-on-operand-history {op}"
            | none => pure (if c != p then "fail operand-changed cold" else "fail operand-changed warm")
        | t => do let _ ← pRestToks; pure s!"fail snap? {t}"
      | _ => do let r ← pRestToks; pure ("fail raised " ++ " ".intercalate (r.take 2))),
  -- args … => ok fam=<f> a <before> <after> s <before> <after> r <first> <second> <twin> alias <n> <path>… …
  ("args", do
      pSkipToArrow
      match (← tok) with
      | "ok" => do
        let _fam ← tok
        let ta ← tok; let ab ← tok; let aa ← tok
        let ts ← tok; let sb ← tok; let sa ← tok
        let tr ← tok; let r1 ← tok; let r2 ← tok; let rt ← tok
        let tl ← tok
        if ta != "a" || ts != "s" || tr != "r" || tl != "alias" then do let _ ← pRestToks; pure "fail format?"
        else do
          let n ← pNat
          let rest ← pRestToks
          let aliases := if n = 0 then [] else rest.takeWhile (· != "?")
          if n != 0 && aliases.isEmpty then pure "fail format? alias"
          else if okArgs ab aa sb sa r1 r2 rt aliases then pure "pass"
          else if ab != aa then pure "fail argument-changed"
          else if sb != sa then pure "fail receiver-changed"
          else if !aliases.isEmpty then pure s!"fail result-shares-container {" ".intercalate (aliases.take 2)}"
          else if r1 != r2 then pure "fail second-call-differs"
          else pure "fail fresh-twin-differs"
      | _ => do let r ← pRestToks; pure ("fail raised " ++ " ".intercalate (r.take 2))),
  -- lazy … => ok e1 <n:d> l2 <n:d> e3 <n:d> lt <n:d> et <n:d> …
  ("lazy", do
      pSkipToArrow
      match (← tok) with
      | "ok" => do
        let rest ← pRestToks
        let body := rest.takeWhile (· != "?")
        let rec pairs : List String → List (String × String)
          | a :: b :: more => (a, b) :: pairs more
          | _ => []
        let rs := pairs body
        if rs.length != 5 || body.length != 10 then pure "fail format?"
        else if okLazy rs then pure "pass"
        else match firstLazyDiff rs with
          | some l => pure s!"fail rendering-differs {l}"
          | none => pure "fail rendering-differs"
      | _ => do let r ← pRestToks; pure ("fail raised " ++ " ".intercalate (r.take 2))),
  ("hist", do
      pSkipToArrow
      match (← tok) with
      | "ok" => do let d ← pRestToks; pure (if okHist d then "pass" else "fail " ++ " ".intercalate (d.take 3))
      | _ => do let r ← pRestToks; pure ("fail raised " ++ " ".intercalate r))
]
end BioCantor.Driver.SpecCache
