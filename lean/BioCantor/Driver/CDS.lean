/-
  Driver operations on coding intervals (C05; reusable for C06/C07): executes `Model.CDS`.
  Line formats are documented in harness/impl_cds.py.
-/
import BioCantor.Driver.Proto
import BioCantor.Driver.Loc
import BioCantor.Model.CDS
namespace BioCantor.Driver.CDS
open BioCantor BioCantor.Proto BioCantor.Model

/-- raw CDS literal: strand, F|P, (start, end, value)*, sequence -/
structure RawCDS where
  strand : Strand
  isFrame : Bool
  exons : List (Int × Int × Int)
  seq : Option (List Char)

def pTriple : P (Int × Int × Int) := do
  let a ← pInt; let b ← pInt; let c ← pInt; pure (a, b, c)

def pRawCDS : P RawCDS := do
  let st ← pStrand
  let kind ← tok
  let isFrame ← match kind with
    | "F" => pure true
    | "P" => pure false
    | t => throw s!"F|P? {t}"
  let ex ← pList pTriple
  let sq ← tok
  pure ⟨st, isFrame, ex, if sq = "_" then none else some sq.toList⟩

/-- `CDSFrame(v)` / `CDSPhase(v)` for every value, then the modelled constructor.
    Negative coordinates are refused up front, like both location constructors do (InvalidPositionException). -/
def build (r : RawCDS) : R CDS := do
  if r.exons.any (fun e => e.1 < 0 ∨ e.2.1 < 0) then throw .InvalidPosition
  let blocks : List Blk := r.exons.map (fun e => (e.1.toNat, e.2.1.toNat))
  let vals := r.exons.map (fun e => e.2.2)
  let fp ← (if r.isFrame then do
              let fs ← vals.mapM (fun v => liftPy (GenP.frameOfInt v)); pure (FramesOrPhases.frames fs)
            else do
              let ps ← vals.mapM (fun v => liftPy (GenP.phaseOfInt v)); pure (FramesOrPhases.phases ps))
  mkCDS blocks r.strand fp r.seq

def pCDS : P (R CDS) := do let r ← pRawCDS; pure (build r)

def pOptInt : P (Option Int) := do
  let t ← tok
  if t = "_" then pure none
  else match t.toInt? with
    | some i => pure (some i)
    | none => throw s!"int|_? {t}"

def pWin : P (Option WinReq) := do
  match (← tok) with
  | "-" => pure none
  | "W" => do let s ← pOptInt; let e ← pOptInt; let x ← pBool; pure (some ⟨s, e, x⟩)
  | t => throw s!"win? {t}"

def showLocs (ls : List Location) : String :=
  toString ls.length ++ String.join (ls.map fun l => " " ++ showLocation l)

def showS (s : List Char) : String := "s:" ++ String.ofList s

def showCodons (cs : List (List Char)) : String :=
  toString cs.length ++ String.join (cs.map fun c => " " ++ String.ofList c)

def frameVal (f : CDSFrame) : String := toString f.value

def ops : List (String × Op) := [
  ("codons", do
      let api ← tok
      let c ← pCDS; let w ← pWin
      if api ≠ "c" ∧ api ≠ "k" ∧ api ≠ "d" then throw s!"api? {api}"
      pure (showR showLocs (do
        let x ← c
        if api = "d" then codonLocations x else scanChromosomeCodonLocations x w))),
  ("numcodons", do let c ← pCDS; pure (showR toString (do let x ← c; numCodons x))),
  ("cdsseq", do let c ← pCDS; pure (showR showS (do let x ← c; extractSequence x))),
  ("cdsseqc", do let c ← pCDS; pure (showR showS (do let x ← c; extractSequenceCached x))),
  ("scancodons", do let c ← pCDS; let t ← pBool; pure (showR showCodons (do let x ← c; scanCodons x t))),
  ("translate", do
      let c ← pCDS; let t ← pBool; let tab ← pInt; let s ← pBool
      pure (showR showS (do
        let x ← c
        if tab ≠ 0 ∧ tab ≠ 1 ∧ tab ≠ 11 then throw .ValueError      -- `TranslationTable(n)`
        translate x t tab s))),
  ("hasstop", do let c ← pCDS; pure (showR showBool (do let x ← c; hasValidStop x))),
  ("inframestop", do let c ← pCDS; pure (showR showBool (do let x ← c; hasInFrameStop x))),
  ("canonstart", do let c ← pCDS; pure (showR showBool (do let x ← c; hasCanonicalStartCodon x))),
  ("startin", do
      let c ← pCDS; let tab ← pInt
      pure (showR showBool (do
        let x ← c
        if tab ≠ 0 ∧ tab ≠ 1 ∧ tab ≠ 11 then throw .ValueError
        hasStartCodonIn x tab))),
  ("frames", do
      let l ← Loc.pLoc; let v ← pInt
      pure (showR (fun fs => " ".intercalate (fs.map frameVal)) (do
        let x ← l
        let f ← liftPy (GenP.frameOfInt v)
        constructFramesFromLocation x f)))
]

end BioCantor.Driver.CDS
