/- Driver operations of C19: the modelled constructors on plain data (see harness/impl_validate.py for the
   line formats; one operation per line). -/
import BioCantor.Driver.Proto
import BioCantor.Driver.Loc
import BioCantor.Model.Validate
import BioCantor.Model.Sequence
import BioCantor.Gen.Kernels
namespace BioCantor.Driver.Validate
open BioCantor BioCantor.Proto BioCantor.Model BioCantor.Model.Validate

def showV {α} (sh : α → String) : V α → String
  | .ok a => "ok " ++ sh a
  | .error (.doc e) => "err " ++ showErr e
  | .error (.internal c) => "err! " ++ c

/-- `_` = None -/
def pOptWith {α} (f : String → P α) : P (Option α) := do
  let t ← tok
  if t = "_" then pure none else do let a ← f t; pure (some a)

def intOf (t : String) : P Int :=
  match t.toInt? with
  | some i => pure i
  | none => throw s!"int? {t}"

def natOf (t : String) : P Nat := do
  let i ← intOf t
  if i < 0 then throw s!"nat? {i}" else pure i.toNat

def pOptNat : P (Option Nat) := pOptWith natOf
def pOptStr : P (Option String) := pOptWith pure

def strandOf (t : String) : P Strand :=
  match t with
  | "+" => pure .plus | "-" => pure .minus | "." => pure .unstranded
  | _ => throw s!"strand? {t}"

def pItems {α} (n : Nat) (p : P α) : P (List α) :=
  let rec go : Nat → List α → P (List α)
    | 0, acc => pure acc.reverse
    | k+1, acc => do let x ← p; go k (x :: acc)
  go n []

/-- `_` | `<k> v1 … vk` -/
def pOptIntList : P (Option (List Int)) := pOptWith (fun t => do let n ← natOf t; pItems n pInt)

def showIBlocks (bs : List IBlk) : String :=
  " ".intercalate (toString bs.length :: bs.map fun b => s!"{b.1} {b.2}")

def showOptStr : Option String → String
  | some s => s | none => "_"

def showOptStrand : Option Strand → String
  | some s => strandSym s | none => "_"

def pPLoc : P (Option Validate.PLoc) := do
  match (← tok) with
  | "_" => pure none
  | "E" => pure (some ⟨true, .plus, 0, 0, none, none⟩)
  | "L" => do
      let st ← pStrand
      let bs ← pList pIntPair
      let pid ← pOptStr
      let pty ← pOptStr
      let nb : List Blk := bs.map fun b => (b.1.toNat, b.2.toNat)
      pure (some ⟨false, st, maxEnd nb, blocksLen nb, pid, pty⟩)
  | t => throw s!"ploc? {t}"

def pPSeq : P (Option PSeq) := do
  match (← tok) with
  | "_" => pure none
  | "Q" => do
      let n ← pNat
      let id ← pOptStr
      let ty ← pOptStr
      let sp ← (do
        match (← tok) with
        | "_" => pure none
        | "K" => do let a ← pOptStr; let b ← pOptStr; pure (some (a, b))
        | t => throw s!"seqpar? {t}" : P (Option (Option String × Option String)))
      pure (some ⟨n, id, ty, sp⟩)
  | t => throw s!"pseq? {t}"

def pPPar : P (Option PPar) := do
  match (← tok) with
  | "_" => pure none
  | "K" => do let a ← pOptStr; let b ← pOptStr; let n ← pOptNat; pure (some ⟨a, b, n⟩)
  | t => throw s!"ppar? {t}"

def pFP : P FP := do
  match (← tok) with
  | "F0" => pure (.frame .ZERO) | "F1" => pure (.frame .ONE) | "F2" => pure (.frame .TWO) | "F-1" => pure (.frame .NONE)
  | "P0" => pure (.phase .ZERO) | "P1" => pure (.phase .ONE) | "P2" => pure (.phase .TWO) | "P-1" => pure (.phase .NONE)
  | t => throw s!"fp? {t}"

def frameOfInt (i : Int) : P CDSFrame :=
  if i = 0 then pure .ZERO else if i = 1 then pure .ONE else if i = 2 then pure .TWO
  else if i = -1 then pure .NONE else throw s!"frame? {i}"

def showFrames (fs : List CDSFrame) : String :=
  " ".intercalate (toString fs.length :: fs.map fun f => toString f.value)

def alphabetOf (name : String) : P (List Char) :=
  match Gen.alphabets.lookup name.toList with
  | some a => pure a
  | none => throw s!"alphabet? {name}"

def pQual : P QualShape := do
  match (← tok) with
  | "_" => pure .none
  | "L0" => pure (.notDict false)
  | "L1" => pure (.notDict true)
  | "D" => do let bs ← pList pBool; pure (.dict bs)
  | t => throw s!"qual? {t}"

def pChild (withPrimary : Bool) : P Child := do
  let s ← pInt; let e ← pInt; let g ← pNat
  let p ← (if withPrimary then pBool else pure false)
  pure ⟨s, e, g, p⟩

def pTilde : P (List Char) := do let t ← tok; pure (t.toList.drop 1)

def popOf : String → POp
  | "fsi" => .fsi | "mkpar" => .mkpar | "append" => .append | "locrel" => .locrel | _ => .binary

def appendGenome : List Char := "ACGTTGCAAGTC".toList
def ntStrict : List Char := "NT_STRICT".toList

/-- the piece `impl_validate._sub_sequence` builds: text read on the piece's strand (plus reading for `.`) -/
def pieceOf (P : List Char) (st : Strand) (a b : Nat) : R Sq.SeqObj := do
  let d ← (if st = .minus then Sq.extractSingle P ntStrict (a, b) .minus else pure (Sq.sliceP P (a, b)))
  pure ⟨d, some ⟨none, some (.single (a, b) st)⟩⟩

def showPyExc : GenP.PyExc → String
  | .ValueError => "ValueError" | .TypeError => "TypeError" | .KeyError => "KeyError"
  | .InvalidPositionException => "InvalidPosition" | .InvalidStrandException => "InvalidStrand"
  | .UnsupportedOperationException => "UnsupportedOperation" | .EmptyLocationException => "EmptyLocation"
  | .LocationException => "Location" | .NotImplementedError => "NotImplemented"
  | .MismatchedFrameException => "MismatchedFrame" | .InvalidCDSIntervalError => "InvalidCDSInterval"

def showPyR {α} (sh : α → String) : GenP.PyR α → String
  | .ok a => "ok " ++ sh a
  | .error .KeyError => "err! KeyError"
  | .error e => "err " ++ showPyExc e

def ops : List (String × Op) := [
  ("mkvar", do
      let s ← pInt; let e ← pInt; let alt ← pTilde
      match Gen.alphabets.lookup "NT_STRICT_UNKNOWN".toList with
      | some al => pure (showV (fun b => s!"{b.1} {b.2}") (mkVariantFull al s e alt))
      | none => throw "alphabet table"),
  ("mkfeat", do
      let st ← pStrand; let ss ← pList pInt; let es ← pList pInt; let q ← pQual
      pure (showV (fun o => s!"{o.start} {o.endp}") (mkFeature ss es st q))),
  ("mkgene", do
      let cs ← pList (pChild true); let q ← pQual
      pure (showV (fun o => s!"{o.1} {o.2}") (mkColl true cs q))),
  ("mkfcoll", do
      let cs ← pList (pChild true); let q ← pQual
      pure (showV (fun o => s!"{o.1} {o.2}") (mkColl false cs q))),
  ("mkannot", do
      let s ← pOptWith intOf; let e ← pOptWith intOf; let cs ← pList (pChild false)
      pure (showV (fun o => match o with | .empty => "E" | .bounds a b => s!"{a} {b}") (mkAnnot s e cs))),
  ("mkcodon", do
      let s ← pTilde
      pure (showV String.ofList (mkCodon Gen.codonAlphabet s))),
  ("fromint", do
      let which ← tok; let v ← pInt
      match which with
      | "strand" => pure (showPyR strandSym (GenP.strandOfInt v))
      | "frame" => pure (showPyR (fun f => toString f.value) (GenP.frameOfInt v))
      | "phase" => pure (showPyR (fun f => toString f.value) (GenP.phaseOfInt v))
      | t => throw s!"which? {t}"),
  ("fromsym", do
      let s ← pTilde
      pure (showPyR strandSym (Gen.Strand_from_symbol s))),
  ("sappend", do
      let n ← pNat
      let st1 ← pStrand; let a1 ← pNat; let b1 ← pNat
      let st2 ← pStrand; let a2 ← pNat; let b2 ← pNat
      let d ← pBool
      let P := appendGenome.take n
      let r : R String := do
        let x ← pieceOf P st1 a1 b1
        let y ← pieceOf P st2 a2 b2
        if d then pure s!"D {(x.data ++ y.data).length} 1"
        else do
          let z ← Sq.append P x y
          match z.par with
          | some ⟨_, some m⟩ =>
              let st ← locStrand m
              let flag := match Sq.extract P ntStrict m with
                | .ok t => t == z.data
                | .error _ => false
              pure s!"L {z.data.length} {strandSym st} {(locBlocks m).length} {showBlocks (locBlocks m)} {if flag then 1 else 0}"
          | _ => pure s!"N {z.data.length} 1"
      pure (showR id r)),
  ("pcons", do
      let op ← tok
      let ks ← pList pNat
      match ks.mapM kindKey with
      | some keys => pure (showV (fun _ => "wf") (pconsModel (popOf op) keys))
      | none => throw "kind?"),
  ("hier", do
      let cls ← tok
      let k ← pNat
      match hierKey k with
      | some chain =>
          pure (showV (fun _ => "wf") (hierModel (if cls == "AnnotationCollection:empty" then .emptyAnnot else .located) chain))
      | none => throw "kind?"),
  ("mksingle", do
      let s ← pInt; let e ← pInt; let st ← pStrand; let n ← pOptNat
      pure (showV showLocation (mkSingleP s e st n))),
  ("mkcompound", do
      let st ← pStrand; let ss ← pList pInt; let es ← pList pInt; let n ← pOptNat
      pure (showV showIBlocks (mkCompoundRaw ss es st n))),
  ("mkparent", do
      let id ← pOptStr; let ty ← pOptStr; let st ← pOptWith strandOf
      let l ← pPLoc; let q ← pPSeq; let p ← pPPar
      pure (showV (fun o => s!"{showOptStr o.id} {showOptStr o.stype} {showOptStrand o.strand} {if o.hasParent then 1 else 0}")
        (mkParent ⟨id, ty, st, l, q, p⟩))),
  ("mkseq", do
      let a ← (do let t ← tok; alphabetOf t)
      let d ← tok
      let pl ← (do
        match (← tok) with
        | "_" => pure none
        | "N" => pure (some none)
        | t => do let n ← natOf t; pure (some (some n)) : P (Option (Option Nat)))
      pure (showV toString (mkSeq a (d.toList.drop 1) pl))),
  ("mkcds", do
      let st ← pStrand; let ss ← pList pInt; let es ← pList pInt; let fs ← pList pFP
      pure (showV (fun o => s!"{o.start} {o.endp} {showFrames o.frames}") (mkCDS ss es st fs))),
  ("mktx", do
      let st ← pStrand; let ss ← pList pInt; let es ← pList pInt
      let cs ← pOptIntList; let ce ← pOptIntList; let cf ← pOptIntList
      let cf' ← (match cf with
        | none => pure none
        | some l => do let fr ← l.mapM frameOfInt; pure (some fr) : P (Option (List CDSFrame)))
      pure (showV (fun o => s!"{o.start} {o.endp} " ++ (match o.cds with
          | some c => s!"1 {c.start} {c.endp}"
          | none => "0 0 0")) (mkTx ss es st cs ce cf'))),
  ("mkvarcoll", do
      let vs ← pList pIntPair
      pure (showV (fun b => s!"{b.1} {b.2}") (mkVarColl vs))),
  ("scanwin", do
      let l ← Loc.pLoc; let w ← pInt; let s ← pInt; let sp ← pInt
      pure (match l with
        | .ok x => showV toString (scanWinCount x w s sp)
        | .error e => "err " ++ showErr e))
]

end BioCantor.Driver.Validate
