/- All model-driver operation tables. -/
import BioCantor.Driver.Loc
namespace BioCantor.Driver
def table : List (String × Proto.Op) :=
  Loc.ops
end BioCantor.Driver
