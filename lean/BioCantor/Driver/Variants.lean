/- Model-driver operations for C13 (grammar: harness/impl_variants.py). -/
import BioCantor.Driver.Proto
import BioCantor.Model.Variants
namespace BioCantor.Driver.Variants
open BioCantor BioCantor.Proto BioCantor.Model BioCantor.Model.Variants

def pSeq : P Seq := do
  let t ← tok
  pure (if t = "." then [] else t.toList)

def pPar : P Par := do
  let t ← tok
  if t = "W" then pure .whole
  else if t.startsWith "K:" then
    match (String.ofList (t.toList.drop 2)).toNat? with
    | some n => pure (.chunk n)
    | none => throw s!"par? {t}"
  else throw s!"par? {t}"

def pRawVar : P (Nat × Nat × Seq) := do
  let s ← pNat; let e ← pNat; let a ← pSeq; pure (s, e, a)

/-- `1 <V>` or `N <n> <V>*` -/
def pRawVariants : P (Bool × List (Nat × Nat × Seq)) := do
  match (← tok) with
  | "1" => do let v ← pRawVar; pure (true, [v])
  | "N" => do let vs ← pList pRawVar; pure (false, vs)
  | t => throw s!"variants? {t}"

def pBlocks : P (List Blk) := do
  let bs ← pList pIntPair
  if bs.any (fun b => b.1 < 0 ∨ b.2 < 0) then throw "negative coordinate" else
  pure (bs.map fun b => (b.1.toNat, b.2.toNat))

def goodBlocks : List Blk → Bool
  | [] => true
  | [a] => decide (a.1 < a.2)
  | a :: b :: rest => decide (a.1 < a.2) && decide (a.2 ≤ b.1) && goodBlocks (b :: rest)

/-- inside the parent's window? (the modelled domain) -/
def inWin (par : Par) (n : Nat) (s e : Nat) : Bool := decide (par.off ≤ s) && decide (e ≤ par.off + n)

def buildVariants (par : Par) (ref : Seq) (one : Bool) (raw : List (Nat × Nat × Seq)) : R Variants := do
  let vs ← raw.mapM (fun r => mkVar par ref.length r.1 r.2.1 r.2.2)
  if one then
    match vs with
    | [v] => pure (.one v)
    | _ => throw .ValueError
  else do
    let sorted ← mkColl vs
    pure (.many sorted)

def mkLoc (bs : List Blk) (st : Strand) : R Location :=
  match bs with
  | [b] => pure (.single b st)
  | _ => mkCompound bs st

def showSeq (s : Seq) : String := if s.isEmpty then "." else String.ofList s

def showShown (x : Shown) : String :=
  s!"{strandSym x.strand} {x.chrom.length} {showBlocks x.chrom} | {x.rel.length} {showBlocks x.rel} | {showSeq x.seq}"

def unmodelled : String := "bad-op outside-the-modelled-domain"

/-- shared prefix: parent, reference, variants; `none` = outside the modelled domain -/
def pCommon : P (Option (Par × Seq × R Variants)) := do
  let par ← pPar; let ref ← pSeq
  let (one, raw) ← pRawVariants
  let inDomain := raw.all (fun r => r.1 = r.2.1 || r.2.1 < r.1 ||
                    (match par with | .whole => true | .chunk _ => inWin par ref.length r.1 r.2.1))
  if !inDomain then pure none else pure (some (par, ref, buildVariants par ref one raw))

def locOk (par : Par) (ref : Seq) (st : Strand) (bs : List Blk) : Bool :=
  st != .unstranded && !bs.isEmpty && goodBlocks bs && bs.all (fun b => inWin par ref.length b.1 b.2)

def pPS : P PS := do
  let t ← tok
  if t = "." then pure .absent
  else if t = "none" then pure .missing
  else match t.toInt? with
    | some n => pure (.val n)
    | none => throw s!"ps? {t}"

def pVcfRec : P VcfRec := do
  let chrom ← tok; let s ← pNat; let e ← pNat; let _nsamp ← pNat; let ps ← pPS
  let alts ← pList (do let a ← pSeq; let ty ← tok; pure (a, ty.toList))
  pure ⟨chrom.toList, s, e, ps, alts⟩

def showPhase : PS → String
  | .val n => toString n
  | _ => "."

def showColl (c : Coll) : String :=
  let idS := match c.id with | some i => String.ofList i | none => "."
  let vars := c.vars.map fun v =>
    s!"{v.start} {v.«end»} {showSeq v.seq} {String.ofList v.vtype} {showPhase v.phase}"
  " ".intercalate (s!"coll {idS} {String.ofList c.seqName} {c.vars.length}" :: vars)

/-- the operations on one version of the library text (see `Model.Variants.Ver`) -/
def opsFor (ver : Ver) : List (String × Op) := [
  ("altseq", do
      match ← pCommon with
      | none => pure unmodelled
      | some (par, ref, vs) => pure (showR showSeq (do let v ← vs; pure (v.altSeq par ref)))),
  ("lift", do
      let c ← pCommon
      let st ← pStrand; let bs ← pBlocks
      match c with
      | none => pure unmodelled
      | some (par, ref, vs) =>
        if !locOk par ref st bs then pure unmodelled else
        pure (showR id (do
          let v ← vs
          let loc ← mkLoc bs st
          let nl ← v.lift ver par ref loc
          match nl with
          | .empty => pure "E"
          | _ => do
            let s ← extract (v.altSeq par ref) (locBlocks nl) st
            pure s!"{strandSym st} {(locBlocks nl).length} {showBlocks (locBlocks nl)} {showSeq s}"))),
  ("incF", do
      let c ← pCommon
      let st ← pStrand; let bs ← pBlocks
      match c with
      | none => pure unmodelled
      | some (par, ref, vs) =>
        if !locOk par ref st bs then pure unmodelled else
        pure (showR showShown (do
          let v ← vs
          let loc ← mkLoc bs st
          incorporateFeature ver par ref v loc))),
  ("incC", do
      let c ← pCommon
      let st ← pStrand; let bs ← pBlocks; let _f0 ← pInt
      match c with
      | none => pure unmodelled
      | some (par, ref, vs) =>
        if !locOk par ref st bs then pure unmodelled else
        pure (showR showShown (do
          let v ← vs
          let loc ← mkLoc bs st
          incorporateCDS ver par ref v loc))),
  ("incT", do
      let c ← pCommon
      let st ← pStrand; let bs ← pBlocks; let cb ← pBlocks; let _f0 ← pInt
      match c with
      | none => pure unmodelled
      | some (par, ref, vs) =>
        if !locOk par ref st bs || (!cb.isEmpty && !locOk par ref st cb) then pure unmodelled
        else match bs.head?, bs.getLast?, cb.head?, cb.getLast? with
          | some e0, some eN, some c0, some cN =>
            if c0.1 < e0.1 || cN.2 > eN.2 then pure unmodelled else
            pure (showR id (do
              let v ← vs
              let loc ← mkLoc bs st
              let cl ← mkLoc cb st
              let (sh, cd) ← incorporateTranscript ver par ref v loc (some cl)
              match cd with
              | some c => pure s!"{showShown sh} | cds {showShown c}"
              | none => pure s!"{showShown sh} | cds none"))
          | _, _, _, _ =>
            pure (showR id (do
              let v ← vs
              let loc ← mkLoc bs st
              let (sh, _) ← incorporateTranscript ver par ref v loc none
              pure s!"{showShown sh} | cds none"))),
  ("hap", do
      let par ← pPar; let ref ← pSeq
      let rawHaps ← pList (pList pRawVar)
      let rawMembers ← pList (do
        let kind ← tok
        if kind ≠ "G" ∧ kind ≠ "F" then throw s!"member? {kind}"
        let leaves ← pList (do let st ← pStrand; let bs ← pBlocks; pure (st, bs))
        pure (Member.mk (kind = "G") leaves))
      let varsOk := rawHaps.all fun h => h.all fun r => r.1 = r.2.1 || r.2.1 < r.1 ||
                      (match par with | .whole => true | .chunk _ => inWin par ref.length r.1 r.2.1)
      let leavesOk := rawMembers.all fun m => !m.leaves.isEmpty && m.leaves.all fun l => locOk par ref l.1 l.2
      if !varsOk || !leavesOk || rawHaps.isEmpty then pure unmodelled else
      pure (showR id (do
        let haps ← rawHaps.mapM (fun h => do
          let vs ← h.mapM (fun r => mkVar par ref.length r.1 r.2.1 r.2.2)
          mkColl vs)
        let d ← hapMapping ver par ref haps rawMembers
        let parts := (List.range haps.length).map fun i =>
          let b := bucket d i
          " ".intercalate (s!"hap {i} {b.length}" :: b.map fun e =>
            " ".intercalate (s!"member {e.1} {e.2.length}" :: e.2.map fun sh =>
              s!"{strandSym sh.strand} {sh.chrom.length} {showBlocks sh.chrom} {showSeq sh.seq}"))
        pure (" ".intercalate parts)))),
  ("vcf", do
      let recs ← pList pVcfRec
      match convertVcf ver recs with
      | none => pure unmodelled
      | some d =>
        pure ("ok " ++ " ".intercalate (d.map fun p =>
          " ".intercalate (s!"seq {String.ofList p.1} {p.2.length}" :: p.2.map showColl))))
]
/-- the operations on the code as it is -/
def ops : List (String × Op) := opsFor .current
/-- the text before 82ac85b / c293a73 (regression only) -/
def opsBefore : List (String × Op) := opsFor .before
/-- `current` + the hypothetical repair of F-C13a (descending order) -/
def opsDescending : List (String × Op) := opsFor .descending

end BioCantor.Driver.Variants
