/- Spec-driver operations of C19: `<op> <args> => <answer>` ↦ pass | fail <why> | n/a.  Imports Base + Spec only. -/
import BioCantor.Driver.Proto
import BioCantor.Spec.Validate
namespace BioCantor.Driver.SpecValidate
open BioCantor BioCantor.Proto BioCantor.Spec.Validate

def pArrow : P Unit := do
  match (← tok) with
  | "=>" => pure ()
  | t => throw s!"=>? {t}"

/-- rest of the line -/
def pRest : P (List String) := do
  let r ← get
  set ([] : List String)
  pure r

/-- outcome: `ok …` parsed by `p`, `err X` (documented name) / `err! X` -/
def pOut {α} (p : P α) : P (Out α) := do
  match (← tok) with
  | "ok" => do let a ← p; pure (.ok a)
  | "err" => do
      let c ← tok
      pure (if documented.contains c then .refused else .internal)
  | "err!" => do let _ ← pRest; pure .internal
  | t => throw s!"ans? {t}"

def verdict (b : Bool) (why : String := "") : String := if b then "pass" else ("fail " ++ why).trimAscii.toString

def optOf {α} (f : String → P α) : P (Option α) := do
  let t ← tok
  if t = "_" then pure none else do let a ← f t; pure (some a)

def intOf (t : String) : P Int :=
  match t.toInt? with
  | some i => pure i
  | none => throw s!"int? {t}"

def natOf (t : String) : P Nat := do
  let i ← intOf t
  if i < 0 then throw s!"nat? {i}" else pure i.toNat

def strandOf (t : String) : P Strand :=
  match t with
  | "+" => pure .plus | "-" => pure .minus | "." => pure .unstranded
  | _ => throw s!"strand? {t}"

def pItems {α} (n : Nat) (p : P α) : P (List α) :=
  let rec go : Nat → List α → P (List α)
    | 0, acc => pure acc.reverse
    | k+1, acc => do let x ← p; go k (x :: acc)
  go n []

def pOptIntList : P (Option (List Int)) := optOf (fun t => do let n ← natOf t; pItems n pInt)

def maxEndN : List (Int × Int) → Nat
  | [] => 0
  | b :: bs => max b.2.toNat (maxEndN bs)

def sumLenN : List (Int × Int) → Nat
  | [] => 0
  | b :: bs => (b.2 - b.1).toNat + sumLenN bs

def pPLoc : P (Option PLoc) := do
  match (← tok) with
  | "_" => pure none
  | "E" => pure (some ⟨true, .plus, 0, 0, none, none⟩)
  | "L" => do
      let st ← pStrand
      let bs ← pList pIntPair
      let pid ← optOf pure
      let pty ← optOf pure
      pure (some ⟨false, st, maxEndN bs, sumLenN bs, pid, pty⟩)
  | t => throw s!"ploc? {t}"

def pPSeq : P (Option PSeq) := do
  match (← tok) with
  | "_" => pure none
  | "Q" => do
      let n ← pNat
      let id ← optOf pure
      let ty ← optOf pure
      let sp ← (do
        match (← tok) with
        | "_" => pure none
        | "K" => do let a ← optOf pure; let b ← optOf pure; pure (some (a, b))
        | t => throw s!"seqpar? {t}" : P (Option (Option String × Option String)))
      pure (some ⟨n, id, ty, sp⟩)
  | t => throw s!"pseq? {t}"

def pPPar : P (Option PPar) := do
  match (← tok) with
  | "_" => pure none
  | "K" => do let a ← optOf pure; let b ← optOf pure; let n ← optOf natOf; pure (some ⟨a, b, n⟩)
  | t => throw s!"ppar? {t}"

def pFPv : P FPv := do
  let t ← tok
  match t.toList with
  | 'F' :: r => do let v ← intOf (String.ofList r); pure (true, v)
  | 'P' :: r => do let v ← intOf (String.ofList r); pure (false, v)
  | _ => throw s!"fp? {t}"

/-- the alphabets of sequence/alphabet.py (the property's "wrong alphabet" clause refers to these published values) -/
def alphabetOf (name : String) : P (List Char) :=
  match name with
  | "NT_STRICT" => pure "ACGT".toList
  | "NT_EXTENDED" => pure "ATUCGNWSMKRYBDHV".toList
  | "NT_STRICT_GAPPED" => pure "ACGT-".toList
  | "NT_EXTENDED_GAPPED" => pure "ATUCGNWSMKRYBDHV-".toList
  | "NT_STRICT_UNKNOWN" => pure "ATGCN".toList
  | "AA" => pure "GALMFWKQESPVICYHRNDT*".toList
  | "AA_EXTENDED" => pure "GALMFWKQESPVICYHRNDTX*".toList
  | "AA_STRICT_GAPPED" => pure "GALMFWKQESPVICYHRNDT*.".toList
  | "AA_EXTENDED_GAPPED" => pure "GALMFWKQESPVICYHRNDTX*.".toList
  | "AA_STRICT_UNKNOWN" => pure "GALMFWKQESPVICYHRNDTX*".toList
  | "GENERIC" => pure "ABCDEFGHIJKLMNOPQRSTUVWXYZ-".toList
  | _ => throw s!"alphabet? {name}"

/-- location as given on a `scanwin` line: (constructible, directional, length) -/
def pScanLoc : P (Bool × Bool × Int) := do
  match ← pRawLoc with
  | .single s e st => pure (decide (0 ≤ s ∧ s ≤ e), st != .unstranded, e - s)
  | .compound bs st =>
      pure (!bs.isEmpty && bs.all (fun b => decide (0 ≤ b.1 ∧ b.1 ≤ b.2)), st != .unstranded,
            bs.foldl (fun acc b => acc + (b.2 - b.1)) 0)
  | .empty => pure (true, false, 0)

/-- `mustBuild`: the arguments of this grid point are valid (the uncorrupted base, or a perturbation the documentation
    explicitly allows: kinds ending in `_ok`), so only `ok wf` is acceptable -/
def gridVerdict (isCtor : Bool) : P String := do
  let _ ← tok; let _ ← tok; let _ ← tok
  let kind ← tok
  let mustBuild := isCtor && (kind == "none" || kind.endsWith "_ok")
  pArrow
  let a ← pRest
  match a with
  | ["ok", "wf"] => pure "pass"
  | "ok" :: "illformed" :: why => pure ("fail illformed " ++ " ".intercalate why)
  | ["err", c] =>
      pure (if !documented.contains c then s!"fail undocumented {c}"
            else if mustBuild then s!"fail refused-valid {c}" else "pass")
  | "err!" :: c => pure ("fail internal " ++ " ".intercalate c)
  | _ => throw "answer?"

def pQS : P QS := do
  match (← tok) with
  | "_" => pure .none
  | "L0" => pure (.notDict false)
  | "L1" => pure (.notDict true)
  | "D" => do let bs ← pList pBool; pure (.dict bs)
  | t => throw s!"qual? {t}"

def collOp : Op := do
  let cs ← pList (do let x ← pInt; let y ← pInt; let g ← pNat; let p ← pBool; pure ((x, y, g, p) : ChildS))
  let q ← pQS; pArrow
  let o ← pOut (do let x ← pInt; let y ← pInt; pure (x, y))
  pure (verdict (okMkColl cs q o)
    (match o with | .ok _ => "illformed" | .refused => "refused-valid" | .internal => "internal"))

/-- grid lines with a variable number of argument tokens: everything up to `=>` is skipped -/
partial def skipToArrow : P Unit := do
  match (← tok) with
  | "=>" => pure ()
  | _ => skipToArrow

def gridVerdictAny : P String := do
  skipToArrow
  let a ← pRest
  match a with
  | ["ok", "wf"] => pure "pass"
  | "ok" :: "illformed" :: why => pure ("fail illformed " ++ " ".intercalate why)
  | ["err", c] => pure (if documented.contains c then "pass" else s!"fail undocumented {c}")
  | "err!" :: c => pure ("fail internal " ++ " ".intercalate c)
  | _ => throw "answer?"

def hErrOf (c : String) : HErr :=
  if c == "NoSuchAncestor" then .NoSuchAncestor else if c == "NullSequence" then .NullSequence else .otherDocumented

def refusedWhy (hd : HD) (a : List String) : String :=
  match hierExpect hd with
  | .accept => "refused-valid-parent-hierarchy " ++ " ".intercalate (a.drop 1)
  | _ => "refused-with-another-class " ++ " ".intercalate (a.drop 1)

/-- `hier` / `hierx <Class> <kind> => answer`: the expected verdict is `hierExpect` of the kind's plain descriptor -/
def hierOp (exportOnly : Bool) : Op := do
  let _ ← tok
  let k ← pNat; pArrow
  let a ← pRest
  match hierKinds[k]? with
  | none => throw "kind?"
  | some hd =>
      let o : Option HOut := match a with
        | ["ok", "wf"] => some .okWf
        | "ok" :: "illformed" :: _ => some .illformed
        | ["err", c] => some (if documented.contains c then .refused (hErrOf c) else .internal)
        | "err!" :: _ => some .internal
        | _ => none
      match o with
      | none => throw "answer?"
      | some (.refused _) => if exportOnly then pure "n/a" else pure (verdict (okHier hd (o.getD .internal)) (refusedWhy hd a))
      | some .internal => if exportOnly then pure "n/a" else pure ("fail internal " ++ " ".intercalate (a.drop 1))
      | some o =>
          if exportOnly then pure (verdict (o == .okWf) ("illformed " ++ " ".intercalate (a.drop 2))) else
          pure (verdict (okHier hd o)
            (match o with
             | .okWf => "illformed accepted-invalid-parent-hierarchy"
             | .illformed => "illformed " ++ " ".intercalate (a.drop 2)
             | .refused _ => refusedWhy hd a
             | .internal => "internal " ++ " ".intercalate (a.drop 1)))

def resOf (t : String) : Res :=
  ⟨t.contains 'P', t.contains 'S', t.contains 'D', t.contains 'C', t.contains 'I', t.contains 'N'⟩

/-- `bcall <Class> <base> <member> <argid> <res> => answer`: a member of a VALID boundary object.  Never an internal
    error, nothing ill-formed; a member without arguments may refuse only what the object lacks. -/
def bcallOp : Op := do
  let _ ← tok; let _ ← tok; let _ ← tok
  let argid ← tok
  let res ← tok; pArrow
  let a ← pRest
  let zeroArg := argid == "prop" || argid == "-"
  match a with
  | ["ok", "wf"] => pure "pass"
  | "ok" :: "illformed" :: why => pure ("fail illformed " ++ " ".intercalate why)
  | ["err", c] =>
      pure (if !documented.contains c then s!"fail undocumented {c}"
            else if zeroArg && !zeroArgRefusalAllowed (resOf res) c then s!"fail refused-valid-object {c}" else "pass")
  | "err!" :: c => pure ("fail internal " ++ " ".intercalate c)
  | _ => throw "answer?"

def ops : List (String × Op) := [
  ("gbparse", gridVerdictAny),
  ("hier", hierOp false),
  ("hierx", hierOp false),
  ("hiers", hierOp true),
  ("bcall", bcallOp),
  ("ctor", gridVerdict true),
  ("call", gridVerdict false),
  ("mkvar", do
      let a ← pInt; let b ← pInt; let alt ← tok; pArrow
      let o ← pOut (do let x ← pInt; let y ← pInt; pure (x, y))
      pure (verdict (okMkVar "ATGCN".toList a b (alt.toList.drop 1) o))),
  ("mkfeat", do
      let _ ← pStrand; let ss ← pList pInt; let es ← pList pInt; let q ← pQS; pArrow
      let o ← pOut (do let x ← pInt; let y ← pInt; pure (x, y))
      pure (verdict (okMkFeature ss es q o)
        (match o with
         | .ok (x, y) => if !validBlocks ss es then "illformed built-from-invalid" else
                           (if x > y then "illformed start>end" else "illformed bounds")
         | .refused => "refused-valid" | .internal => "internal"))),
  ("mkgene", collOp),
  ("mkfcoll", collOp),
  ("mkannot", do
      let a ← optOf intOf; let b ← optOf intOf
      let kids ← pList (do let x ← pInt; let y ← pInt; let g ← pNat; pure ((x, y, g, false) : ChildS)); pArrow
      let o ← pOut (do
        let t ← tok
        if t = "E" then pure none else do let x ← intOf t; let y ← pInt; pure (some (x, y)))
      pure (verdict (okMkAnnot a b kids o)
        (match o with
         | .ok _ => if !distinctNat (kids.map (·.2.2.1)) then "illformed duplicate-children" else "illformed"
         | .refused => "refused-valid" | .internal => "internal"))),
  ("mkcodon", do
      let t ← tok; pArrow
      let o ← pOut (do let v ← tok; pure v.toList)
      pure (verdict (okMkCodon "ATUCGNWSMKRYBDHV".toList (t.toList.drop 1) o))),
  ("fromint", do
      let which ← tok; let v ← pInt; pArrow
      let members : List Int := if which == "strand" then [1, -1, 0] else [-1, 0, 1, 2]
      let o ← pOut (do
        let t ← tok
        if which == "strand" then
          (match t with
           | "+" => pure (1 : Int) | "-" => pure (-1) | "." => pure 0
           | _ => throw "strand?")
        else intOf t)
      pure (verdict (okFromInt members v o))),
  ("fromsym", do
      let t ← tok; pArrow
      let o ← pOut pStrand
      pure (verdict (okFromSymbol (t.toList.drop 1) o))),
  ("sappend", do
      let n ← pNat
      let st1 ← pStrand; let a1 ← pInt; let b1 ← pInt
      let st2 ← pStrand; let a2 ← pInt; let b2 ← pInt
      let d ← pBool; pArrow
      let o ← (do
        match (← tok) with
        | "ok" => do
            match (← tok) with
            | "D" => do let l ← pNat; let k ← pBool; pure (AppendOut.data l k)
            | "N" => do let l ← pNat; let k ← pBool; pure (AppendOut.unlocated l k)
            | "L" => do
                let l ← pNat; let st ← pStrand; let bs ← pList pIntPair; let k ← pBool
                pure (AppendOut.located l st bs k)
            | "illformed" => do let _ ← pRest; pure AppendOut.internal
            | t => throw s!"append? {t}"
        | "err" => do
            let c ← tok
            pure (if documented.contains c then AppendOut.refused else AppendOut.internal)
        | "err!" => do let _ ← pRest; pure AppendOut.internal
        | t => throw s!"ans? {t}" : P AppendOut)
      pure (verdict (okAppend n st1 a1 b1 st2 a2 b2 d o)
        (match o with
         | .refused => "refused-valid-append"
         | .internal => "internal"
         | .located _ _ _ _ =>
             if appendMustRefuse st1 a1 b1 st2 a2 b2 d then "illformed accepted-overlapping-or-misordered-pieces"
             else "illformed appended-sequence"
         | _ => "illformed appended-sequence"))),
  ("pcons", do
      let op ← tok
      let ks ← pList pNat; pArrow
      let a ← pRest
      let pds := ks.filterMap (fun k => parentKinds[k]?)
      if pds.length ≠ ks.length then throw "kind?"
      let o : Option GridOut := match a with
        | ["ok", "wf"] => some .okWf
        | "ok" :: "illformed" :: _ => some .illformed
        | ["err", c] => some (if documented.contains c then .refused else .internal)
        | "err!" :: _ => some .internal
        | _ => none
      match o with
      | none => throw "answer?"
      | some o =>
          let rule : PRule := if op == "fsi" then .fsi else if op == "mkpar" then .mkpar else .binary
          pure (verdict (okPcons rule pds o)
            (match o with
             | .okWf => "illformed accepted-mismatched-parents"
             | .illformed => "illformed " ++ " ".intercalate (a.drop 2)
             | .refused => "refused-valid-parents"
             | .internal => "internal " ++ " ".intercalate (a.drop 1)))),
  ("mksingle", do
      let s ← pInt; let e ← pInt; let st ← pStrand; let n ← optOf natOf; pArrow
      let o ← pOut (do
        match (← tok) with
        | "S" => do let st' ← pStrand; let a ← pInt; let b ← pInt; pure (a, b, st')
        | t => throw s!"S? {t}")
      pure (verdict (okMkSingle s e st n o))),
  ("mkcompound", do
      let st ← pStrand; let ss ← pList pInt; let es ← pList pInt; let n ← optOf natOf; pArrow
      let o ← pOut (pList pIntPair)
      pure (verdict (okMkCompound ss es st n o)
        (match o with
         | .ok bs => if validCompound ss es n then "illformed" else
                       (if bs.any (fun b => decide (b.1 < 0)) then "illformed negative-start" else "illformed built-from-invalid")
         | .refused => "refused-valid"
         | .internal => "internal"))),
  ("mkparent", do
      let id ← optOf pure; let ty ← optOf pure; let st ← optOf strandOf
      let l ← pPLoc; let q ← pPSeq; let p ← pPPar; pArrow
      let o ← pOut (do
        let a ← optOf pure; let b ← optOf pure; let c ← optOf strandOf; let d ← pBool
        pure (⟨a, b, c, d⟩ : ParentOut))
      pure (verdict (okMkParent ⟨id, ty, st, l, q, p⟩ o))),
  ("mkseq", do
      let a ← (do let t ← tok; alphabetOf t)
      let d ← tok
      let pl ← (do
        match (← tok) with
        | "_" => pure none
        | "N" => pure (some none)
        | t => do let n ← natOf t; pure (some (some n)) : P (Option (Option Nat)))
      pArrow
      let o ← pOut pNat
      pure (verdict (okMkSeq a (d.toList.drop 1) pl o)
        (match o with | .ok _ => "illformed len!=len(parent.location)" | .refused => "refused-valid" | .internal => "internal"))),
  ("mkcds", do
      let _ ← pStrand; let ss ← pList pInt; let es ← pList pInt; let fs ← pList pFPv; pArrow
      let o ← pOut (do let a ← pInt; let b ← pInt; let f ← pList pInt; pure (a, b, f))
      pure (verdict (okMkCDS ss es fs o)
        (match o with
         | .ok (s, e, _) => if !validCDS ss es fs then
                                (if ss.any (fun x => decide (x < 0)) then "illformed negative-start" else "illformed built-from-invalid")
                              else
                              (if s > e then "illformed start>end" else "illformed bounds")
         | .refused => "refused-valid" | .internal => "internal"))),
  ("mktx", do
      let _ ← pStrand; let ss ← pList pInt; let es ← pList pInt
      let cs ← pOptIntList; let ce ← pOptIntList; let cf ← pOptIntList; pArrow
      let o ← pOut (do let a ← pInt; let b ← pInt; let c ← pBool; let d ← pInt; let f ← pInt; pure (a, b, c, d, f))
      pure (verdict (okMkTx ss es cs ce cf o)
        (match o with
         | .ok (s, e, _, cs', ce') =>
             if !validBlocks ss es then
               (if ss.any (fun x => decide (x < 0)) then "illformed negative-start" else "illformed built-from-invalid")
             else if cs' > ce' then "illformed cds:start>end"
             else if !validTx ss es cs ce cf then
               (match cs, ce, cf with
                | some a, some b, some f =>
                    if validCDS a b (f.map fun v => (true, v)) then "illformed cds-outside-exons" else "illformed built-from-invalid-cds"
                | _, _, _ => "illformed built-from-invalid-cds")
             else if s > e then "illformed start>end" else "illformed bounds"
         | .refused => "refused-valid" | .internal => "internal"))),
  ("mkvarcoll", do
      let vs ← pList pIntPair; pArrow
      let o ← pOut (do let a ← pInt; let b ← pInt; pure (a, b))
      pure (verdict (okMkVarColl vs o)
        (match o with | .ok _ => "illformed" | .refused => "refused-valid" | .internal => "internal"))),
  ("scanwin", do
      let (okLoc, dir, n) ← pScanLoc
      let w ← pInt; let s ← pInt; let sp ← pInt; pArrow
      let a ← pRest
      match a with
      | "ok" :: "illformed" :: why => pure ("fail illformed " ++ " ".intercalate why)
      | ["ok", k] =>
          match k.toNat? with
          | some k => pure (verdict (okLoc && okScanWin dir n w s sp (.ok k)) "count")
          | none => throw "count?"
      | ["err", c] =>
          pure (if !documented.contains c then s!"fail undocumented {c}"
                else verdict (!okLoc || okScanWin dir n w s sp .refused) "refused-valid")
      | "err!" :: c => pure ("fail internal " ++ " ".intercalate c)
      | _ => throw "answer?")
]

end BioCantor.Driver.SpecValidate
