/- Model-driver operations for C09: `Model.Query.*` (which executes the GENERATED `Gen.bins`). -/
import BioCantor.Driver.SpecQuery
import BioCantor.Model.Query
namespace BioCantor.Driver.Query
open BioCantor BioCantor.Proto BioCantor.Spec.Query BioCantor.Model.Query BioCantor.Driver.SpecQuery

def showKind : Kind → String
  | .gene => "g" | .feat => "f" | .var => "v"

def showIdents (l : List (List Char)) : String :=
  if l.isEmpty then "-" else ",".intercalate (l.map String.ofList)

def showMSeq : MSeq → String
  | .noSeq => "-"
  | .emptyLoc => "~"
  | .bases s => "." ++ String.ofList s

def showRG (g : RGChild) : String :=
  s!"{g.guid} {g.start} {g.stop} {strandSym g.strand} {if g.same then "=" else "!"} {showMSeq g.mseq}"

def showRChild (c : RChild) : String :=
  s!"{c.guid} {showKind c.kind} {c.start} {c.stop} {showIdents c.idents} {c.gcs.length}"
    ++ String.join (c.gcs.map fun g => " " ++ showRG g)

def showRPar : RPar → String
  | .none => "N"
  | .noseq => "P"
  | .whole s => s!"W {String.ofList s}"
  | .chunk cs ce s => s!"K {cs} {ce} {String.ofList s}"

/-- children sorted by guid number (as the implementation side prints them) -/
def showResult (r : Result) : String :=
  let kids := r.children.mergeSort (fun a b => decide (a.guid ≤ b.guid))
  s!"ok {r.start} {r.stop} {kids.length} " ++ String.join (kids.map fun c => showRChild c ++ " ") ++ showRPar r.par

def showQErr : QErr → String
  | .doc e => "err " ++ showErr e
  | .attributeError => "err! AttributeError"
  | .typeError => "err! TypeError"
  | .unmodelled => "unmodelled"

def showQR {α} (sh : α → String) : QR α → String
  | .ok a => sh a
  | .error e => showQErr e

def trimR (s : String) : String := String.ofList (s.toList.reverse.dropWhile (· = ' ')).reverse

def ops : List (String × Op) := [
  ("qpos", do
      let src ← pSource
      let s ← pOptInt "N"; let e ← pOptInt "N"
      let co ← pBool; let cw ← pBool; let ex ← pBool
      pure (trimR (showQR showResult (queryByPosition src ⟨s, e, co, cw, ex⟩)))),
  ("qguid", do
      let src ← pSource; let ids ← pNatList
      pure (trimR (showQR showResult (queryByGuids src ids)))),
  ("qig", do
      let src ← pSource; let ids ← pNatList
      pure (trimR (showQR showResult (queryByIntervalGuids src allKinds ids)))),
  ("qtg", do
      let src ← pSource; let ids ← pNatList
      pure (trimR (showQR showResult (queryByIntervalGuids src [.gene] ids)))),
  ("qfg", do
      let src ← pSource; let ids ← pNatList
      pure (trimR (showQR showResult (queryByIntervalGuids src [.feat] ids)))),
  ("qfid", do
      let src ← pSource; let ids ← pIdentList
      pure (trimR (showQR showResult (queryByIdentifiers src ids)))),
  ("cqg", do
      let src ← pSource; let idx ← pNat; let ids ← pNatList
      match nth? src.children idx with
      | some c =>
          pure (showQR (fun o => match o with | none => "ok none" | some r => "ok " ++ showRChild r)
                  (childQueryResult src c ids))
      | none => throw "child index")
]
end BioCantor.Driver.Query
