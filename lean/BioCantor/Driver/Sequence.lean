/- Model-driver operations for C03: `Model.Sq.*` (extraction and derived sequence objects). -/
import BioCantor.Driver.Proto
import BioCantor.Model.Sequence
namespace BioCantor.Driver.Sequence
open BioCantor BioCantor.Proto BioCantor.Model BioCantor.Model.Sq

def pText : P (List Char) := do let t ← tok; pure t.toList

/-- strings are written `~text` (so that the empty string is a token) -/
def pStr : P Str := do
  match (← tok).toList with
  | '~' :: cs => pure cs
  | t => throw s!"str? {String.ofList t}"

def showStr (s : Str) : String := "~" ++ String.ofList s

def pOptInt : P (Option Int) := do
  let t ← tok
  if t == "N" then pure none
  else match t.toInt? with
    | some i => pure (some i)
    | none => throw s!"optint? {t}"

def pStep : P Step := do
  match (← tok) with
  | "sl" => do let a ← pOptInt; let b ← pOptInt; let c ← pOptInt; pure (.sl a b c)
  | "ix" => do let i ← pInt; pure (.ix i)
  | "rc" => pure .rc
  | t => throw s!"step? {t}"

/-- the constructor with the root parent -/
def buildOn (P : Str) : RawLoc → R Location
  | .single s e st => mkSingleOn P s e st
  | .compound bs st =>
      if bs.isEmpty then throw .Location
      else if bs.any (fun b => b.1 < 0 ∨ b.2 < 0) then throw .InvalidPosition
      else if bs.any (fun b => b.1 > b.2) then throw .InvalidPosition
      else mkCompoundOn P (bs.map fun b => (b.1.toNat, b.2.toNat)) st
  | .empty => pure .empty

/-- errors as the harness canonicalises them: a TypeError here is always the int/None comparison (internal) -/
def showE (e : Err) : String :=
  match e with
  | .TypeError => "err! TypeError"
  | _ => "err " ++ showErr e

def showRS {α} (sh : α → String) : R α → String
  | .ok a => "ok " ++ sh a
  | .error e => showE e

def showOptStrand : Option Strand → String
  | some s => strandSym s
  | none => "N"

def showObj (x : SeqObj) (strand : Option Strand) : String :=
  match x.par with
  | none => s!"{showStr x.data} nopar"
  | some p =>
    let l := match p.loc with | some l => showLocation l | none => "N"
    s!"{showStr x.data} par {showOptStrand strand} {l}"

/-- object + the `parent.strand` property -/
def observe (x : SeqObj) : R String := do
  let st ← (match x.par with | some p => parStrand p | none => pure none : R (Option Strand))
  pure (showObj x st)

def objOf (alph : List Char) (P : Str) (raw : RawLoc) (prog : List Step) : R SeqObj := do
  let l ← buildOn P raw
  let x0 ← seqOf P alph l
  runProg alph x0 prog

def pXform : P Xform := do
  match (← tok) with
  | "rs" => do let s ← pStrand; pure (.resetStrand s)
  | "rev2" => pure .rev2
  | "rp" => pure .resetParent
  | "opt" => pure .optimize
  | "sh0" => pure .shift0
  | t => throw s!"xform? {t}"

def ops : List (String × Op) := [
  ("xform", do
      let a ← pText; let p ← pStr; let raw ← pRawLoc; let t ← pXform
      pure (showRS (fun (x : Location × R Str) =>
          s!"{showLocation x.1} ; {match x.2 with | .ok d => showStr d | .error e => showE e}")
        (do let l ← buildOn p raw; xformExtract p a t l))),
  ("extract", do
      let a ← pText; let p ← pStr; let raw ← pRawLoc
      pure (showRS showStr (do let l ← buildOn p raw; extract p a l))),
  ("revstrand", do
      let a ← pText; let p ← pStr; let raw ← pRawLoc
      pure (showRS showStr (do let l ← buildOn p raw; revStrandExtract p a l))),
  ("split", do
      let a ← pText; let p ← pStr; let raw ← pRawLoc; let k ← pInt
      pure (showRS (fun (x : Str × Str) => s!"{showStr x.1} {showStr x.2}") (do
        let l ← buildOn p raw
        splitExtract p a l k))),
  ("seqprog", do
      let a ← pText; let p ← pStr; let raw ← pRawLoc; let prog ← pList pStep
      pure (showRS id (do let x ← objOf a p raw prog; observe x))),
  ("append", do
      let a ← pText; let p ← pStr
      let raw1 ← pRawLoc; let prog1 ← pList pStep
      let raw2 ← pRawLoc; let prog2 ← pList pStep
      pure (showRS id (do
        let x ← objOf a p raw1 prog1
        let y ← objOf a p raw2 prog2
        let sx ← observe x
        let sy ← observe y
        let z := (do let z ← append p x y; observe z : R String)
        let sz := match z with | .ok s => s | .error e => showE e
        pure s!"{sx} ; {sy} ; {sz}")))
]

end BioCantor.Driver.Sequence
