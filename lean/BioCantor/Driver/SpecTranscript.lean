/- Spec-driver operations for C06 (imports Base/Spec only): `<op line> => <answer>` ↦ pass | fail | n/a -/
import BioCantor.Driver.SpecLoc
import BioCantor.Spec.Transcript
namespace BioCantor.Driver.SpecTranscript
open BioCantor BioCantor.Proto BioCantor.Spec BioCantor.Driver.SpecLoc

structure RawTx where
  plen : Option Nat
  st : Strand
  exons : List (Int × Int)
  cds : Option (List (Int × Int))

def pPlen : P (Option Nat) := do
  match (← get) with
  | "N" :: rest => set rest; pure none
  | _ => do let n ← pNat; pure (some n)

def pCds : P (Option (List (Int × Int))) := do
  match (← get) with
  | "nc" :: rest => set rest; pure none
  | _ => do let bs ← pList pIntPair; pure (some bs)

/-- optional `F f1 … fc`: the reading frames the CDS blocks were given.  The property does not mention them
    (CDS position = 5'→3' rank in the CDS blocks, amino-acid index = CDS position / 3, whatever the frames), so
    they are consumed and ignored. -/
def pFrames (c : Nat) : P Unit := do
  match (← get) with
  | "F" :: rest => do
      set rest
      let rec go : Nat → P Unit
        | 0 => pure ()
        | k+1 => do
          match (← tok) with
          | "0" | "1" | "2" => go k
          | t => throw s!"frame? {t}"
      go c
  | _ => pure ()

def pRawTx : P RawTx := do
  let pl ← pPlen; let st ← pStrand; let ex ← pList pIntPair; let cds ← pCds
  pFrames (cds.map List.length |>.getD 0)
  pure ⟨pl, st, ex, cds⟩

inductive Built where
  | invalid            -- the documentation requires the constructor to refuse
  | na                 -- outside the scope in which the property is claimed
  | ok (t : TxSpec)

def blocksOk (bs : List (Int × Int)) : Bool := !bs.isEmpty && bs.all (fun b => decide (0 ≤ b.1) && decide (b.1 ≤ b.2))

def toLoc' (st : Strand) (bs : List (Int × Int)) : Loc := ⟨sortBlocks st (bs.map fun b => (b.1.toNat, b.2.toNat)), st⟩

/-- What a transcript is, independently of the model: exons must be a valid block list; the property is
    claimed for directional strands, exons that do not overlap and lie on the chromosome, and a CDS
    (when present) that is a non-empty contiguous stretch of the transcript. -/
def specBuild (r : RawTx) : Built :=
  if ¬ blocksOk r.exons then .invalid
  else
    let E := toLoc' r.st r.exons
    let fits := match r.plen with
      | some n => (r.exons ++ r.cds.getD []).all (fun b => decide (b.2 ≤ (n : Int)))
      | none => true
    if ¬ (r.st.isDirectional && nonOverlap E.blocks && fits) then .na
    else match r.cds with
      | none => .ok ⟨E, none, r.plen⟩
      | some cb =>
        if ¬ blocksOk cb then .na
        else
          let D := toLoc' r.st cb
          if isSub D E then .ok ⟨E, some D, r.plen⟩ else .na

/-- one cell of a position vector -/
def pCell : P (Option Int) := do
  match (← get) with
  | "x" :: rest => set rest; pure none
  | _ => do let i ← pInt; pure (some i)

/-- `ok c*` | `err X` | `err! X` (whole call refused) -/
def pVecAns : P (Option (List (Option Int))) := do
  match (← tok) with
  | "ok" => do
      let rest ← get
      let rec go : Nat → List (Option Int) → P (List (Option Int))
        | 0, acc => pure acc.reverse
        | k+1, acc => do let c ← pCell; go k (c :: acc)
      let cs ← go rest.length []
      pure (some cs)
  | "err" => do let _ ← tok; pure none
  | "err!" => do let _ ← tok; pure none
  | t => throw s!"ans? {t}"

/-- every cell `i` satisfies the pointwise predicate at position `lo + i`; the vector has the requested length -/
def okVec (ok : Int → Option Int → Bool) (lo hi : Int) (cells : List (Option Int)) : Bool :=
  cells.length == (hi - lo + 1).toNat &&
  (List.range cells.length).all (fun i => match cells[i]? with | some c => ok (lo + (i : Int)) c | none => false)

def vecOp (ok : TxSpec → Int → Option Int → Bool) : Op := do
  let r ← pRawTx; let lo ← pInt; let hi ← pInt; pArrow; let a ← pVecAns
  match specBuild r, a with
  | .invalid, a => pure (verdict a.isNone)
  | .na, _ => pure "n/a"
  | .ok _, none => pure "fail constructor-refused-a-valid-transcript"
  | .ok t, some cells => pure (verdict (okVec (ok t) lo hi cells))

def locOp (ok : TxSpec → Option Location → Bool) : Op := do
  let r ← pRawTx; pArrow; let a ← pAns pOutLoc
  match specBuild r with
  | .invalid => pure (verdict a.isNone)
  | .na => pure "n/a"
  | .ok t => pure (verdict (ok t a))

def ivOp (ok : TxSpec → Int → Int → Strand → Option Location → Bool) : Op := do
  let r ← pRawTx; let s ← pInt; let e ← pInt; let st ← pStrand; pArrow; let a ← pAns pOutLoc
  match specBuild r with
  | .invalid => pure (verdict a.isNone)
  | .na => pure "n/a"
  | .ok t => pure (verdict (ok t s e st a))

def okExLoc (t : TxSpec) (a : Option Location) : Bool := a == some (.compound t.E)
def okCdsLoc (t : TxSpec) (a : Option Location) : Bool := a == t.D.map Location.compound

def ops : List (String × Op) := [
  ("c2t", vecOp okC2T),
  ("t2c", vecOp okT2C),
  ("c2d", vecOp okC2D),
  ("d2c", vecOp okD2C),
  ("d2t", vecOp okD2T),
  ("t2d", vecOp okT2D),
  ("aa", vecOp okAA),
  -- chromosome→transcript→CDS must be chromosome→CDS
  ("c2t2d", vecOp fun t p a => okPath (expC2D t p) a),
  -- round trips: identity on the source system, refusal elsewhere
  ("rt_t", vecOp fun t r a => okRoundTrip (inTx t r) r a),
  ("rt_c", vecOp fun t p a => okRoundTrip (inExons t p) p a),
  ("rt_d", vecOp fun t c a => okRoundTrip (inCds t c) c a),
  ("rt_dc", vecOp fun t c a => okRoundTrip (inCds t c) c a),
  ("rt_td", vecOp fun t r a =>
      okRoundTrip (match expT2C t r with | some p => inCdsChrom t p | none => false) r a),
  ("utr5", locOp okUtr5),
  ("utr3", locOp okUtr3),
  ("introns", locOp okIntrons),
  ("span", locOp okSpan),
  ("exloc", locOp okExLoc),
  ("cdsloc", locOp okCdsLoc),
  ("ci2t", ivOp okCI2T),
  ("ti2c", ivOp okTI2C),
  ("ci2d", ivOp okCI2D),
  ("di2c", ivOp okDI2C)
]

/-! ### transcripts built on a chunk -/

def pWin : P Win := do
  let ws ← pNat; let we ← pNat; let wst ← pStrand; pure ⟨(ws, we), wst⟩

/-- the chunk-built twin does not know the chromosome's length (its chromosome parent carries no sequence) -/
def forChunk (r : RawTx) : RawTx := { r with plen := none }

def kvecOp (ok : TxSpec → Win → Int → Option Int → Bool) : Op := do
  let r ← pRawTx; let W ← pWin; let lo ← pInt; let hi ← pInt; pArrow; let a ← pVecAns
  match specBuild (forChunk r), a with
  | .invalid, a => pure (verdict a.isNone)
  | .na, _ => pure "n/a"
  | .ok t, a =>
    if ¬ winOk W then pure "n/a" else
    match a with
    | none => pure "fail constructor-refused-a-valid-transcript"
    | some cells => pure (verdict (okVec (ok t W) lo hi cells))

def klocOp (ok : TxSpec → Win → Option Location → Bool) : Op := do
  let r ← pRawTx; let W ← pWin; pArrow; let a ← pAns pOutLoc
  match specBuild (forChunk r) with
  | .invalid => pure (verdict a.isNone)
  | .na => pure "n/a"
  | .ok t => if ¬ winOk W then pure "n/a" else pure (verdict (ok t W a))

def kivOp (ok : TxSpec → Win → Int → Int → Strand → Option Location → Bool) : Op := do
  let r ← pRawTx; let W ← pWin; let s ← pInt; let e ← pInt; let st ← pStrand; pArrow; let a ← pAns pOutLoc
  match specBuild (forChunk r) with
  | .invalid => pure (verdict a.isNone)
  | .na => pure "n/a"
  | .ok t => if ¬ winOk W then pure "n/a" else pure (verdict (ok t W s e st a))

def chunkOps : List (String × Op) := [
  -- the chromosome-level methods of the chunk-built transcript: the SAME required answers as on the chromosome
  ("kc2t", kvecOp fun t _ => okC2T t),
  ("kt2c", kvecOp fun t _ => okT2C t),
  ("kc2d", kvecOp fun t _ => okC2D t),
  ("kd2c", kvecOp fun t _ => okD2C t),
  ("kd2t", kvecOp fun t _ => okD2T t),
  ("kt2d", kvecOp fun t _ => okT2D t),
  ("kaa", kvecOp fun t _ => okAA t),
  ("kci2t", kivOp fun t _ => okCI2T t),
  ("cr2t", kvecOp okCR2T),
  ("t2cr", kvecOp okT2CR),
  ("cr2d", kvecOp okCR2D),
  ("d2cr", kvecOp okD2CR),
  ("cri2t", kivOp okCRI2T),
  ("ti2cr", kivOp okTI2CR),
  ("cri2d", kivOp okCRI2D),
  ("di2cr", kivOp okDI2CR),
  ("kutr5", klocOp fun t W a => okKUtr t W true a),
  ("kutr3", klocOp fun t W a => okKUtr t W false a),
  ("kloc", klocOp okChunkLoc),
  ("kcdsloc", klocOp okChunkCdsLoc)
]

/-- unknown op ↦ `n/a` (as `Driver.runSpec`) -/
def answer (line : String) : String :=
  let r := runOp (ops ++ chunkOps) (line.trimRight)
  if r.startsWith "bad-op" then "n/a" else r

/-- lines are independent: answered on all cores -/
def main : IO Unit := do
  let stdin ← IO.getStdin
  let stdout ← IO.getStdout
  let mut lines : Array String := #[]
  repeat
    let line ← stdin.getLine
    if line.isEmpty then break
    lines := lines.push line
  let n := lines.size
  let nchunks := 64
  let size := (n + nchunks - 1) / nchunks
  let tasks := (List.range nchunks).map fun c =>
    Task.spawn fun _ =>
      let sub := lines.extract (c * size) (min n ((c + 1) * size))
      "\n".intercalate (sub.map answer).toList
  for t in tasks do
    let s := t.get
    if !s.isEmpty then stdout.putStrLn s

end BioCantor.Driver.SpecTranscript
