/- Model-driver operations for C04 (lift-over). -/
import BioCantor.Driver.Loc
import BioCantor.Model.Lift
namespace BioCantor.Driver.Lift
open BioCantor BioCantor.Proto BioCantor.Model

def pChars : P (List Char) := do let t ← tok; pure t.toList

def pOptSeq : P (Option (List Char)) := do
  let t ← tok
  pure (if t = "-" then none else some t.toList)

/-- `N` or a raw location -/
def pOptRawLoc : P (Option RawLoc) := do
  match (← get) with
  | "N" :: rest => set rest; pure none
  | _ => do let r ← pRawLoc; pure (some r)

structure RawLevel where
  id : List Char
  type : List Char
  seq : Option (List Char)
  place : Option RawLoc

def pRawLevel : P RawLevel := do
  let id ← pChars; let ty ← pChars; let sq ← pOptSeq; let pl ← pOptRawLoc
  pure ⟨id, ty, sq, pl⟩

def buildChain : List RawLevel → R Chain
  | [] => pure []
  | l :: ls => do
    let pl ← match l.place with
      | none => pure none
      | some r => do let x ← Loc.build r; pure (some x)
    let rest ← buildChain ls
    pure (⟨l.id, l.type, l.seq, pl⟩ :: rest)

/-- `W` (the whole chromosome) or a chunk window `a b strand` -/
def pTarget : P (Option (Blk × Strand)) := do
  match (← get) with
  | "W" :: rest => set rest; pure none
  | _ => do let a ← pNat; let b ← pNat; let s ← pStrand; pure (some ((a, b), s))

/-- `<location> ; ~<letters>`, or `E` -/
def showRelocated (x : Location × List Char) : String :=
  if x.1 == .empty then "E" else showLocation x.1 ++ " ; ~" ++ String.ofList x.2

def showLift (r : R (Location × Chain)) : String :=
  showR (fun x => showLocation x.1) r

def ops : List (String × Op) := [
  ("lifttype", do
      let t ← pChars; let c ← pRawLoc; let ls ← pList pRawLevel
      pure (showLift (do let ch ← buildChain ls; let x ← Loc.build c; liftToType t x ch))),
  ("liftseq", do
      let kid ← pChars; let kty ← pChars; let ks ← pChars; let c ← pRawLoc; let ls ← pList pRawLevel
      pure (showLift (do let ch ← buildChain ls; let x ← Loc.build c; liftToSeq (kid, kty, ks) x ch))),
  ("chunkdown", do
      let c ← pRawLoc; let ws ← pNat; let we ← pNat; let wst ← pStrand
      pure (showR showLocation (do let x ← Loc.build c; chunkDown x (ws, we) wst))),
  ("rechunk", do
      -- a location relative to chunk 1 (window w1) is moved onto chunk 2 (window w2) through the chromosome
      let c ← pRawLoc; let a1 ← pNat; let b1 ← pNat; let s1 ← pStrand; let a2 ← pNat; let b2 ← pNat; let s2 ← pStrand
      pure (showR showLocation (do
        -- the harness builds both chunk parents first (`SingleInterval(a, b, strand)` refuses b < a), then the child
        let w1 ← mkSingle a1 b1 s1
        let _ ← mkSingle a2 b2 s2
        let x ← Loc.build c
        let up ← liftOnce x w1
        chunkDown up (a2, b2) s2))),
  ("relocate", do
      -- relocate <GENOME> <a1> <b1> <s1> <TXLOC | N> <CHILD> <a2 b2 s2 | W>
      let g ← pChars; let a1 ← pNat; let b1 ← pNat; let s1 ← pStrand
      let tx ← pOptRawLoc; let c ← pRawLoc; let tgt ← pTarget
      pure (showR showRelocated (do
        let t ← match tx with
          | none => pure none
          | some r => do let x ← Loc.build r; pure (some x)
        let x ← Loc.build c
        relocate g (a1, b1) s1 t x tgt)))
]
end BioCantor.Driver.Lift
