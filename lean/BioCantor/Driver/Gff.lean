/- Model-driver operations for C11: runs `Model.Gff` (escape tables = the GENERATED `Gen.gffEncodingMap*`).
   Line grammar and token codec: see Driver/SpecGff.lean. -/
import BioCantor.Driver.Proto
import BioCantor.Driver.SpecGff
import BioCantor.Model.Gff
namespace BioCantor.Driver.Gff
open BioCantor BioCantor.Proto BioCantor.Model.Gff
open BioCantor.Driver.SpecGff (pStr pOptStr pQuals pRowsArgs pTextArgs arm)

def showS (r : Except Err Spec.Gff.Str) : String :=
  match r with
  | .ok s => "ok " ++ arm s
  | .error e => "err " ++ showErr e

def pRowType : P RowType := do
  match (← tok) with
  | "gene" => pure .gene | "transcript" => pure .transcript | "exon" => pure .exon | "cds" => pure .cds
  | "featureCollection" => pure .featureCollection | "featureInterval" => pure .featureInterval
  | "subregion" => pure .subregion
  | t => throw s!"rowtype? {t}"

def pPhase : P CDSPhase := do
  match (← tok) with
  | "." => pure .NONE | "0" => pure .ZERO | "1" => pure .ONE | "2" => pure .TWO
  | t => throw s!"phase? {t}"

def ops : List (String × Op) := [
  ("esckey", do let s ← pStr; let lower ← pBool; pure ("ok " ++ arm (escapeKey s lower)))
  , ("escval", do let s ← pStr; let comma ← pBool; pure ("ok " ++ arm (escapeValue s comma)))
  , ("attrs", do
      let raise ← pBool; let id ← pStr; let parent ← pOptStr; let name ← pOptStr; let quals ← pQuals
      pure (showS (attrsStr ⟨id, parent, name, quals, raise⟩)))
  , ("row", do
      let seqid ← pStr; let type ← pRowType; let s ← pNat; let e ← pNat; let st ← pStrand; let ph ← pPhase
      let raise ← pBool; let id ← pStr; let parent ← pOptStr; let name ← pOptStr; let quals ← pQuals
      pure (showS (rowStr ⟨seqid, type, s, e, st, ph, ⟨id, parent, name, quals, raise⟩⟩)))
  , ("rows", do
      let (chromRel, raise, c) ← pRowsArgs
      match toGffLines c chromRel raise with
      | .error e => pure ("err " ++ showErr e)
      | .ok lines => pure ("ok " ++ arm (lines.flatMap fun l => l ++ ['\n'])))
  , ("gfftext", do
      let (addSeq, ordered, chromRel, raise, cs) ← pTextArgs
      match gff3Lines cs addSeq ordered chromRel raise with
      | .error e => pure ("err " ++ showErr e)
      | .ok lines => pure ("ok " ++ arm (lines.flatMap fun l => l ++ ['\n'])))
]
end BioCantor.Driver.Gff
