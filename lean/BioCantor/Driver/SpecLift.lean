/- Spec-driver operations for C04 (imports Base/Spec only). -/
import BioCantor.Driver.SpecLoc
import BioCantor.Spec.Lift
namespace BioCantor.Driver.SpecLift
open BioCantor BioCantor.Proto BioCantor.Spec BioCantor.Driver.SpecLoc

def pChars : P (List Char) := do let t ← tok; pure t.toList
def pOptSeq : P (Option (List Char)) := do
  let t ← tok
  pure (if t = "-" then none else some t.toList)

/-- `N` | raw location; a placement the constructor must refuse makes the level list invalid -/
def pOptPlace : P (Option (Option Location)) := do
  match (← get) with
  | "N" :: rest => set rest; pure (some none)
  | _ => do
    let r ← pRawLoc
    match specBuild r with
    | some x => pure (some (some x))
    | none => pure none

def pLevel : P (Option SLevel) := do
  let id ← pChars; let ty ← pChars; let sq ← pOptSeq; let pl ← pOptPlace
  pure (pl.map fun p => ⟨id, ty, sq, p⟩)

/-- `N` or a raw location -/
def pOptRawLoc : P (Option RawLoc) := do
  match (← get) with
  | "N" :: rest => set rest; pure none
  | _ => do let r ← pRawLoc; pure (some r)

def pTarget : P (Option (Blk × Strand)) := do
  match (← get) with
  | "W" :: rest => set rest; pure none
  | _ => do let a ← pNat; let b ← pNat; let s ← pStrand; pure (some ((a, b), s))

/-- `E` | `<location> ; ~<letters>` -/
def pRelocated : P (Location × List Char) := do
  let m ← pOutLoc
  if m == .empty then pure (m, [])
  else do
    match (← tok) with
    | ";" => pure ()
    | t => throw s!";? {t}"
    let t ← tok
    pure (m, t.toList.drop 1)

def allSome {α} : List (Option α) → Option (List α)
  | [] => some []
  | none :: _ => none
  | some x :: xs => (allSome xs).map (x :: ·)

def ops : List (String × Op) := [
  ("lifttype", do
      let t ← pChars; let c ← pRawLoc; let ls ← pList pLevel; pArrow; let a ← pAns pOutLoc
      match specBuild c, allSome ls with
      | some x, some lv => pure (verdict (okLiftType t x lv a))
      | _, _ => pure (verdict a.isNone)),
  ("liftseq", do
      let kid ← pChars; let kty ← pChars; let ks ← pChars; let c ← pRawLoc; let ls ← pList pLevel; pArrow
      let a ← pAns pOutLoc
      match specBuild c, allSome ls with
      | some x, some lv => pure (verdict (okLiftSeq (kid, kty, ks) x lv a))
      | _, _ => pure (verdict a.isNone)),
  ("chunkdown", do
      let c ← pRawLoc; let ws ← pNat; let we ← pNat; let wst ← pStrand; pArrow; let a ← pAns pOutLoc
      match specBuild c with
      | some x => pure (verdict (okChunkDown x (ws, we) wst a))
      | none => pure (verdict a.isNone)),
  ("rechunk", do
      let c ← pRawLoc; let a1 ← pNat; let b1 ← pNat; let s1 ← pStrand; let a2 ← pNat; let b2 ← pNat; let s2 ← pStrand
      pArrow; let a ← pAns pOutLoc
      -- expected: lift the chunk-1 relative blocks to the chromosome (block-wise), then clip to chunk 2
      match specBuild c with
      | some x =>
        if s1 = .unstranded ∨ s2 = .unstranded then pure "n/a" else
        let upBlocks := (locationBlocks x).map (unchunkBlk (a1, b1) s1)
        let upStrand := compose (strandOf x) s1
        if (locationBlocks x).any (fun r => r.2 > b1 - a1) ∨ x == .empty then pure (verdict a.isNone)
        else if (locationBases x).isEmpty ∧ a.isNone then pure "pass"   -- nothing to move: refusal accepted
        else if ¬ nonOverlap (locationBlocks x) then pure "n/a"
        else
          let up : Location := .compound ⟨sortBlocks upStrand upBlocks, upStrand⟩
          -- the way up merges adjacent blocks (optimize_blocks), so only the covered bases are compared
          pure (verdict (okChunkDown up (a2, b2) s2 a false))
      | none => pure (verdict a.isNone)),
  ("relocate", do
      let g ← pChars; let a1 ← pNat; let b1 ← pNat; let s1 ← pStrand
      let tx ← pOptRawLoc; let c ← pRawLoc; let tgt ← pTarget; pArrow; let a ← pAns pRelocated
      let txv : Option (Option Location) := match tx with
        | none => some none
        | some r => (specBuild r).map some
      match txv, specBuild c with
      | some t, some x => pure (verdict (okRelocate g (a1, b1) s1 t x tgt a))
      | _, _ => pure (verdict a.isNone))
]
end BioCantor.Driver.SpecLift
