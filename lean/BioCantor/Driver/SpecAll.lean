/- All spec-driver operation tables (imports Base and Spec only). -/
import BioCantor.Driver.SpecLoc
namespace BioCantor.Driver
def specTable : List (String × Proto.Op) :=
  SpecLoc.ops
end BioCantor.Driver
