/- Spec-driver operations for C16 (imports Base/Spec only). -/
import BioCantor.Driver.Proto
import BioCantor.Spec.Bins
namespace BioCantor.Driver.SpecBins
open BioCantor BioCantor.Proto BioCantor.Spec

def pOff : P Int := do
  match (← tok) with
  | "bed" => pure 0
  | "gff" => pure 1
  | t => throw s!"fmt? {t}"

def pArrow : P Unit := do
  match (← tok) with
  | "=>" => pure ()
  | t => throw s!"=>? {t}"

def pRun : P (Int × Int) := do
  let t ← tok
  -- "a-b" with possibly negative a: split at the '-' that follows a digit
  let cs := t.toList
  let rec go (pre : List Char) : List Char → Option (List Char × List Char)
    | [] => none
    | c :: rest => if c = '-' ∧ pre ≠ [] then some (pre.reverse, rest) else go (c :: pre) rest
  match go [] cs with
  | some (a, b) =>
    match (String.ofList a).toInt?, (String.ofList b).toInt? with
    | some x, some y => pure (x, y)
    | _, _ => throw s!"run? {t}"
  | none => throw s!"run? {t}"

partial def pRest {α} (p : P α) : P (List α) := do
  match (← get) with
  | [] => pure []
  | _ => do let x ← p; let xs ← pRest p; pure (x :: xs)

def verdict (b : Bool) : String := if b then "pass" else "fail"

/-- body of the `bquery` op (shared with `bqueryk`, whose four leading ints — chunk window and collection bounds —
    do not enter the expected answer: membership is decided on chromosome coordinates) -/
def bqBody : Op := do
      let cw ← pBool; let qs ← pInt; let qe ← pInt
      let kids ← pList (do let _k ← tok; pList pIntPair)
      pArrow
      let ans ← pRest tok
      let want := (List.range kids.length).filter (fun i =>
        match kids[i]? with
        | some (m :: ms) =>
          let cs := ms.foldl (fun a x => min a x.1) m.1
          let ce := ms.foldl (fun a x => max a x.2) m.2
          if cw then decide (qs ≤ cs ∧ ce ≤ qe ∧ cs < ce) else decide (cs < qe ∧ qs < ce ∧ cs < ce)
        | _ => false)
      pure (verdict (ans == "ok" :: want.map toString))

def ops : List (String × Op) := [
  ("bins", do
      let s ← pInt; let e ← pInt; let off ← pOff; let one ← pBool; pArrow
      match (← tok) with
      | "ok" =>
        match (← tok) with
        | "one" => do let n ← pInt; pure (verdict (one && n == expectBin s e off))
        | "many" => do let rs ← pRest pRun; pure (verdict (!one && rs == expectBinSet s e off))
        | _ => pure "fail"
      | _ => do let _ ← pRest tok; pure "fail"),   -- bins() never raises on ints
  ("binpair", do
      let qs ← pInt; let qe ← pInt; let fs ← pInt; let fe ← pInt; let off ← pOff; pArrow
      let ans ← pRest tok
      -- domain of the never-hides claim: a valid query start, and the interval contained in / overlapping the range
      if qs - off ≥ 0 ∧ fs ≤ fe ∧ qs ≤ fe ∧ fs ≤ qe then pure (verdict (ans == ["ok", "true"]))
      else pure (verdict (ans == ["ok", "true"] || ans == ["ok", "false"]))),
  ("objbin", do
      let _kind ← tok; let s ← pInt; let e ← pInt; pArrow
      match (← pRest tok) with
      | ["ok", "one", n] => pure (verdict (n.toInt? == some (expectBin s e 0)))
      | _ => pure "fail"),
  -- position query, brute force: a child is returned iff its span lies within (strict) / overlaps (relaxed) the range
  ("bquery", bqBody),
  ("bqueryk", do let _ ← pInt; let _ ← pInt; let _ ← pInt; let _ ← pInt; bqBody)
]
end BioCantor.Driver.SpecBins
