/- Spec-driver operations for C09 (imports Base/Spec only) + the token parsers of the collection description. -/
import BioCantor.Driver.Proto
import BioCantor.Spec.Query
namespace BioCantor.Driver.SpecQuery
open BioCantor BioCantor.Proto BioCantor.Spec.Query

def pArrow : P Unit := do
  match (← tok) with
  | "=>" => pure ()
  | t => throw s!"=>? {t}"

def verdict (b : Bool) : String := if b then "pass" else "fail"

def pOptInt (none : String) : P (Option Int) := do
  let t ← tok
  if t = none then pure .none
  else match t.toInt? with
    | some i => pure (some i)
    | .none => throw s!"int? {t}"

def pKind : P Kind := do
  match (← tok) with
  | "g" => pure .gene
  | "f" => pure .feat
  | "v" => pure .var
  | t => throw s!"kind? {t}"

def pIdents : P (List (List Char)) := do
  let t ← tok
  if t = "-" then pure [] else pure ((t.splitOn ",").map String.toList)

def pPar : P Par := do
  match (← tok) with
  | "N" => pure .none
  | "P" => pure .noseq
  | "W" => do let s ← tok; pure (.whole s.toList)
  | "K" => do let cs ← pInt; let s ← tok; pure (.chunk cs s.toList)
  | t => throw s!"par? {t}"

/-- strand token of a grandchild: `+` / `-`, optionally followed by `c` (carries a CDS) / `p` (flagged primary);
    the flags are facts about the real objects only — the abstract child carries `coding` itself -/
def pGStrand : P Strand := do
  let t ← tok
  match t.toList with
  | '+' :: rest => if rest.all (fun c => c = 'c' || c = 'p') then pure .plus else throw s!"strand? {t}"
  | '-' :: rest => if rest.all (fun c => c = 'c' || c = 'p') then pure .minus else throw s!"strand? {t}"
  | _ => throw s!"strand? {t}"

def pGChild (ci j : Nat) : P GChild := do
  let s ← pInt; let e ← pInt; let st ← pGStrand
  pure ⟨s, e, st, 1000 + 100 * ci + j⟩

def pChild (ci : Nat) : P Child := do
  let k ← pKind; let s ← pInt; let e ← pInt; let coding ← pBool; let ids ← pIdents; let n ← pNat
  let rec go : Nat → Nat → List GChild → P (List GChild)
    | 0, _, acc => pure acc.reverse
    | m+1, j, acc => do let g ← pGChild ci j; go m (j+1) (g :: acc)
  let gcs ← go n 0 []
  -- the description must be the one the constructors compute: the span is the hull of the grandchildren
  if hullOf (gcs.map fun g => (g.start, g.stop)) ≠ some (s, e) then throw s!"desc: child {ci} span"
  pure ⟨k, s, e, coding, ci + 1, ids, gcs⟩

def pSource : P Source := do
  let par ← pPar
  let bs ← pOptInt "-"; let be ← pOptInt "-"
  let bounds ← match bs, be with
    | some a, some b => pure (some (a, b))
    | .none, .none => pure .none
    | _, _ => throw "bounds?"
  match (← tok) with
  | "coll" => pure ()
  | t => throw s!"coll? {t}"
  let n ← pNat
  let rec go : Nat → Nat → List Child → P (List Child)
    | 0, _, acc => pure acc.reverse
    | m+1, i, acc => do let c ← pChild i; go m (i+1) (c :: acc)
  let cs ← go n 0 []
  pure ⟨par, bounds, cs⟩

def pNatList : P (List Nat) := pList pNat
def pIdentList : P (List (List Char)) := pList (do let t ← tok; pure t.toList)

/-! ### answers -/

def pMSeq : P MSeq := do
  let t ← tok
  match t.toList with
  | ['-'] => pure .noSeq
  | ['~'] => pure .emptyLoc
  | '.' :: rest => pure (.bases rest)
  | _ => throw s!"mseq? {t}"

def pSame : P Bool := do
  match (← tok) with
  | "=" => pure true
  | "!" => pure false
  | t => throw s!"same? {t}"

def pRGChild : P RGChild := do
  let g ← pNat; let s ← pInt; let e ← pInt; let st ← pStrand; let same ← pSame; let m ← pMSeq
  pure ⟨g, s, e, st, same, m⟩

def pRChild : P RChild := do
  let g ← pNat; let k ← pKind; let s ← pInt; let e ← pInt; let ids ← pIdents
  let gcs ← pList pRGChild
  pure ⟨g, k, s, e, ids, gcs⟩

def pRPar : P RPar := do
  match (← tok) with
  | "N" => pure .none
  | "P" => pure .noseq
  | "W" => do let s ← tok; pure (.whole s.toList)
  | "K" => do
      let cs ← pInt; let ce ← pInt
      -- an empty sequence prints as nothing: the token may be absent
      match (← get) with
      | [] => pure (.chunk cs ce [])
      | _ => do let s ← tok; pure (.chunk cs ce s.toList)
  | t => throw s!"rpar? {t}"

def pResult : P Result := do
  let s ← pInt; let e ← pInt
  let kids ← pList pRChild
  let par ← pRPar
  pure ⟨s, e, kids, par⟩

partial def pDrain : P Unit := do
  match (← get) with
  | [] => pure ()
  | _ => do let _ ← tok; pDrain

def pAns : P Ans := do
  match (← tok) with
  | "ok" => do let r ← pResult; pure (.ok r)
  | "err" => do
      let c ← tok
      pure (if c = "InvalidQuery" then .rejected else .raised)
  | "err!" => do pDrain; pure .raised
  | t => throw s!"ans? {t}"

def pCAns : P CAns := do
  match (← tok) with
  | "ok" => do
      match (← get) with
      | ["none"] => do let _ ← tok; pure .none
      | _ => do let c ← pRChild; pure (.some c)
  | "err" => do pDrain; pure .raised
  | "err!" => do pDrain; pure .raised
  | t => throw s!"ans? {t}"

def nth? {α} : List α → Nat → Option α
  | [], _ => none
  | x :: _, 0 => some x
  | _ :: xs, n+1 => nth? xs n

def allKinds : List Kind := [.gene, .feat, .var]

/-! ### verdicts with a diagnosis (which clause of the property the answer breaks) -/

def diagChild (e a : RChild) : List String :=
  (if e.kind ≠ a.kind ∨ e.start ≠ a.start ∨ e.stop ≠ a.stop then ["child-span"] else [])
  ++ (if e.idents ≠ a.idents then ["identifiers"] else [])
  ++ (if e.gcs.map (·.guid) ≠ a.gcs.map (·.guid) then ["grandchildren"]
      else ((e.gcs.zip a.gcs).map fun (x, y) =>
        (if x.start ≠ y.start ∨ x.stop ≠ y.stop then ["coords"] else [])
        ++ (if x.strand ≠ y.strand then ["strand"] else [])
        ++ (if x.same ≠ y.same then ["to_dict"] else [])
        ++ (if x.mseq ≠ y.mseq then [if e.kind = .var then "mseq-variant" else "mseq"] else [])).flatten)

/-- both arguments normalised -/
def diagResult (e a : Result) : List String :=
  (if e.children.map (·.guid) ≠ a.children.map (·.guid) then ["members"]
   else ((e.children.zip a.children).map fun (x, y) => diagChild x y).flatten)
  ++ (if e.start ≠ a.start ∨ e.stop ≠ a.stop then ["bounds"] else [])
  ++ (if e.par ≠ a.par then ["parent"] else [])

def tags (l : List String) : String := " ".intercalate l.eraseDups

def explain (x : Expect) (a : Ans) : String :=
  if meets x a then "pass"
  else match x, a with
    | .reject, .ok _ => "fail not-rejected"
    | .reject, _ => "fail raised-instead-of-rejecting"
    | .result _, .rejected => "fail rejected"
    | .result _, .raised => "fail raised"
    | .result r, .ok b => "fail " ++ tags (diagResult r.norm b.norm)
    | _, .raised => "fail raised"
    | _, _ => "fail members"

def explainChild (src : Source) (c : Child) (ids : List Nat) (a : CAns) : String :=
  if okChildQueryByGuids src c ids a then "pass"
  else match reduceChild ids c, a with
    | _, .raised => "fail raised"
    | some c', .some r => "fail " ++ tags (diagChild (expectChild src.par.toRPar c').norm r.norm)
    | _, _ => "fail members"

def ops : List (String × Op) := [
  ("qpos", do
      let src ← pSource
      let s ← pOptInt "N"; let e ← pOptInt "N"
      let co ← pBool; let cw ← pBool; let ex ← pBool
      pArrow; let a ← pAns
      if ¬ constructible src then pure "n/a" else
      pure (explain (expectQueryByPosition src ⟨s, e, co, cw, ex⟩) a)),
  ("qguid", do
      let src ← pSource; let ids ← pNatList; pArrow; let a ← pAns
      -- id lists are sets in the property's quantifier; a repeated id is outside it
      if ¬ noDup ids ∨ ¬ constructible src then pure "n/a" else pure (explain (expectIdResult src (keptByGuids src ids)) a)),
  ("qig", do
      let src ← pSource; let ids ← pNatList; pArrow; let a ← pAns
      if ¬ noDup ids ∨ ¬ constructible src then pure "n/a" else pure (explain (expectIdResult src (keptByIntervalGuids src allKinds ids)) a)),
  ("qtg", do
      let src ← pSource; let ids ← pNatList; pArrow; let a ← pAns
      if ¬ noDup ids ∨ ¬ constructible src then pure "n/a" else pure (explain (expectIdResult src (keptByIntervalGuids src [.gene] ids)) a)),
  ("qfg", do
      let src ← pSource; let ids ← pNatList; pArrow; let a ← pAns
      if ¬ noDup ids ∨ ¬ constructible src then pure "n/a" else pure (explain (expectIdResult src (keptByIntervalGuids src [.feat] ids)) a)),
  ("qfid", do
      let src ← pSource; let ids ← pIdentList; pArrow; let a ← pAns
      if ¬ constructible src then pure "n/a" else
      pure (explain (expectIdResult src (keptByIdentifiers src ids)) a)),
  ("cqg", do
      let src ← pSource; let idx ← pNat; let ids ← pNatList; pArrow; let a ← pCAns
      match nth? src.children idx with
      | some c => if ¬ noDup ids ∨ ¬ constructible src then pure "n/a" else pure (explainChild src c ids a)
      | none => throw "child index")
]
end BioCantor.Driver.SpecQuery
