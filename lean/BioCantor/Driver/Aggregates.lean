/- Model-driver operations for C20: runs `Model.Agg.*`. -/
import BioCantor.Driver.Proto
import BioCantor.Driver.SpecAggregates
import BioCantor.Model.Aggregates
namespace BioCantor.Driver.Agg
open BioCantor BioCantor.Proto BioCantor.Spec.Agg BioCantor.Model.Agg BioCantor.Driver.SpecAgg
open BioCantor.Driver.SpecQual (encodeStr)

def showA {α} (sh : α → String) : RA α → String
  | .ok a => "ok " ++ sh a
  | .error (.doc e) => "err " ++ showErr e
  | .error .attributeError => "err! AttributeError"
  | .error .indexError => "err! IndexError"

def b01 (b : Bool) : String := if b then "1" else "0"

def showMerged (r : Strand × List Blk) : String := s!"{strandSym r.1} {showBlks r.2}"

def ops : List (String × Op) := [
  ("gene", do
      let cs ← pChildren
      pure (showA (fun (a : GeneAns) =>
        s!"{a.start} {a.stop} {b01 a.coding} {a.primary} " ++
          (match a.primaryCds with | none => "None" | some l => showBlks l)) (mkGene cs))),
  -- the same gene / feature collection built on a sequence chunk `<lo> <hi> <strand>`: the aggregates are functions of
  -- the chromosome-level children, so the model ignores the chunk
  ("genek", do
      let _ ← pNat; let _ ← pNat; let _ ← pStrand
      let cs ← pChildren
      pure (showA (fun (a : GeneAns) =>
        s!"{a.start} {a.stop} {b01 a.coding} {a.primary} " ++
          (match a.primaryCds with | none => "None" | some l => showBlks l)) (mkGene cs))),
  ("fcollk", do
      let _ ← pNat; let _ ← pNat; let _ ← pStrand
      let cs ← pChildren
      pure (showA (fun (a : FcollAns) =>
        let ts := a.types
        s!"{a.start} {a.stop} {a.primary} " ++ " ".intercalate (toString ts.length :: ts.map encodeStr)) (mkFcoll cs))),
  ("gmt", do let ht ← pBool; let cs ← pChildren; pure (showA showMerged (mergedTranscript ht cs))),
  ("gmc", do let ht ← pBool; let cs ← pChildren; pure (showA showMerged (mergedCds ht cs))),
  ("fcoll", do
      let cs ← pChildren
      pure (showA (fun (a : FcollAns) =>
        let ts := a.types
        s!"{a.start} {a.stop} {a.primary} " ++ " ".intercalate (toString ts.length :: ts.map encodeStr)) (mkFcoll cs))),
  ("fmf", do let cs ← pChildren; pure (showA showMerged (mergedFeature cs))),
  ("acollp", do
      let ps ← pOptNat; let pe ← pOptNat
      let bs ← pOptNat; let be ← pOptNat
      let genes ← pMembers true; let fcs ← pMembers false
      let pb := match ps, pe with | some s, some e => some (s, e) | _, _ => none
      pure (showA (fun (a : AcollAns) =>
        s!"{a.len} {b01 a.empty} " ++ (match a.bounds with | none => "None" | some (s, e) => s!"{s} {e}") ++ " " ++
          " ".intercalate (toString a.order.length :: a.order.map fun k => (if k.1 then "g " else "f ") ++ toString k.2))
        (mkAcollP pb genes fcs (bs, be)))),
  -- the same collection (and its members) built on the SEQUENCE CHUNK [ps, pe) of the chromosome: the chromosome
  -- ancestor's location is the chunk window, so the aggregates are those of `acollp`
  ("acollk", do
      let ps ← pOptNat; let pe ← pOptNat
      let bs ← pOptNat; let be ← pOptNat
      let genes ← pMembers true; let fcs ← pMembers false
      let pb := match ps, pe with | some s, some e => some (s, e) | _, _ => none
      pure (showA (fun (a : AcollAns) =>
        s!"{a.len} {b01 a.empty} " ++ (match a.bounds with | none => "None" | some (s, e) => s!"{s} {e}") ++ " " ++
          " ".intercalate (toString a.order.length :: a.order.map fun k => (if k.1 then "g " else "f ") ++ toString k.2))
        (mkAcollP pb genes fcs (bs, be)))),
  ("acoll", do
      let bs ← pOptNat; let be ← pOptNat
      let genes ← pMembers true; let fcs ← pMembers false
      pure (showA (fun (a : AcollAns) =>
        s!"{a.len} {b01 a.empty} " ++ (match a.bounds with | none => "None" | some (s, e) => s!"{s} {e}") ++ " " ++
          " ".intercalate (toString a.order.length :: a.order.map fun k => (if k.1 then "g " else "f ") ++ toString k.2))
        (mkAcoll genes fcs (bs, be))))
]
end BioCantor.Driver.Agg
