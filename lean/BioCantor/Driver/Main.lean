/- Shared main loop of every driver executable script (lean --run). -/
import BioCantor.Driver.Proto
namespace BioCantor.Driver
open BioCantor

partial def loop (table : List (String × Proto.Op)) (spec : Bool) (h out : IO.FS.Stream) : IO Unit := do
  let line ← h.getLine
  if line.isEmpty then return ()
  let l := String.ofList (line.toList.filter (fun c => c != '\n' && c != '\r'))
  let r := Proto.runOp table l
  out.putStrLn (if spec && r.startsWith "bad-op" then "n/a" else r)
  loop table spec h out

/-- model driver: unknown op ↦ `bad-op …` -/
def runModel (table : List (String × Proto.Op)) : IO Unit := do
  loop table false (← IO.getStdin) (← IO.getStdout)

/-- spec driver: unknown op ↦ `n/a` -/
def runSpec (table : List (String × Proto.Op)) : IO Unit := do
  loop table true (← IO.getStdin) (← IO.getStdout)

end BioCantor.Driver
