/-
  Base vocabulary shared by Spec / Gen / Model.  Import-free (Lean core only).

  Python objects are represented by plain data:
    * `Strand`            inscripta.biocantor.location.strand.Strand
    * `Blk = Nat × Nat`   one (start, end) pair, 0-based half open
    * `Loc`               the block list + strand of a SingleInterval / CompoundInterval
    * `Location`          the three Python location types (dispatch is on the Python type)
    * `Err`               the documented exception classes (names as in inscripta.biocantor.exc)
-/
namespace BioCantor

inductive Strand where
  | plus | minus | unstranded
  deriving DecidableEq, Repr, Inhabited

/-- `inscripta.biocantor.gene.cds_frame.CDSFrame` (values -1, 0, 1, 2) -/
inductive CDSFrame where
  | NONE | ZERO | ONE | TWO
  deriving DecidableEq, Repr, Inhabited

/-- `inscripta.biocantor.gene.cds_frame.CDSPhase` (values -1, 0, 1, 2) -/
inductive CDSPhase where
  | NONE | ZERO | ONE | TWO
  deriving DecidableEq, Repr, Inhabited

def CDSFrame.value : CDSFrame → Int
  | .NONE => -1 | .ZERO => 0 | .ONE => 1 | .TWO => 2
def CDSPhase.value : CDSPhase → Int
  | .NONE => -1 | .ZERO => 0 | .ONE => 1 | .TWO => 2
def Strand.value : Strand → Int
  | .plus => 1 | .minus => -1 | .unstranded => 0

/-- Exception classes the library documents.  There is deliberately no "internal error"
    constructor: the model cannot produce AttributeError/IndexError/KeyError/RecursionError. -/
inductive Err where
  | InvalidPosition | InvalidStrand | ValueError | TypeError | EmptyLocation | LocationOverlap
  | Location | NullParent | MismatchedParent | NoSuchAncestor | NullSequence | Parent
  | UnsupportedOperation | InvalidCDSInterval | MismatchedFrame | NoncodingTranscript
  | Validation | InvalidAnnotation | InvalidQuery | Alphabet | Export | NotImplemented
  deriving DecidableEq, Repr, Inhabited

abbrev Blk := Nat × Nat

@[inline] def Blk.len (b : Blk) : Nat := b.2 - b.1

/-- Block list and strand, as stored by the constructors (`_starts`, `_ends`, `strand`). -/
structure Loc where
  blocks : List Blk
  strand : Strand
  deriving DecidableEq, Repr, Inhabited

/-- The three Python location types. `single` always carries exactly one block. -/
inductive Location where
  | single (b : Blk) (s : Strand)
  | compound (l : Loc)
  | empty
  deriving DecidableEq, Repr, Inhabited

def Strand.isDirectional : Strand → Bool
  | .unstranded => false
  | _ => true

/-- Sum of block lengths (`length` attribute). -/
def blocksLen : List Blk → Nat
  | [] => 0
  | b :: bs => b.len + blocksLen bs

def Loc.len (l : Loc) : Nat := blocksLen l.blocks

/-- Sort order established by `CompoundInterval._sort_starts_ends`. -/
def blkLePlus (a b : Blk) : Bool := a.1 < b.1 || (a.1 == b.1 && a.2 ≤ b.2)
def blkLeOther (a b : Blk) : Bool := a.1 < b.1 || (a.1 == b.1 && b.2 ≤ a.2)

def blkLe (s : Strand) : Blk → Blk → Bool :=
  match s with
  | .plus => blkLePlus
  | _ => blkLeOther

/-- Python's `sorted` is a stable sort; `List.mergeSort` is stable as well. -/
def sortBlocks (s : Strand) (bs : List Blk) : List Blk := bs.mergeSort (blkLe s)

/-- Every block satisfies `start ≤ end` (the constructor raises otherwise). -/
def blocksValid : List Blk → Bool
  | [] => true
  | b :: bs => decide (b.1 ≤ b.2) && blocksValid bs

/-- Pairwise sortedness w.r.t. the constructor's order (adjacent form). -/
def sortedBy (le : Blk → Blk → Bool) : List Blk → Bool
  | [] => true
  | [_] => true
  | a :: b :: rest => le a b && sortedBy le (b :: rest)

/-- What `CompoundInterval.__init__` establishes. -/
def Loc.Canon (l : Loc) : Prop :=
  l.blocks ≠ [] ∧ blocksValid l.blocks = true ∧ sortedBy (blkLe l.strand) l.blocks = true

instance (l : Loc) : Decidable l.Canon := by unfold Loc.Canon; infer_instance

/-- `is_overlapping == False`: each block ends at or before the next one starts. -/
def nonOverlap : List Blk → Bool
  | [] => true
  | [_] => true
  | a :: b :: rest => decide (a.2 ≤ b.1) && nonOverlap (b :: rest)

def Loc.NonOverlap (l : Loc) : Prop := nonOverlap l.blocks = true
instance (l : Loc) : Decidable l.NonOverlap := by unfold Loc.NonOverlap; infer_instance

/-- Python `//` and `%` on ints are floor division / floor modulo; Lean's `Int./` and `%` are the
    Euclidean pair, which coincides with Python for positive divisors (the translator refuses others). -/
def pyMod (a b : Int) : Int := a % b
def pyDiv (a b : Int) : Int := a / b

end BioCantor
