/-
  Hand-written mirror of the coordinate API of a transcript (C06):

    gene/transcript.py   TranscriptInterval.__init__ (the CDS/exon checks), cds_pos_to_transcript,
                         transcript_pos_to_cds, the NoncodingTranscriptError wrappers,
                         get_5p_interval, get_3p_interval
    gene/interval.py     AbstractFeatureInterval.sequence_pos_to_feature, sequence_interval_to_feature,
                         feature_pos_to_sequence, feature_interval_to_sequence,
                         chromosome_location, chromosome_span, chromosome_gaps_location,
                         AbstractInterval.initialize_location
    gene/cds.py          CDSInterval.__init__ (empty-CDS check), cds_pos_to_sequence, sequence_pos_to_cds,
                         cds_interval_to_sequence, sequence_interval_to_cds, sequence_pos_to_amino_acid
    location_impl.py     CompoundInterval.gap_list / gaps_location / _full_span_interval

  Every method is the composition of location functions (Model/Location.lean, Model/RelativeTo.lean)
  that the Python code performs.  The transcript is either parent-less or sits on a whole-chromosome
  parent carrying a sequence of length `plen` (the only thing the code reads from such a parent on
  these paths is that length: `SingleInterval.__init__` refuses `end > len(parent.sequence)`).

  Two locations matter, exactly as in the code:
    * `chromosome_location`     ALWAYS `CompoundInterval(_genomic_starts, _genomic_ends, strand)`;
    * `chunk_relative_location` (`_location`) a SingleInterval when there is exactly one block,
                                a CompoundInterval otherwise (`initialize_location`).
-/
import BioCantor.Model.Location
import BioCantor.Model.RelativeTo
import BioCantor.Model.Lift
namespace BioCantor.Model
open BioCantor

/-- What `TranscriptInterval.__init__` keeps that the coordinate API reads. -/
structure Transcript where
  /-- `chromosome_location` of the transcript (blocks sorted by the constructor) -/
  exons : Loc
  /-- `cds.chromosome_location` (`none` = `self.cds is None`, a non-coding transcript) -/
  cds : Option Loc
  /-- length of the chromosome sequence of the parent, when there is a parent -/
  plen : Option Nat
  deriving Repr, Inhabited

/-- `SingleInterval(start, end, strand, parent=…)`: `0 <= start <= end`, and with a parent carrying
    sequence `end <= len(parent.sequence)`. -/
def mkSingleOn (plen : Option Nat) (s e : Int) (st : Strand) : R Location := do
  let l ← mkSingle s e st
  match plen with
  | some n => if e > n then throw .InvalidPosition else pure l
  | none => pure l

/-- `AbstractInterval.initialize_location` (whole-chromosome or absent parent): one block gives a
    SingleInterval, anything else a CompoundInterval; `reset_parent` keeps the coordinates. -/
def initializeLocation (bs : List Blk) (st : Strand) : R Location :=
  match bs with
  | [b] => mkSingle b.1 b.2 st
  | _ => mkCompound bs st

/-- `chromosome_location`: `CompoundInterval(self._genomic_starts, self._genomic_ends, self._strand)`. -/
def chromosomeLocation (bs : List Blk) (st : Strand) : R Loc := mkCompoundLoc bs st

/-- `TranscriptInterval.__init__`, the part that decides whether a transcript exists and what its two
    locations are.  `exons`/`cds` are the lists as passed (`exon_starts[0]`, `exon_ends[-1]`, … are read
    from them unsorted, as the code does). -/
def mkTranscript (exons : List Blk) (st : Strand) (cds : Option (List Blk)) (plen : Option Nat) :
    R Transcript := do
  -- self._location = initialize_location(exon_starts, exon_ends, strand, parent)
  let _ ← initializeLocation exons st
  let e ← chromosomeLocation exons st
  match cds with
  | none => pure ⟨e, none, plen⟩
  | some cb =>
    -- `cds_starts[0] < exon_starts[0]` / `cds_ends[-1] > exon_ends[-1]`
    match cb.head?, exons.head?, cb.getLast?, exons.getLast? with
    | some c0, some e0, some cl, some el =>
      if c0.1 < e0.1 then throw .InvalidCDSInterval
      else if cl.2 > el.2 then throw .InvalidCDSInterval
      else do
        -- CDSInterval.__init__: initialize_location, then `len(self.chromosome_location) == 0`
        let _ ← initializeLocation cb st
        let d ← chromosomeLocation cb st
        if d.len = 0 then throw .InvalidCDSInterval
        pure ⟨e, some d, plen⟩
    | _, _, _, _ => throw .Location     -- empty lists: `CompoundInterval([], [])` refuses

/-- `TranscriptInterval.__init__` with its `cds_frames` argument: one frame per CDS block is demanded
    (`len(cds_frames) != len(cds_starts)` ⇒ InvalidCDSIntervalError); the frames are then stored with the CDS
    and NEVER read by any coordinate conversion (amino-acid index included), so they do not enter `Transcript`. -/
def mkTranscriptF (exons : List Blk) (st : Strand) (cds : Option (List Blk)) (frames : List CDSFrame)
    (plen : Option Nat) : R Transcript :=
  match cds with
  | some cb => if frames.length ≠ cb.length then throw .InvalidCDSInterval else mkTranscript exons st cds plen
  | none => mkTranscript exons st cds plen

/-- `chunk_relative_location` (`_location`) of a block list: SingleInterval iff exactly one block. -/
def chunkLocation (l : Loc) : Location := toSingleIfOne l

namespace Transcript

/-! ### AbstractFeatureInterval (interval.py) -/

/-- `sequence_pos_to_feature` = `chromosome_location.parent_to_relative_pos(pos)` -/
def sequencePosToFeature (t : Transcript) (p : Int) : R Int := compoundP2R t.exons p

/-- `feature_pos_to_sequence` = `chromosome_location.relative_to_parent_pos(pos)` -/
def featurePosToSequence (t : Transcript) (r : Int) : R Int := compoundR2P t.exons r

/-- `sequence_interval_to_feature`:
    `i = SingleInterval(chr_start, chr_end, chr_strand, parent=loc.parent); loc.parent_to_relative_location(i)`
    and `parent_to_relative_location(i)` is `i.location_relative_to(loc)`. -/
def sequenceIntervalToFeature (t : Transcript) (s e : Int) (st : Strand) : R Location := do
  let i ← mkSingleOn t.plen s e st
  locationRelativeTo i (.compound t.exons) true

/-- `feature_interval_to_sequence` = `chromosome_location.relative_interval_to_parent_location(…)` -/
def featureIntervalToSequence (t : Transcript) (rs re : Int) (rst : Strand) : R Location :=
  compoundRelInterval t.exons rs re rst

/-! ### TranscriptInterval wrappers (transcript.py) -/

def sequencePosToTranscript (t : Transcript) (p : Int) : R Int := t.sequencePosToFeature p
def transcriptPosToSequence (t : Transcript) (r : Int) : R Int := t.featurePosToSequence r
def sequenceIntervalToTranscript (t : Transcript) (s e : Int) (st : Strand) : R Location :=
  t.sequenceIntervalToFeature s e st
def transcriptIntervalToSequence (t : Transcript) (rs re : Int) (rst : Strand) : R Location :=
  t.featureIntervalToSequence rs re rst

/-- `if not self.is_coding: raise NoncodingTranscriptError` -/
def requireCoding (t : Transcript) : R Loc :=
  match t.cds with
  | some d => pure d
  | none => throw .NoncodingTranscript

/-- `cds_pos_to_sequence` → `CDSInterval.cds_pos_to_sequence` = `chromosome_location.relative_to_parent_pos` -/
def cdsPosToSequence (t : Transcript) (r : Int) : R Int := do
  let d ← t.requireCoding
  compoundR2P d r

/-- `sequence_pos_to_cds` → `CDSInterval.sequence_pos_to_cds` = `chromosome_location.parent_to_relative_pos` -/
def sequencePosToCds (t : Transcript) (p : Int) : R Int := do
  let d ← t.requireCoding
  compoundP2R d p

/-- `cds_interval_to_sequence` -/
def cdsIntervalToSequence (t : Transcript) (rs re : Int) (rst : Strand) : R Location := do
  let d ← t.requireCoding
  compoundRelInterval d rs re rst

/-- `sequence_interval_to_cds` -/
def sequenceIntervalToCds (t : Transcript) (s e : Int) (st : Strand) : R Location := do
  let d ← t.requireCoding
  let i ← mkSingleOn t.plen s e st
  locationRelativeTo i (.compound d) true

/-- `cds_pos_to_transcript`: `chr_pos = self.cds_pos_to_sequence(pos); self.sequence_pos_to_transcript(chr_pos)` -/
def cdsPosToTranscript (t : Transcript) (r : Int) : R Int := do
  let _ ← t.requireCoding
  let chr ← t.cdsPosToSequence r
  t.sequencePosToTranscript chr

/-- `transcript_pos_to_cds`: `chr_pos = self.transcript_pos_to_sequence(pos); self.sequence_pos_to_cds(chr_pos)` -/
def transcriptPosToCds (t : Transcript) (r : Int) : R Int := do
  let _ ← t.requireCoding
  let chr ← t.transcriptPosToSequence r
  t.sequencePosToCds chr

/-- `CDSInterval.sequence_pos_to_amino_acid` = `self.sequence_pos_to_cds(pos) // 3`, reached through
    `transcript.cds` (a non-coding transcript has no `cds` object; the harness never asks then and the
    model answers with the class the sibling wrappers raise). -/
def sequencePosToAminoAcid (t : Transcript) (p : Int) : R Int := do
  let c ← t.sequencePosToCds p
  pure (pyDiv c 3)

/-- `cds_location` -/
def cdsLocation (t : Transcript) : R Location := do
  let d ← t.requireCoding
  pure (.compound d)

/-- `_chunk_relative_transcript_start` of a transcript without a chunk:
    `_chunk_relative_bounded_chromosome_location` is then `_location` itself (no parent, or a chromosome parent onto
    which the lift is the identity), so this is the transcript position of the first transcript base -/
def chunkRelativeTranscriptStart (t : Transcript) : R Int := do
  let firstPos ← r2p (chunkLocation t.exons) 0
  t.sequencePosToTranscript firstPos

/-- `get_5p_interval` -/
def get5pInterval (t : Transcript) : R Location := do
  let d ← t.requireCoding
  -- `if self.cds.chunk_relative_location == self.chunk_relative_location: return EmptyLocation()`
  if chunkLocation d = chunkLocation t.exons then pure .empty
  else do
    -- `cds_start_on_transcript = self.cds_pos_to_transcript(0) - self._chunk_relative_transcript_start()`
    let cdsStart ← t.cdsPosToTranscript 0
    let off ← t.chunkRelativeTranscriptStart
    -- `utr_end = min(max(cds_start_on_transcript, 0), len(self._location))`
    let utrEnd : Int := min (max (cdsStart - off) 0) t.exons.len
    relInterval (chunkLocation t.exons) 0 utrEnd .plus

/-- `get_3p_interval` -/
def get3pInterval (t : Transcript) : R Location := do
  let d ← t.requireCoding
  if chunkLocation d = chunkLocation t.exons then pure .empty
  else do
    -- `self.cds_pos_to_transcript(len(self.cds) - 1)`
    let cdsInclusiveEnd ← t.cdsPosToTranscript ((d.len : Int) - 1)
    let off ← t.chunkRelativeTranscriptStart
    let utrStart : Int := min (max (cdsInclusiveEnd + 1 - off) 0) t.exons.len
    -- `relative_interval_to_parent_location(utr_start, len(self._location), PLUS)`
    relInterval (chunkLocation t.exons) utrStart t.exons.len .plus

end Transcript

/-! ### gaps and span (location_impl.py) -/

/-- the loop of `CompoundInterval.gap_list` over consecutive blocks in scan order:
    `SingleInterval(min(block1.end, block2.end), max(block1.start, block2.start), strand, parent)` -/
def gapWalk (st : Strand) : List Blk → R (List Blk)
  | a :: b :: rest => do
    let g ← mkSingle (min a.2 b.2 : Nat) (max a.1 b.1 : Nat) st
    let gs ← gapWalk st (b :: rest)
    pure (locBlocks g ++ gs)
  | _ => pure []

/-- `CompoundInterval.gap_list` -/
def gapList (l : Loc) : R (List Blk) := do
  let optimized ← optimizeLoc false l          -- optimize_and_combine_blocks
  match optimized with
  | .empty => pure []                          -- `if optimized.is_empty: return []`
  | .single _ _ => pure []                     -- SingleInterval.scan_blocks yields one block: no pair
  | .compound c => do
    let bs ← scanBlocks c                      -- strand order; raises on an undirected strand
    gapWalk l.strand bs

/-- `CompoundInterval.gaps_location`: `from_single_intervals(gap_list)` (a CompoundInterval even for a
    single gap) or `EmptyLocation()` when there is no gap. -/
def gapsLocation (l : Loc) : R Location := do
  let gs ← gapList l
  if gs.isEmpty then pure .empty else mkCompound gs l.strand

namespace Transcript

/-- `chromosome_gaps_location` (= `chromosome_intron_location`) -/
def chromosomeGapsLocation (t : Transcript) : R Location := gapsLocation t.exons

/-- `chromosome_span` = `chromosome_location._full_span_interval`
    = `SingleInterval(self.start, self.end, strand, parent)` -/
def chromosomeSpan (t : Transcript) : R Location := do
  let b ← fullSpan t.exons
  pure (.single b t.exons.strand)

/-- `chromosome_location` -/
def chromosomeLocation (t : Transcript) : R Location := pure (.compound t.exons)

end Transcript
/-! ## transcripts built on a sequence chunk (`io.parser.seq_chunk_to_parent`)

  `parent_or_seq_chunk_parent` is a chunk parent: a sequence of length `w.2 - w.1` placed at the window `w`
  of the chromosome on strand `wst`.  What changes (gene/interval.py `initialize_location` →
  `liftover_location_to_seq_chunk_parent`):
    * `_location` (= `chunk_relative_location`) is `Model.chunkDown` of the chromosome location: the part inside
      the window in chunk coordinates, block structure kept, `EmptyLocation` when nothing is inside;
    * `chromosome_location` is still `CompoundInterval(_genomic_starts, _genomic_ends, strand)`, now below a
      chromosome parent WITHOUT sequence (no length check on chromosome intervals);
    * the CDS object is built on the same parent, so it has its own chunk-relative `_location`.
  Every chromosome-level method reads only `base`; the `chunk_relative_*` / `*_to_chunk_relative` methods read
  the two `_location`s. -/
structure ChunkTranscript where
  /-- chromosome-level members (`plen = none`: the chromosome parent of a chunk carries no sequence) -/
  base : Transcript
  w : Blk
  wst : Strand
  /-- `_location` of the transcript -/
  location : Location
  /-- `cds._location` (`none` = non-coding) -/
  cdsLocation : Option Location
  deriving Repr, Inhabited

/-- `initialize_location(starts, ends, strand, chunk_parent)` -/
def initializeLocationOnChunk (bs : List Blk) (st : Strand) (w : Blk) (wst : Strand) : R Location := do
  let l ← initializeLocation bs st
  chunkDown l w wst

/-- `TranscriptInterval.__init__` with a chunk parent -/
def mkChunkTranscript (exons : List Blk) (st : Strand) (cds : Option (List Blk)) (w : Blk) (wst : Strand) :
    R ChunkTranscript := do
  let loc ← initializeLocationOnChunk exons st w wst
  let e ← chromosomeLocation exons st
  match cds with
  | none => pure ⟨⟨e, none, none⟩, w, wst, loc, none⟩
  | some cb =>
    match cb.head?, exons.head?, cb.getLast?, exons.getLast? with
    | some c0, some e0, some cl, some el =>
      if c0.1 < e0.1 then throw .InvalidCDSInterval
      else if cl.2 > el.2 then throw .InvalidCDSInterval
      else do
        let dl ← initializeLocationOnChunk cb st w wst
        let d ← chromosomeLocation cb st
        if d.len = 0 then throw .InvalidCDSInterval
        pure ⟨⟨e, some d, none⟩, w, wst, loc, some dl⟩
    | _, _, _, _ => throw .Location

/-- the same with the `cds_frames` argument (see `mkTranscriptF`) -/
def mkChunkTranscriptF (exons : List Blk) (st : Strand) (cds : Option (List Blk)) (frames : List CDSFrame)
    (w : Blk) (wst : Strand) : R ChunkTranscript :=
  match cds with
  | some cb => if frames.length ≠ cb.length then throw .InvalidCDSInterval else mkChunkTranscript exons st cds w wst
  | none => mkChunkTranscript exons st cds w wst

namespace ChunkTranscript

/-- `SingleInterval(s, e, strand, parent=loc.parent)` for a chunk-relative location `loc`: the parent is the chunk
    (sequence of length `w.2 - w.1`), or `None` for an EmptyLocation -/
def chunkInterval (c : ChunkTranscript) (loc : Location) (s e : Int) (st : Strand) : R Location :=
  mkSingleOn (if loc == .empty then none else some c.w.len) s e st

/-- `loc.parent_to_relative_location(i)`: `_EmptyLocation` overrides it and raises -/
def relativeToChunkLocation (i : Location) (loc : Location) : R Location :=
  match loc with
  | .empty => throw .EmptyLocation
  | l => locationRelativeTo i l true

/-- `chunk_relative_pos_to_feature` / `chunk_relative_pos_to_transcript` -/
def chunkRelativePosToTranscript (c : ChunkTranscript) (q : Int) : R Int := p2r c.location q
/-- `feature_pos_to_chunk_relative` / `transcript_pos_to_chunk_relative` -/
def transcriptPosToChunkRelative (c : ChunkTranscript) (r : Int) : R Int := r2p c.location r
/-- `chunk_relative_interval_to_feature` / `…_to_transcript` -/
def chunkRelativeIntervalToTranscript (c : ChunkTranscript) (s e : Int) (st : Strand) : R Location := do
  let i ← c.chunkInterval c.location s e st
  relativeToChunkLocation i c.location
/-- `feature_interval_to_chunk_relative` / `transcript_interval_to_chunk_relative` -/
def transcriptIntervalToChunkRelative (c : ChunkTranscript) (rs re : Int) (rst : Strand) : R Location :=
  relInterval c.location rs re rst

def requireCodingLocation (c : ChunkTranscript) : R Location :=
  match c.cdsLocation with
  | some l => pure l
  | none => throw .NoncodingTranscript

/-- `chunk_relative_pos_to_cds` -/
def chunkRelativePosToCds (c : ChunkTranscript) (q : Int) : R Int := do
  let l ← c.requireCodingLocation; p2r l q
/-- `cds_pos_to_chunk_relative` -/
def cdsPosToChunkRelative (c : ChunkTranscript) (r : Int) : R Int := do
  let l ← c.requireCodingLocation; r2p l r
/-- `chunk_relative_interval_to_cds` -/
def chunkRelativeIntervalToCds (c : ChunkTranscript) (s e : Int) (st : Strand) : R Location := do
  let l ← c.requireCodingLocation
  let i ← c.chunkInterval l s e st
  relativeToChunkLocation i l
/-- `cds_interval_to_chunk_relative` -/
def cdsIntervalToChunkRelative (c : ChunkTranscript) (rs re : Int) (rst : Strand) : R Location := do
  let l ← c.requireCodingLocation; relInterval l rs re rst

/-- `_chunk_relative_transcript_start`: the transcript position of the first base of `chunk_relative_location`.
    `_chunk_relative_bounded_chromosome_location` = the chunk-relative location lifted back to the chromosome
    (`lift_over_to_first_ancestor_of_type(CHROMOSOME)`, one level through the chunk's placement), or the whole
    chromosome location when nothing lies on the chunk -/
def chunkRelativeTranscriptStart (c : ChunkTranscript) : R Int := do
  let bounded ← (if c.location == .empty then pure (Location.compound c.base.exons)
                 else liftOnce c.location (.single c.w c.wst))
  let firstPos ← r2p bounded 0
  c.base.sequencePosToTranscript firstPos

/-- `get_5p_interval` of a chunk-built transcript (the result is chunk-relative) -/
def get5pInterval (c : ChunkTranscript) : R Location := do
  let _ ← c.base.requireCoding
  let dl ← c.requireCodingLocation
  if dl = c.location then pure .empty
  else do
    let cdsStart ← c.base.cdsPosToTranscript 0
    let off ← c.chunkRelativeTranscriptStart
    let utrEnd : Int := min (max (cdsStart - off) 0) (locLen c.location)
    relInterval c.location 0 utrEnd .plus

/-- `get_3p_interval`: `len(self.cds)` is the length of the WHOLE CDS, `len(self._location)` the length of the
    in-chunk part of the transcript -/
def get3pInterval (c : ChunkTranscript) : R Location := do
  let d ← c.base.requireCoding
  let dl ← c.requireCodingLocation
  if dl = c.location then pure .empty
  else do
    let cdsInclusiveEnd ← c.base.cdsPosToTranscript ((d.len : Int) - 1)
    let off ← c.chunkRelativeTranscriptStart
    let utrStart : Int := min (max (cdsInclusiveEnd + 1 - off) 0) (locLen c.location)
    relInterval c.location utrStart (locLen c.location) .plus

end ChunkTranscript
end BioCantor.Model
