/-
  Hand-written mirror of the lift-over code:
    parent/parent.py   Parent.lift_child_location_to_parent, first_ancestor_of_type, has_ancestor_*
    location/location.py  lift_over_to_first_ancestor_of_type, lift_over_to_sequence, location_relative_to
    location/location_impl.py  _union_preserve_overlaps, SingleInterval/CompoundInterval._location_relative_to
    gene/interval.py   AbstractInterval.liftover_location_to_seq_chunk_parent (chunk branch)

  A hierarchy is the list of ancestor levels of a location, nearest first.  Level i ≥ 1 carries the
  placement of level i-1 on it (`Parent.location` of that ancestor); a missing placement is `none`.
-/
import BioCantor.Model.Location
namespace BioCantor.Model
open BioCantor

structure Level where
  id : List Char
  type : List Char
  seq : Option (List Char)
  place : Option Location      -- placement of the level below on this level (none for level 0)
  deriving Repr, Inhabited

abbrev Chain := List Level

/-- `_union_preserve_overlaps` (operands share a parent by construction here) -/
def unionPreserve (a b : Location) : R Location := do
  let sa ← locStrand a
  let sb ← locStrand b
  if sa ≠ sb then throw .InvalidStrand
  let l ← mkCompoundLoc (locBlocks a ++ locBlocks b) sa
  optimizeLoc true l

/-- `reduce(union_preserve_overlaps, lifted_blocks)` -/
def reduceUnion : Location → List Location → R Location
  | acc, [] => pure acc
  | acc, x :: xs => do let u ← unionPreserve acc x; reduceUnion u xs

/-- lifted_blocks generator of `lift_child_location_to_parent`, evaluated lazily by `reduce`:
    the first error (in block order) wins. -/
def liftBlocks (place : Location) (st : Strand) : List Blk → R (List Location)
  | [] => pure []
  | b :: bs => do
    let x ← relInterval place b.1 b.2 st
    let xs ← liftBlocks place st bs
    pure (x :: xs)

/-- `Parent.lift_child_location_to_parent` for child location `c` whose parent's parent holds `place`.
    (`reduce` interleaves generator and union; errors are not distinguished by class in the
    correspondence, so the list form is equivalent for the observable answer.) -/
def liftOnce (c : Location) (place : Location) : R Location := do
  -- ObjectValidation.require_parent_has_location / …_parent_with_location test `if not x.location`:
  -- Python truthiness of an object with __len__ — a zero-length location counts as missing
  if locLen c = 0 then throw .NullParent
  if locLen place = 0 then throw .NullParent
  let st ← locStrand c
  match (locBlocks c).filter (fun b => b.len > 0) with     -- `for block in blocks if len(block) > 0`
  | [] => throw .TypeError
  | b :: bs => do
    let first ← relInterval place b.1 b.2 st
    let rest ← liftBlocks place st bs
    reduceUnion first rest

/-- `Parent.has_ancestor_of_type(t, include_self=True)` along the chain -/
def hasAncestorOfType (t : List Char) (ch : Chain) : Bool := ch.any (fun l => l.type == t)

/-- `lift_over_to_first_ancestor_of_type` -/
def liftToType (t : List Char) : Location → Chain → R (Location × Chain)
  | _, [] => throw .NoSuchAncestor
  | c, l0 :: rest =>
    -- `_EmptyLocation.first_ancestor_of_type` raises EmptyLocationException (an EmptyLocation has no parent)
    if c == .empty then throw .EmptyLocation
    else if ¬ hasAncestorOfType t (l0 :: rest) then throw .NoSuchAncestor
    else if l0.type == t then pure (c, l0 :: rest)
    else match rest with
      | [] => throw .NullParent          -- unreachable: an ancestor of type t exists above
      | l1 :: up =>
        match l1.place with
        | none => throw .NullParent
        | some p => do
          let lifted ← liftOnce c p
          liftToType t lifted (l1 :: up)
termination_by _ ch => ch.length

/-- `is_contiguous` -/
def isContiguous : Location → R Bool
  | .single _ _ => pure true
  | .compound l =>
      let rec go : List Blk → Bool
        | [] => true
        | [_] => true
        | a :: b :: rest => (b.1 == a.2) && go (b :: rest)
      pure (go l.blocks)
  | .empty => throw .EmptyLocation

/-- identity of a sequence as `Sequence.__eq__` sees it here: id, type, letters -/
abbrev SeqKey := List Char × List Char × List Char

def levelSeqKey (l : Level) : Option SeqKey := l.seq.map (fun s => (l.id, l.type, s))

def hasAncestorSeq (k : SeqKey) (ch : Chain) : Bool := ch.any (fun l => levelSeqKey l == some k)

/-- `lift_over_to_sequence` -/
def liftToSeq (k : SeqKey) : Location → Chain → R (Location × Chain)
  | c, ch => do
    let contig ← isContiguous c
    if ¬ contig then throw .ValueError
    match ch with
    | [] => throw .NoSuchAncestor
    | l0 :: rest =>
      if ¬ hasAncestorSeq k (l0 :: rest) then throw .NoSuchAncestor
      else if levelSeqKey l0 == some k then pure (c, l0 :: rest)
      else match rest with
        | [] => throw .NullParent
        | l1 :: up =>
          match l1.place with
          | none => throw .NullParent
          | some p => do
            let lifted ← liftOnce c p
            liftToSeq k lifted (l1 :: up)
termination_by _ ch => ch.length

/-! ### location_relative_to a single-block window (the chunk case) -/

/-- `SingleInterval._location_relative_to(other)` with `other` a SingleInterval `w`:
    intersection = other ∩ self (match_strand=False), then the two end points through p2r. -/
def singleRelativeToSingle (b : Blk) (st : Strand) (w : Blk) (wst : Strand) : R Location := do
  -- other.intersection(self): has_overlap was established by the caller
  let is_ : Blk := (max w.1 b.1, min w.2 b.2)
  let r1 ← singleP2R w wst is_.1
  let r2 ← singleP2R w wst ((is_.2 : Int) - 1)
  let rs := min r1 r2
  let re := max r1 r2 + 1
  mkSingle rs re (strandRelativeTo st wst)

/-- `Location.location_relative_to(other)` for `other = SingleInterval w` (parents compatible) -/
def relativeToSingle (self : Location) (w : Blk) (wst : Strand) (optimize : Bool) : R Location :=
  match self with
  | .empty => pure .empty                          -- _EmptyLocation.location_relative_to returns self
  | .single b st =>
      if overlapKernel b w then singleRelativeToSingle b st w wst else throw .LocationOverlap
  | .compound l =>
      if ¬ l.blocks.any (fun b => overlapKernel b w) then throw .LocationOverlap
      else do
        let hits := l.blocks.filter (fun b => overlapKernel w b)
        let rec go : List Blk → R (List Blk)
          | [] => pure []
          | b :: bs => do
            let x ← singleRelativeToSingle b l.strand w wst
            let xs ← go bs
            pure (locBlocks x ++ xs)
        let rel ← go hits
        let rst := strandRelativeTo l.strand wst
        let c ← mkCompoundLoc rel rst
        if optimize then optimizeLoc true c else pure (.compound c)

/-- chunk branch of `liftover_location_to_seq_chunk_parent` for a chromosome-coordinate location:
    `parent_to_relative_location(location, optimize_blocks=False)`, LocationOverlap ⇒ EmptyLocation -/
def chunkDown (loc : Location) (w : Blk) (wst : Strand) : R Location :=
  -- `if not chunk_parent.sequence:` — an empty Sequence is falsy
  if w.len = 0 then throw .NullSequence else
  match relativeToSingle loc w wst false with
  | .error .LocationOverlap => pure .empty
  | r => r

end BioCantor.Model
