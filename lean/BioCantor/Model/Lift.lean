/-
  Hand-written mirror of the lift-over code:
    parent/parent.py   Parent.lift_child_location_to_parent, first_ancestor_of_type, has_ancestor_*
    location/location.py  lift_over_to_first_ancestor_of_type, lift_over_to_sequence, location_relative_to
    location/location_impl.py  _union_preserve_overlaps, SingleInterval/CompoundInterval._location_relative_to
    gene/interval.py   AbstractInterval.liftover_location_to_seq_chunk_parent (all branches, see `liftoverToTarget`)
    io/parser.py       seq_chunk_to_parent (`cutChunk`)

  A hierarchy is the list of ancestor levels of a location, nearest first.  Level i ≥ 1 carries the
  placement of level i-1 on it (`Parent.location` of that ancestor); a missing placement is `none`.
-/
import BioCantor.Model.Location
namespace BioCantor.Model
open BioCantor

structure Level where
  id : List Char
  type : List Char
  seq : Option (List Char)
  place : Option Location      -- placement of the level below on this level (none for level 0)
  deriving Repr, Inhabited

abbrev Chain := List Level

/-- `_union_preserve_overlaps` (operands share a parent by construction here) -/
def unionPreserve (a b : Location) : R Location := do
  let sa ← locStrand a
  let sb ← locStrand b
  if sa ≠ sb then throw .InvalidStrand
  let l ← mkCompoundLoc (locBlocks a ++ locBlocks b) sa
  optimizeLoc true l

/-- `reduce(union_preserve_overlaps, lifted_blocks)` -/
def reduceUnion : Location → List Location → R Location
  | acc, [] => pure acc
  | acc, x :: xs => do let u ← unionPreserve acc x; reduceUnion u xs

/-- lifted_blocks generator of `lift_child_location_to_parent`, evaluated lazily by `reduce`:
    the first error (in block order) wins. -/
def liftBlocks (place : Location) (st : Strand) : List Blk → R (List Location)
  | [] => pure []
  | b :: bs => do
    let x ← relInterval place b.1 b.2 st
    let xs ← liftBlocks place st bs
    pure (x :: xs)

/-- `Parent.lift_child_location_to_parent` for child location `c` whose parent's parent holds `place`.
    (`reduce` interleaves generator and union; errors are not distinguished by class in the
    correspondence, so the list form is equivalent for the observable answer.) -/
def liftOnce (c : Location) (place : Location) : R Location := do
  -- ObjectValidation.require_parent_has_location / …_parent_with_location test `if not x.location`:
  -- Python truthiness of an object with __len__ — a zero-length location counts as missing
  if locLen c = 0 then throw .NullParent
  if locLen place = 0 then throw .NullParent
  let st ← locStrand c
  match (locBlocks c).filter (fun b => b.len > 0) with     -- `for block in blocks if len(block) > 0`
  | [] => throw .TypeError
  | b :: bs => do
    let first ← relInterval place b.1 b.2 st
    let rest ← liftBlocks place st bs
    reduceUnion first rest

/-- `Parent.has_ancestor_of_type(t, include_self=True)` along the chain -/
def hasAncestorOfType (t : List Char) (ch : Chain) : Bool := ch.any (fun l => l.type == t)

/-- `lift_over_to_first_ancestor_of_type` -/
def liftToType (t : List Char) : Location → Chain → R (Location × Chain)
  | _, [] => throw .NoSuchAncestor
  | c, l0 :: rest =>
    -- `_EmptyLocation.first_ancestor_of_type` raises EmptyLocationException (an EmptyLocation has no parent)
    if c == .empty then throw .EmptyLocation
    else if ¬ hasAncestorOfType t (l0 :: rest) then throw .NoSuchAncestor
    else if l0.type == t then pure (c, l0 :: rest)
    else match rest with
      | [] => throw .NullParent          -- unreachable: an ancestor of type t exists above
      | l1 :: up =>
        match l1.place with
        | none => throw .NullParent
        | some p => do
          let lifted ← liftOnce c p
          liftToType t lifted (l1 :: up)
termination_by _ ch => ch.length

/-- `is_contiguous` -/
def isContiguous : Location → R Bool
  | .single _ _ => pure true
  | .compound l =>
      let rec go : List Blk → Bool
        | [] => true
        | [_] => true
        | a :: b :: rest => (b.1 == a.2) && go (b :: rest)
      pure (go l.blocks)
  | .empty => throw .EmptyLocation

/-- identity of a sequence as `Sequence.__eq__` sees it here: id, type, letters -/
abbrev SeqKey := List Char × List Char × List Char

def levelSeqKey (l : Level) : Option SeqKey := l.seq.map (fun s => (l.id, l.type, s))

def hasAncestorSeq (k : SeqKey) (ch : Chain) : Bool := ch.any (fun l => levelSeqKey l == some k)

/-- `lift_over_to_sequence` -/
def liftToSeq (k : SeqKey) : Location → Chain → R (Location × Chain)
  | c, ch => do
    let contig ← isContiguous c
    if ¬ contig then throw .ValueError
    match ch with
    | [] => throw .NoSuchAncestor
    | l0 :: rest =>
      if ¬ hasAncestorSeq k (l0 :: rest) then throw .NoSuchAncestor
      else if levelSeqKey l0 == some k then pure (c, l0 :: rest)
      else match rest with
        | [] => throw .NullParent
        | l1 :: up =>
          match l1.place with
          | none => throw .NullParent
          | some p => do
            let lifted ← liftOnce c p
            liftToSeq k lifted (l1 :: up)
termination_by _ ch => ch.length

/-! ### location_relative_to a single-block window (the chunk case) -/

/-- `SingleInterval._location_relative_to(other)` with `other` a SingleInterval `w`:
    intersection = other ∩ self (match_strand=False), then the two end points through p2r. -/
def singleRelativeToSingle (b : Blk) (st : Strand) (w : Blk) (wst : Strand) : R Location := do
  -- other.intersection(self): has_overlap was established by the caller
  let is_ : Blk := (max w.1 b.1, min w.2 b.2)
  let r1 ← singleP2R w wst is_.1
  let r2 ← singleP2R w wst ((is_.2 : Int) - 1)
  let rs := min r1 r2
  let re := max r1 r2 + 1
  mkSingle rs re (strandRelativeTo st wst)

/-- `Location.location_relative_to(other)` for `other = SingleInterval w` (parents compatible) -/
def relativeToSingle (self : Location) (w : Blk) (wst : Strand) (optimize : Bool) : R Location :=
  match self with
  | .empty => pure .empty                          -- _EmptyLocation.location_relative_to returns self
  | .single b st =>
      if overlapKernel b w then singleRelativeToSingle b st w wst else throw .LocationOverlap
  | .compound l =>
      if ¬ l.blocks.any (fun b => overlapKernel b w) then throw .LocationOverlap
      else do
        let hits := l.blocks.filter (fun b => overlapKernel w b)
        let rec go : List Blk → R (List Blk)
          | [] => pure []
          | b :: bs => do
            let x ← singleRelativeToSingle b l.strand w wst
            let xs ← go bs
            pure (locBlocks x ++ xs)
        let rel ← go hits
        let rst := strandRelativeTo l.strand wst
        let c ← mkCompoundLoc rel rst
        if optimize then optimizeLoc true c else pure (.compound c)

/-- chunk branch of `liftover_location_to_seq_chunk_parent` for a chromosome-coordinate location:
    `parent_to_relative_location(location, optimize_blocks=False)`, LocationOverlap ⇒ EmptyLocation.
    (For a SingleInterval / CompoundInterval argument; an EmptyLocation never gets this far in the real code —
    `location.reset_parent(chunk_parent.parent)` raises first — see `placeOnTarget`.) -/
def chunkDown (loc : Location) (w : Blk) (wst : Strand) : R Location :=
  -- `if not chunk_parent.sequence:` — an empty Sequence is falsy
  if w.len = 0 then throw .NullSequence else
  match relativeToSingle loc w wst false with
  | .error .LocationOverlap => pure .empty
  | r => r

/-! ### relocate: the whole of `liftover_location_to_seq_chunk_parent` on hierarchies with real sequence

  The harness (harness/impl_lift.py `relocate`) cuts chunk A = window `w1` on strand `s1` out of the genome `G`
  with `seq_chunk_to_parent`, optionally puts a spliced sequence "tx" on it (placement `tx`), constructs the
  child location on the nearest of the two, builds the target (another chunk of `G`, or `G` itself as a
  chromosome Parent) and calls `AbstractInterval.liftover_location_to_seq_chunk_parent(child, target)`;
  the answer is the returned location and `str(location.extract_sequence())`. -/

/-- `ALPHABET_TO_NUCLEOTIDE_COMPLEMENT[NT_STRICT]` (other letters never occur in this leg) -/
def complStrict : Char → Char
  | 'A' => 'T' | 'C' => 'G' | 'G' => 'C' | 'T' => 'A' | c => c

/-- `Sequence.reverse_complement`: `"".join(rc_map[c] for c in reversed(str(self)))` -/
def revCompStrict (s : List Char) : List Char := (s.reverse).map complStrict

/-- `str(sequence)[a:b]` (Python slices clamp) -/
def seqSlice (s : List Char) (a b : Nat) : List Char := (s.drop a).take (b - a)

/-- `SingleInterval.extract_sequence` -/
def readBlock (s : List Char) (b : Blk) : Strand → R (List Char)
  | .plus => pure (seqSlice s b.1 b.2)
  | .minus => pure (revCompStrict (seqSlice s b.1 b.2))
  | .unstranded => throw .InvalidStrand

/-- `reduce(append, (interval.extract_sequence() for interval in …))` -/
def readBlocks (s : List Char) (st : Strand) : List Blk → R (List Char)
  | [] => pure []
  | b :: bs => do
    let x ← readBlock s b st
    let xs ← readBlocks s st bs
    pure (x ++ xs)

/-- `Location.extract_sequence` on a parent whose sequence is `s` -/
def readLocation (s : List Char) : Location → R (List Char)
  | .single b st => readBlock s b st
  | .compound l => do
      assertDirectional l.strand
      if l.strand = .plus then readBlocks s .plus l.blocks
      else readBlocks s .minus l.blocks.reverse
  | .empty => throw .EmptyLocation

/-- the location constructors, given a parent that carries a sequence of length `n`, refuse `end > n`
    (`SingleInterval.__init__`; for a CompoundInterval `Parent.__init__` on `location.end = max(ends)`) -/
def fitsSeq (l : Location) (n : Nat) : Bool := (locBlocks l).all (fun b => b.2 ≤ n)

/-- harness `_chunk` + `seq_chunk_to_parent`: the bases of window `w` (reverse-complemented unless the strand is
    plus); `SingleInterval(start, end, …)` needs `start ≤ end`, `Sequence.__init__` needs
    `len(sequence) == len(location)`.  Answer: the chunk's sequence. -/
def cutChunk (G : List Char) (w : Blk) (st : Strand) : R (List Char) := do
  let _ ← mkSingle w.1 w.2 st
  let plus := seqSlice G w.1 w.2
  let sq := if st = .plus then plus else revCompStrict plus
  if sq.length ≠ w.len then throw .MismatchedParent
  pure sq

def tSeqChunk : List Char := ['s','e','q','u','e','n','c','e','_','c','h','u','n','k']
def tChromosome : List Char := ['c','h','r','o','m','o','s','o','m','e']
def tTranscript : List Char := ['t','r','a','n','s','c','r','i','p','t']

/-- what `liftover_location_to_seq_chunk_parent` is given as `parent_or_seq_chunk_parent` here -/
inductive Target where
  | chunk (w : Blk) (st : Strand) (seq : List Char)    -- result of `seq_chunk_to_parent`
  | chrom (seq : List Char)                             -- `Parent(id=…, sequence=Sequence(…, type=CHROMOSOME))`

def Target.seq : Target → List Char
  | .chunk _ _ s => s
  | .chrom s => s

/-- first half of `liftover_location_to_seq_chunk_parent`: a location below a chunk goes back to chromosome
    coordinates (both chromosome Parents carry the same id here, so the `require_parents_equal_…` gate is passed) -/
def liftBackUp (c : Location) (ch : Chain) : R Location :=
  -- `location.has_ancestor_of_type(SEQUENCE_CHUNK)`; an EmptyLocation has no parent at all
  if c != .empty && hasAncestorOfType tSeqChunk ch then
    if ¬ hasAncestorOfType tChromosome ch then throw .NoSuchAncestor
    else do
      let up ← liftToType tChromosome c ch
      -- `.reset_parent(target.parent)`: that Parent carries no sequence (chunk) or is None (chromosome)
      pure up.1
  else pure c

/-- second half: onto the chunk, or onto the chromosome as it is -/
def placeOnTarget (loc : Location) : Target → R Location
  | .chunk w st sq => do
      -- the target has a sequence_chunk ancestor (itself) and a chromosome above it;
      -- `location.reset_parent(chunk_parent.parent)`: `_EmptyLocation.reset_parent` raises
      if loc == .empty then throw (if w.len = 0 then .NullSequence else .EmptyLocation)
      let rel ← chunkDown loc w st
      -- `.reset_parent(parent_or_seq_chunk_parent)`: the chunk carries sequence
      if rel != .empty && ¬ fitsSeq rel sq.length then throw .InvalidPosition
      pure rel
  | .chrom sq =>
      -- "whole genome": `location.reset_parent(parent_or_seq_chunk_parent)`
      if loc == .empty then throw .EmptyLocation
      else if ¬ fitsSeq loc sq.length then throw .InvalidPosition
      else pure loc

/-- `AbstractInterval.liftover_location_to_seq_chunk_parent(location, target)` for a location whose ancestors
    are `ch` -/
def liftoverToTarget (c : Location) (ch : Chain) (t : Target) : R Location := do
  let loc ← liftBackUp c ch
  placeOnTarget loc t

/-- the chunk Parent (`seq_chunk_to_parent`; its id spells out the window, which nothing here looks at) -/
def chunkLevel (seqA : List Char) (pl : Option Location) : Level := ⟨['c','h','r',':','A'], tSeqChunk, some seqA, pl⟩
/-- the chromosome Parent of a chunk: no sequence, holds the chunk's window as child location -/
def chrLevel (w1 : Blk) (s1 : Strand) : Level := ⟨['c','h','r'], tChromosome, none, some (.single w1 s1)⟩
/-- the spliced sequence on the chunk -/
def txLevel (txSeq : List Char) : Level := ⟨['t','x'], tTranscript, some txSeq, none⟩

/-- the ancestors of the child and the length of the sequence it is constructed on -/
def buildLevels (seqA : List Char) (w1 : Blk) (s1 : Strand) (tx : Option Location) : R (Chain × Nat) :=
  match tx with
  | none => pure ([chunkLevel seqA none, chrLevel w1 s1], seqA.length)
  | some t =>
      -- `chunk_a.reset_location(TXLOC)`: `Parent.__init__` refuses a placement that ends beyond the chunk
      if t == .empty then throw .EmptyLocation
      else if ¬ fitsSeq t seqA.length then throw .InvalidPosition
      else do
        -- the harness reads the spliced sequence off the chunk
        let txSeq ← readLocation seqA t
        pure ([txLevel txSeq, chunkLevel seqA (some t), chrLevel w1 s1], txSeq.length)

def buildTarget (G : List Char) : Option (Blk × Strand) → R Target
  | some (w2, s2) => do let sq ← cutChunk G w2 s2; pure (.chunk w2 s2 sq)
  | none => pure (.chrom G)

/-- `str(result.extract_sequence())` (nothing to read for an EmptyLocation) -/
def finishRelocate (t : Target) (m : Location) : R (Location × List Char) :=
  if m == .empty then pure (m, [])
  else do
    let sq ← readLocation t.seq m
    pure (m, sq)

/-- the whole `relocate` operation of the harness: hierarchy construction, the call, the extraction -/
def relocate (G : List Char) (w1 : Blk) (s1 : Strand) (tx : Option Location) (c : Location)
    (tgt : Option (Blk × Strand)) : R (Location × List Char) := do
  let seqA ← cutChunk G w1 s1
  let lv ← buildLevels seqA w1 s1 tx
  -- the child is constructed with its parent (which carries sequence)
  if ¬ fitsSeq c lv.2 then throw .InvalidPosition
  let target ← buildTarget G tgt
  let m ← liftoverToTarget c lv.1 target
  finishRelocate target m

end BioCantor.Model
