/-
  Hand-written mirror of inscripta/biocantor/io/ncbi/tbl_writer.py (pinned tree), on what the writer reads:

    TblFeature._location_to_str            `locPairs`, `cells`, `locationToStr`
    TblFeature._qualifiers_to_str          `qualLines`, `qualifiersToStr`
    TblFeature.__str__                     `Feature.str`
    GeneTblFeature.__init__                `geneStrand`, `genePseudo`, `geneSpan`
    CDSTblFeature.__init__                 `cdsFlags` (codon_start, start/end completeness)
    NcRNA/RRNA/TRNATblFeature              the non-coding branch of `txFeatures` (they read `transcript._location`,
                                           the merged blocks, since /repo 7a2fc3c — F-C17c; switch `rnaRowsMerged`)
    TblGene.__init__ / __iter__            `mergeExons`, `mergeCDS`, `tblGene`
    collection_to_tbl                      `locusTags`, `fileText` (header `>Features <name>`, flavour filter)

  The CDS predicates are those of Model/CDS.lean (C05); block merging is `Model.optimizeLoc false`
  (`optimize_and_combine_blocks`, C02).  Qualifier content other than `locus_tag`, `codon_start` and `pseudo`
  (gene symbols, notes, products, the random `gnl|lab|XXXXXXXXXXXX` identifiers) is carried as data
  (`Feature.quals`), not derived: C17 does not speak about it and `random` is outside the model.

  Internal errors (Python exceptions the library does not document) have no constructor in `Base.Err`; they
  are `Fail.internal`.  The two the pinned tree had on this path are repaired and the model follows the repaired
  code: F-C19e (StopIteration out of `has_start_codon_in_specific_translation_table` on a codon-less CDS,
  /repo 7b698bf: the predicate answers False) and F-C17b (AttributeError on `transcript_type.name` of a type-less
  non-coding transcript, /repo ec7cc09: `ncRNA_class` is "other").  Tied to the source by the correspondence run of every check (ops `locstr`, `quals`,
  `cdsfeat`, `tblgene`, `locustags`).
-/
import BioCantor.Model.CDS
import BioCantor.Model.Bed
namespace BioCantor.Model.Tbl
open BioCantor BioCantor.Model
open BioCantor.Model.Bed (natStr intStr join)

abbrev Str := List Char

/-! ### `_location_to_str` -/

/-- `s = [[b.start + 1, b.end] for b in blocks]`; on the minus strand `[b[::-1] for b in s][::-1]` -/
def locPairs (blocks : List Blk) (st : Strand) : List (Nat × Nat) :=
  let s := blocks.map (fun b => (b.1 + 1, b.2))
  if st = .minus then (s.map (fun p => (p.2, p.1))).reverse else s

/-- `s[0][0] = f"<{s[0][0]}"` -/
def markFirst : List (Str × Str) → List (Str × Str)
  | [] => []
  | (a, b) :: r => ('<' :: a, b) :: r

/-- `s[-1][1] = f">{s[-1][1]}"` -/
def markLast : List (Str × Str) → List (Str × Str)
  | [] => []
  | [(a, b)] => [(a, '>' :: b)]
  | x :: y :: r => x :: markLast (y :: r)

/-- the two printed cells of every row, after the partial marks were written -/
def cells (ps : List (Nat × Nat)) (si ei : Bool) : List (Str × Str) :=
  let c := ps.map (fun p => (natStr p.1, natStr p.2))
  let c := if si then markFirst c else c
  if ei then markLast c else c

/-- `f"{start}\t{end}\t{feature_type}\t\t"` -/
def rowLine (key : Str) (c : Str × Str) : Str := c.1 ++ '\t' :: (c.2 ++ '\t' :: (key ++ ['\t', '\t']))

/-- the lines of `_location_to_str` (feature key on the first row only) -/
def locLines (key : Str) (cs : List (Str × Str)) : List Str :=
  match cs with
  | [] => []
  | c :: rest => rowLine key c :: rest.map (rowLine [])

/-- `_location_to_str`; `none` = IndexError (`s[0]` of a location without blocks; no real location has none) -/
def locationToStr (key : Str) (blocks : List Blk) (st : Strand) (si ei : Bool) : Option Str :=
  let ps := locPairs blocks st
  if ps.isEmpty && (si || ei) then none
  else some (join '\n' (locLines key (cells ps si ei)))

/-! ### `_qualifiers_to_str` -/

/-- `re.sub(r"[\[\]\(\);]*", "", val)` -/
def removeChars (v : Str) : Str :=
  v.filter (fun c => !(c == '[' || c == ']' || c == '(' || c == ')' || c == ';'))

/-- Python `str.__lt__` (code point order) -/
def strLt : Str → Str → Bool
  | [], [] => false
  | [], _ :: _ => true
  | _ :: _, [] => false
  | a :: as, b :: bs => if a.toNat < b.toNat then true else if b.toNat < a.toNat then false else strLt as bs

def insertStr (x : Str) : List Str → List Str
  | [] => [x]
  | y :: ys => if strLt y x || y == x then y :: insertStr x ys else x :: y :: ys

/-- `sorted(filtered_vals)` -/
def sortStrs (l : List Str) : List Str := l.foldr insertStr []

/-- a qualifier dictionary in insertion order; values may be `None` -/
abbrev Quals := List (Str × List (Option Str))

def qualLine (k v : Str) : Str := '\t' :: '\t' :: '\t' :: (k ++ '\t' :: v)

/-- the loop over `self.qualifiers.items()` -/
def qualLinesOf (valid : List Str) : Quals → List Str
  | [] => []
  | (k, vals) :: rest =>
    if vals.isEmpty || !valid.contains k then qualLinesOf valid rest
    else
      let filtered := vals.filterMap id
      if filtered.isEmpty then qualLinesOf valid rest
      else (sortStrs filtered).map (fun v => qualLine k (removeChars v)) ++ qualLinesOf valid rest

def pseudoLine : Str := qualLine "pseudo".toList []

def qualLines (valid : List Str) (q : Quals) (pseudo : Bool) : List Str :=
  qualLinesOf valid q ++ (if pseudo then [pseudoLine] else [])

def qualifiersToStr (valid : List Str) (q : Quals) (pseudo : Bool) : Str := join '\n' (qualLines valid q pseudo)

/-! ### feature classes -/

def geneKeys : List Str := ["gene", "locus_tag", "gene_synonym", "db_xref", "note"].map String.toList
def mrnaKeys : List Str := geneKeys ++ ["protein_id", "transcript_id", "product"].map String.toList
def cdsKeys : List Str := mrnaKeys ++ ["codon_start".toList]
def ncrnaKeys : List Str := geneKeys ++ ["transcript_id", "ncRNA_class"].map String.toList
def rnaKeys : List Str := geneKeys ++ ["transcript_id", "product"].map String.toList

/-- `VALID_KEYS` by `FEATURE_TYPE.value` -/
def validKeys (key : Str) : List Str :=
  if key = "gene".toList then geneKeys
  else if key = "mRNA".toList then mrnaKeys
  else if key = "CDS".toList then cdsKeys
  else if key = "ncRNA".toList then ncrnaKeys
  else rnaKeys

/-- one `TblFeature` instance -/
structure Feature where
  key : Str
  blocks : List Blk
  strand : Strand
  si : Bool
  ei : Bool
  pseudo : Bool
  quals : Quals
  deriving Repr

/-- `__str__` : `f"{self._location_to_str()}\n{self._qualifiers_to_str()}"` -/
def Feature.str (f : Feature) : Option Str :=
  match locationToStr f.key f.blocks f.strand f.si f.ei with
  | none => none
  | some l => some (l ++ '\n' :: qualifiersToStr (validKeys f.key) f.quals f.pseudo)

/-! ### genes -/

inductive Fail where
  | doc (e : Err)
  | internal (what : String)
  deriving Repr

abbrev RT := Except Fail

def liftR {α} : R α → RT α
  | .ok a => .ok a
  | .error e => .error (.doc e)

/-- a transcript as the writer reads it -/
structure Tx where
  strand : Strand
  exons : List Blk
  /-- CDS blocks and frames (plus orientation), `none` = non-coding -/
  cds : Option (List Blk × List CDSFrame)
  /-- `transcript_type.name` -/
  ttype : Option Str
  deriving Repr

structure Gene where
  /-- `gene_type.name` -/
  gtype : Option Str
  txs : List Tx
  deriving Repr

def Tx.isCoding (t : Tx) : Bool := t.cds.isSome
/-- `GeneInterval.is_coding` : `any(tx.is_coding for tx in self.transcripts)` -/
def Gene.isCoding (g : Gene) : Bool := g.txs.any Tx.isCoding

/-- `tx._location.optimize_and_combine_blocks()` when `_location` is a CompoundInterval (≥ 2 exons) -/
def mergeExons (t : Tx) : R (List Blk) :=
  match t.exons with
  | [b] => pure [b]
  | _ => do
    let l ← mkCompoundLoc t.exons t.strand
    let m ← optimizeLoc false l
    pure (locBlocks m)

/-- `tx.chromosome_location` : `CompoundInterval(_genomic_starts, _genomic_ends, strand)` — the blocks as given -/
def chromosomeBlocks (t : Tx) : R (List Blk) := do
  let l ← mkCompoundLoc t.exons t.strand
  pure l.blocks

/-- `CDSInterval.optimize_and_combine_blocks` -/
def mergeCDS (c : CDS) : R CDS := do
  let newLoc ← (if c.loc.blocks.length > 1 then optimizeLoc false c.loc
                else match c.loc.blocks with
                  | [b] => pure (Location.single b c.loc.strand)
                  | _ => throw .Location)
  let first ← match c.frameIter with
    | f :: _ => pure f
    | [] => throw .Location
  let frames ← constructFramesFromLocation newLoc first
  mkCDS (locBlocks newLoc) c.loc.strand (.frames frames) c.seq

/-- the CDS object of a coding transcript (`TranscriptInterval.__init__` → `CDSInterval(...)`) -/
def txCDS (genome : Option Str) (t : Tx) : R (Option CDS) :=
  match t.cds with
  | none => pure none
  | some (bl, fr) => do let c ← mkCDS bl t.strand (.frames fr) genome; pure (some c)

/-- `max(strands, key=strands.count)` : the first strand with the largest count -/
def geneStrand (strands : List Strand) : Option Strand :=
  match strands with
  | [] => none
  | s :: rest =>
    some (rest.foldl (fun best x => if strands.count x > strands.count best then x else best) s)

/-- `gene.start`, `gene.end` : `min(tx.start)`, `max(tx.end)` with `tx.start = exon_starts[0]`, `tx.end = exon_ends[-1]` -/
def geneSpan (txs : List Tx) : Option Blk :=
  let starts := txs.filterMap (fun t => t.exons.head?.map (·.1))
  let ends := txs.filterMap (fun t => t.exons.getLast?.map (·.2))
  match starts, ends with
  | s :: ss, e :: es => some (ss.foldl min s, es.foldl max e)
  | _, _ => none

/-- `any(tx.has_in_frame_stop for tx in gene.transcripts)` (short-circuit; a non-coding isoform raises) -/
def anyInFrameStop : List (Option CDS) → R Bool
  | [] => pure false
  | none :: _ => throw .NoncodingTranscript
  | some c :: rest => do
    let b ← hasInFrameStop c
    if b then pure true else anyInFrameStop rest

/-- what C17 looks at in a feature the writer built -/
structure Skel where
  key : Str
  strand : Strand
  blocks : List Blk
  si : Bool
  ei : Bool
  pseudo : Bool
  codonStart : Option Nat
  deriving Repr, DecidableEq

/-- `CDSTblFeature.__init__` : codon_start, start_is_incomplete, end_is_incomplete of the (merged) CDS -/
def cdsFlags (c : CDS) (table : Int) : RT (Nat × Bool × Bool) := do
  let frame ← match c.frameIter with
    | f :: _ => pure f
    | [] => throw (.internal "StopIteration")
  let codonStart := frame.value + 1
  -- `not transcript.cds.has_start_codon_in_specific_translation_table(table)`; a CDS without a complete codon
  -- "has no start codon" (/repo 7b698bf; before that repair StopIteration escaped there — F-C19e)
  let hasStart ← liftR (hasStartCodonIn c table)
  let si := !hasStart
  let ei ← (if (c.loc.len : Int) % 3 ≠ codonStart - 1 then pure true
            else do let v ← liftR (hasValidStop c); pure (!v))
  pure (codonStart.toNat, si, ei)

def bt (s : String) : Option Str := some s.toList

/-- MODEL SWITCH for F-C17c.  `true` = the code as it is since /repo 7a2fc3c: the RNA features of a non-coding
    gene read `transcript._location`, the blocks `TblGene` merged (as MRNATblFeature does); `false` = the pinned code:
    they read `transcript.chromosome_location` (the blocks as given, adjacent exons stay separate rows). -/
def rnaRowsMerged : Bool := true

/-- the transcript-level feature(s) of one transcript inside `TblGene.__init__`'s second loop -/
def txFeatures (g : Gene) (table : Int) (pseudo : Bool) (t : Tx) (merged : List Blk) (mc : Option CDS) :
    RT (List Skel) :=
  if g.isCoding then
    match mc with
    | none => throw (.internal "AttributeError")       -- unreachable: refused in the first loop
    | some c => do
      let (cs, si, ei) ← cdsFlags c table
      let cdsF : Skel := ⟨"CDS".toList, c.loc.strand, c.loc.blocks, si, ei, pseudo, some cs⟩
      let mrnaF : Skel := ⟨"mRNA".toList, t.strand, merged, si, ei, pseudo, some cs⟩
      pure [mrnaF, cdsF]
  else do
    let bl ← (if rnaRowsMerged then pure merged else liftR (chromosomeBlocks t))
    if g.gtype = bt "rRNA" then pure [⟨"rRNA".toList, t.strand, bl, false, false, false, none⟩]
    else if g.gtype = bt "tRNA" then pure [⟨"tRNA".toList, t.strand, bl, false, false, false, none⟩]
    -- `ncRNA_class` is `transcript_type.name`, or "other" without a type (/repo ec7cc09; before that repair a
    -- missing type raised AttributeError — F-C17b): the feature is written either way
    else pure [⟨"ncRNA".toList, t.strand, bl, false, false, false, none⟩]

def txFeaturesAll (g : Gene) (table : Int) (pseudo : Bool) : List (Tx × List Blk × Option CDS) → RT (List Skel)
  | [] => pure []
  | (t, m, c) :: rest => do
    let a ← txFeatures g table pseudo t m c
    let b ← txFeaturesAll g table pseudo rest
    pure (a ++ b)

/-- first loop of `TblGene.__init__` for one transcript: merged exon blocks, merged CDS -/
def prepTx (g : Gene) (genome : Option Str) (t : Tx) : R (Tx × List Blk × Option CDS) := do
  let merged ← mergeExons t
  let c ← txCDS genome t
  if g.isCoding then
    match c with
    | none => throw .NoncodingTranscript               -- `tx.cds_location` of a non-coding isoform
    | some c => do let m ← mergeCDS c; pure (t, merged, some m)
  else pure (t, merged, c)

/-- `TblGene(gene, …)` then `list(tblgene)`: gene feature, then per transcript mRNA + CDS or one RNA feature -/
def tblGene (g : Gene) (genome : Option Str) (table : Int) : RT (List Skel) := do
  let prepped ← liftR (g.txs.mapM (prepTx g genome))
  let strand ← match geneStrand (g.txs.map (·.strand)) with
    | some s => pure s
    | none => throw (.doc .ValueError)
  let pseudo ← (if g.isCoding then liftR (anyInFrameStop (prepped.map (·.2.2))) else pure false)
  let span ← match geneSpan g.txs with
    | some b => pure b
    | none => throw (.doc .ValueError)
  let geneF : Skel := ⟨"gene".toList, strand, [span], false, false, pseudo, none⟩
  let rest ← txFeaturesAll g table pseudo prepped
  pure (geneF :: rest)

/-! ### `collection_to_tbl` -/

/-- MODEL SWITCH for F-C17a.  `true` = the code as it is since /repo 2007fc1 (`if random_seed is not None:`);
    `false` = the pinned code (`if random_seed:` — Python truthiness, seed 0 counted as "no seed"). -/
def seedRepaired : Bool := true

/-- is `random.seed(random_seed)` executed? -/
def seedApplied (repaired : Bool) (seed : Option Int) : Bool :=
  match seed with
  | none => false
  | some s => repaired || s != 0

/-- the locus tags handed to the genes: `locus_tag_offset += jump; f"{prefix}_{locus_tag_offset}"` -/
def locusTagsFrom (pre : Str) (step : Int) : Int → Nat → List Str
  | _, 0 => []
  | off, n + 1 =>
    let off' := off + step
    (pre ++ '_' :: intStr off') :: locusTagsFrom pre step off' n

def locusTags (pre : Str) (step : Int) (n : Nat) : List Str := locusTagsFrom pre step 0 n

/-- `if genbank_flavor == PROKARYOTIC and type(obj) == MRNATblFeature: continue` -/
def flavourFilter (prokaryotic : Bool) (fs : List Feature) : List Feature :=
  if prokaryotic then fs.filter (fun f => f.key ≠ "mRNA".toList) else fs

/-- `print(f">Features {name}")` then `print(str(obj))` for every feature -/
def fileText (seqName : Str) (fs : List Feature) : Option Str :=
  match fs.mapM Feature.str with
  | none => none
  | some strs => some (join '\n' ((">Features ".toList ++ seqName) :: strs) ++ ['\n'])

/-- a feature object: what `TblGene` computed plus its qualifier dictionary -/
def Skel.toFeature (s : Skel) (q : Quals) : Feature := ⟨s.key, s.blocks, s.strand, s.si, s.ei, s.pseudo, q⟩

/-- the features `collection_to_tbl` prints for the genes of one collection: per gene the objects `TblGene` yields
    (each with its qualifier dictionary, supplied as data, in `TblGene` order), minus the mRNA objects in the
    prokaryotic flavour -/
def collectionFeatures (prok : Bool) (genome : Option Str) (table : Int) :
    List (Gene × List Quals) → RT (List Feature)
  | [] => pure []
  | (g, qs) :: rest => do
    let sk ← tblGene g genome table
    let more ← collectionFeatures prok genome table rest
    pure (flavourFilter prok (List.zipWith Skel.toFeature sk qs) ++ more)

/-- the whole output of one `collection_to_tbl` call over several collections -/
def filesText (colls : List (Str × List Feature)) : Option Str :=
  match colls.mapM (fun c => fileText c.1 c.2) with
  | none => none
  | some ts => some ts.flatten

/-- the locus tags of one call, per collection (`counts` = genes per collection): `locus_tag_offset` is set to 0
    once, before the loop over the collections -/
def collectionTagsFrom (pre : Str) (step : Int) : Int → List Nat → List (List Str)
  | _, [] => []
  | off, n :: rest => locusTagsFrom pre step off n :: collectionTagsFrom pre step (off + step * n) rest

def collectionTags (pre : Str) (step : Int) (counts : List Nat) : List (List Str) :=
  collectionTagsFrom pre step 0 counts

end BioCantor.Model.Tbl
