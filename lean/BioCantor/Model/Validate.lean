/-
  C19 — the validation logic of the constructors, as `Except`-valued total functions over plain data.
  Every function follows the control flow of the Python constructor named in its doc comment
  (`raise X` = `throw (.doc .X)`).  Unlike the other model files this one CAN express an internal error
  (`VErr.internal "IndexError"`), so that "never an internal error" is a theorem about the functions and not a
  property of the type.  (Before the repairs cb56bb9 / 7977ad0 two constructors reached an unguarded `[0]` / `min()`
  on an empty list; no function below produces `VErr.internal` any more: Props/C19 `never_internal`.)

    mkSingleP      SingleInterval.__init__            location_impl.py:56-72
    mkCompoundRaw  CompoundInterval.__init__          location_impl.py:448-480   (negative starts refused since 0fcdb58)
    mkParent       Parent.__init__                    parent/parent.py:78-118
    mkSeq          Sequence.__init__                  sequence/sequence.py:57-70, 139-142
    initLoc        AbstractInterval.initialize_location (parent-less)  gene/interval.py:322-328
    mkCDS          CDSInterval.__init__               gene/cds.py:55-85
    mkTx           TranscriptInterval.__init__        gene/transcript.py:75-125  (outer bounds only: F-C19h; input order: F-C19i)
    mkVariant / mkVarColl  VariantInterval / VariantIntervalCollection.__init__   gene/variants.py:86-89, 351-366
    scanWinCount   Location.scan_windows              location/location.py:67-81
-/
import BioCantor.Base
import BioCantor.Model.Location
import BioCantor.Model.ParentKey
import BioCantor.Gen.Tables
namespace BioCantor.Model.Validate
open BioCantor BioCantor.Model

/-- documented exception class, or the Python class of an internal error -/
inductive VErr where
  | doc (e : Err)
  | internal (cls : String)
  deriving DecidableEq, Repr, Inhabited

abbrev V := Except VErr

def liftR {α} : R α → V α
  | .ok a => .ok a
  | .error e => .error (.doc e)

@[inline] def raise {α} (e : Err) : V α := .error (.doc e)

/-! ### SingleInterval -/

/-- `SingleInterval.__init__`; `plen` = length of the parent's sequence, when the parent carries one. -/
def mkSingleP (s e : Int) (st : Strand) (plen : Option Nat) : V Location := do
  let l ← liftR (mkSingle s e st)
  match plen with
  | some n => if e > n then raise .InvalidPosition else pure l
  | none => pure l

/-! ### CompoundInterval -/

abbrev IBlk := Int × Int

/-- keys of `_sort_starts_ends` on raw (possibly negative) coordinates -/
def iblkLe (s : Strand) (a b : IBlk) : Bool :=
  match s with
  | .plus => a.1 < b.1 || (a.1 == b.1 && a.2 ≤ b.2)
  | _ => a.1 < b.1 || (a.1 == b.1 && b.2 ≤ a.2)

def sortBlocksI (s : Strand) (bs : List IBlk) : List IBlk := bs.mergeSort (iblkLe s)

def maxEndI : List IBlk → Int
  | [] => 0
  | [b] => b.2
  | b :: bs => max b.2 (maxEndI bs)

/-- the part of `CompoundInterval.__init__` that does not look at the parent: equal non-zero lengths,
    sort, then for every block `start < 0` → InvalidPositionException, `start > end` → InvalidPositionException. -/
def compoundCore (starts ends : List Int) (st : Strand) : V (List IBlk) :=
  if ¬ (starts.length = ends.length ∧ 0 < starts.length) then raise .Location
  else
    let sorted := sortBlocksI st (starts.zip ends)
    if sorted.all (fun b => decide (0 ≤ b.1) && decide (b.1 ≤ b.2)) then pure sorted else raise .InvalidPosition

/-- `CompoundInterval.__init__`: with a parent, the location is first built WITHOUT the parent
    (`CompoundInterval(starts, ends, strand)`), handed to `Parent(..., location=...)` — which compares
    `location.end` with the sequence length — and then the lists are sorted and checked again. -/
def mkCompoundRaw (starts ends : List Int) (st : Strand) (plen : Option Nat) : V (List IBlk) :=
  if ¬ (starts.length = ends.length ∧ 0 < starts.length) then raise .Location
  else match plen with
    | none => compoundCore starts ends st
    | some n => do
        let inner ← compoundCore starts ends st
        if maxEndI inner > n then raise .InvalidPosition else compoundCore starts ends st

/-! ### Parent -/

/-- what `Parent.__init__` reads of its `location` argument -/
structure PLoc where
  isEmpty : Bool          -- EmptyLocation(): `.strand` / `.end` raise EmptyLocationException
  strand : Strand
  endp : Nat
  len : Nat               -- truthiness of the location (`__len__`)
  pid : Option String     -- location.parent_id
  ptype : Option String   -- location.parent_type
  deriving DecidableEq, Repr, Inhabited

/-- `sequence` argument: length, id, type, and (id, type) of `sequence.parent` when it has one
    (a Parent carrying neither sequence nor grand-parent) -/
structure PSeq where
  len : Nat
  id : Option String
  type : Option String
  par : Option (Option String × Option String)
  deriving DecidableEq, Repr, Inhabited

/-- `parent` argument: id, type and the length of its sequence, if any -/
structure PPar where
  id : Option String
  type : Option String
  seqLen : Option Nat
  deriving DecidableEq, Repr, Inhabited

structure ParentArgs where
  id : Option String
  stype : Option String
  strand : Option Strand
  loc : Option PLoc
  seq : Option PSeq
  par : Option PPar
  deriving DecidableEq, Repr, Inhabited

structure ParentOut where
  id : Option String
  stype : Option String
  strand : Option Strand       -- the `.strand` property
  hasParent : Bool
  deriving DecidableEq, Repr, Inhabited

/-- `_unique_value_or_none`: more than one distinct non-null value raises ParentException; otherwise the unique
    non-null value, or None.  (The Python code builds a set; scanning from the right and comparing each non-null
    value with the one already found accepts exactly the same lists and returns the same value.) -/
def uniqueOrNone : List (Option String) → V (Option String)
  | [] => pure none
  | none :: rest => uniqueOrNone rest
  | some x :: rest => do
      match (← uniqueOrNone rest) with
      | none => pure (some x)
      | some y => if y = x then pure (some x) else raise .Parent

/-- `Parent.equals_except_location(parent_obj, sequence.parent)` for a `sequence.parent` without sequence and
    without grand-parent: ids, types, and `self.sequence != other.sequence` (a sequence vs None). -/
def parEqualsSeqPar (p : PPar) (sp : Option String × Option String) : Bool :=
  p.id == sp.1 && p.type == sp.2 && p.seqLen.isNone

/-- lines 86-92: `if location is not None:` strand / sequence-length consistency -/
def checkLocation (a : ParentArgs) : V Unit :=
  match a.loc with
  | none => pure ()
  | some l => do
      -- `if strand and location.strand and strand is not location.strand` (a Strand member is always truthy;
      -- `location.strand` of EmptyLocation raises)
      match a.strand with
      | some s =>
          if l.isEmpty then raise .EmptyLocation
          else if s ≠ l.strand then raise .InvalidStrand else pure ()
      | none => pure ()
      -- `if sequence is not None and location.end > len(sequence)`
      match a.seq with
      | some q =>
          if l.isEmpty then raise .EmptyLocation
          else if l.endp > q.len then raise .InvalidPosition else pure ()
      | none => pure ()

/-- lines 94-103: a sequence longer than the sequence of the parent's parent -/
def checkParentLength (a : ParentArgs) : V Unit :=
  match a.seq, a.par with
  | some q, some p =>
      match p.seqLen with
      | some n => if q.len > n then raise .Location else pure ()
      | none => pure ()
  | _, _ => pure ()

/-- lines 105-112: `sequence.parent` against `parent`; answers whether the new Parent has a parent -/
def resolveParent (a : ParentArgs) : V Bool :=
  match a.seq.bind (·.par), a.par with
  | some sp, some p => if parEqualsSeqPar p sp then pure true else raise .MismatchedParent
  | some _, none => pure true
  | none, some _ => pure true
  | none, none => pure false

/-- the `.strand` property: the explicit strand, overridden by the location's strand when the location is truthy -/
def strandProp (a : ParentArgs) : Option Strand :=
  match a.loc with
  | some l => if ¬ l.isEmpty ∧ l.len > 0 then some l.strand else a.strand
  | none => a.strand

/-- `Parent.__init__` -/
def mkParent (a : ParentArgs) : V ParentOut := do
  let pid ← uniqueOrNone [a.id, (a.loc.bind (·.pid)), (a.seq.bind (·.id))]
  let sty ← uniqueOrNone [a.stype, (a.loc.bind (·.ptype)), (a.seq.bind (·.type))]
  checkLocation a
  checkParentLength a
  let hasParent ← resolveParent a
  pure ⟨pid, sty, strandProp a, hasParent⟩

/-! ### Sequence -/

/-- `str.upper()` on the ASCII range (the alphabets are ASCII; other characters are left alone here and are
    outside every alphabet either way) -/
def pyUpper (c : Char) : Char := if 'a' ≤ c ∧ c ≤ 'z' then Char.ofNat (c.toNat - 32) else c

/-- `s.strip(chars)`: drop leading and trailing characters that belong to `chars` -/
def stripBoth (chars : List Char) (s : List Char) : List Char :=
  ((s.dropWhile (fun c => chars.contains c)).reverse.dropWhile (fun c => chars.contains c)).reverse

/-- `Sequence.validate_alphabet`: `sequence.upper().strip(alphabet.value) != ""` raises -/
def alphabetOk (alph data : List Char) : Bool := (stripBoth alph (data.map pyUpper)).isEmpty

/-- `Sequence.__init__`; `ploc`: `none` = no parent, `some none` = parent without location,
    `some (some n)` = parent whose location has length n (`location is not None`: a zero-length location is
    compared as well, f283aa2). -/
def mkSeq (alph data : List Char) (ploc : Option (Option Nat)) : V Nat := do
  match ploc with
  | some (some n) => if n ≠ data.length then raise .MismatchedParent else pure ()
  | _ => pure ()
  if alphabetOk alph data then pure data.length else raise .Alphabet

/-! ### interval classes (parent-less) -/

/-- `AbstractInterval.initialize_location` without a parent -/
def initLoc (starts ends : List Int) (st : Strand) : V (List IBlk) :=
  if starts.length ≠ ends.length then raise .Validation
  else match starts, ends with
    | [s], [e] => do let _ ← liftR (mkSingle s e st); pure [(s, e)]
    | _, _ => mkCompoundRaw starts ends st none

/-- a frame or a phase, as handed to `CDSInterval.__init__` -/
inductive FP where
  | frame (f : CDSFrame)
  | phase (p : CDSPhase)
  deriving DecidableEq, Repr, Inhabited

def FP.isFrame : FP → Bool
  | .frame _ => true
  | .phase _ => false

/-- `CDSPhase.to_frame` -/
def phaseToFrame : CDSPhase → CDSFrame
  | .ZERO => .ZERO | .ONE => .TWO | .TWO => .ONE | .NONE => .NONE

def FP.toFrame : FP → CDSFrame
  | .frame f => f
  | .phase p => phaseToFrame p

def sumLens : List IBlk → Int
  | [] => 0
  | b :: bs => (b.2 - b.1) + sumLens bs

structure CDSOut where
  start : Int
  endp : Int
  blocks : List IBlk        -- (starts[i], ends[i]) in the order given
  frames : List CDSFrame
  deriving DecidableEq, Repr, Inhabited

/-- `CDSInterval.__init__` -/
def mkCDS (starts ends : List Int) (st : Strand) (fps : List FP) : V CDSOut := do
  let _ ← initLoc starts ends st
  -- `self.start = cds_starts[0]; self.end = cds_ends[-1]` (non-empty here: initLoc refused empty lists)
  match starts.head?, ends.getLast? with
  | some s0, some eN =>
      if fps.length ≠ starts.length then raise .MismatchedFrame
      else if sumLens (starts.zip ends) = 0 then raise .InvalidCDSInterval
      else match fps with
        | [] => raise .MismatchedFrame      -- unreachable: fps.length = starts.length > 0
        | f0 :: rest =>
            if rest.any (fun f => f.isFrame != f0.isFrame) then raise .MismatchedFrame
            else pure ⟨s0, eN, starts.zip ends, fps.map FP.toFrame⟩
  | _, _ => raise .Location              -- unreachable (see above)

structure TxOut where
  start : Int
  endp : Int
  exons : List IBlk
  cds : Option CDSOut
  deriving DecidableEq, Repr, Inhabited

/-- lines 82-113 of `TranscriptInterval.__init__`: the CDS arguments.  `x0` / `xN` are `exon_starts[0]` /
    `exon_ends[-1]`.  The CDS is compared with the exons by its OUTER bounds only (F-C19h); empty CDS lists are
    refused before `cds_starts[0]` is read (cb56bb9). -/
def txCds (x0 xN : Int) (st : Strand) (cdsS cdsE : Option (List Int)) (cdsF : Option (List CDSFrame)) :
    V (Option CDSOut) :=
  match cdsS, cdsE with
  | some _, none => raise .InvalidCDSInterval
  | none, some _ => raise .InvalidCDSInterval
  | none, none => pure none
  | some cs, some ce =>
      if cs.length ≠ ce.length then raise .InvalidCDSInterval
      else if cs.length = 0 then raise .InvalidCDSInterval
      else match cs.head?, ce.getLast? with
        | some c0, some cN =>
            if c0 < x0 then raise .InvalidCDSInterval
            else if cN > xN then raise .InvalidCDSInterval
            else match cdsF with
              | none => raise .InvalidCDSInterval
              | some fr =>
                  if fr.length ≠ cs.length then raise .InvalidCDSInterval
                  else do
                    let c ← mkCDS cs ce st (fr.map FP.frame)
                    pure (some c)
        | _, _ => raise .InvalidCDSInterval      -- unreachable: both lists are non-empty here

/-- `TranscriptInterval.__init__` (parent-less) -/
def mkTx (exS exE : List Int) (st : Strand) (cdsS cdsE : Option (List Int)) (cdsF : Option (List CDSFrame)) :
    V TxOut := do
  let _ ← initLoc exS exE st
  match exS.head?, exE.getLast? with
  | some x0, some xN => do
      let cds ← txCds x0 xN st cdsS cdsE cdsF
      pure ⟨x0, xN, exS.zip exE, cds⟩
  | _, _ => raise .Location              -- unreachable: initLoc refused empty lists

/-! ### variants -/

/-- `VariantInterval.__init__` (parent-less): window of at least 1 bp, then a SingleInterval -/
def mkVariant (s e : Int) : V Blk :=
  if s = e then raise .EmptyLocation
  else do
    let _ ← liftR (mkSingle s e .plus)
    pure (s.toNat, e.toNat)

/-- stable sort by start (`sorted(variant_intervals, key=lambda x: x.start)`) -/
def sortByStart (vs : List Blk) : List Blk := vs.mergeSort (fun a b => decide (a.1 ≤ b.1))

def adjacentOverlap : List Blk → Bool
  | a :: b :: rest => overlapKernel a b || adjacentOverlap (b :: rest)
  | _ => false

def minStart : List Blk → Nat
  | [] => 0
  | [b] => b.1
  | b :: bs => min b.1 (minStart bs)

/-- `VariantIntervalCollection.__init__` over already constructed variants: an empty list is refused first
    (7977ad0), then adjacent pairs of the start-sorted list are tested for overlap -/
def mkVarCollOf (vs : List Blk) : V Blk :=
  if vs.isEmpty then raise .InvalidAnnotation
  else
    let sorted := sortByStart vs
    if adjacentOverlap sorted then raise .LocationOverlap
    else pure (minStart sorted, maxEnd sorted)

/-- variants are constructed first, left to right -/
def mkVarColl (raw : List (Int × Int)) : V Blk := do
  let vs ← raw.mapM (fun p => mkVariant p.1 p.2)
  mkVarCollOf vs

/-- `VariantInterval.__init__` (parent-less) with its ALT sequence: window of at least 1 bp, a SingleInterval, then
    `Sequence(sequence, Alphabet.NT_STRICT_UNKNOWN)` -/
def mkVariantFull (ntUnknown : List Char) (s e : Int) (alt : List Char) : V Blk := do
  let b ← mkVariant s e
  if alphabetOk ntUnknown alt then pure b else raise .Alphabet

/-! ### FeatureInterval -/

/-- what `_import_qualifiers_from_list` looks at: None / a non-dict / a dict whose values are (or are not) lists -/
inductive QualShape where
  | none
  | notDict (truthy : Bool)          -- e.g. a list of pairs; an empty non-dict is falsy and therefore ignored
  | dict (valuesAreLists : List Bool)
  deriving DecidableEq, Repr, Inhabited

/-- `AbstractInterval._import_qualifiers_from_list` -/
def checkQualifiers : QualShape → V Unit
  | .none => pure ()
  | .notDict t => if t then raise .Validation else pure ()
  | .dict vals => if vals.all id then pure () else raise .Validation

structure FeatOut where
  start : Int
  endp : Int
  blocks : List IBlk
  deriving DecidableEq, Repr, Inhabited

/-- `FeatureInterval.__init__` (parent-less): location, `start = interval_starts[0]`, `end = interval_ends[-1]`,
    qualifiers -/
def mkFeature (starts ends : List Int) (st : Strand) (q : QualShape) : V FeatOut := do
  let _ ← initLoc starts ends st
  match starts.head?, ends.getLast? with
  | some s0, some eN => do
      checkQualifiers q
      pure ⟨s0, eN, starts.zip ends⟩
  | _, _ => raise .Location              -- unreachable: initLoc refused empty lists

/-! ### GeneInterval / FeatureIntervalCollection -/

/-- what the collection constructors read of a child: genomic start / end, guid, the primary flag -/
structure Child where
  start : Int
  endp : Int
  guid : Nat
  primary : Bool
  deriving DecidableEq, Repr, Inhabited

def minStartC : List Child → Int
  | [] => 0
  | [c] => c.start
  | c :: cs => min c.start (minStartC cs)

def maxEndC : List Child → Int
  | [] => 0
  | [c] => c.endp
  | c :: cs => max c.endp (maxEndC cs)

/-- `_find_primary_feature`, validation half: more than one flagged child raises ValidationException
    (`if primary_feature is not None`, 91b82e4) -/
def checkPrimary (cs : List Child) : V Unit :=
  if (cs.filter (·.primary)).length > 1 then raise .Validation else pure ()

/-- the `guid_map` loop: a guid seen twice raises Duplicate{Transcript,Feature}Error -/
def checkGuids : List Nat → List Nat → V Unit
  | _, [] => pure ()
  | seen, g :: rest => if seen.contains g then raise .InvalidAnnotation else checkGuids (g :: seen) rest

/-- `GeneInterval.__init__` (`geneOrder = true`: primary, then location) and `FeatureIntervalCollection.__init__`
    (location, then primary), parent-less: children non-empty, qualifiers, primary flags, `start = min`, `end = max`,
    `SingleInterval(start, end, PLUS)`, duplicate guids -/
def mkColl (geneOrder : Bool) (cs : List Child) (q : QualShape) : V (Int × Int) := do
  if cs.isEmpty then raise .InvalidAnnotation
  checkQualifiers q
  if geneOrder then checkPrimary cs
  let s := minStartC cs
  let e := maxEndC cs
  let _ ← liftR (mkSingle s e .plus)
  if !geneOrder then checkPrimary cs
  checkGuids [] (cs.map (·.guid))
  pure (s, e)

/-! ### AnnotationCollection -/

inductive AnnotOut where
  | empty                               -- `_location = EmptyLocation()`: no `start` / `end` attribute at all (F-C19f)
  | bounds (s e : Int)
  deriving DecidableEq, Repr, Inhabited

/-- `AnnotationCollection.__init__` (parent-less): `start`/`end` both or neither; inferred from the children when
    absent; `SingleInterval(start, end, PLUS)`; the guid map is a dict comprehension - duplicates are NOT detected
    (F-C19o) -/
def mkAnnot (start endp : Option Int) (kids : List Child) : V AnnotOut :=
  match start, endp with
  | none, some _ => raise .InvalidAnnotation
  | some _, none => raise .InvalidAnnotation
  | some s, some e => do let _ ← liftR (mkSingle s e .plus); pure (.bounds s e)
  | none, none =>
      if kids.isEmpty then pure .empty
      else do
        let s := minStartC kids
        let e := maxEndC kids
        let _ ← liftR (mkSingle s e .plus)
        pure (.bounds s e)

/-! ### Codon -/

/-- `Codon.__init__`: `str(codon).upper()`, length 3, letters of `ATUCGNWSMKRYBDHV` (`Gen.codonAlphabet`) -/
def mkCodon (codonAlphabet : List Char) (s : List Char) : V (List Char) :=
  let v := s.map pyUpper
  if v.length ≠ 3 then raise .ValueError
  else if (stripBoth codonAlphabet v).isEmpty then pure v else raise .ValueError

/-! ### Sequence.append of two located single-interval pieces; parent compatibility of operand lists -/

/-- one level of a parent chain, as `Parent.__eq__` / `equals_except_location` / `__hash__` read it: id, sequence type,
    the (parent-less) sequence's text, and the child location stored on this Parent (where the level below sits on it;
    `none` on the first level of an operand's key: that location is the operand itself and is ignored / stripped) -/
structure PLevel where
  id : Option String
  ty : Option String
  seq : Option (List Char)
  loc : Option (Strand × Nat × Nat)
  deriving DecidableEq, Repr, Inhabited

/-- a Parent with its ancestors: `[parent, grand-parent, …]`; `[]` = None -/
abbrev PChain := List PLevel

def levelEq (x y : PLevel) : Bool := x.id == y.id && x.ty == y.ty && x.seq == y.seq

/-- `Parent.__eq__`: `equals_except_location(other) and self.location == other.location and self.strand is
    other.strand` (the strand is the stored location's strand).  Ancestors are compared only when BOTH sides have one
    (`if self.parent and other.parent and self.parent != other.parent`), and then with `!=`, i.e. with THIS function:
    the location of every ancestor level counts. -/
def parentEqFull : PChain → PChain → Bool
  | x :: xs, y :: ys =>
      levelEq x y && (if xs.isEmpty || ys.isEmpty then true else parentEqFull xs ys) && x.loc == y.loc
  | _, _ => false

/-- `Parent.equals_except_location`: the first level without its location, every ancestor level in full -/
def eqExceptLocC : PChain → PChain → Bool
  | x :: xs, y :: ys => levelEq x y && (if xs.isEmpty || ys.isEmpty then true else parentEqFull xs ys)
  | _, _ => false

/-- `ObjectValidation.require_parents_equal_except_location` -/
def requireParentsEqC (a b : PChain) : R Unit :=
  match a, b with
  | [], [] => pure ()
  | [], _ :: _ => throw .MismatchedParent
  | _ :: _, [] => throw .MismatchedParent
  | _ :: _, _ :: _ => if eqExceptLocC a b then pure () else throw .MismatchedParent

/-- `from_single_intervals`: the SET of `parent.strip_location_info()` must have one element.  Set membership goes
    through `__hash__` (every field of every level, the ancestors' locations included, presence of an ancestor
    included) before `__eq__`, so two stripped parents are one element exactly when their chains are identical. -/
def fsiParents (keys : List PChain) : V Unit :=
  match keys with
  | [] => raise .ValueError                         -- "List of intervals must be nonempty"
  | k :: rest => if rest.all (fun k' => decide (k' = k)) then pure () else raise .ValueError

/-- the parent test of the binary operations (`require_parents_equal_except_location`) -/
def binaryParents (a b : PChain) : V Unit := liftR (requireParentsEqC a b)

/-- the multi-operand operations of the `pcons` grid -/
inductive POp where
  | fsi | mkpar | append | locrel | binary      -- binary: union, union_preserve_overlaps, intersection / minus / contains /
  deriving DecidableEq, Repr                     --         has_overlap with strict_parent_compare, distance_to

/-- the parent test of one multi-operand operation, with the exception class that operation raises -/
def pconsModel (op : POp) (keys : List PChain) : V Unit :=
  match op with
  | .fsi => fsiParents keys
  | _ => match keys with
    | [a, b] =>
        match op with
        | .mkpar => if a.isEmpty || b.isEmpty then pure () else binaryParents a b
        | .append =>
            (match requireParentsEqC a b with
             | .ok _ => pure ()
             | .error _ => raise .ValueError)
        | .locrel =>
            -- `location_relative_to`: NullParentException when only the argument has a parent
            if a.isEmpty && b.isEmpty then pure ()
            else if a.isEmpty then raise .NullParent else binaryParents a b
        | _ => binaryParents a b
    | _ => raise .ValueError

def lv (id ty : Option String) (seq : Option String) (loc : Option (Strand × Nat × Nat)) : PLevel :=
  ⟨id, ty, seq.map String.toList, loc⟩

/-- the parent kinds of `impl_validate.parent_kind` as chains -/
def kindKey : Nat → Option PChain
  | 0 => some []
  | 1 => some [lv (some "p") none none none]
  | 2 => some [lv (some "p") (some "chromosome") none none]
  | 3 => some [lv (some "p") (some "plasmid") none none]
  | 4 => some [lv (some "p") none (some "ACGTACGTAC") none]
  | 5 => some [lv (some "p") none (some "TTTTTTTTTT") none]
  | 6 => some [lv (some "p") none none none, lv (some "gA") none none none]
  | 7 => some [lv (some "p") none none none, lv (some "gB") none none none]
  | 8 => some [lv none (some "X") none none]
  | 9 => some [lv none (some "Y") none none]
  -- the parent sits on a grand-parent `g`: same ids / types / sequences, different places or strands
  | 10 => some [lv (some "p") none none none, lv (some "g") (some "chromosome") none (some (.plus, 0, 10))]
  | 11 => some [lv (some "p") none none none, lv (some "g") (some "chromosome") none (some (.plus, 20, 30))]
  | 12 => some [lv (some "p") none none none, lv (some "g") (some "chromosome") none (some (.minus, 0, 10))]
  | 13 => some [lv (some "p") none (some "ACGTACGTAC") none, lv (some "g") (some "chromosome") none (some (.plus, 0, 10))]
  | 14 => some [lv (some "p") none (some "ACGTACGTAC") none, lv (some "g") (some "chromosome") none (some (.plus, 20, 30))]
  -- depth 3: the grand-parent sits on a great-grand-parent at two different places
  | 15 => some [lv (some "p") none none none, lv (some "g") (some "chromosome") none (some (.plus, 0, 10)),
                lv (some "gg") none none (some (.plus, 0, 50))]
  | 16 => some [lv (some "p") none none none, lv (some "g") (some "chromosome") none (some (.plus, 0, 10)),
                lv (some "gg") none none (some (.plus, 100, 150))]
  | _ => none

def nKinds : Nat := 17

/-! ### the parent validation of the interval / collection constructors -/

/-- `Parent.sequence_type` of one level, as far as the constructors look at it -/
inductive HTy where
  | untyped | chromosome | chunk | other
  deriving DecidableEq, Repr, Inhabited

/-- the `location` attribute of a Parent object (where the level BELOW sits on it): absent; a location that has no
    parent of its own (`Parent(id=…, location=SingleInterval(a, b, +))`); a location that points at a Parent, which may
    carry a sequence (`Parent(location=SingleInterval(a, b, +, parent=P))`, the documented form) -/
inductive HLoc where
  | none
  | bare
  | ptr (pointeeHasSeq : Bool)
  deriving DecidableEq, Repr, Inhabited

/-- one Parent object of the chain `p, p.parent, p.parent.parent, …` -/
structure HLevel where
  ty : HTy
  hasSeq : Bool         -- `.sequence` of THIS Parent object (non-empty)
  loc : HLoc            -- `.location` of THIS Parent object
  deriving DecidableEq, Repr, Inhabited

/-- `Parent.has_ancestor_of_type(t)` (`include_self=True`) -/
def hasAncestor (t : HTy) (chain : List HLevel) : Bool := chain.any (fun l => l.ty == t)

/-- the parent checks of `AbstractInterval.liftover_location_to_seq_chunk_parent` (gene/interval.py:385-428) for a
    parent-less location (what every constructor hands in):
      None                                                      -> the location as it is
      a SEQUENCE_CHUNK ancestor but no CHROMOSOME ancestor      -> NoSuchAncestorException
      `not chunk_parent.sequence`                               -> NullSequenceException
      `sequence_chunk.location_on_parent.parent_to_relative_location(location.reset_parent(chunk_parent.parent))`:
         location_on_parent is None (the chunk's parent has no location, or the chunk has no parent)  -> ValidationException
                                                                     (since 43c4851; AttributeError before, F-C19t)
         it has no parent of its own while the lifted location has one                                 -> MismatchedParent
         its parent carries a sequence and `chunk_parent.parent` does not (or vice versa)              -> MismatchedParent
      no SEQUENCE_CHUNK ancestor                                -> `location.reset_parent(parent)`  -/
def liftoverParents (chain : List HLevel) : V Unit :=
  match chain with
  | [] => pure ()
  | _ =>
    if hasAncestor .chunk chain then
      if !hasAncestor .chromosome chain then raise .NoSuchAncestor
      else
        match chain.dropWhile (fun l => l.ty != .chunk) with
        | [] => raise .NoSuchAncestor                 -- unreachable: `first_ancestor_of_type` after `has_ancestor_of_type`
        | c :: above =>
            if !c.hasSeq then raise .NullSequence
            else
              match above with
              | [] => raise .Validation
              | a :: _ =>
                  match a.loc with
                  | .none => raise .Validation
                  | .bare => raise .MismatchedParent
                  | .ptr pseq => if pseq != a.hasSeq then raise .MismatchedParent else pure ()
    else pure ()

/-- which constructor path: everything that has coordinates of its own (intervals, collections with children, an
    AnnotationCollection with bounds) lifts its location; an AnnotationCollection without children and without bounds
    has a location only when the first CHROMOSOME ancestor carries one (`if chrom_parent.location:`,
    gene/collections.py:121-125) - otherwise it is `EmptyLocation()` and the parent is never looked at -/
inductive HCls where
  | located | emptyAnnot
  deriving DecidableEq, Repr, Inhabited

def hierModel (c : HCls) (chain : List HLevel) : V Unit :=
  match c with
  | .located => liftoverParents chain
  | .emptyAnnot =>
      match chain.dropWhile (fun l => l.ty != .chromosome) with
      | [] => pure ()
      | chrom :: _ => if chrom.loc == .none then pure () else liftoverParents chain

/-- the hierarchy kinds of `impl_validate.hier_kind` as chains of Parent objects -/
def hierKey : Nat → Option (List HLevel)
  | 0 => some []
  | 1 => some [⟨.chromosome, true, .none⟩]
  | 2 => some [⟨.chromosome, false, .none⟩]
  | 3 => some [⟨.untyped, true, .none⟩]
  | 4 => some [⟨.untyped, false, .none⟩]
  | 5 => some [⟨.other, true, .none⟩]
  | 6 => some [⟨.chunk, true, .none⟩, ⟨.chromosome, false, .ptr false⟩]
  | 7 => some [⟨.chunk, true, .none⟩]
  | 8 => some [⟨.chunk, true, .none⟩, ⟨.other, false, .ptr false⟩]
  | 9 => some [⟨.chunk, true, .none⟩, ⟨.untyped, false, .ptr false⟩]
  | 10 => some [⟨.chunk, true, .none⟩, ⟨.chunk, false, .ptr false⟩]
  | 11 => some [⟨.chunk, false, .none⟩, ⟨.chromosome, false, .ptr false⟩]
  | 12 => some [⟨.chunk, true, .none⟩, ⟨.chromosome, false, .none⟩]
  | 13 => some [⟨.chunk, true, .none⟩, ⟨.other, false, .ptr false⟩, ⟨.chromosome, false, .bare⟩]
  | 14 => some [⟨.untyped, false, .bare⟩]
  | 15 => some [⟨.chunk, true, .none⟩, ⟨.chromosome, false, .ptr false⟩]
  | 16 => some [⟨.chunk, true, .none⟩, ⟨.chromosome, false, .ptr true⟩]
  | 17 => some [⟨.chunk, false, .none⟩]
  | 18 => some [⟨.chromosome, true, .none⟩, ⟨.chunk, true, .bare⟩]
  | 19 => some [⟨.chunk, true, .none⟩, ⟨.chromosome, false, .bare⟩]
  | _ => none

def nHierKinds : Nat := 20

/-! ### scan_windows -/

/-- number of elements of `range(a, b, step)` for `step ≥ 1` -/
def rangeCount (a b step : Int) : Nat := if b ≤ a then 0 else ((b - a + step - 1) / step).toNat

/-- `Location.scan_windows`: argument validation, then the number of windows produced -/
def scanWinCount (l : Location) (window step startPos : Int) : V Nat :=
  let n : Int := locLen l
  if ¬ (0 ≤ startPos ∧ startPos < n) then raise .ValueError
  else if min window step < 1 then raise .ValueError
  else if window > n then raise .ValueError
  else if startPos + window > n then raise .ValueError
  else do
    let st ← liftR (locStrand l)
    liftR (assertDirectional st)
    pure (rangeCount startPos (n - window + 1) step)

/-- the windows themselves: `relative_interval_to_parent_location(s, s + window, PLUS)` for each start -/
def scanWindows (l : Location) (window step startPos : Int) : V (List Location) := do
  let k ← scanWinCount l window step startPos
  (List.range k).mapM (fun (i : Nat) =>
    liftR (relInterval l (startPos + (i : Int) * step) (startPos + (i : Int) * step + window) .plus))

end BioCantor.Model.Validate
