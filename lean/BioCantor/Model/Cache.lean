/-
  C10 — models of the memoisation / laziness / aliasing devices the library uses (the code that exists):

    §1  `functools.lru_cache(maxsize=cap)`            parent/parent.py:29,42 (`_unique_value_or_none`, `Parent`)
    §2  `methodtools.lru_cache` (one table per object) gene/interval.py, cds.py, transcript.py, collections.py
    §3  lazily filled attributes                       `_single_interval_store`, `_is_overlapping`, `_sequence`
        and the `None`-as-sentinel variant             `Parent._strand_property` (parent/parent.py:167-176)
    §4  a function with two code paths selected by a flag that another accessor sets
                                                       `CDSInterval.extract_sequence` (gene/cds.py:100,456-467,515)
    §5  copy of a dict of sets followed by `set.update`, on a reference heap (deep copy = the code as it is;
        `dict.copy()` = the code before b1a89c3)      `_merge_qualifiers` (gene/interval.py:776-786)
    §6  operations that construct a new object from lazily cached operands (`reset_parent`, `reset_strand`, set operations, …)
    §7  `export_qualifiers(parent_qualifiers)` with the argument BY REFERENCE + the `.add()` loop; one gene-level
        dictionary handed to all children (`GeneInterval.to_gff`)

  Lean core only (the model driver runs with `lean --run`).
-/
import BioCantor.Base
import BioCantor.Spec.Cache
namespace BioCantor.Model.Cache
open BioCantor
open BioCantor.Spec.Cache (Ev Ans CdsOp)

/-! ## §1 the LRU discipline of `functools.lru_cache` -/

/-- the cache: association list, MOST RECENTLY USED FIRST (CPython keeps a circular doubly linked list
    `root.prev` = newest … `root.next` = oldest, plus a dict for lookup) -/
abbrev Store (κ ν : Type) := List (κ × ν)

def find? {κ ν} [DecidableEq κ] (k : κ) : Store κ ν → Option ν
  | [] => none
  | (k', v) :: rest => if k' = k then some v else find? k rest

def remove {κ ν} [DecidableEq κ] (k : κ) : Store κ ν → Store κ ν
  | [] => []
  | (k', v) :: rest => if k' = k then rest else (k', v) :: remove k rest

/-- one call `wrapper(k)`:
    * `maxsize == 0`: no caching, the call counts as a miss;
    * hit: the link is moved to the front, the STORED value is returned (the function is not called);
    * miss, not full: `f k` is computed and stored at the front;
    * miss, full: the oldest link (last) is dropped, `f k` stored at the front.
    (`take (cap-1)` is `dropLast` whenever the store holds exactly `cap` entries — lemma `take_eq_dropLast`.) -/
def step {κ ν} [DecidableEq κ] (f : κ → ν) (cap : Nat) (s : Store κ ν) (k : κ) : Store κ ν × ν × Ev :=
  if cap = 0 then (s, f k, .miss)
  else
    match find? k s with
    | some v => ((k, v) :: remove k s, v, .hit)
    | none =>
      if s.length < cap then ((k, f k) :: s, f k, .miss)
      else ((k, f k) :: s.take (cap - 1), f k, .missEvict)

/-- a history of calls; returns the final store and the (answer, event) of every call -/
def run {κ ν} [DecidableEq κ] (f : κ → ν) (cap : Nat) : Store κ ν → List κ → Store κ ν × List (ν × Ev)
  | s, [] => (s, [])
  | s, k :: ks =>
    let r := step f cap s k
    let rest := run f cap r.1 ks
    (rest.1, (r.2.1, r.2.2) :: rest.2)

def outputs {σ ν} (r : σ × List (ν × Ev)) : List ν := r.2.map (·.1)
def events {σ ν} (r : σ × List (ν × Ev)) : List Ev := r.2.map (·.2)

/-! ## §2 per-object memo tables (`methodtools.lru_cache`: the wrapper is stored on the instance) -/

/-- object identity ↦ that object's store -/
abbrev Table (ο κ ν : Type) := ο → Store κ ν

def Table.empty {ο κ ν} : Table ο κ ν := fun _ => []

def Table.set {ο κ ν} [DecidableEq ο] (t : Table ο κ ν) (o : ο) (s : Store κ ν) : Table ο κ ν :=
  fun o' => if o' = o then s else t o'

/-- `obj.method(k)`: the LRU step on the table of `obj`, with `f obj` as the underlying function -/
def stepObj {ο κ ν} [DecidableEq ο] [DecidableEq κ] (f : ο → κ → ν) (cap : Nat) (t : Table ο κ ν)
    (c : ο × κ) : Table ο κ ν × ν × Ev :=
  let r := step (f c.1) cap (t c.1) c.2
  (t.set c.1 r.1, r.2.1, r.2.2)

def runObj {ο κ ν} [DecidableEq ο] [DecidableEq κ] (f : ο → κ → ν) (cap : Nat) :
    Table ο κ ν → List (ο × κ) → Table ο κ ν × List (ν × Ev)
  | t, [] => (t, [])
  | t, c :: cs =>
    let r := stepObj f cap t c
    let rest := runObj f cap r.1 cs
    (rest.1, (r.2.1, r.2.2) :: rest.2)

/-! ## §3 lazily filled attributes -/

/-- an object = immutable constructor data `core` + slots filled on first read -/
structure LazyObj (γ ι ν : Type) where
  core : γ
  slot : ι → Option ν

def LazyObj.fresh {γ ι ν} (c : γ) : LazyObj γ ι ν := ⟨c, fun _ => none⟩

/-- `if self._x is None: self._x = compute(self); return self._x` -/
def LazyObj.read {γ ι ν} [DecidableEq ι] (g : γ → ι → ν) (o : LazyObj γ ι ν) (i : ι) : LazyObj γ ι ν × ν :=
  match o.slot i with
  | some v => (o, v)
  | none => ({ o with slot := fun j => if j = i then some (g o.core i) else o.slot j }, g o.core i)

def LazyObj.reads {γ ι ν} [DecidableEq ι] (g : γ → ι → ν) : LazyObj γ ι ν → List ι → LazyObj γ ι ν × List ν
  | o, [] => (o, [])
  | o, i :: is =>
    let r := o.read g i
    let rest := LazyObj.reads g r.1 is
    (rest.1, r.2 :: rest.2)

/-- the two lazily filled attributes of a `CompoundInterval` that are plain functions of the block list -/
inductive LocAttr where
  | isOverlapping     -- `_is_overlapping`  (location_impl.py:552-559)
  | blocks            -- `_single_interval_store` (location_impl.py:495-502), observed as the list of (start, end)
  deriving DecidableEq, Repr

inductive LocVal where
  | bool (b : Bool)
  | blocks (bs : List Blk)
  deriving DecidableEq, Repr

/-- `any(self._starts[i+1] < self._ends[i] for i in range(num_blocks-1))` on the sorted block list -/
def anyOverlap : List Blk → Bool
  | [] => false
  | [_] => false
  | a :: b :: rest => decide (b.1 < a.2) || anyOverlap (b :: rest)

def locAttr (bs : List Blk) : LocAttr → LocVal
  | .isOverlapping => .bool (anyOverlap bs)
  | .blocks => .blocks bs

/-- `Parent.strand` (parent/parent.py:167-176): Python's `None` is BOTH "not computed yet" and a possible value:

        if self._strand_property is None:
            if self._strand:   self._strand_property = self._strand
            if self.location:  self._strand_property = self.location.strand
        return self._strand_property

    `self.location` is truthy iff the location has non-zero length (`Location.__len__`). -/
structure ParentS where
  strandArg : Option Strand            -- `_strand`
  location : Option (Strand × Nat)     -- strand and length of `location`, if any
  prop : Option Strand                 -- `_strand_property`
  deriving DecidableEq, Repr

def ParentS.compute (p : ParentS) : Option Strand :=
  let a := p.strandArg
  match p.location with
  | some (s, len) => if len ≠ 0 then some s else a
  | none => a

def ParentS.strand (p : ParentS) : ParentS × Option Strand :=
  match p.prop with
  | some s => (p, some s)
  | none => ({ p with prop := p.compute }, p.compute)

def ParentS.reads : ParentS → Nat → ParentS × List (Option Strand)
  | p, 0 => (p, [])
  | p, n + 1 =>
    let r := p.strand
    let rest := ParentS.reads r.1 n
    (rest.1, r.2 :: rest.2)

/-! ## §4 `CDSInterval.extract_sequence`: two code paths selected by a flag another accessor sets -/

/-- the parts of a CDSInterval that matter: the two ways of computing the in-frame coding sequence
    (`pathA` = slice the spliced sequence, cds.py:461-467; `pathB` = join the cached codon locations'
    sequences, cds.py:456-460), and which revision of the cached-codon path is modelled:
      `repaired = true`   the code as it is (a04ad26 + 588ca9c): the path is taken only when the flag is set AND there
                          is at least one cached codon location, and it returns `Sequence("".join(codons), …)`;
      `repaired = false`  the code before the repair (defect F-C10a): taken whenever the flag is set, returns the
                          joined `str`.  Kept for the regression witnesses only. -/
structure CdsCfg (γ : Type) where
  pathA : γ → List Char
  pathB : γ → List Char
  repaired : Bool
  /-- `len(tuple(self.scan_chunk_relative_codon_locations()))`: codon locations inside the chunk -/
  chunkCodons : γ → Nat
  /-- `len(self.chromosome_codon_locations)`: codons of the whole CDS; differs from `chunkCodons` when the sequence
      chunk cuts the CDS -/
  totalCodons : γ → Nat

structure CdsState (γ : Type) where
  core : γ
  flag : Bool                 -- `_chunk_relative_codon_locations_cached`
  codonsMemo : Option Nat     -- lru_cache(maxsize=1) of `chunk_relative_codon_locations` (observed: its length)
  seqMemo : Option Ans        -- lru_cache(maxsize=1) of `extract_sequence()`

def CdsState.fresh {γ} (c : γ) : CdsState γ := ⟨c, false, none, none⟩

/-- `chunk_relative_codon_locations` (cds.py:505-515): sets the flag inside the memoised body -/
def listCodons {γ} (cfg : CdsCfg γ) (s : CdsState γ) : CdsState γ × Nat :=
  match s.codonsMemo with
  | some n => (s, n)
  | none =>
    let n := cfg.chunkCodons s.core
    ({ s with flag := true, codonsMemo := some n }, n)

/-- `len(self.chunk_relative_codon_locations)` as `extract_sequence` sees it (the memoised tuple when it exists) -/
def codonCount {γ} (cfg : CdsCfg γ) (s : CdsState γ) : Nat :=
  match s.codonsMemo with
  | some n => n
  | none => cfg.chunkCodons s.core

/-- `if self._chunk_relative_codon_locations_cached is True and self.chunk_relative_codon_locations:` (cds.py:456);
    before the repair the second conjunct was missing -/
def useCachedPath {γ} (cfg : CdsCfg γ) (s : CdsState γ) : Bool :=
  s.flag && (!cfg.repaired || decide (0 < codonCount cfg s))

/-- `extract_sequence()` (cds.py:440-467) -/
def extract {γ} (cfg : CdsCfg γ) (s : CdsState γ) : CdsState γ × Ans :=
  match s.seqMemo with
  | some v => (s, v)
  | none =>
    let v : Ans :=
      if useCachedPath cfg s then (if cfg.repaired then .seqObj (cfg.pathB s.core) else .str (cfg.pathB s.core))
      else .seqObj (cfg.pathA s.core)
    ({ s with seqMemo := some v }, v)

/-- `has_valid_stop` (cds.py:407-412): `Codon(seq[-3:].sequence.upper()).is_stop_codon` — `.sequence` exists on a
    `Sequence`, not on a `str` (AttributeError) -/
def validStop {γ} (cfg : CdsCfg γ) (s : CdsState γ) : CdsState γ × Ans :=
  let r := extract cfg s
  match r.2 with
  | .seqObj l => (r.1, .bool (Spec.Cache.isStopCodon (Spec.Cache.lastThree (l.map Char.toUpper))))
  | _ => (r.1, .internalError)

def cdsStep {γ} (cfg : CdsCfg γ) (s : CdsState γ) : CdsOp → CdsState γ × Ans
  | .listCodons => let r := listCodons cfg s; (r.1, .count r.2)
  | .numCodons => let r := listCodons cfg s; (r.1, .count r.2)      -- `len(self.chunk_relative_codon_locations)`
  | .extract => extract cfg s
  | .validStop => validStop cfg s
  -- `num_codons` (cds.py:469-474): `len(self.chromosome_codon_locations)`, a memoised pure function of the constructor
  -- data that does NOT look at the flag or at the chunk-relative codon memo
  | .totalCodons => (s, .count (cfg.totalCodons s.core))

def cdsRun {γ} (cfg : CdsCfg γ) : CdsState γ → List CdsOp → CdsState γ × List Ans
  | s, [] => (s, [])
  | s, o :: os =>
    let r := cdsStep cfg s o
    let rest := cdsRun cfg r.1 os
    (rest.1, r.2 :: rest.2)

/-! ## §5 `_merge_qualifiers`: `dict.copy()` then `set.update`, on a heap of set cells -/

abbrev Ref := Nat
/-- the heap: cell `r` holds a Python set (elements in insertion order, no duplicates) -/
abbrev Heap := List (List Nat)
/-- a dict whose values are REFERENCES to set cells -/
abbrev Dict := List (Nat × Ref)

/-- `s.update(vals)` -/
def setUpdate (s vals : List Nat) : List Nat :=
  vals.foldl (fun acc x => if x ∈ acc then acc else acc ++ [x]) s

def dlookup (k : Nat) : Dict → Option Ref
  | [] => none
  | (k', r) :: rest => if k' = k then some r else dlookup k rest

/-- the set stored in cell `r` (a dangling reference reads as the empty set; never happens for allocated dicts) -/
def cellAt (h : Heap) (r : Ref) : List Nat :=
  match h[r]? with
  | some c => c
  | none => []

/-- `d.copy()`: a new dict object holding the SAME references -/
def shallowCopy (d : Dict) : Dict := d

/-- `{k: set(v) for k, v in d.items()}`: a fresh cell per entry -/
def deepCopy : Heap → Dict → Heap × Dict
  | h, [] => (h, [])
  | h, (k, r) :: rest =>
    let res := deepCopy (h ++ [cellAt h r]) rest
    (res.1, (k, h.length) :: res.2)

/-- the loop of `_merge_qualifiers`:
        for key, vals in other.items():
            if key not in merged: merged[key] = set()
            merged[key].update(vals)                                                        -/
def mergeInto : Heap → Dict → List (Nat × List Nat) → Heap × Dict
  | h, merged, [] => (h, merged)
  | h, merged, (key, vals) :: rest =>
    match dlookup key merged with
    | some r => mergeInto (h.modify r (fun c => setUpdate c vals)) merged rest
    | none => mergeInto (h ++ [setUpdate [] vals]) (merged ++ [(key, h.length)]) rest

/-- BEFORE the repair b1a89c3 (defect F-C10b): `merged = self.qualifiers.copy()`; kept for the regression witness -/
def mergeShallow (h : Heap) (own : Dict) (other : List (Nat × List Nat)) : Heap × Dict :=
  mergeInto h (shallowCopy own) other

/-- the code as it is (gene/interval.py:780, b1a89c3): `merged = {key: set(vals) for key, vals in self.qualifiers.items()}` -/
def mergeDeep (h : Heap) (own : Dict) (other : List (Nat × List Nat)) : Heap × Dict :=
  let c := deepCopy h own
  mergeInto c.1 c.2 other

/-- read a dict through the heap -/
def deref (h : Heap) (d : Dict) : List (Nat × List Nat) :=
  d.map fun kr => (kr.1, cellAt h kr.2)

/-- build heap + dict from literal qualifiers (one cell per key, in order) -/
def alloc : Heap → List (Nat × List Nat) → Heap × Dict
  | h, [] => (h, [])
  | h, (k, vals) :: rest =>
    let res := alloc (h ++ [setUpdate [] vals]) rest
    (res.1, (k, h.length) :: res.2)

/-! ## §6 operations that build NEW objects from lazily cached operands

    `SingleInterval.reset_parent` (location_impl.py:268-270), `reset_strand`, `shift_position`, `extend_absolute`, the set
    operations, `Sequence.__getitem__`, `liftover_to_parent_or_seq_chunk_parent`, … all end in a constructor call on values
    computed from the operands' constructor data (`SingleInterval(self.start, self.end, self.strand, parent)`); the
    constructor initialises every lazily filled cell to `None` (location_impl.py:63, 469-470). -/

/-- unary operation as coded: the result is a freshly constructed object -/
def LazyObj.derive {γ ι ν} (op : γ → γ) (o : LazyObj γ ι ν) : LazyObj γ ι ν := LazyObj.fresh (op o.core)

/-- binary operation as coded (`a.union(b)`, `a.intersection(b)`, `seq.append(other)`, …) -/
def LazyObj.derive2 {γ ι ν} (op : γ → γ → γ) (a b : LazyObj γ ι ν) : LazyObj γ ι ν := LazyObj.fresh (op a.core b.core)

/-- NOT the code: an operation that hands the operand's filled cells to its result ("keep the already extracted
    sequence").  Only used for the witness that the freshness of the cells is what the theorem rests on. -/
def LazyObj.deriveCarry {γ ι ν} (op : γ → γ) (o : LazyObj γ ι ν) : LazyObj γ ι ν := ⟨op o.core, o.slot⟩

/-- constructor data of a `SingleInterval` on a parent with sequence: coordinates, strand, the parent's bases
    (`none` = no parent / parent without sequence) -/
structure SICore where
  start : Nat
  stop : Nat
  minus : Bool
  bases : Option (List Char)
  deriving DecidableEq, Repr

inductive SIAttr where
  | sequence        -- `_sequence`, filled by `extract_sequence()` (location_impl.py:154-172)
  deriving DecidableEq, Repr

def complement : Char → Char
  | 'A' => 'T' | 'C' => 'G' | 'G' => 'C' | 'T' => 'A' | c => c

/-- `extract_sequence()`: the slice of the parent's bases, reverse-complemented on the minus strand;
    `none` = raises (no parent sequence) -/
def siAttr (c : SICore) : SIAttr → Option (List Char)
  | .sequence =>
    match c.bases with
    | none => none
    | some b =>
      let sl := (b.drop c.start).take (c.stop - c.start)
      some (if c.minus then (sl.reverse.map complement) else sl)

/-- `reset_parent(new_parent)`: same coordinates and strand, the new parent's bases -/
def SICore.resetParent (newBases : Option (List Char)) (c : SICore) : SICore := { c with bases := newBases }

/-! ## §7 `export_qualifiers(parent_qualifiers)`: the ARGUMENT is a dict of references to the caller's sets

    `_merge_qualifiers` (gene/interval.py:776-786) followed by the `.add()` loop of `TranscriptInterval.export_qualifiers`
    (transcript.py:667-686) / `CDSInterval.export_qualifiers` (cds.py:309-323) / `FeatureInterval.export_qualifiers`:

        merged = {key: set(vals) for key, vals in self.qualifiers.items()}
        for key, vals in other_qualifiers.items():
            if key not in merged: merged[key] = set()
            merged[key].update(vals)
        for key, val in [...identifiers...]:
            if not val: continue
            if key not in qualifiers: qualifiers[key] = set()
            qualifiers[key].add(val)                                                                    -/

/-- the merge loop with `other` by reference: the caller's set is READ (`update(vals)`) when its key is reached -/
def mergeIntoRef : Heap → Dict → Dict → Heap × Dict
  | h, merged, [] => (h, merged)
  | h, merged, (key, ro) :: rest =>
    match dlookup key merged with
    | some r => mergeIntoRef (h.modify r (fun c => setUpdate c (cellAt h ro))) merged rest
    | none => mergeIntoRef (h ++ [setUpdate [] (cellAt h ro)]) (merged ++ [(key, h.length)]) rest

/-- NOT the code: `merged[key] = vals` for keys the interval does not have (the argument's set is adopted).
    Only used for the witness that copying is what the theorem rests on. -/
def mergeIntoAdopt : Heap → Dict → Dict → Heap × Dict
  | h, merged, [] => (h, merged)
  | h, merged, (key, ro) :: rest =>
    match dlookup key merged with
    | some r => mergeIntoAdopt (h.modify r (fun c => setUpdate c (cellAt h ro))) merged rest
    | none => mergeIntoAdopt h (merged ++ [(key, ro)]) rest

/-- the `.add()` loop: `(key, val)` for every identifier the exporter adds (those with a truthy value) -/
def addIds : Heap → Dict → List (Nat × Nat) → Heap × Dict
  | h, q, [] => (h, q)
  | h, q, (key, val) :: rest =>
    match dlookup key q with
    | some r => addIds (h.modify r (fun c => setUpdate c [val])) q rest
    | none => addIds (h ++ [setUpdate [] [val]]) (q ++ [(key, h.length)]) rest

/-- `export_qualifiers(parent_qualifiers)` as coded -/
def exportQualifiers (h : Heap) (own other : Dict) (ids : List (Nat × Nat)) : Heap × Dict :=
  let c := deepCopy h own
  let m := mergeIntoRef c.1 c.2 other
  addIds m.1 m.2 ids

/-- … with the adopting merge (NOT the code) -/
def exportQualifiersAdopt (h : Heap) (own other : Dict) (ids : List (Nat × Nat)) : Heap × Dict :=
  let c := deepCopy h own
  let m := mergeIntoAdopt c.1 c.2 other
  addIds m.1 m.2 ids

/-- `GeneInterval.to_gff` (gene.py:321-348): ONE gene-level dictionary is handed to every transcript's export
    (and by each transcript to its CDS): children = (own qualifiers, identifiers added) in export order -/
def exportChildren : Heap → Dict → List (Dict × List (Nat × Nat)) → Heap
  | h, _, [] => h
  | h, pq, (own, ids) :: rest => exportChildren (exportQualifiers h own pq ids).1 pq rest

def exportChildrenAdopt : Heap → Dict → List (Dict × List (Nat × Nat)) → Heap
  | h, _, [] => h
  | h, pq, (own, ids) :: rest => exportChildrenAdopt (exportQualifiersAdopt h own pq ids).1 pq rest

end BioCantor.Model.Cache
