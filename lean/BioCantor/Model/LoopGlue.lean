/-
  Glue between the GENERATED CompoundInterval kernels (`Gen/Kernels.lean`) and the model's data: how a model
  location is handed to a generated kernel, how a generated answer is read back, and the model's continuation of
  the one kernel that is translated only up to a documented cut.  Hand-written, Lean core + this project only, so
  the C01 model driver can run it (`Driver/Loc.lean`, ops gp2r / gr2p / grelint) and the tie theorems
  (`Proofs/LoopTies.lean`, `Props/C01Ties2.lean`) can be stated about the very same functions.
-/
import BioCantor.Gen.Kernels
import BioCantor.Model.Location
namespace BioCantor.Model.LoopGlue
open BioCantor BioCantor.GenP

/-- a block with a strand as a generated SingleInterval (parent-less view) -/
def toSI (b : Blk) (st : Strand) : SI := ⟨(b.1 : Int), (b.2 : Int), st⟩

/-- the stored blocks and strand of `l` as a generated CompoundInterval -/
def toCI (l : Loc) : CI := ⟨l.blocks.map (fun b => toSI b l.strand), l.strand⟩

/-- a generated block as a model block -/
def siBlk (s : SI) : Blk := (s.start.toNat, s.«end».toNat)

/-- a generated SingleInterval as a model location -/
def siLocation (s : SI) : Location := .single (siBlk s) s.strand

/-- The part of `CompoundInterval.relative_interval_to_parent_location` after the translator's cut, as the model has
    it: `CompoundInterval._from_single_intervals_no_validation(new_blocks).optimize_blocks()`, then
    `reset_strand(new_strand)` when the strands differ.  `st` is the location's strand (= the strand of every
    sub-block, `Props.C01Ties2.compound_relative_interval_blocks`).  A zero-length request has already returned a
    SingleInterval before the cut. -/
def finishRel (st : Strand) : RelOut → R Location
  | .single s => pure (siLocation s)
  | .blocks bs ns => do
      let c ← mkCompoundLoc (bs.map siBlk) st
      let opt ← optimizeLoc true c
      if ns ≠ st then resetStrand opt ns else pure opt

/-- (start, end) lists as model blocks -/
def zipBlk (starts ends : List Int) : List Blk := (List.zip starts ends).map (fun p => (p.1.toNat, p.2.toNat))

/-- What `optimize_blocks` / `optimize_and_combine_blocks` do with the result of `_combine_blocks`, as the model has
    it (`Model.optimizeLoc`): `self` or the rebuilt `CompoundInterval(new_starts, new_ends, self.strand, …)` — the
    constructor call the translator does not compile — goes through `_to_single_interval_if_one_block`, an
    EmptyLocation is returned as it is. -/
def finishOpt (l : Loc) : CombineOut → R Location
  | .same => pure (toSingleIfOne l)
  | .empty => pure .empty
  | .rebuilt starts ends => do
      let l' ← mkCompoundLoc (zipBlk starts ends) l.strand
      pure (toSingleIfOne l')

/-- Python exception class of a generated kernel ↦ the model's documented class (`none`: no documented counterpart) -/
def excErr : PyExc → Option Err
  | .InvalidPositionException => some .InvalidPosition
  | .InvalidStrandException => some .InvalidStrand
  | .ValueError => some .ValueError
  | .TypeError => some .TypeError
  | .UnsupportedOperationException => some .UnsupportedOperation
  | .EmptyLocationException => some .EmptyLocation
  | .LocationException => some .Location
  | .NotImplementedError => some .NotImplemented
  | .MismatchedFrameException => some .MismatchedFrame
  | .InvalidCDSIntervalError => some .InvalidCDSInterval
  | .KeyError => none

/-- `parent_to_relative_pos` through the GENERATED kernels (dispatch on the Python type as in `Model.p2r`) -/
def gp2r : Location → Int → PyR Int
  | .single b st, p => Gen.SingleInterval_parent_to_relative_pos (toSI b st) p
  | .compound l, p => Gen.CompoundInterval_parent_to_relative_pos (toCI l) p
  | .empty, _ => .error .EmptyLocationException

/-- `relative_to_parent_pos` through the GENERATED kernels -/
def gr2p : Location → Int → PyR Int
  | .single b st, r => Gen.SingleInterval_relative_to_parent_pos (toSI b st) r
  | .compound l, r => Gen.CompoundInterval_relative_to_parent_pos (toCI l) r
  | .empty, _ => .error .EmptyLocationException

/-- `relative_interval_to_parent_location` through the GENERATED kernels; the compound kernel's cut is continued by
    `finishRel`.  `Sum.inl` = the generated kernel raised, `Sum.inr` = answer (of the model's continuation). -/
def grelint : Location → Int → Int → Strand → Sum PyExc (R Location)
  | .single b st, rs, re, rst =>
      match Gen.SingleInterval_relative_interval_to_parent_location (toSI b st) rs re rst with
      | .ok s => .inr (pure (siLocation s))
      | .error e => .inl e
  | .compound l, rs, re, rst =>
      match Gen.CompoundInterval_relative_interval_to_parent_location (toCI l) rs re rst with
      | .ok o => .inr (finishRel l.strand o)
      | .error e => .inl e
  | .empty, _, _, _ => .inl .EmptyLocationException

/-- `optimize_blocks` (`preserve = true`) / `optimize_and_combine_blocks` (`preserve = false`) of a CompoundInterval
    through the GENERATED `_combine_blocks` loop, continued by `finishOpt` -/
def goptimize (preserve : Bool) : Location → Sum PyExc (R Location)
  | .compound l =>
      match (if preserve then Gen.CompoundInterval_optimize_blocks (toCI l)
             else Gen.CompoundInterval_optimize_and_combine_blocks (toCI l)) with
      | .ok o => .inr (finishOpt l o)
      | .error e => .inl e
  | x => .inr (if preserve then optimizeBlocks x else optimizeAndCombine x)

/-- `gap_list()` of a CompoundInterval: the head of the method as the model has it (`optimizeLoc false`, the empty
    test, `scanBlocks`), then the GENERATED pairwise loop on the scanned blocks -/
def ggaplist : Location → Sum PyExc (R (List SI))
  | .compound l =>
      match optimizeLoc false l with
      | .error e => .inr (.error e)
      | .ok .empty => .inr (pure [])
      | .ok (.single b st) =>
          match Gen.CompoundInterval_gap_list (toCI l) (toSI b st, []) with
          | .ok gs => .inr (pure gs)
          | .error e => .inl e
      | .ok (.compound lo) =>
          match scanBlocks lo with
          | .error e => .inr (.error e)
          | .ok [] => .inr (pure [])
          | .ok (b :: rest) =>
              match Gen.CompoundInterval_gap_list (toCI l) (toSI b lo.strand, rest.map (fun x => toSI x lo.strand)) with
              | .ok gs => .inr (pure gs)
              | .error e => .inl e
  | _ => .inr (pure [])

end BioCantor.Model.LoopGlue
