/-
  Hand-written mirror of gene/variants.py (VariantInterval / VariantIntervalCollection) and of the
  `incorporate_variants` methods of FeatureInterval / TranscriptInterval / CDSInterval, for parents WITH
  sequence: a whole chromosome (`seq_to_parent(ref)`) or a plus-strand chunk (`seq_chunk_to_parent(ref, …, cs,
  cs+len(ref))`).  All coordinates are chromosome coordinates; `off` is the chunk start (0 for a chromosome).

  The single-interval lift kernel is NOT re-written here: `kernel` calls the definition generated from the
  source on every run (`Gen.VariantInterval_lift_over_chromosome_location_single_interval`).
  Everything else follows the control flow of the Python method named in each doc comment; the tie to the
  source is the correspondence run of every check.

  Modelled domain (enforced by the driver): variants and blocks lie inside the parent's window.
-/
import BioCantor.Base
import BioCantor.Model.Location
import BioCantor.Gen.Kernels
namespace BioCantor.Model.Variants
open BioCantor BioCantor.Model

abbrev Seq := List Char

/-- a VariantInterval: chromosome start / end and the alternative bases -/
structure Var where
  s : Nat
  e : Nat
  alt : Seq
  deriving DecidableEq, Repr

/-- the parent: whole chromosome, or a chunk starting at `cs` -/
inductive Par where
  | whole
  | chunk (cs : Nat)
  deriving DecidableEq, Repr

def Par.off : Par → Nat
  | .whole => 0
  | .chunk cs => cs

/-! ### constructors -/

/-- `VariantInterval.__init__`: `start == end` ⇒ EmptyLocationException; `SingleInterval(start, end)` needs
    `start ≤ end`; on a whole-chromosome parent the end must not exceed the sequence length. -/
def mkVar (par : Par) (refLen : Nat) (s e : Nat) (alt : Seq) : R Var :=
  if s = e then throw .EmptyLocation
  else if e < s then throw .InvalidPosition
  else match par with
    | .whole => if e > refLen then throw .InvalidPosition else pure ⟨s, e, alt⟩
    | .chunk _ => pure ⟨s, e, alt⟩

/-- insert `v` into a list sorted by start, BEFORE the elements with the same start -/
def insertByStart (v : Var) : List Var → List Var
  | [] => [v]
  | w :: ws => if v.s ≤ w.s then v :: w :: ws else w :: insertByStart v ws

/-- `sorted(variant_intervals, key=lambda x: x.start)` (stable: insertion sort from the right) -/
def sortByStart : List Var → List Var
  | [] => []
  | v :: vs => insertByStart v (sortByStart vs)

/-- adjacent pairs of the sorted list must not overlap (`has_overlap` of two non-empty single intervals) -/
def adjacentOverlap : List Var → Bool
  | [] => false
  | [_] => false
  | v :: w :: rest => overlapKernel (v.s, v.e) (w.s, w.e) || adjacentOverlap (w :: rest)

/-- `VariantIntervalCollection.__init__`: sort by start, refuse overlapping neighbours (LocationOverlapException);
    an empty list makes `min()` raise ValueError. -/
def mkColl (vs : List Var) : R (List Var) :=
  if vs.isEmpty then throw .ValueError
  else
    let sorted := sortByStart vs
    if adjacentOverlap sorted then throw .LocationOverlap else pure sorted

/-! ### alternative sequence -/

/-- `VariantInterval.alternative_genomic_sequence`:
    `ref[:start] + alt + ref[end:]` in the parent's own coordinates -/
def altSeq1 (off : Nat) (ref : Seq) (v : Var) : Seq :=
  ref.take (v.s - off) ++ v.alt ++ ref.drop (v.e - off)

/-- the loop of `VariantIntervalCollection.alternative_genomic_sequence` from variant `i` on:
    `+= alt_i; += ref[end_i : start_{i+1}]` …, `+= alt_last; += ref[end_last:]`
    (Python's `ref[a:b]` is `(ref.drop a).take (b - a)`, empty when `b ≤ a`). -/
def altTail (off : Nat) (ref : Seq) : List Var → Seq
  | [] => []
  | [v] => v.alt ++ ref.drop (v.e - off)
  | v :: w :: rest =>
    v.alt ++ (ref.drop (v.e - off)).take ((w.s - off) - (v.e - off)) ++ altTail off ref (w :: rest)

/-- `VariantIntervalCollection.alternative_genomic_sequence` on the sorted variant list -/
def altSeqN (off : Nat) (ref : Seq) : List Var → Seq
  | [] => []
  | v :: rest => ref.take (v.s - off) ++ altTail off ref (v :: rest)

/-! ### lifting a location -/

/-- `_lift_over_chromosome_location_single_interval` on one block: the GENERATED kernel.
    `none` = EmptyLocation; the only exception the kernel can raise is `SingleInterval`'s
    InvalidPositionException (`mkSI` guarantees `0 ≤ start ≤ end` on success). -/
def kernel (v : Var) (b : Blk) (st : Strand) : R (Option Blk) :=
  match Gen.VariantInterval_lift_over_chromosome_location_single_interval
          ⟨v.s, v.e, v.alt.length⟩ ⟨b.1, b.2, st⟩ with
  | .ok none => pure none
  | .ok (some si) => pure (some (si.start.toNat, si.«end».toNat))
  | .error _ => throw .InvalidPosition

/-- the `for single_interval in location.blocks` loop of `_lift_over_chromosome_location_compound_interval` -/
def liftBlocks (v : Var) (st : Strand) : List Blk → R (List Blk)
  | [] => pure []
  | b :: bs => do
    let r ← kernel v b st
    let rest ← liftBlocks v st bs
    pure (match r with
          | some x => x :: rest
          | none => rest)

/-- the tail of `_lift_over_chromosome_location_compound_interval`: nothing left ⇒ EmptyLocation, one block ⇒
    that SingleInterval, otherwise `CompoundInterval.from_single_intervals(…).optimize_blocks()` -/
def assemble (lifted : List Blk) (st : Strand) : R Location :=
  match lifted with
  | [] => pure .empty
  | [b] => pure (.single b st)
  | _ => do
    let l ← mkCompoundLoc lifted st
    optimizeLoc true l

/-- `_lift_over_chromosome_location_compound_interval` (it only reads `.blocks` / the block strands, so it also
    accepts what an earlier variant left: a SingleInterval or EmptyLocation) -/
def liftCompound (v : Var) : Location → R Location
  | .empty => pure .empty
  | .single b st => do let l ← liftBlocks v st [b]; assemble l st
  | .compound l => do let ls ← liftBlocks v l.strand l.blocks; assemble ls l.strand

/-- `_lift_over_chromosome_location_single_interval` on a location object (`.start` of EmptyLocation raises) -/
def liftSingle (v : Var) : Location → R Location
  | .single b st => do
    match ← kernel v b st with
    | some x => pure (.single x st)
    | none => pure .empty
  | .empty => throw .EmptyLocation
  | .compound l => do let ls ← liftBlocks v l.strand l.blocks; assemble ls l.strand   -- not reached by the callers

/-- `liftover_location_to_seq_chunk_parent(location, parent_with_alternative_sequence)`:
    whole chromosome: `reset_parent` (a block end beyond the new sequence ⇒ InvalidPositionException when the
    blocks are built); chunk: intersect with the new window `[cs, cs + altLen)` and make the coordinates
    chunk-relative (no overlap ⇒ EmptyLocation; the block structure is kept).  An EmptyLocation argument raises. -/
def reparent (par : Par) (altLen : Nat) : Location → R Location
  | .empty => throw .EmptyLocation
  | .single b st =>
    match par with
    | .whole => if b.2 > altLen then throw .InvalidPosition else pure (.single b st)
    | .chunk cs =>
      if altLen = 0 then throw .NullSequence      -- `if not chunk_parent.sequence` (an empty Sequence is falsy)
      else if overlapKernel b (cs, cs + altLen) then
        pure (.single (max b.1 cs - cs, min b.2 (cs + altLen) - cs) st)
      else pure .empty
  | .compound l =>
    match par with
    | .whole => if l.blocks.any (fun b => decide (b.2 > altLen)) then throw .InvalidPosition else pure (.compound l)
    | .chunk cs =>
      let kept := l.blocks.filter (fun b => overlapKernel b (cs, cs + altLen))
      if altLen = 0 then throw .NullSequence
      else if kept.isEmpty then pure .empty
      else do
        let l' ← mkCompoundLoc (kept.map fun b => (max b.1 cs - cs, min b.2 (cs + altLen) - cs)) l.strand
        pure (.compound l')

/-- the location `lift_over_location` works on: a chunk-relative location is first lifted to the chromosome,
    which normalises it (adjacent blocks merge) -/
def toChromosome (par : Par) : Location → R Location
  | .compound l =>
    match par with
    | .whole => pure (.compound l)
    | .chunk _ => optimizeLoc true l
  | loc => pure loc

/-- which text of the library a function mirrors:
    * `current`  — the code AS IT IS in /repo now;
    * `before`   — the text before the repairs of F-C13b (82ac85b) and F-C13c (c293a73); kept only so that the old
                   defects stay on record as regression facts;
    * `descending` — `current` plus the HYPOTHETICAL repair of the still open finding F-C13a (collections apply their
                   variants in descending order); used only by the witness theorems. -/
inductive Ver where
  | before | current | descending
  deriving DecidableEq, Repr

/-- does this version return an EmptyLocation as it is (instead of handing it to the chunk lift, which raises)? -/
def Ver.emptyReturn : Ver → Bool
  | .before => false
  | _ => true

/-- `VariantInterval.lift_over_location` (parent with sequence).  Since 82ac85b (`current`): a location deleted
    entirely by the variant is returned as the EmptyLocation; `before`: it was handed to
    `liftover_location_to_seq_chunk_parent`, which raised. -/
def lift1 (ver : Ver) (par : Par) (ref : Seq) (v : Var) (loc : Location) : R Location :=
  match loc with
  | .empty => pure .empty
  | _ => do
    let loc ← toChromosome par loc
    let altLen := (altSeq1 par.off ref v).length
    let e ← locEnd loc
    if v.e - v.s = v.alt.length ∨ e ≤ v.s then reparent par altLen loc
    else do
      let nl ← (match loc with
                | .single _ _ => liftSingle v loc
                | _ => liftCompound v loc)
      match ver.emptyReturn, nl with
      | true, .empty => pure .empty
      | _, _ => reparent par altLen nl

/-- the `for variant in self.variant_intervals` loops BEFORE 82ac85b: no early exit -/
def liftSeqSingle : List Var → Location → R Location
  | [], loc => pure loc
  | v :: vs, loc => do let l ← liftSingle v loc; liftSeqSingle vs l

def liftSeqCompound : List Var → Location → R Location
  | [], loc => pure loc
  | v :: vs, loc => do let l ← liftCompound v loc; liftSeqCompound vs l

/-- the loops as they are now: `if location is EmptyLocation(): break` after every step -/
def liftSeqSingleStop : List Var → Location → R Location
  | [], loc => pure loc
  | v :: vs, loc => do
    let l ← liftSingle v loc
    match l with
    | .empty => pure .empty
    | _ => liftSeqSingleStop vs l

def liftSeqCompoundStop : List Var → Location → R Location
  | [], loc => pure loc
  | v :: vs, loc => do
    let l ← liftCompound v loc
    match l with
    | .empty => pure .empty
    | _ => liftSeqCompoundStop vs l

/-- `VariantIntervalCollection.lift_over_location` (parent with sequence; `vs` sorted ascending).
    `current`: sequential application in ASCENDING order (the open finding F-C13a), leaving the loop as soon as
    nothing is left, and an EmptyLocation is returned as it is.  `before`: ascending, no early exit, the
    EmptyLocation went into the chunk lift (which raised).  `descending`: like `current` over
    `reversed(self.variant_intervals)` — the hypothetical repair of F-C13a. -/
def liftN (ver : Ver) (par : Par) (ref : Seq) (vs : List Var) (loc : Location) : R Location :=
  match loc with
  | .empty => pure .empty
  | _ => do
    let loc ← toChromosome par loc
    let altLen := (altSeqN par.off ref vs).length
    match ver with
    | .before => do
      let nl ← (match loc with
                | .single _ _ => liftSeqSingle vs loc
                | _ => liftSeqCompound vs loc)
      reparent par altLen nl
    | _ => do
      let order := if ver = .descending then vs.reverse else vs
      let nl ← (match loc with
                | .single _ _ => liftSeqSingleStop order loc
                | _ => liftSeqCompoundStop order loc)
      match nl with
      | .empty => pure .empty
      | _ => reparent par altLen nl

/-- one VariantInterval or a VariantIntervalCollection -/
inductive Variants where
  | one (v : Var)
  | many (vs : List Var)
  deriving Repr

def Variants.altSeq (par : Par) (ref : Seq) : Variants → Seq
  | .one v => altSeq1 par.off ref v
  | .many vs => altSeqN par.off ref vs

def Variants.lift (ver : Ver) (par : Par) (ref : Seq) : Variants → Location → R Location
  | .one v => lift1 ver par ref v
  | .many vs => liftN ver par ref vs

/-! ### sequence extraction (Location.extract_sequence on a parent with sequence) -/

def complement : Char → Char
  | 'A' => 'T' | 'C' => 'G' | 'G' => 'C' | 'T' => 'A'
  | 'a' => 't' | 'c' => 'g' | 'g' => 'c' | 't' => 'a'
  | c => c

def slice (s : Seq) (b : Blk) : Seq := (s.drop b.1).take (b.2 - b.1)

/-- blocks are concatenated in ascending order and the whole is reverse-complemented on the minus strand -/
def extract (s : Seq) (bs : List Blk) (st : Strand) : R Seq :=
  match st with
  | .plus => pure (bs.flatMap (slice s))
  | .minus => pure ((bs.flatMap (slice s)).reverse.map complement)
  | .unstranded => throw .InvalidStrand

/-! ### incorporate_variants -/

/-- what a constructed interval shows: strand, chromosome blocks, chunk-relative blocks, spliced sequence -/
structure Shown where
  strand : Strand
  chrom : List Blk
  rel : List Blk
  seq : Seq
  deriving DecidableEq, Repr

/-- the location of a new interval built by `from_location` / `from_chunk_relative_location` from the lifted
    location `nl` (coordinates of the new parent): chromosome blocks are the normalised lifted blocks moved back by
    the chunk start; the chunk-relative location is rebuilt from them (no overlap with the window ⇒ empty). -/
def rebuild (par : Par) (alt : Seq) (nl : Location) : R Shown := do
  let st ← locStrand nl
  match par with
  | .whole =>
    let bs := locBlocks nl
    let s ← extract alt bs st
    pure ⟨st, bs, bs, s⟩
  | .chunk cs =>
    -- lift_over_to_first_ancestor_of_type("chromosome") normalises, the constructor maps back without merging
    let norm ← (match nl with
                | .compound l => optimizeLoc true l
                | other => pure other)
    let chrom := (locBlocks norm).map fun b => (b.1 + cs, b.2 + cs)
    let rel := locBlocks norm
    let s ← extract alt rel st
    pure ⟨st, chrom, rel, s⟩

/-- `FeatureInterval.incorporate_variants` -/
def incorporateFeature (ver : Ver) (par : Par) (ref : Seq) (vs : Variants) (loc : Location) : R Shown := do
  let nl ← vs.lift ver par ref loc
  match nl with
  | .empty => throw .EmptyLocation
  | _ => rebuild par (vs.altSeq par ref) nl

/-- `CDSInterval.incorporate_variants` (location part; frames are C05's subject) -/
def incorporateCDS (ver : Ver) (par : Par) (ref : Seq) (vs : Variants) (loc : Location) : R Shown := do
  let nl ← vs.lift ver par ref loc
  match nl with
  | .empty => throw .EmptyLocation
  | _ => do
    let sh ← rebuild par (vs.altSeq par ref) nl
    if blocksLen sh.chrom = 0 then throw .InvalidCDSInterval else pure sh

/-- `TranscriptInterval.incorporate_variants`: CDS first, then the exons, then the constructor's CDS bounds check -/
def incorporateTranscript (ver : Ver) (par : Par) (ref : Seq) (vs : Variants) (exons : Location)
    (cds : Option Location) : R (Shown × Option Shown) := do
  let newCds ← (match cds with
                | some c => do let s ← incorporateCDS ver par ref vs c; pure (some s)
                | none => pure none)
  let nl ← vs.lift ver par ref exons
  match nl with
  | .empty => throw .EmptyLocation
  | _ => do
    let sh ← rebuild par (vs.altSeq par ref) nl
    match newCds with
    | none => pure (sh, none)
    | some c =>
      match sh.chrom.head?, sh.chrom.getLast?, c.chrom.head?, c.chrom.getLast? with
      | some e0, some eN, some c0, some cN =>
        if c0.1 < e0.1 then throw .InvalidCDSInterval
        else if cN.2 > eN.2 then throw .InvalidCDSInterval
        else pure (sh, some c)
      | _, _, _, _ => throw .Location

/-! ### gene/collections.py: AnnotationCollection._associate_intervals_with_variant_intervals -/

/-- a GeneInterval (its non-coding transcripts) or a FeatureIntervalCollection (its features): the leaves' strand and
    blocks, chromosome coordinates -/
structure Member where
  isGene : Bool
  leaves : List (Strand × List Blk)
  deriving Repr

/-- `(blocks[0].start, blocks[-1].end)`: `.start` / `.end` of a transcript / feature -/
def leafSpan (bs : List Blk) : Option Blk :=
  match bs.head?, bs.getLast? with
  | some a, some b => some (a.1, b.2)
  | _, _ => none

/-- `(min(x.start for x in children), max(x.end for x in children))` -/
def spanOfSpans : List Blk → Option Blk
  | [] => none
  | b :: bs =>
    match spanOfSpans bs with
    | none => some b
    | some r => some (min b.1 r.1, max b.2 r.2)

/-- the span location of a gene / feature collection -/
def memberSpan (m : Member) : Option Blk := spanOfSpans (m.leaves.filterMap fun l => leafSpan l.2)

/-- the span location of a VariantIntervalCollection -/
def hapSpan (vs : List Var) : Option Blk := spanOfSpans (vs.map fun v => (v.s, v.e))

/-- `gene_or_feature.chunk_relative_location.has_overlap(variant_collection.chunk_relative_location)`: two span
    intervals (plus strand, strands not compared) -/
def spansOverlap (a b : Option Blk) : Bool :=
  match a, b with
  | some x, some y => overlapKernel x y
  | _, _ => false

/-- `incorporate_variants` of one leaf (a non-coding transcript is the feature method on its exons) -/
def incorporateLeaf (ver : Ver) (par : Par) (ref : Seq) (vs : List Var) (isGene : Bool) (leaf : Strand × List Blk) :
    R Shown := do
  let loc ← (match leaf.2 with
             | [b] => pure (Location.single b leaf.1)
             | bs => mkCompound bs leaf.1)
  if isGene then do
    let r ← incorporateTranscript ver par ref (.many vs) loc none
    pure r.1
  else incorporateFeature ver par ref (.many vs) loc

/-- `GeneInterval.incorporate_variants` / `FeatureIntervalCollection.incorporate_variants`: every child, in order -/
def incorporateMember (ver : Ver) (par : Par) (ref : Seq) (vs : List Var) (m : Member) : R (List Shown) :=
  m.leaves.mapM (incorporateLeaf ver par ref vs m.isGene)

/-- the mapping: haplotype index ↦ incorporated members (member index, leaves), insertion-ordered like a dict -/
abbrev HapMap := List (Nat × List (Nat × List Shown))

/-- `if key not in d: d[key] = []` ; `d[key].append(x)` -/
def dictAppend (k : Nat) (x : Nat × List Shown) : HapMap → HapMap
  | [] => [(k, [x])]
  | e :: es => if e.1 = k then (k, e.2 ++ [x]) :: es else e :: dictAppend k x es

/-- `itertools.chain(self.genes, self.feature_collections)`, each member with its index in the input -/
def chainOrder (members : List Member) : List (Nat × Member) :=
  let ix := (List.range members.length).zip members
  ix.filter (fun p => p.2.isGene) ++ ix.filter (fun p => !p.2.isGene)

/-- the inner loop `for gene_or_feature in chain(...)` for haplotype `i` -/
def memberLoop (ver : Ver) (par : Par) (ref : Seq) (i : Nat) (vs : List Var) : List (Nat × Member) → HapMap → R HapMap
  | [], d => pure d
  | (j, m) :: rest, d =>
    if spansOverlap (memberSpan m) (hapSpan vs) then do
      let x ← incorporateMember ver par ref vs m
      memberLoop ver par ref i vs rest (dictAppend i (j, x) d)
    else memberLoop ver par ref i vs rest d

/-- the outer loop `for variant_collection in self.variant_collections` (the `HAS_CGRANGES is False` branch) -/
def hapLoop (ver : Ver) (par : Par) (ref : Seq) (ms : List (Nat × Member)) : Nat → List (List Var) → HapMap → R HapMap
  | _, [], d => pure d
  | i, vs :: rest, d => do
    let d' ← memberLoop ver par ref i vs ms d
    hapLoop ver par ref ms (i + 1) rest d'

/-- `alternative_haplotype_mapping` (plain branch); haplotypes are the sorted variant lists of the collections -/
def hapMapping (ver : Ver) (par : Par) (ref : Seq) (haps : List (List Var)) (members : List Member) : R HapMap :=
  hapLoop ver par ref (chainOrder members) 0 haps []

/-- the `cgranges` branch: members outermost, for each the haplotypes whose span overlaps (interval-tree query, here in
    ascending haplotype order).  cgranges is not installed in this environment: this function is NOT exercised by the
    correspondence; `Props/C13.lean` proves that it fills every bucket exactly like the plain branch. -/
def hapInner (ver : Ver) (par : Par) (ref : Seq) (j : Nat) (m : Member) : Nat → List (List Var) → HapMap → R HapMap
  | _, [], d => pure d
  | i, vs :: rest, d =>
    if spansOverlap (memberSpan m) (hapSpan vs) then do
      let x ← incorporateMember ver par ref vs m
      hapInner ver par ref j m (i + 1) rest (dictAppend i (j, x) d)
    else hapInner ver par ref j m (i + 1) rest d

def hapMappingTree (ver : Ver) (par : Par) (ref : Seq) (haps : List (List Var)) : List (Nat × Member) → HapMap → R HapMap
  | [], d => pure d
  | (j, m) :: rest, d => do
    let d' ← hapInner ver par ref j m 0 haps d
    hapMappingTree ver par ref haps rest d'

/-- the bucket of haplotype `i` (a haplotype without members has no key) -/
def bucket (d : HapMap) (i : Nat) : List (Nat × List Shown) :=
  match d.lookup i with
  | some l => l
  | none => []

/-! ### io/vcf/parser.py: convert_vcf_records_to_model -/

/-- `sample.data.PS`: attribute absent / present with value None / an int -/
inductive PS where
  | absent
  | missing
  | val (n : Int)
  deriving DecidableEq, Repr

/-- what the function reads from a record: CHROM, affected_start, affected_end, the first sample's PS,
    ALT (sequence, type) -/
structure VcfRec where
  chrom : List Char
  start : Nat
  «end» : Nat
  ps : PS
  alts : List (Seq × List Char)
  deriving DecidableEq, Repr

/-- the dict built per alternative allele (`phase` = the "phase_block" entry, `none` when the key is absent) -/
structure VarDict where
  start : Nat
  «end» : Nat
  seq : Seq
  vtype : List Char
  phase : PS
  deriving DecidableEq, Repr

structure Coll where
  id : Option (List Char)        -- variant_collection_id
  seqName : List Char
  vars : List VarDict
  deriving DecidableEq, Repr

/-- the inner loops: one dict per ALT; `start == end` ⇒ `end += 1` -/
def vcfDicts (r : VcfRec) : List VarDict :=
  r.alts.map fun a => ⟨r.start, if r.start = r.«end» then r.«end» + 1 else r.«end», a.1, a.2, r.ps⟩

/-- `if getattr(sample.data, "PS", None) is not None` (since c293a73): a missing PS value is like no PS field;
    `before`: `hasattr(sample.data, "PS")` kept the None -/
def readPS (ver : Ver) (r : VcfRec) : VcfRec :=
  if ver = .before then r else { r with ps := (match r.ps with | .missing => .absent | p => p) }

/-- `itertools.groupby(recs, key=CHROM)`: runs of consecutive records with the same CHROM -/
def groupRuns : List VcfRec → List (List Char × List VcfRec)
  | [] => []
  | r :: rs =>
    match groupRuns rs with
    | (c, g) :: rest => if c = r.chrom then (c, r :: g) :: rest else (r.chrom, [r]) :: (c, g) :: rest
    | [] => [(r.chrom, [r])]

/-- sort key `x.get("phase_block", -1)`; `none` = the key is Python's None (not comparable) -/
def sortKey (d : VarDict) : Option Int :=
  match d.phase with
  | .absent => some (-1)
  | .val n => some n
  | .missing => none

def insertByKey (d : VarDict) (k : Int) : List (Int × VarDict) → List (Int × VarDict)
  | [] => [(k, d)]
  | x :: xs => if k < x.1 then (k, d) :: x :: xs else x :: insertByKey d k xs

/-- stable sort by key (insertion from the left, after equal keys) -/
def sortByKey (ds : List (Int × VarDict)) : List (Int × VarDict) :=
  ds.foldl (fun acc x => insertByKey x.2 x.1 acc) []

/-- group key `x.get("phase_block")` -/
def groupKey (d : VarDict) : Option Int :=
  match d.phase with
  | .val n => some n
  | _ => none

/-- `itertools.groupby(sorted_variants, key=…)`: consecutive runs -/
def groupByKey : List VarDict → List (Option Int × List VarDict)
  | [] => []
  | d :: ds =>
    match groupByKey ds with
    | (k, g) :: rest => if k = groupKey d then (k, d :: g) :: rest else (groupKey d, [d]) :: (k, g) :: rest
    | [] => [(groupKey d, [d])]

/-- `str(int)` -/
def intStr (i : Int) : List Char := (toString i).toList

/-- the collections of one chromosome; `none` = Python's sort would have to compare None (TypeError: outside
    the model, which has no internal errors) -/
def vcfColls (ver : Ver) (chrom : List Char) (recs : List VcfRec) : Option (List Coll) :=
  let ds := (recs.map (readPS ver)).flatMap vcfDicts
  let keyed := ds.map fun d => (sortKey d, d)
  if ds.length ≥ 2 ∧ keyed.any (fun p => p.1.isNone) then none
  else
    let sorted : List VarDict :=
      if ds.length ≥ 2 then (sortByKey (keyed.filterMap fun p => p.1.map fun k => (k, p.2))).map (·.2) else ds
    some ((groupByKey sorted).flatMap fun g =>
      match g.1 with
      | some n => [⟨some (intStr n), chrom, g.2⟩]
      | none => g.2.map fun d => ⟨none, chrom, [d]⟩)

/-- `variants[seq_id] = grouped_variants` on an insertion-ordered dict -/
def dictSet (k : List Char) (v : List Coll) : List (List Char × List Coll) → List (List Char × List Coll)
  | [] => [(k, v)]
  | x :: xs => if x.1 = k then (k, v) :: xs else x :: dictSet k v xs

/-- `convert_vcf_records_to_model` -/
def convertVcf (ver : Ver) (recs : List VcfRec) : Option (List (List Char × List Coll)) :=
  (groupRuns recs).foldl (fun acc g =>
    match acc, vcfColls ver g.1 g.2 with
    | some d, some cs => some (dictSet g.1 cs d)
    | _, _ => none) (some [])

end BioCantor.Model.Variants
