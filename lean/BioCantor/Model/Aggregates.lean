/-
  Hand-written mirror of
    gene/interval.py      AbstractFeatureIntervalCollection._find_primary_feature
    gene/gene.py          GeneInterval.__init__ (primary, span), is_coding, get_primary_cds,
                          get_merged_transcript / get_merged_cds / _produce_merged_feature
    gene/feature.py       FeatureIntervalCollection.__init__ (types, span, primary), get_merged_feature
    gene/collections.py   AnnotationCollection.__init__ (bounds), children / iter_children, __len__, is_empty
  on parent-less objects, following the Python control flow.  `union` is `Model.unionWithSingle`
  (Model/Algebra.lean, the mirror of location_impl.py shared with C02).

  Python specifics that decide answers and are therefore explicit:
    * `if primary_feature:` — truthiness of an object with `__len__`: a zero-length child is falsy   [F-C20b]
    * `sorted(..., key=lambda x: (-x[0], -x[1]))` — stable merge sort; `[0]` of the result
    * `reduce(lambda x, y: x.union(y), intervals)` — left fold; `union` refuses unequal strands      [F-C20a]
    * `self.gene_type.name` with `gene_type=None` — AttributeError                                  [F-C19d]

  Only the vocabulary (Child, GeneAns, FcollAns, Member, AcollAns, Str) is imported from Spec.
-/
import BioCantor.Model.Algebra
import BioCantor.Model.Qualifiers
import BioCantor.Spec.Aggregates
namespace BioCantor.Model.Agg
open BioCantor BioCantor.Model
open BioCantor.Spec.Agg (Child GeneAns FcollAns Member AcollAns Str)

/-- documented exception classes plus the internal errors the shared `Err` type deliberately lacks -/
inductive AErr where
  | doc (e : Err)
  | attributeError
  | indexError
  deriving DecidableEq, Repr, Inhabited

abbrev RA := Except AErr

def liftR {α} : R α → RA α
  | .ok a => .ok a
  | .error e => .error (.doc e)

/-- `false` = the code as it is; `true` = `if primary_feature is not None:` (proposed patch for F-C20b) -/
structure Rule where
  isNotNoneTest : Bool
  deriving DecidableEq, Repr

def Rule.asCoded : Rule := ⟨false⟩
def Rule.repaired : Rule := ⟨true⟩

/-- the rule the model driver runs = /repo today; flip when the patch is applied -/
def currentRule : Rule := Rule.repaired   -- F-C20b repaired in /repo (91b82e4)

/-- `bool(interval)`: the classes define `__len__` and no `__bool__` -/
def truthyChild (c : Child) : Bool := c.len != 0

/-- `if primary_feature:` -/
def flagSet (r : Rule) : Option (Nat × Child) → Bool
  | none => false
  | some (_, c) => r.isNotNoneTest || truthyChild c

/-- the `for i, interval in enumerate(intervals)` loop of `_find_primary_feature` -/
def flagScan (r : Rule) : Option (Nat × Child) → List (Child × Nat) → RA (Option (Nat × Child))
  | cur, [] => pure cur
  | cur, (c, i) :: rest =>
    if c.primary then
      if flagSet r cur then throw (.doc .Validation)
      else flagScan r (some (i, c)) rest
    else flagScan r cur rest

/-- `key=lambda x: (-x[0], -x[1])` compared as tuples: `a` sorts no later than `b` -/
def sizeKeyLe (a b : Nat × Nat × Nat × Child) : Bool :=
  decide (a.1 > b.1) || (a.1 == b.1 && decide (a.2.1 ≥ b.2.1))

/-- `[cds_size or 0, len(interval), i]` (the child itself is carried along instead of looked up again) -/
def sizeRows (isTx : Bool) (cs : List Child) : List (Nat × Nat × Nat × Child) :=
  cs.zipIdx.map fun (c, i) => ((if isTx then c.cdsSize else 0), c.len, i, c)

/-- `_find_primary_feature`: (index, child) -/
def findPrimary (r : Rule) (isTx : Bool) (cs : List Child) : RA (Nat × Child) := do
  let flagged ← flagScan r none cs.zipIdx
  match flagged with
  | some p => pure p
  | none =>
    match (sizeRows isTx cs).mergeSort sizeKeyLe with
    | x :: _ => pure (x.2.2.1, x.2.2.2)
    | [] => throw .indexError              -- `interval_sizes[0]` on an empty list

/-- `min(...)` / `max(...)` over a non-empty generator -/
def minFrom (x : Nat) (xs : List Nat) : Nat := xs.foldl min x
def maxFrom (x : Nat) (xs : List Nat) : Nat := xs.foldl max x

/-- `GeneInterval.__init__` + `is_coding` + `get_primary_transcript` + `get_primary_cds` -/
def mkGeneWith (r : Rule) (cs : List Child) : RA GeneAns :=
  match cs with
  | [] => throw (.doc .InvalidAnnotation)
  | c :: rest => do
    let p ← findPrimary r true cs
    pure { start := minFrom c.start (rest.map Child.start)
           stop := maxFrom c.stop (rest.map Child.stop)
           coding := cs.any Child.coding
           primary := p.1
           primaryCds := p.2.cds }

def mkGene (cs : List Child) : RA GeneAns := mkGeneWith currentRule cs

/-! ### merged features -/

/-- the blocks of `chromosome_location` as SingleIntervals: one block = SingleInterval, else the sorted blocks
    of the CompoundInterval -/
def singlesOf (st : Strand) (blocks : List Blk) : List (Blk × Strand) :=
  (match blocks with
   | [b] => [b]
   | bs => sortBlocks st bs).map fun b => (b, st)

/-- `reduce(lambda x, y: x.union(y), intervals)` (parent-less SingleIntervals) -/
def mergeFold : List (Blk × Strand) → R PLoc
  | [] => throw .TypeError
  | (b, st) :: rest =>
    rest.foldlM (fun (l : PLoc) x => unionWithSingle l x.1 x.2 []) ((.single b st, []) : PLoc)

/-- `FeatureInterval(interval_starts, interval_ends, Strand.PLUS)` → `initialize_location` → blocks -/
def plusFeatureBlocks (blocks : List Blk) : R (List Blk) :=
  match blocks with
  | [b] => do let l ← mkSingle b.1 b.2 .plus; pure (locBlocks l)
  | bs => do let l ← mkCompound bs .plus; pure (locBlocks l)

/-- `_produce_merged_feature`; `hasType = false` models `gene_type is None` -/
def produceMerged (hasType : Bool) (intervals : List (Blk × Strand)) : RA (Strand × List Blk) := do
  let merged ← liftR (mergeFold intervals)
  let blocks := locBlocks merged.1
  -- `[self.gene_type.name] if self.gene_type else None` (repaired in /repo e559054): no AttributeError
  let out ← liftR (plusFeatureBlocks blocks)
  pure (.plus, out)

/-- `get_merged_transcript` (= `get_merged_feature` of a gene) -/
def mergedTranscript (hasType : Bool) (cs : List Child) : RA (Strand × List Blk) :=
  produceMerged hasType (cs.flatMap fun c => singlesOf c.strand c.blocks)

/-- the CDS blocks of one transcript as SingleIntervals (`if tx.is_coding: for i in tx.cds.chromosome_location.blocks`) -/
def cdsSingles (c : Child) : List (Blk × Strand) :=
  match c.cds with
  | some l => singlesOf c.strand l
  | none => []

/-- `get_merged_cds` -/
def mergedCds (hasType : Bool) (cs : List Child) : RA (Strand × List Blk) :=
  if (cs.flatMap cdsSingles).isEmpty then throw (.doc .NoncodingTranscript)
  else produceMerged hasType (cs.flatMap cdsSingles)

/-! ### FeatureIntervalCollection -/

/-- `set.union(*[x.feature_types ...])` kept as a duplicate-free list (`Model.Qual.setUpdate` = `set.update`);
    a Python set has no order: it is reported sorted (`Model.Qual.sortStrs`) -/
def unionTypes (cs : List Child) : List Str :=
  BioCantor.Model.Qual.sortStrs (cs.foldl (fun acc c => BioCantor.Model.Qual.setUpdate acc c.types) [])

/-- `FeatureIntervalCollection.__init__`: types, span, then the primary feature -/
def mkFcollWith (r : Rule) (cs : List Child) : RA FcollAns :=
  match cs with
  | [] => throw (.doc .InvalidAnnotation)
  | c :: rest => do
    let types := unionTypes cs
    let s := minFrom c.start (rest.map Child.start)
    let e := maxFrom c.stop (rest.map Child.stop)
    let p ← findPrimary r false cs
    pure { start := s, stop := e, primary := p.1, types := types }

def mkFcoll (cs : List Child) : RA FcollAns := mkFcollWith currentRule cs

/-- `FeatureIntervalCollection.get_merged_feature` (feature types are a set: no `.name` access) -/
def mergedFeature (cs : List Child) : RA (Strand × List Blk) :=
  produceMerged true (cs.flatMap fun c => singlesOf c.strand c.blocks)

/-! ### AnnotationCollection -/

/-- `sorted(chain(genes, feature_collections), key=lambda x: x.start)` -/
def sortMembers (ms : List Member) : List Member := ms.mergeSort fun a b => decide (a.start ≤ b.start)

/-- `AnnotationCollection.__init__` (bounds), `__len__`, `is_empty`, `iter_children`.
    `pb` = `chrom_parent.location.start/end` when `parent_or_seq_chunk_parent` has a chromosome-typed ancestor with
    a location. -/
def mkAcollP (pb : Option (Nat × Nat)) (genes fcs : List Member) (bnd : Option Nat × Option Nat) : RA AcollAns :=
  let chain := genes ++ fcs
  let len := fcs.length + genes.length
  let children := sortMembers chain
  match bnd with
  | (none, some _) => throw (.doc .InvalidAnnotation)
  | (some _, none) => throw (.doc .InvalidAnnotation)
  | (some s, some e) =>
    -- `_initialize_location(start, end)` builds `SingleInterval(start, end, Strand.PLUS)`
    if s ≤ e then
      pure { len := len, empty := len == 0, bounds := some (s, e), order := children.map fun m => (m.isGene, m.idx) }
    else throw (.doc .InvalidPosition)
  | (none, none) =>
    let bounds :=
      match pb with
      | some b => some b                               -- the chromosome parent's location decides first
      | none =>
        match children with
        | [] => none                                   -- `not self.is_empty` fails: EmptyLocation, no start/end
        | m :: rest => some (minFrom m.start (rest.map (·.start)), maxFrom m.stop (rest.map (·.stop)))
    pure { len := len, empty := len == 0, bounds := bounds, order := children.map fun m => (m.isGene, m.idx) }

def mkAcoll (genes fcs : List Member) (bnd : Option Nat × Option Nat) : RA AcollAns := mkAcollP none genes fcs bnd

/-! ### accessors of the primary member (gene/gene.py:162-197) -/

open BioCantor.Spec.Agg (AccAns)

/-- the accessors of a constructed gene whose `primary_transcript` is `(p, c)`; `seq`, `cdsSeq`, `prot` stand for
    the member methods `get_spliced_sequence`, `get_cds_sequence`, `get_protein_sequence` -/
def accessors {α : Type} (seq cdsSeq prot : Child → α) (primary : Option (Nat × Child)) : AccAns α :=
  -- `get_primary_transcript`: `return self.primary_transcript`
  let tx := primary
  -- `get_primary_cds`: `if self.get_primary_transcript() is not None: return self.primary_transcript.cds`
  let cds := match tx with | some pc => pc.2.cds | none => none
  { transcript := tx.map (·.1)
    feature := tx.map (·.1)                                           -- `get_primary_feature` = get_primary_transcript
    cds := cds
    seq := tx.map fun pc => seq pc.2                                  -- guarded by `get_primary_transcript() is not None`
    featureSeq := tx.map fun pc => seq pc.2                           -- `get_primary_feature_sequence` delegates
    cdsSeq := tx.map fun pc => cdsSeq pc.2
    protein := match tx, cds with                                     -- guarded by `get_primary_cds() is not None`
      | some pc, some _ => some (prot pc.2)
      | _, _ => none }

/-- `GeneInterval(transcripts)` followed by all accessors -/
def geneAccessors {α : Type} (seq cdsSeq prot : Child → α) (cs : List Child) : RA (AccAns α) :=
  match cs with
  | [] => throw (.doc .InvalidAnnotation)
  | _ :: _ => do
    let p ← findPrimary currentRule true cs
    pure (accessors seq cdsSeq prot (some p))

end BioCantor.Model.Agg
