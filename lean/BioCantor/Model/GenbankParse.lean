/-
  Hand-written mirror of the GenBank PARSER as pure list functions:
    inscripta/biocantor/io/genbank/parser.py
      BaseGenBankParser.validate_seqfeature, _sort_features_by_position_and_type, _group_sorted_features_by_type,
      _group_features_by_position, _group_features_by_locus_tag (through Model/Qualifiers.lean, shared with C18),
      Sorted / LocusTag / Hybrid `_extract_seqfeatures_from_seqrecords`, `_identify_locus_tag_collisions`,
      `_group_gene_features_by_locus_tag_and_position`, `_convert_seqfeature_to_gene`, `GeneFeature.add_child`,
      `from_transcript_or_cds_feature`, `infer_child`, `GeneFeature.to_gene_model`,
      `TranscriptFeature.find_exon_interval / find_transcript_interval / find_cds_interval / construct_frames /
      merge_cds_qualifiers_to_transcript / get_qualifier_from_tx_or_cds_features`, `_export_annotation_collections`
  for ONE SeqRecord.  A feature is a `Spec.Gb.Rec`; non-gene features are only counted (they become feature
  collections, which C12 does not claim).

  Reused, not re-modelled: `Model.Qual.sortByTag / groupSorted` (locus-tag grouping), `Model.intersection`
  (CDS clipping: `cds_interval.intersection(transcript span)` — it ends in `optimize_blocks()`, which merges CDS
  blocks separated by a 0-bp gap: F-C12c), `Model.mkCompoundLoc`, `Model.constructFramesFromLocation`.

  Python facts that decide answers:
    * `if not feature.location` is the truthiness of `len(location)` (a zero-length location is skipped);
      `if not feature.strand` skips strand 0 / None;
    * `sorted` is stable; tuples of booleans compare lexicographically with False < True;
    * `"mRNA" != TranscriptFeatures.CODING_TRANSCRIPT` is False (str-mixin enum);
    * `d.get(k, [None])[0]`, `d[k][0]` raise IndexError on an empty value list;
    * `int(s)` / `CDSFrame(n)` raise ValueError outside -1..2 (codon_start 0..3);
    * `tx_model in transcripts` compares whole dictionaries (qualifier value lists included).
-/
import BioCantor.Base
import BioCantor.Spec.Genbank
import BioCantor.Model.Qualifiers
import BioCantor.Model.Algebra
import BioCantor.Model.CDS
namespace BioCantor.Model.Gb
open BioCantor
open BioCantor.Spec.Qual (Str QDict Kind Feat Group)
open BioCantor.Spec.Gb (Mode Rec PTx PGene)

/-- documented refusals (`doc`; every `GenBank*Error` is reported as `Export`) and the internal errors the Python code
    can produce on malformed qualifier values -/
inductive PErr where
  | doc (e : Err)
  | indexError
  | keyError
  deriving DecidableEq, Repr, Inhabited

abbrev P := Except PErr

/-- `[f(x) for x in l]` where `f` may raise: the first error aborts -/
def mapMP {α β} (f : α → P β) : List α → P (List β)
  | [] => .ok []
  | a :: as =>
    match f a with
    | .error e => .error e
    | .ok b =>
      match mapMP f as with
      | .error e => .error e
      | .ok bs => .ok (b :: bs)

def liftR {α} : R α → P α
  | .ok a => .ok a
  | .error e => .error (.doc e)

/-! ### feature types (io/genbank/constants.py) -/

def tyGene : Str := "gene".toList
def tyMRNA : Str := "mRNA".toList
def tyCDS : Str := "CDS".toList
def tyNcRNA : Str := "ncRNA".toList
def tySource : Str := "source".toList

/-- values of `TranscriptFeatures` -/
def transcriptTypes : List Str :=
  ["mRNA".toList, "ncRNA".toList, "tRNA".toList, "rRNA".toList, "misc_RNA".toList, "tmRNA".toList]
/-- values of `NonCodingTranscriptFeatures` -/
def nonCodingTypes : List Str := ["ncRNA".toList, "tRNA".toList, "rRNA".toList, "misc_RNA".toList, "tmRNA".toList]
/-- GENBANK_GENE_FEATURES -/
def genbankGeneFeatures : List Str :=
  ["gene".toList, "mRNA".toList, "ncRNA".toList, "tRNA".toList, "rRNA".toList, "misc_RNA".toList, "tmRNA".toList,
   "CDS".toList, "exon".toList]

def isGeneT (r : Rec) : Bool := r.type == tyGene
def isTxT (r : Rec) : Bool := transcriptTypes.contains r.type
def isCdsT (r : Rec) : Bool := r.type == tyCDS

def kLocusTag : Str := "locus_tag".toList

/-- `dict.get` -/
def qGet (k : Str) : QDict → Option (List Str)
  | [] => none
  | e :: es => if e.1 = k then some e.2 else qGet k es

def hasKey (k : Str) (q : QDict) : Bool := (qGet k q).isSome

/-- `len(location)` -/
def recLen (r : Rec) : Nat := blocksLen r.parts

/-- `validate_seqfeature` -/
def validFeature (r : Rec) : Bool := recLen r != 0 && r.strand.isDirectional

/-- `location.nofuzzy_start`: the least start of the parts -/
def recStart (r : Rec) : Nat :=
  match r.parts with
  | [] => 0
  | b :: bs => bs.foldl (fun m x => min m x.1) b.1

/-! ### `_sort_features_by_position_and_type` -/

def boolLe (a b : Bool) : Bool := !a || b

/-- `(start, type != gene, type != mRNA, type != CDS)` compared as a tuple -/
def posKeyLe (a b : Rec) : Bool :=
  let ka := (recStart a, a.type != tyGene, a.type != tyMRNA, a.type != tyCDS)
  let kb := (recStart b, b.type != tyGene, b.type != tyMRNA, b.type != tyCDS)
  decide (ka.1 < kb.1) ||
  (ka.1 == kb.1 &&
    ((!ka.2.1 && kb.2.1) ||
     (ka.2.1 == kb.2.1 &&
       ((!ka.2.2.1 && kb.2.2.1) ||
        (ka.2.2.1 == kb.2.2.1 && boolLe ka.2.2.2 kb.2.2.2)))))

def sortByPositionAndType (rs : List Rec) : List Rec := rs.mergeSort posKeyLe

/-! ### `_group_sorted_features_by_type` (a generator with one pending group) -/

def groupByTypeAux : List Rec → List Rec → List (List Rec)
  | [], group => if group.isEmpty then [] else [group]
  | f :: fs, group =>
    if group.isEmpty then
      if isGeneT f then groupByTypeAux fs [f]
      else if isTxT f || isCdsT f then [f] :: groupByTypeAux fs []
      else groupByTypeAux fs []                                  -- warning, ignored
    else if isGeneT f then group :: groupByTypeAux fs [f]
    else if isTxT f then
      if f.type != tyMRNA then
        (match group.getLast? with
         | some l => if isGeneT l then groupByTypeAux fs (group ++ [f]) else group :: groupByTypeAux fs [f]
         | none => groupByTypeAux fs (group ++ [f]))
      else groupByTypeAux fs (group ++ [f])
    else if isCdsT f then
      if group.any (fun x => nonCodingTypes.contains x.type) then group :: groupByTypeAux fs [f]
      else groupByTypeAux fs (group ++ [f])
    else groupByTypeAux fs group                                  -- warning, ignored

def groupSortedByType (rs : List Rec) : List (List Rec) := groupByTypeAux rs []

/-- `GroupedGeneFeatures` -/
structure GGroup where
  gene : Option Rec
  txs : List Rec
  cdss : List Rec
  deriving DecidableEq, Repr, Inhabited

/-- "multiple transcript features and multiple CDS features: keep the first transcript" (both strategies) -/
def keepFirstTx (txs cdss : List Rec) : List Rec :=
  if txs.length > 1 && cdss.length > 1 then txs.take 1 else txs

/-- the body of the loop in `_group_features_by_position` -/
def classifyGroup (g : List Rec) : GGroup :=
  let genes := g.filter isGeneT
  let txs := g.filter fun r => !isGeneT r && isTxT r
  let cdss := g.filter fun r => !isGeneT r && !isTxT r && isCdsT r
  ⟨genes.head?, keepFirstTx txs cdss, cdss⟩

def groupByPosition (rs : List Rec) : List GGroup := (groupSortedByType rs).map classifyGroup

/-! ### locus-tag grouping

  Record-level mirror of `sorted(features, key=locus_tag)`, `itertools.groupby`, and the loop of
  `_group_features_by_locus_tag` — the same algorithm as `Model.Qual.sortByTag / groupRuns / scanRun /
  processRun` (C18), on `(tag, record)` pairs instead of `(tag, kind, uid)` triples, so that statements about
  records need no index bookkeeping.  The C18 functions are kept as the second implementation
  (`groupByLocusTagViaC18`); the model driver answers with the record-level result only when both agree. -/

def kindOf (r : Rec) : Kind :=
  if r.type == tyGene then .gene else if isTxT r then .transcript else if isCdsT r then .cds else .other

/-- `f.qualifiers["locus_tag"][0]` -/
def tagOf (r : Rec) : P Str :=
  match qGet kLocusTag r.quals with
  | none => throw .keyError
  | some [] => throw .indexError
  | some (t :: _) => pure t

abbrev TRec := Str × Rec

def tagPairs : List Rec → P (List TRec)
  | [] => pure []
  | r :: rs => do
    let t ← tagOf r
    let rest ← tagPairs rs
    pure ((t, r) :: rest)

/-- `sorted(features, key=lambda f: f.qualifiers["locus_tag"])` (one-element lists compare as their strings) -/
def sortPairsByTag (ps : List TRec) : List TRec := ps.mergeSort fun a b => Spec.Qual.strLe a.1 b.1

/-- `itertools.groupby(features, key=tag)`: maximal runs of consecutive equal keys -/
def groupRunsRec : List TRec → List (Str × List Rec)
  | [] => []
  | p :: ps =>
    match groupRunsRec ps with
    | (t, g) :: rest => if t = p.1 then (t, p.2 :: g) :: rest else (p.1, [p.2]) :: (t, g) :: rest
    | [] => [(p.1, [p.2])]

/-- the inner `for feature in gene_features` loop -/
def scanRunRec : Option Rec → List Rec → List Rec → List Rec → P (Option Rec × List Rec × List Rec)
  | g, ts, cs, [] => pure (g, ts, cs)
  | g, ts, cs, f :: fs =>
    match kindOf f with
    | .gene => if g.isSome then throw (.doc .Export) else scanRunRec (some f) ts cs fs      -- GenBankLocusTagError
    | .transcript => scanRunRec g (ts ++ [f]) cs fs
    | .cds => scanRunRec g ts (cs ++ [f]) fs
    | .other => scanRunRec g ts cs fs

def processRunRec (run : Str × List Rec) : P GGroup := do
  let (g, ts, cs) ← scanRunRec none [] [] run.2
  pure ⟨g, keepFirstTx ts cs, cs⟩

/-- `gene_feature is None and not transcript_features and not cds_features`: only features of unknown types carry
    the tag -/
def emptyGroup (g : GGroup) : Bool := g.gene.isNone && g.txs.isEmpty && g.cdss.isEmpty

/-- the outer loop; since 48a0909 a tag carried only by features of unknown type (`exon`, …) is skipped
    (`continue`) instead of producing a group that later fails with IndexError -/
def processRunsRec : List (Str × List Rec) → P (List GGroup)
  | [] => pure []
  | r :: rs => do
    let g ← processRunRec r
    let gs ← processRunsRec rs
    pure (if emptyGroup g then gs else g :: gs)

/-- `_group_features_by_locus_tag` on features in the order given -/
def groupTagOrdered (ps : List TRec) : P (List GGroup) := processRunsRec (groupRunsRec ps)

/-- LocusTag mode: the sort + the grouping -/
def groupByLocusTagRecs (rs : List Rec) : P (List GGroup) := do
  let ps ← tagPairs rs
  groupTagOrdered (sortPairsByTag ps)

/-! the same through C18's model (`uid` = position in the list) -/

def toFeats : Nat → List Rec → P (List Feat)
  | _, [] => pure []
  | i, r :: rs => do
    let t ← tagOf r
    let rest ← toFeats (i + 1) rs
    pure (⟨t, kindOf r, i⟩ :: rest)

def liftQ {α} : Qual.R α → P α
  | .ok a => .ok a
  | .error .keyError => .error .keyError
  | .error .indexError => .error .indexError
  | .error .locusTag => .error (.doc .Export)      -- GenBankLocusTagError

def pick (rs : List Rec) (ids : List Nat) : List Rec := ids.filterMap fun i => rs[i]?

def groupOfTagGroup (rs : List Rec) (g : Group) : GGroup :=
  ⟨g.gene.bind fun i => rs[i]?, pick rs g.transcripts, pick rs g.cdss⟩

def groupByLocusTagViaC18 (rs : List Rec) : P (List GGroup) := do
  let fs ← toFeats 0 rs
  let gs ← liftQ (Qual.groupByLocusTag fs)
  -- the skip of 48a0909, applied to C18's groups
  pure ((gs.map (groupOfTagGroup rs)).filter fun g => !emptyGroup g)

/-! ### the three `_extract_seqfeatures_from_seqrecords` + grouping -/

structure Extracted where
  groups : List GGroup
  /-- number of features that go to `_parse_features` (feature collections) -/
  remaining : Nat
  deriving Repr

def isGeneLike (r : Rec) : Bool := genbankGeneFeatures.contains r.type

def extractSorted (rs : List Rec) : Extracted :=
  let valid := rs.filter validFeature
  let genes := valid.filter isGeneLike
  let rest := valid.filter fun r => !isGeneLike r && r.type != tySource
  ⟨groupByPosition (sortByPositionAndType genes), rest.length⟩

def extractLocusTag (rs : List Rec) : P Extracted := do
  let valid := rs.filter validFeature
  let genes := valid.filter fun r => isGeneLike r && hasKey kLocusTag r.quals
  let rest := valid.filter fun r => !(isGeneLike r && hasKey kLocusTag r.quals) && r.type != tySource
  let gs ← groupByLocusTagRecs genes
  pure ⟨gs, rest.length⟩

/-- tags carried by more than one `gene` feature (`_identify_locus_tag_collisions`) -/
def badTags (tagged : List (Str × Rec)) : List Str :=
  (tagged.filter fun p => p.2.type == tyGene &&
      (tagged.filter fun q => q.1 = p.1 && q.2.type == tyGene).length > 1).map (·.1)

def extractHybrid (rs : List Rec) : P Extracted := do
  let valid := rs.filter validFeature
  let tagged := valid.filter fun r => isGeneLike r && hasKey kLocusTag r.quals
  let untagged := valid.filter fun r => isGeneLike r && !hasKey kLocusTag r.quals
  let rest := valid.filter fun r => !isGeneLike r && r.type != tySource
  let ps ← tagPairs tagged
  let withTags := sortPairsByTag ps
  let bad := badTags withTags
  let good := withTags.filter fun p => !bad.contains p.1
  let badFs := (withTags.filter fun p => bad.contains p.1).map (·.2)
  let byPos := groupByPosition (sortByPositionAndType (untagged ++ badFs))
  let byTag ← groupTagOrdered good
  pure ⟨byPos ++ byTag, rest.length⟩

def extract (m : Mode) (rs : List Rec) : P Extracted :=
  match m with
  | .sorted => pure (extractSorted rs)
  | .locusTag => extractLocusTag rs
  | .hybrid => extractHybrid rs

/-! ### `_convert_seqfeature_to_gene` -/

/-- a `TranscriptFeature`: the (possibly inferred) transcript record and its CDS record -/
structure Child where
  tx : Rec
  cds : Option Rec
  deriving DecidableEq, Repr, Inhabited

structure GeneF where
  gene : Rec
  children : List Child
  deriving DecidableEq, Repr, Inhabited

/-- `GeneFeature.add_child(feature, cds_feature)` -/
def addChild (f : Rec) (cds : Option Rec) : P Child :=
  if isTxT f then pure ⟨f, cds⟩
  else if isCdsT f then pure ⟨{ f with type := tyMRNA }, some f⟩
  else throw (.doc .Export)                                   -- GenBankParserError

def convertGroup (g : GGroup) : P GeneF := do
  -- gene feature, inferred when absent (`from_transcript_or_cds_feature` adds the feature as a first child)
  let (gene, first) ← (match g.gene with
    | some r => pure (r, ([] : List Child))
    | none =>
      match g.txs with
      | t :: _ => do let c ← addChild t none; pure (t, [c])
      | [] =>
        match g.cdss with
        | c :: _ => do let ch ← addChild c none; pure (c, [ch])
        | [] => throw .indexError)                              -- `cds_features[0]` on an empty list
  let more ← (match g.txs, g.cdss with
    | t :: _, _ :: _ => mapMP (fun c => addChild t (some c)) g.cdss
    | _ :: _, [] => mapMP (fun t => addChild t none) g.txs
    | [], _ => mapMP (fun c => addChild c none) g.cdss)
  let children := first ++ more
  if children.isEmpty then
    pure ⟨gene, [⟨{ gene with type := tyNcRNA }, none⟩]⟩      -- infer_child
  else pure ⟨gene, children⟩

/-! ### `GeneFeature.to_gene_model` -/

/-- `sorted(parts, key=start)` then the `CompoundInterval` constructor (which sorts by its own finer key) -/
def exonInterval (r : Rec) : P Loc := liftR (mkCompoundLoc r.parts r.strand)

/-- `find_transcript_interval`: `SingleInterval(blocks[0].start, blocks[-1].end, strand)` -/
def transcriptSpan (l : Loc) : P Blk :=
  match l.blocks.head?, l.blocks.getLast? with
  | some a, some b => if a.1 ≤ b.2 then pure (a.1, b.2) else throw (.doc .InvalidPosition)
  | _, _ => throw (.doc .Location)

def sortPartsByStart (bs : List Blk) : List Blk := bs.mergeSort fun a b => decide (a.1 ≤ b.1)

/-- which variant of `find_cds_interval` is modelled -/
structure ParserRule where
  /-- clip every CDS block to the transcript bounds and keep the blocks as written (proposed patch for F-C12c)
      instead of `cds_interval.intersection(span)`, which ends in `optimize_blocks()` -/
  clipsBlockwise : Bool
  deriving DecidableEq, Repr

/-- the code in /repo today: flip when the patch is applied -/
def currentParserClipsBlockwise : Bool := false
def currentParserRule : ParserRule := ⟨currentParserClipsBlockwise⟩
def ParserRule.repaired : ParserRule := ⟨true⟩

/-- block-wise clip: `(max(s, lo), min(e, hi))`, empty results dropped -/
def clipBlocks (span : Blk) (parts : List Blk) : List Blk :=
  (parts.map fun b => (max b.1 span.1, min b.2 span.2)).filter fun b => decide (b.1 < b.2)

/-- `find_cds_interval`: `none` = EmptyLocation -/
def cdsInterval (rule : ParserRule) (c : Child) : P (Option Loc) :=
  match c.cds with
  | none => pure none
  | some cr => do
    let ex ← exonInterval c.tx
    let span ← transcriptSpan ex
    let parts := sortPartsByStart cr.parts
    if rule.clipsBlockwise then
      let clipped := clipBlocks span parts
      if clipped.isEmpty then pure none
      else do
        let l ← liftR (mkCompoundLoc clipped c.tx.strand)
        pure (some l)
    else do
      let cdsLoc ← (match parts with
        | [b] => liftR (mkSingle b.1 b.2 c.tx.strand)
        | _ => liftR (mkCompound parts c.tx.strand))
      let r ← liftR (intersection cdsLoc (.single span c.tx.strand) true false)
      match r with
      | .empty => pure none
      | .single b st => pure (some ⟨[b], st⟩)
      | .compound l => pure (some l)

def kCodonStart : Str := "codon_start".toList

/-- `int(s)` for the strings the format allows -/
def pyInt (s : Str) : P Int :=
  match s with
  | '-' :: d => match Spec.Gb.decNat? d with | some n => pure (-(n : Int)) | none => throw (.doc .ValueError)
  | _ => match Spec.Gb.decNat? s with | some n => pure (n : Int) | none => throw (.doc .ValueError)

/-- `CDSFrame.from_int` -/
def frameOfInt (n : Int) : P CDSFrame :=
  if n = -1 then pure .NONE else if n = 0 then pure .ZERO else if n = 1 then pure .ONE
  else if n = 2 then pure .TWO else throw (.doc .ValueError)

/-- `construct_frames`; since 95ca288 a malformed `/codon_start` (`int()` ValueError, empty value list) is reported as
    GenBankParserError; a well-formed integer outside 0..3 still ends in `CDSFrame(...)`'s ValueError -/
def constructFrames (cds : Rec) (l : Loc) : P (List CDSFrame) := do
  let n ← (match qGet kCodonStart cds.quals with
    | none => pure (1 : Int)
    | some [] => throw (.doc .Export)
    | some (v :: _) =>
      match pyInt v with
      | .ok n => pure n
      | .error _ => throw (.doc .Export))
  let f ← frameOfInt (n - 1)
  liftR (constructFramesFromLocation (.compound l) f)

/-- `merge_cds_qualifiers_to_transcript` (values as sets, reported sorted) -/
def setAddP (vs : List Str) (v : Str) : List Str := if vs.contains v then vs else vs ++ [v]
def setOfP (vs : List Str) : List Str := vs.foldl setAddP []

def mergeInto : QDict → Str → List Str → QDict
  | [], k, vs => [(k, setOfP vs)]
  | e :: es, k, vs => if e.1 = k then (e.1, vs.foldl setAddP e.2) :: es else e :: mergeInto es k vs

def mergeCdsQualifiers (c : Child) : QDict :=
  let base : QDict := c.tx.quals.map fun e => (e.1, setOfP e.2)
  let merged : QDict := match c.cds with
    | none => base
    | some cr => cr.quals.foldl (fun (acc : QDict) (e : Str × List Str) => mergeInto acc e.1 e.2) base
  merged.map fun e => (e.1, Qual.sortStrs e.2)

/-- `get_qualifier_from_tx_or_cds_features` -/
def qualFromTxOrCds (c : Child) (k : Str) : P (Option Str) :=
  match qGet k c.tx.quals with
  | some (v :: _) => pure (some v)
  | some [] => throw .indexError
  | none =>
    match c.cds with
    | none => pure none
    | some cr =>
      match qGet k cr.quals with
      | some (v :: _) => pure (some v)
      | some [] => throw .indexError
      | none => pure none

def sPseudogene : Str := "pseudogene".toList
def sProteinCoding : Str := "protein_coding".toList

/-- one iteration of `for tx in cls.children` -/
def txModel (rule : ParserRule) (c : Child) : P PTx := do
  let ex ← exonInterval c.tx
  let cds ← cdsInterval rule c
  let (cdsBlocks, frames) ← (match cds, c.cds with
    | some l, some cr => do let fs ← constructFrames cr l; pure (l.blocks, fs)
    | _, _ => pure (([] : List Blk), ([] : List CDSFrame)))
  let biotype : Str :=
    if hasKey "pseudo".toList c.tx.quals then sPseudogene
    else if c.tx.type == tyMRNA then sProteinCoding else c.tx.type
  let txId ← qualFromTxOrCds c "transcript_id".toList
  let protId ← qualFromTxOrCds c "protein_id".toList
  let product ← qualFromTxOrCds c "product".toList
  let sym ← qualFromTxOrCds c "gene".toList
  pure { strand := c.tx.strand, exons := ex.blocks, cds := cdsBlocks, frames := frames, txId := txId,
         txSymbol := sym, proteinId := protId, product := product, txType := biotype,
         quals := mergeCdsQualifiers c }

def dedup : List PTx → List PTx → List PTx
  | [], acc => acc
  | t :: ts, acc => if acc.contains t then dedup ts acc else dedup ts (acc ++ [t])

/-- `min(tx_biotypes, key=lambda b: (-count, b.name))` -/
def geneBiotype (types : List Str) : Option Str :=
  match types with
  | [] => none
  | t :: ts => some (ts.foldl (fun best x =>
      let cb := types.count best
      let cx := types.count x
      if cx > cb || (cx == cb && Spec.Qual.strLt x best) then x else best) t)

/-- `quals.get(k, [None])[0]` -/
def firstOf (k : Str) (q : QDict) : P (Option Str) :=
  match qGet k q with
  | none => pure none
  | some [] => throw .indexError
  | some (v :: _) => pure (some v)

def toGeneModel (rule : ParserRule) (gf : GeneF) : P PGene := do
  let all ← mapMP (txModel rule) gf.children
  let txs := dedup all []
  let ty ← (match geneBiotype (all.map (·.txType)) with
    | some t => pure t
    | none => throw (.doc .ValueError))           -- `min` of an empty Counter; a gene always has a child
  let gid ← firstOf "gene_id".toList gf.gene.quals
  let sym ← firstOf "gene".toList gf.gene.quals
  let tag ← firstOf "locus_tag".toList gf.gene.quals
  pure { geneId := gid, geneSymbol := sym, locusTag := tag, geneType := ty, txs := txs }

/-! ### the whole parse of one record -/

def sortGenesByStart (gs : List GeneF) : List GeneF := gs.mergeSort fun a b => decide (recStart a.gene ≤ recStart b.gene)

/-- `parser.parse()` restricted to the gene models of one record -/
def parseModelWith (rule : ParserRule) (m : Mode) (rs : List Rec) : P (List PGene) := do
  let ex ← extract m rs
  let genes ← mapMP convertGroup ex.groups
  if genes.isEmpty && ex.remaining == 0 then throw (.doc .Export)      -- EmptyGenBankError
  else mapMP (toGeneModel rule) (sortGenesByStart genes)

/-- the parser as it is in /repo today -/
def parseModel (m : Mode) (rs : List Rec) : P (List PGene) := parseModelWith currentParserRule m rs

end BioCantor.Model.Gb
