/-
  `Location.location_relative_to(other)` / `parent_to_relative_location` for ANY `other`
  (location.py 17-52; SingleInterval._location_relative_to 398-408; CompoundInterval._location_relative_to 992-1006),
  parent-less operands.
-/
import BioCantor.Model.Location
namespace BioCantor.Model
open BioCantor

/-- `other.intersection(self_block, match_strand=False)` is only used through `.start` and `.end`:
    the smallest start and largest end among the clipped pieces of `other`'s blocks overlapping `b`. -/
def clipSpan (otherBlocks : List Blk) (b : Blk) : Option (Nat × Nat) :=
  let pieces := (otherBlocks.filter (fun o => overlapKernel o b)).map (fun o => (max o.1 b.1, min o.2 b.2))
  match pieces with
  | [] => none
  | p :: ps => some (ps.foldl (fun acc q => (min acc.1 q.1, max acc.2 q.2)) p)

/-- `SingleInterval._location_relative_to(other)` -/
def singleRelativeTo (b : Blk) (st : Strand) (other : Location) : R Location := do
  match clipSpan (locBlocks other) b with
  | none => throw .LocationOverlap
  | some (is, ie) => do
    let r1 ← p2r other is
    let r2 ← p2r other ((ie : Int) - 1)
    let ost ← locStrand other
    mkSingle (min r1 r2) (max r1 r2 + 1) (strandRelativeTo st ost)

/-- does `a` overlap `b` (parent-less, match_strand = False, full_span = False) -/
def anyOverlap (a b : List Blk) : Bool := a.any (fun x => b.any (fun y => overlapKernel x y))

/-- `Location.location_relative_to(other, optimize_blocks)` -/
def locationRelativeTo (self other : Location) (optimize : Bool) : R Location :=
  match self, other with
  | .empty, _ => pure .empty                       -- _EmptyLocation.location_relative_to returns self
  | _, .empty => pure .empty                       -- `if other.is_empty: return other`
  | .single b st, o =>
      if ¬ anyOverlap [b] (locBlocks o) then throw .LocationOverlap
      else singleRelativeTo b st o
  | .compound l, o =>
      if ¬ anyOverlap l.blocks (locBlocks o) then throw .LocationOverlap
      else do
        let hits := l.blocks.filter (fun b => anyOverlap (locBlocks o) [b])
        let rec go : List Blk → R (List Blk)
          | [] => pure []
          | b :: bs => do
            let x ← singleRelativeTo b l.strand o
            let xs ← go bs
            pure (locBlocks x ++ xs)
        let rel ← go hits
        let ost ← locStrand o
        let c ← mkCompoundLoc rel (strandRelativeTo l.strand ost)
        if optimize then optimizeLoc true c else pure (.compound c)

end BioCantor.Model
