/-
  Hand-written mirror of inscripta/biocantor/location/location_impl.py (and the few methods of
  location.py) on parent-less locations.  Every function follows the control flow of the Python
  method named in its doc comment; `raise X` is `throw Err.X`.

  The tie to the source is checked on every run by the correspondence harness
  (harness/corr.py drives `Driver.lean` and the real library with the same operation lines).
-/
import BioCantor.Base
namespace BioCantor.Model
open BioCantor

abbrev R := Except Err

/-! ### Strand (strand.py) -/

/-- `Strand.reverse` -/
def strandReverse : Strand → Strand
  | .plus => .minus
  | .minus => .plus
  | .unstranded => .unstranded

/-- `Strand.relative_to` -/
def strandRelativeTo (a b : Strand) : Strand :=
  if a = .unstranded ∨ b = .unstranded then .unstranded
  else if a = b then .plus else .minus

/-- `Strand.assert_directional` -/
def assertDirectional (s : Strand) : R Unit :=
  if s = .plus ∨ s = .minus then pure () else throw .InvalidStrand

/-! ### Constructors -/

/-- `SingleInterval.__init__` (parent-less): `0 <= start <= end`. -/
def mkSingle (s e : Int) (st : Strand) : R Location :=
  if 0 ≤ s ∧ s ≤ e then pure (.single (s.toNat, e.toNat) st) else throw .InvalidPosition

/-- `CompoundInterval.__init__` (parent-less): non-empty, sorted by the strand's key, each start ≤ end. -/
def mkCompoundLoc (bs : List Blk) (st : Strand) : R Loc :=
  if bs.isEmpty then throw .Location
  else
    let sorted := sortBlocks st bs
    if blocksValid sorted then pure ⟨sorted, st⟩ else throw .InvalidPosition

def mkCompound (bs : List Blk) (st : Strand) : R Location := do
  let l ← mkCompoundLoc bs st
  pure (.compound l)

/-! ### Accessors shared by the three Python types -/

def locBlocks : Location → List Blk
  | .single b _ => [b]
  | .compound l => l.blocks
  | .empty => []

/-- `len(location)` -/
def locLen : Location → Nat
  | .single b _ => b.len
  | .compound l => l.len
  | .empty => 0

/-- `.strand` (raises on EmptyLocation) -/
def locStrand : Location → R Strand
  | .single _ s => pure s
  | .compound l => pure l.strand
  | .empty => throw .EmptyLocation

/-- `.start` : first block's start -/
def locStart : Location → R Nat
  | .single b _ => pure b.1
  | .compound l => match l.blocks.head? with
      | some b => pure b.1
      | none => throw .Location
  | .empty => throw .EmptyLocation

/-- `max(self._ends)` -/
def maxEnd : List Blk → Nat
  | [] => 0
  | b :: bs => max b.2 (maxEnd bs)

/-- `.end` : `max(self._ends)` -/
def locEnd : Location → R Nat
  | .single b _ => pure b.2
  | .compound l => if l.blocks.isEmpty then throw .Location else pure (maxEnd l.blocks)
  | .empty => throw .EmptyLocation

/-- `scan_blocks` of a CompoundInterval: strand order. -/
def scanBlocks (l : Loc) : R (List Blk) := do
  assertDirectional l.strand
  pure (if l.strand = .plus then l.blocks else l.blocks.reverse)

/-! ### Point maps (C01) -/

/-- `SingleInterval.parent_to_relative_pos` -/
def singleP2R (b : Blk) (st : Strand) (p : Int) : R Int :=
  if p < b.1 ∨ p ≥ b.2 then throw .InvalidPosition
  else if st = .plus then pure (p - b.1)
  else if st = .minus then pure (b.2 - p - 1)
  else throw .InvalidStrand

/-- `SingleInterval.relative_to_parent_pos` -/
def singleR2P (b : Blk) (st : Strand) (r : Int) : R Int :=
  if r < 0 ∨ r ≥ b.len then throw .ValueError
  else if st = .plus then pure (b.1 + r)
  else if st = .minus then pure (b.2 - r - 1)
  else throw .InvalidStrand

/-- loop of `CompoundInterval.parent_to_relative_pos` over blocks in strand order
    (the blocks are directional here, so the inner call can only raise InvalidPosition). -/
def p2rWalk (st : Strand) (p : Int) : List Blk → Int → R Int
  | [], _ => throw .InvalidPosition
  | b :: bs, acc =>
    match singleP2R b st p with
    | .ok r => pure (acc + r)
    | .error _ => p2rWalk st p bs (acc + b.len)

/-- `do_work` of `CompoundInterval.relative_to_parent_pos` (one recursive call per block). -/
def r2pWalk (plusStrand : Bool) : List Blk → Nat → Option Nat
  | [], _ => none
  | b :: bs, r =>
    if r < b.len then some (if plusStrand then b.1 + r else b.2 - 1 - r)
    else r2pWalk plusStrand bs (r - b.len)

def compoundP2R (l : Loc) (p : Int) : R Int := do
  let bs ← scanBlocks l
  p2rWalk l.strand p bs 0

def compoundR2P (l : Loc) (r : Int) : R Int := do
  assertDirectional l.strand
  if ¬ (0 ≤ r ∧ r < l.len) then throw .InvalidPosition
  let bs := if l.strand = .minus then l.blocks.reverse else l.blocks
  match r2pWalk (l.strand != .minus) bs r.toNat with
  | some p => pure p
  | none => throw .InvalidPosition   -- unreachable when 0 ≤ r < len (proved: r2pWalk_isSome)

/-- `parent_to_relative_pos` on any location -/
def p2r : Location → Int → R Int
  | .single b st, p => singleP2R b st p
  | .compound l, p => compoundP2R l p
  | .empty, _ => throw .EmptyLocation

/-- `relative_to_parent_pos` on any location -/
def r2p : Location → Int → R Int
  | .single b st, r => singleR2P b st r
  | .compound l, r => compoundR2P l r
  | .empty, _ => throw .EmptyLocation

/-! ### Block normalisation -/

/-- `_combine_blocks`: returns `none` when nothing needed combining (Python returns `self`),
    otherwise the new block list (possibly empty ⇒ EmptyLocation). -/
def combineLoop (preserve : Bool) : List Blk → Option Nat → List Blk → Bool → List Blk × Bool
  -- args: remaining blocks, curr_end (None before the first kept block), accumulated (reversed), needs
  | [], _, acc, needs => (acc.reverse, needs)
  | b :: bs, cur, acc, needs =>
    if b.2 - b.1 = 0 then combineLoop preserve bs cur acc true
    else match cur, acc with
      | some ce, last :: accTail =>
        let combine := if preserve then ce = b.1 else ce ≥ b.1
        if combine then combineLoop preserve bs (some (max ce b.2)) ((last.1, max ce b.2) :: accTail) true
        else combineLoop preserve bs (some b.2) (b :: acc) needs
      | _, _ => combineLoop preserve bs (some b.2) (b :: acc) needs

/-- `_to_single_interval_if_one_block` -/
def toSingleIfOne (l : Loc) : Location :=
  match l.blocks with
  | [b] => .single b l.strand
  | _ => .compound l

/-- `_combine_blocks` followed by the `is_empty` / one-block conversion of `optimize_blocks`
    (`preserve = true`) and `optimize_and_combine_blocks` (`preserve = false`). -/
def optimizeLoc (preserve : Bool) (l : Loc) : R Location :=
  let (nb, needs) := combineLoop preserve l.blocks none [] false
  if ¬ needs then pure (toSingleIfOne l)
  else if nb.isEmpty then pure .empty
  else do
    let l' ← mkCompoundLoc nb l.strand
    pure (toSingleIfOne l')

/-- `optimize_blocks` on any location -/
def optimizeBlocks : Location → R Location
  | .single b st => if b.len = 0 then pure .empty else pure (.single b st)
  | .compound l => optimizeLoc true l
  | .empty => pure .empty

/-- `optimize_and_combine_blocks` (CompoundInterval only; SingleInterval has no such method) -/
def optimizeAndCombine : Location → R Location
  | .compound l => optimizeLoc false l
  | _ => throw .UnsupportedOperation

/-- `reset_strand` -/
def resetStrand : Location → Strand → R Location
  | .single b _, ns => pure (.single b ns)
  | .compound l, ns => mkCompound l.blocks ns
  | .empty, _ => throw .EmptyLocation

/-! ### Relative interval → parent location (C01) -/

/-- `SingleInterval.relative_interval_to_parent_location` -/
def singleRelInterval (b : Blk) (st : Strand) (rs re : Int) (rst : Strand) : R Location :=
  if ¬ (0 ≤ rs ∧ rs ≤ re ∧ re ≤ b.len) then throw .ValueError
  else if st = .plus then mkSingle (b.1 + rs) (b.1 + re) (strandRelativeTo st rst)
  else if st = .minus then mkSingle (b.2 - re) (b.2 - rs) (strandRelativeTo st rst)
  else throw .InvalidStrand

/-- the `for block in self.scan_blocks()` loop of `CompoundInterval.relative_interval_to_parent_location`;
    `tillStart`/`tillEnd` are `remaining_len_till_start`/`remaining_len_till_end`.  Sub-blocks are
    computed on the block's own strand with relative strand PLUS. -/
def relWalk (st : Strand) : List Blk → Nat → Nat → List Blk
  | [], _, _ => []
  | b :: bs, tillStart, tillEnd =>
    if b.len ≤ tillStart then relWalk st bs (tillStart - b.len) tillEnd
    else
      let subS := tillStart
      let subE := min b.len (tillStart + tillEnd)
      let sub : Blk := if st = .plus then (b.1 + subS, b.1 + subE) else (b.2 - subE, b.2 - subS)
      let tillEnd' : Int := (tillEnd : Int) - ((subE - subS : Nat) : Int)
      if tillEnd' < 1 then [sub] else sub :: relWalk st bs 0 tillEnd'.toNat

/-- `CompoundInterval.relative_interval_to_parent_location` -/
def compoundRelInterval (l : Loc) (rs re : Int) (rst : Strand) : R Location :=
  if rs > re then throw .InvalidPosition
  else if rs < 0 then throw .InvalidPosition
  else if re > l.len then throw .InvalidPosition
  else if rs = re then do
    let p ← (if 0 < rs ∧ rs = l.len then do
               let last ← compoundR2P l (rs - 1)
               pure (if l.strand = .plus then last + 1 else last)
             else compoundR2P l rs)
    mkSingle p p (strandRelativeTo rst l.strand)
  else do
    let bs ← scanBlocks l
    let newBlocks := relWalk l.strand bs rs.toNat (re - rs).toNat
    let newStrand := strandRelativeTo rst l.strand
    let c ← mkCompoundLoc newBlocks l.strand
    let opt ← optimizeLoc true c
    if newStrand ≠ l.strand then resetStrand opt newStrand else pure opt

/-- `relative_interval_to_parent_location` on any location -/
def relInterval : Location → Int → Int → Strand → R Location
  | .single b st, rs, re, rst => singleRelInterval b st rs re rst
  | .compound l, rs, re, rst => compoundRelInterval l rs re rst
  | .empty, _, _, _ => throw .EmptyLocation

/-! ### Overlap / intersection (parent-less; the parent gates are in Model/Parent.lean) -/

/-- `_has_overlap_single_interval` -/
def overlapKernel (a b : Blk) : Bool :=
  if a.len = 0 ∨ b.len = 0 then false
  else if b.1 ≤ a.1 ∧ a.1 < b.2 then true
  else if b.1 < a.2 ∧ a.2 ≤ b.2 then true
  else if a.1 ≤ b.1 ∧ b.1 < a.2 then true
  else if a.1 < b.2 ∧ b.2 ≤ a.2 then true
  else false

/-- `_full_span_interval` of a compound: `SingleInterval(self.start, self.end, ...)`. -/
def fullSpan (l : Loc) : R Blk :=
  match l.blocks.head? with
  | some f => if f.1 ≤ maxEnd l.blocks then pure (f.1, maxEnd l.blocks) else throw .InvalidPosition
  | none => throw .Location

/-- `SingleInterval.has_overlap` / `CompoundInterval.has_overlap` / `_EmptyLocation.has_overlap`
    for parent-less operands. -/
def hasOverlap (a b : Location) (matchStrand fullSpanFlag : Bool) : R Bool :=
  match a, b with
  | .empty, _ => pure false
  | .single ba sa, .single bb sb =>
      if matchStrand ∧ sa ≠ sb then pure false else pure (overlapKernel ba bb)
  | .single _ _, .empty =>
      -- `if other.is_empty: return False` (repair d8ea142) comes before the strand test
      pure false
  | .single ba sa, .compound lb =>
      if matchStrand ∧ sa ≠ lb.strand then pure false
      else if fullSpanFlag then do
        let fb ← fullSpan lb
        -- other.has_overlap(self, ms, True) → other._full_span_interval.has_overlap(self)
        pure (overlapKernel fb ba)
      else
        -- any(block.has_overlap(self)) ; strands equal or ignored already
        pure (lb.blocks.any (fun bb => overlapKernel bb ba))
  | .compound la, .empty =>
      -- every path ends in SingleInterval.has_overlap(EmptyLocation) = False (repair d8ea142);
      -- the full-span form still constructs the span first
      if fullSpanFlag then do
        let _ ← fullSpan la
        pure false
      else pure false
  | .compound la, .single bb sb =>
      if fullSpanFlag then do
        let fa ← fullSpan la
        if matchStrand ∧ la.strand ≠ sb then pure false else pure (overlapKernel fa bb)
      else
        if matchStrand ∧ la.strand ≠ sb then pure false
        else pure (la.blocks.any (fun ba => overlapKernel ba bb))
  | .compound la, .compound lb =>
      if fullSpanFlag then do
        let fa ← fullSpan la
        if matchStrand ∧ la.strand ≠ lb.strand then pure false
        else do
          let fb ← fullSpan lb
          pure (overlapKernel fb fa)
      else
        if matchStrand ∧ la.strand ≠ lb.strand then pure false
        else pure (la.blocks.any (fun ba => lb.blocks.any (fun bb => overlapKernel bb ba)))

end BioCantor.Model
