/-
  C11 — hand-written mirror of the GFF3 writer, following the Python control flow:

    io/gff3/rows.py        GFFAttributes._escape_str / _escape_str_with_comma / escape_key / escape_value,
                           GFFAttributes.__str__, GFFRow.__str__
    gene/gene.py           GeneInterval.export_qualifiers, to_gff
    gene/transcript.py     TranscriptInterval.export_qualifiers, to_gff
    gene/cds.py            CDSInterval.export_qualifiers, to_gff
    gene/feature.py        FeatureInterval / FeatureIntervalCollection .export_qualifiers, .to_gff
    gene/interval.py       AbstractFeatureInterval._merge_qualifiers
    gene/collections.py    AnnotationCollection.children (sorted by start), _unsorted_gff_iter, to_gff (sorted by start)
    io/gff3/writer.py      collection_to_gff3 (feature lines only; headers / FASTA are text glue checked by the harness)

  The two escape tables are the GENERATED `Gen.gffEncodingMap` / `Gen.gffEncodingMapWithComma`
  (regenerated from io/gff3/constants.py on every run).  The source data types come from Spec/Gff.lean
  (vocabulary only).

  Python specifics that decide answers and are explicit here
    * `re.sub("(\t|;|…)", lambda m: MAP.get(m.group(0)), s)`  = character-wise replacement by table lookup;
    * `str.lower()` — modelled as ASCII lower-casing (non-ASCII cased letters are outside the model);
    * `Dict[str, Set[str]]` — association list with distinct keys, sets as duplicate-free lists;
      `sorted(d.items())` orders by key, `sorted(escaped_vals)` by code point (stable merge sort);
    * `if not val: continue`  — `None` and `""` are both skipped;
    * the exported dictionaries are copies (since the F-C10b fix the objects' own sets are not touched), so every
      export of the same objects yields the rows modelled here;
    * generators inside `sorted(...)`: the first exception raised by any child aborts the export.
-/
import BioCantor.Base
import BioCantor.Gen.Tables
import BioCantor.Spec.Gff
namespace BioCantor.Model.Gff
open BioCantor
open BioCantor.Spec.Gff (Str Quals SCds STx SGene SFeat SFc SChild SPar SColl GColl strLt strLe)

/-! ### escaping (rows.py:149-181) -/

/-- `re.sub(PATTERN, lambda m: MAP.get(m.group(0)), item)` -/
def escapeWith (map : List (Char × List Char)) : Str → Str
  | [] => []
  | c :: rest =>
    match map.lookup c with
    | some r => r ++ escapeWith map rest
    | none => c :: escapeWith map rest

def escapeStr (s : Str) : Str := escapeWith Gen.gffEncodingMap s
def escapeStrWithComma (s : Str) : Str := escapeWith Gen.gffEncodingMapWithComma s

def lowerStr (s : Str) : Str := s.map Char.toLower

/-- `GFFAttributes.escape_key(key, lower)` -/
def escapeKey (key : Str) (lower : Bool) : Str :=
  let r := escapeStr key
  if lower then lowerStr r else r

def nan : Str := ['n', 'a', 'n']

/-- `GFFAttributes.escape_value(value, escape_comma)` for a `str` value -/
def escapeValue (value : Str) (escapeComma : Bool) : Str :=
  if escapeComma then (if value.length > 0 then escapeStrWithComma value else nan)
  else (if value.length > 0 then escapeStr value else nan)

/-! ### GFFAttributes.__str__ (rows.py:99-147) -/

def kID : Str := ['I', 'D']
def kParent : Str := ['P', 'a', 'r', 'e', 'n', 't']
def kName : Str := ['N', 'a', 'm', 'e']

/-- BioCantorGFF3ReservedQualifiers values -/
def bioCantorReserved : List Str := [kName, kParent, kID]
/-- GFF3ReservedQualifiers values (BioCantor's three + the unsupported seven) -/
def gff3Reserved : List Str := [kName, kParent, kID,
  ['A', 'l', 'i', 'a', 's'], ['T', 'a', 'r', 'g', 'e', 't'], ['D', 'b', 'x', 'r', 'e', 'f'], ['G', 'a', 'p'],
  ['D', 'e', 'r', 'i', 'v', 'e', 's', '_', 'f', 'r', 'o', 'm'], ['N', 'o', 't', 'e'],
  ['O', 'n', 't', 'o', 'l', 'o', 'g', 'y', '_', 't', 'e', 'r', 'm']]

structure Attrs where
  id : Str
  parent : Option Str
  name : Option Str
  quals : Quals
  raiseOnReserved : Bool
  deriving Repr, DecidableEq, Inhabited

/-- `sep.join(parts)` for a one-character separator -/
def joinWith (sep : Char) : List Str → Str
  | [] => []
  | [a] => a
  | a :: rest => a ++ sep :: joinWith sep rest

def sortQuals (q : Quals) : Quals := q.mergeSort (fun a b => strLe a.1 b.1)
def sortStrs (l : List Str) : List Str := l.mergeSort strLe

/-- the loop over `sorted(self.attributes.items())` : escaped (key, value) pairs, or the reserved-key refusal -/
def qualPairs (raise : Bool) : Quals → Except Err (List (Str × Str))
  | [] => .ok []
  | (key, vals) :: rest =>
    if vals.isEmpty then qualPairs raise rest
    else if bioCantorReserved.contains key then
      (if raise then .error .Export else qualPairs raise rest)
    else do
      let ek := if gff3Reserved.contains key then escapeKey key false else escapeKey key true
      let ev := joinWith ',' (sortStrs (vals.map fun v => escapeValue v false))
      let more ← qualPairs raise rest
      pure ((ek, ev) :: more)

/-- `str(GFFAttributes(...))` -/
def attrsStr (a : Attrs) : Except Err Str := do
  let head : List (Str × Str) :=
    [(kID, escapeValue a.id true)]
    ++ (match a.parent with | some p => [(kParent, escapeValue p true)] | none => [])
    ++ (match a.name with | some n => [(kName, escapeValue n true)] | none => [])
  let tail ← qualPairs a.raiseOnReserved (sortQuals a.quals)
  pure (joinWith ';' ((head ++ tail).map fun p => p.1 ++ '=' :: p.2))

/-! ### GFFRow.__str__ (rows.py:246-264) -/

inductive RowType where
  | gene | transcript | exon | cds | featureCollection | featureInterval | subregion
  deriving Repr, DecidableEq, Inhabited

/-- BioCantorFeatureTypes values -/
def RowType.value : RowType → Str
  | .gene => ['g', 'e', 'n', 'e']
  | .transcript => ['t', 'r', 'a', 'n', 's', 'c', 'r', 'i', 'p', 't']
  | .exon => ['e', 'x', 'o', 'n']
  | .cds => ['C', 'D', 'S']
  | .featureCollection => ['b', 'i', 'o', 'l', 'o', 'g', 'i', 'c', 'a', 'l', '_', 'r', 'e', 'g', 'i', 'o', 'n']
  | .featureInterval => ['f', 'e', 'a', 't', 'u', 'r', 'e', '_', 'i', 'n', 't', 'e', 'r', 'v', 'a', 'l']
  | .subregion => ['s', 'u', 'b', 'r', 'e', 'g', 'i', 'o', 'n']

structure Row where
  seqid : Str
  type : RowType
  start : Nat
  stop : Nat
  strand : Strand
  phase : CDSPhase
  attrs : Attrs
  deriving Repr, DecidableEq, Inhabited

def gffSource : Str := ['B', 'i', 'o', 'C', 'a', 'n', 't', 'o', 'r']
def nullColumn : Str := ['.']

/-- `Strand.to_symbol` (tie lemma with `Gen.Strand_to_symbol` in Proofs/GffRows.lean) -/
def strandSymbol : Strand → Str
  | .plus => ['+'] | .minus => ['-'] | .unstranded => ['.']

/-- `CDSFrame.to_phase` (tie lemma with `Gen.CDSFrame_to_phase`) -/
def toPhase : CDSFrame → CDSPhase
  | .ZERO => .ZERO | .ONE => .TWO | .TWO => .ONE | .NONE => .NONE

/-- `CDSPhase.to_gff` -/
def phaseToGff : CDSPhase → Str
  | .NONE => ['.'] | .ZERO => ['0'] | .ONE => ['1'] | .TWO => ['2']

/-- decimal digits of a natural number, most significant first (`str(int)`) -/
def digitsRev : Nat → Nat → List Char
  | 0, _ => []
  | fuel + 1, n => Char.ofNat (48 + n % 10) :: (if n / 10 = 0 then [] else digitsRev fuel (n / 10))

def natStr (n : Nat) : Str := (digitsRev (n + 1) n).reverse

def rowStr (r : Row) : Except Err Str := do
  let a ← attrsStr r.attrs
  pure (joinWith '\t' [r.seqid, gffSource, r.type.value, natStr r.start, natStr r.stop, nullColumn,
                        strandSymbol r.strand, phaseToGff r.phase, a])

/-! ### qualifier export (gene.py:246-260, transcript.py:664-684, cds.py:309-323, feature.py:315-330, 680-696) -/

/-- `qualifiers[key].add(val)` after `if key not in qualifiers: qualifiers[key] = set()` -/
def addToSet (key val : Str) : Quals → Quals
  | [] => [(key, [val])]
  | (k, vs) :: rest =>
    if k = key then (k, if vs.contains val then vs else vs ++ [val]) :: rest
    else (k, vs) :: addToSet key val rest

/-- `if not val: continue` then add -/
def addOpt (key : Str) (val : Option Str) (q : Quals) : Quals :=
  match val with
  | none => q
  | some v => if v.isEmpty then q else addToSet key v q

/-- `merged[key].update(vals)` -/
def updateSet (key : Str) (vals : List Str) (q : Quals) : Quals :=
  match q with
  | [] => [(key, vals.foldl (fun acc v => if acc.contains v then acc else acc ++ [v]) [])]
  | (k, vs) :: rest =>
    if k = key then (k, vals.foldl (fun acc v => if acc.contains v then acc else acc ++ [v]) vs) :: rest
    else (k, vs) :: updateSet key vals rest

/-- `AbstractFeatureInterval._merge_qualifiers(other)` -/
def mergeQuals (own : Quals) (other : Quals) : Quals :=
  other.foldl (fun merged kv => updateSet kv.1 kv.2 merged) own

/-- `qualifiers[key] = value` (dict assignment) -/
def setKey (key : Str) (vals : List Str) : Quals → Quals
  | [] => [(key, vals)]
  | (k, vs) :: rest => if k = key then (k, vals) :: rest else (k, vs) :: setKey key vals rest

def unspecified : Str := ['u', 'n', 's', 'p', 'e', 'c', 'i', 'f', 'i', 'e', 'd']
def kGeneId : Str := ['g', 'e', 'n', 'e', '_', 'i', 'd']
def kGeneName : Str := ['g', 'e', 'n', 'e', '_', 'n', 'a', 'm', 'e']
def kGeneBiotype : Str := ['g', 'e', 'n', 'e', '_', 'b', 'i', 'o', 't', 'y', 'p', 'e']
def kLocusTag : Str := ['l', 'o', 'c', 'u', 's', '_', 't', 'a', 'g']
def kTxId : Str := ['t', 'r', 'a', 'n', 's', 'c', 'r', 'i', 'p', 't', '_', 'i', 'd']
def kTxName : Str := ['t', 'r', 'a', 'n', 's', 'c', 'r', 'i', 'p', 't', '_', 'n', 'a', 'm', 'e']
def kTxBiotype : Str := ['t', 'r', 'a', 'n', 's', 'c', 'r', 'i', 'p', 't', '_', 'b', 'i', 'o', 't', 'y', 'p', 'e']
def kProteinId : Str := ['p', 'r', 'o', 't', 'e', 'i', 'n', '_', 'i', 'd']
def kProduct : Str := ['p', 'r', 'o', 'd', 'u', 'c', 't']
def kFeatureId : Str := ['f', 'e', 'a', 't', 'u', 'r', 'e', '_', 'i', 'd']
def kFeatureName : Str := ['f', 'e', 'a', 't', 'u', 'r', 'e', '_', 'n', 'a', 'm', 'e']
def kFeatureType : Str := ['f', 'e', 'a', 't', 'u', 'r', 'e', '_', 't', 'y', 'p', 'e']
def kFcId : Str := ['f', 'e', 'a', 't', 'u', 'r', 'e', '_', 'c', 'o', 'l', 'l', 'e', 'c', 't', 'i', 'o', 'n', '_', 'i', 'd']
def kFcName : Str := ['f', 'e', 'a', 't', 'u', 'r', 'e', '_', 'c', 'o', 'l', 'l', 'e', 'c', 't', 'i', 'o', 'n', '_', 'n', 'a', 'm', 'e']
def kFcType : Str := ['f', 'e', 'a', 't', 'u', 'r', 'e', '_', 'c', 'o', 'l', 'l', 'e', 'c', 't', 'i', 'o', 'n', '_', 't', 'y', 'p', 'e']

def biotypeOr (t : Option Str) : Option Str :=
  match t with | some x => some x | none => some unspecified

/-- `GeneInterval.export_qualifiers()` -/
def geneExportQuals (g : SGene) : Quals :=
  g.quals |> addOpt kGeneId g.gid |> addOpt kGeneName g.sym |> addOpt kGeneBiotype (biotypeOr g.gtype)
          |> addOpt kLocusTag g.locus

/-- `TranscriptInterval.export_qualifiers(parent_qualifiers)` -/
def txExportQuals (t : STx) (parentQuals : Quals) : Quals :=
  mergeQuals t.quals parentQuals |> addOpt kTxId t.tid |> addOpt kTxName t.sym
    |> addOpt kTxBiotype (biotypeOr t.ttype) |> addOpt kProteinId t.pid

/-- `CDSInterval.export_qualifiers(parent_qualifiers)` (the CDS built by a transcript has no qualifiers of its
    own; protein_id / product are the transcript's) -/
def cdsExportQuals (t : STx) (parentQuals : Quals) : Quals :=
  mergeQuals [] parentQuals |> addOpt kProteinId t.pid |> addOpt kProduct t.product

/-- `FeatureIntervalCollection.feature_types` = union of the children's sets -/
def fcTypes (c : SFc) : List Str :=
  c.feats.foldl (fun acc f => f.ftypes.foldl (fun a v => if a.contains v then a else a ++ [v]) acc) []

def dedup (l : List Str) : List Str := l.foldl (fun a v => if a.contains v then a else a ++ [v]) []

/-- `FeatureIntervalCollection.export_qualifiers()` -/
def fcExportQuals (c : SFc) : Quals :=
  let q := c.quals |> addOpt kFcId c.fcid |> addOpt kFcName c.name |> addOpt kLocusTag c.locus
                   |> addOpt kFcType c.fctype
  if (fcTypes c).isEmpty then q else setKey kFeatureType (fcTypes c) q

/-- `FeatureInterval.export_qualifiers(parent_qualifiers)` -/
def featExportQuals (f : SFeat) (parentQuals : Quals) : Quals :=
  let q := mergeQuals f.quals parentQuals |> addOpt kFeatureName f.name |> addOpt kFeatureId f.fid
  if f.ftypes.isEmpty then q else setKey kFeatureType (dedup f.ftypes) q

/-! ### to_gff of the interval classes -/

/-- coordinates of the export: `off` = 0 in chromosome mode, the chunk start in chunk-relative mode
    (the chunk window contains the collection: chunk-relative coordinate = chromosome coordinate − chunk start) -/
structure Ctx where
  seqid : Str
  off : Nat
  raise : Bool
  /-- `chromosome_relative_coordinates=False` -/
  chunkRel : Bool
  deriving Repr, DecidableEq, Inhabited

/-! ### CDS frames in chunk-relative mode (cds.py:121-171, 851-936)

  `CDSInterval.chunk_relative_frames` does not subset the stored frames: it takes the 5'-most frame and
  re-derives every other frame with `construct_frames_from_location` ("if you are modeling a programmed
  frameshift using the Frames vector, this information will be lost").  For a CDS lying wholly inside the chunk
  the distance from the 5' end is 0, so the starting frame is the stored 5'-most frame itself. -/

def frameOfMod (v : Int) : CDSFrame := if v % 3 = 0 then .ZERO else if v % 3 = 1 then .ONE else .TWO

/-- `CDSFrame.shift(shift)`; both branches of the Python compute `(value + shift) mod 3`
    (tie lemma with the generated `Gen.CDSFrame_shift` in Proofs/GffRows.lean) -/
def shiftFrame (f : CDSFrame) (s : Int) : CDSFrame :=
  match f with
  | .NONE => .NONE
  | _ => frameOfMod (f.value + s)

def framesFrom (cur : CDSFrame) : List Int → List CDSFrame
  | [] => []
  | s :: rest => let n := shiftFrame cur s; n :: framesFrom n rest

/-- `CDSInterval.construct_frames_from_location(location, starting_frame)` on ascending blocks -/
def constructFrames (blocks : List Blk) (strand : Strand) (sf : CDSFrame) : List CDSFrame :=
  match blocks with
  | [_] => [sf]
  | _ =>
    let ordered := if strand = .minus then blocks.reverse else blocks
    let sizes : List Int := ordered.dropLast.map fun b => ((b.2 - b.1 : Nat) : Int)
    let sizes := match sizes with | [] => [] | s :: r => (s - sf.value) :: r
    let frames := match (CDSFrame.ZERO :: framesFrom .ZERO sizes) with | [] => [] | _ :: r => sf :: r
    if strand = .minus then frames.reverse else frames

/-- `next(self._frame_iter(chunk_relative_frames=False))`: the 5'-most stored frame -/
def fivePrimeFrame (frames : List CDSFrame) (strand : Strand) : Option CDSFrame :=
  if strand = .minus then frames.getLast? else frames.head?

/-- the frames `CDSInterval.to_gff` zips with the blocks -/
def exportFrames (cx : Ctx) (t : STx) (c : SCds) : List CDSFrame :=
  if cx.chunkRel then
    match fivePrimeFrame c.frames t.strand with
    | some sf => constructFrames c.blocks t.strand sf
    | none => []
  else c.frames

def enumFrom1 {α} (l : List α) : List (Nat × α) := (List.range l.length).zip l |>.map fun p => (p.1 + 1, p.2)

/-- `CDSInterval.to_gff(parent, parent_qualifiers, …)` (cds.py:325-390) -/
def cdsRows (cx : Ctx) (t : STx) (c : SCds) (parent : Str) (parentQuals : Quals) : List Row :=
  let q := cdsExportQuals t parentQuals
  (enumFrom1 (c.blocks.zip (exportFrames cx t c))).map fun p =>
    { seqid := cx.seqid, type := .cds, start := p.2.1.1 - cx.off + 1, stop := p.2.1.2 - cx.off,
      strand := t.strand, phase := toPhase p.2.2,
      attrs := ⟨c.guid ++ '-' :: natStr p.1, some parent, t.pid, q, cx.raise⟩ }

def firstStart : List Blk → Nat
  | [] => 0
  | b :: _ => b.1
def lastEnd : List Blk → Nat
  | [] => 0
  | [b] => b.2
  | _ :: rest => lastEnd rest

/-- `TranscriptInterval.to_gff(parent, parent_qualifiers, …)` (transcript.py:686-783) -/
def txRows (cx : Ctx) (t : STx) (parent : Str) (parentQuals : Quals) : List Row :=
  let q := txExportQuals t parentQuals
  let txRow : Row :=
    { seqid := cx.seqid, type := .transcript, start := firstStart t.exons - cx.off + 1,
      stop := lastEnd t.exons - cx.off, strand := t.strand, phase := .NONE,
      attrs := ⟨t.guid, some parent, t.sym, q, cx.raise⟩ }
  let exonRows := (enumFrom1 t.exons).map fun p =>
    ({ seqid := cx.seqid, type := .exon, start := p.2.1 - cx.off + 1, stop := p.2.2 - cx.off,
       strand := t.strand, phase := .NONE,
       attrs := ⟨['e', 'x', 'o', 'n', '-'] ++ t.guid ++ '-' :: natStr p.1, some t.guid, t.sym, q, cx.raise⟩ } : Row)
  txRow :: exonRows ++ (match t.cds with | some c => cdsRows cx t c t.guid q | none => [])

def minNat : List Nat → Nat
  | [] => 0
  | [a] => a
  | a :: rest => min a (minNat rest)
def maxNat : List Nat → Nat
  | [] => 0
  | [a] => a
  | a :: rest => max a (maxNat rest)

/-- `GeneInterval.to_gff(…)` (gene.py:291-348).  The gene row's strand is that of the gene's own location,
    `SingleInterval(start, end, Strand.PLUS)`: always `+`. -/
def geneRows (cx : Ctx) (g : SGene) : List Row :=
  let q := geneExportQuals g
  let row : Row :=
    { seqid := cx.seqid, type := .gene, start := minNat (g.txs.map fun t => firstStart t.exons) - cx.off + 1,
      stop := maxNat (g.txs.map fun t => lastEnd t.exons) - cx.off, strand := .plus, phase := .NONE,
      attrs := ⟨g.guid, none, g.sym, q, cx.raise⟩ }
  row :: g.txs.flatMap fun t => txRows cx t g.guid q

/-- `FeatureInterval.to_gff(parent, parent_qualifiers, …)` (feature.py:332-422) -/
def featRows (cx : Ctx) (f : SFeat) (parent : Str) (parentQuals : Quals) : List Row :=
  let q := featExportQuals f parentQuals
  let row : Row :=
    { seqid := cx.seqid, type := .featureInterval, start := firstStart f.blocks - cx.off + 1,
      stop := lastEnd f.blocks - cx.off, strand := f.strand, phase := .NONE,
      attrs := ⟨f.guid, some parent, f.name, q, cx.raise⟩ }
  row :: (enumFrom1 f.blocks).map fun p =>
    ({ seqid := cx.seqid, type := .subregion, start := p.2.1 - cx.off + 1, stop := p.2.2 - cx.off,
       strand := f.strand, phase := .NONE,
       attrs := ⟨['f', 'e', 'a', 't', 'u', 'r', 'e', '-'] ++ f.guid ++ '-' :: natStr p.1, some f.guid, f.name, q,
                 cx.raise⟩ } : Row)

/-- `FeatureIntervalCollection.to_gff(…)` (feature.py:727-787) -/
def fcRows (cx : Ctx) (c : SFc) : List Row :=
  let q := fcExportQuals c
  let row : Row :=
    { seqid := cx.seqid, type := .featureCollection,
      start := minNat (c.feats.map fun f => firstStart f.blocks) - cx.off + 1,
      stop := maxNat (c.feats.map fun f => lastEnd f.blocks) - cx.off, strand := .plus, phase := .NONE,
      attrs := ⟨c.guid, none, c.name, q, cx.raise⟩ }
  row :: c.feats.flatMap fun f => featRows cx f c.guid q

def childRows (cx : Ctx) : SChild → List Row
  | .gene g => geneRows cx g
  | .fc c => fcRows cx c

def childStart : SChild → Nat
  | .gene g => minNat (g.txs.map fun t => firstStart t.exons)
  | .fc c => minNat (c.feats.map fun f => firstStart f.blocks)

/-- `AnnotationCollection.children`: `sorted(chain(genes, feature_collections), key=start)` -/
def sortedChildren (c : SColl) : List SChild :=
  c.children.mergeSort fun a b => decide (childStart a ≤ childStart b)

/-- `_unsorted_gff_iter` -/
def unsortedRows (cx : Ctx) (c : SColl) : List Row := (sortedChildren c).flatMap (childRows cx)

def rowLe (a b : Row) : Bool := decide (a.start ≤ b.start)

/-- `AnnotationCollection.to_gff`: `sorted(_unsorted_gff_iter(...), key=lambda x: x.start)` -/
def sortedRows (cx : Ctx) (c : SColl) : List Row := (unsortedRows cx c).mergeSort rowLe

/-- the export context, or the documented refusals: no sequence name (`GFF3MissingSequenceNameError`);
    chunk-relative coordinates without a sequence-chunk ancestor (`NoSuchAncestorException`) -/
def mkCtx (c : SColl) (chromRel : Bool) (raise : Bool) : Except Err Ctx :=
  match c.seqName with
  | none => .error .Export
  | some s =>
    if s.isEmpty then .error .Export
    else if chromRel then .ok ⟨s, 0, raise, false⟩
    else match c.par with
      | .chunk cs _ => .ok ⟨s, cs, raise, true⟩
      | _ => .error .NoSuchAncestor

/-- the feature lines `collection_to_gff3` prints for one collection -/
def toGffLines (c : SColl) (chromRel : Bool) (raise : Bool) : Except Err (List Str) :=
  if c.children.isEmpty then .ok [] else do
    let cx ← mkCtx c chromRel raise
    (sortedRows cx c).mapM rowStr

/-! ### collection_to_gff3: header, `##sequence-region`, feature lines, `##FASTA` (io/gff3/writer.py:12-84)

  Pure string assembly around `toGffLines`.  A collection is handed to the writer together with what the writer
  reads from it besides the rows: `collection.sequence` (the parent's sequence as text, `none` without one) and
  whether it has a sequence-chunk ancestor (= `coll.par` is a chunk).  The result is the list of printed lines
  (`print` terminates each with LF). -/

def gIsChunk (g : GColl) : Bool := match g.coll.par with | .chunk _ _ => true | _ => false

/-- `collection.sequence_name` as `str.format` / the sort key sees it -/
def gNameM (g : GColl) : Str := match g.coll.seqName with | some s => s | none => ['N', 'o', 'n', 'e']

def headerLine : Str := "##gff-version 3".toList
def fastaHeaderLine : Str := "##FASTA".toList
def regionPrefix : Str := "##sequence-region ".toList

/-- `"##sequence-region {symbol} 1 {length}".format(...)` -/
def regionLine (name : Str) (len : Nat) : Str := regionPrefix ++ name ++ [' ', '1', ' '] ++ natStr len

/-- `[s[i:i+n] for i in range(0, len(s), n)]` -/
def chunksOf (n : Nat) (fuel : Nat) (s : Str) : List Str :=
  match fuel with
  | 0 => []
  | fuel + 1 => if s.isEmpty then [] else s.take n :: chunksOf n fuel (s.drop n)

/-- the lines of `>{collection.sequence_name}\n{fasta_body}` (Sequence.to_fasta breaks every 60 characters;
    since 5f9d162 the record is named like column 1, not like the chunk) -/
def fastaRecord (name : Str) (seq : Str) : List Str := ('>' :: name) :: chunksOf 60 seq.length seq

def sortByName (cs : List GColl) : List GColl := cs.mergeSort fun a b => strLe (gNameM a) (gNameM b)

/-- `collection_to_gff3(collections, handle, add_sequences, ordered, chromosome_relative_coordinates,
    raise_on_reserved_attributes)`: the printed lines, or the first exception -/
def gff3Lines (cs : List GColl) (addSeq ordered chromRel raise : Bool) : Except Err (List Str) := do
  if chromRel && addSeq && cs.any gIsChunk then throw .Export
  let cs := if ordered then sortByName cs else cs
  let regions ← (if addSeq then
      cs.mapM fun g => match g.seq with
        | none => (.error .Export : Except Err Str)
        | some s => .ok (regionLine (gNameM g) s.length)
    else .ok [])
  let rows ← cs.mapM fun g => toGffLines g.coll chromRel raise
  let fasta := if addSeq then
      fastaHeaderLine :: cs.flatMap fun g => match g.seq with | some s => fastaRecord (gNameM g) s | none => []
    else []
  pure (headerLine :: regions ++ rows.flatten ++ fasta)

end BioCantor.Model.Gff
