/-
  Hand-written mirror of
    inscripta/biocantor/io/features/__init__.py   extract_feature_name_id, extract_feature_types, merge_qualifiers
    inscripta/biocantor/io/gff3/parser.py          filter_and_sort_qualifiers
    inscripta/biocantor/io/genbank/parser.py       LocusTagGenBankParser._extract_seqfeatures_from_seqrecords (the sort)
                                                   BaseGenBankParser._group_features_by_locus_tag
  following the Python control flow statement by statement.  The priority enums are the GENERATED tables
  `Gen.featureNameQualifiers` / `Gen.featureIdQualifiers` (regenerated from the source on every run).

  Python specifics that decide answers and are therefore explicit here:
    * dict iteration order  = list order;
    * `not feature_key`     = truthiness of `None` / of an IntEnum member (member with value 0 is falsy)  [F-C18a];
    * `re.match("^k$", q)`  = `$` also matches before ONE trailing newline      [F-C18b, repaired: fullmatch];
    * `Enum[q.upper()]`     = KeyError when absent; `vals[0]` = IndexError on an empty list;
    * `sorted`              = stable merge sort; `set` = duplicate-free list (reported sorted by the driver).

  Only the vocabulary (Str, QDict, Feat, Group, the string order) is imported from Spec.
-/
import BioCantor.Base
import BioCantor.Gen.Tables
import BioCantor.Spec.Qualifiers
namespace BioCantor.Model.Qual
open BioCantor
open BioCantor.Spec.Qual (Str QDict Kind Feat Group strLe strLt IvKind)

/-- Internal errors of the Python code that the shared `Err` type deliberately does not contain, plus the one
    documented refusal of the grouping (`GenBankLocusTagError`). -/
inductive QErr where
  | keyError | indexError | locusTag
  deriving DecidableEq, Repr, Inhabited

abbrev R := Except QErr

/-- Which variant of the two defective tests is modelled: `false` = the code as it is. -/
structure Rule where
  /-- `feature_key is None` instead of `not feature_key` (proposed patch for F-C18a) -/
  isNoneTest : Bool
  /-- `\Z` / `fullmatch` instead of `$` (proposed patch for F-C18b) -/
  fullMatch : Bool
  deriving DecidableEq, Repr

def Rule.asCoded : Rule := ⟨false, false⟩
def Rule.repaired : Rule := ⟨true, true⟩

/-- The rule the model driver runs = the code in /repo today.  Flip when the patches are applied. -/
def currentRule : Rule := ⟨false, true⟩   -- F-C18b repaired in /repo (5ed9681); F-C18a stays (pinned tests encode it)

def upperStr (s : Str) : Str := s.map Char.toUpper
def lowerStr (s : Str) : Str := s.map Char.toLower

/-- FEATURE_INTERVAL_NAME_QUALIFIERS — the GENERATED set literal (a Python set; order is irrelevant) -/
def nameRegexKeys : List Str := Gen.features_FEATURE_INTERVAL_NAME_QUALIFIERS

/-- FEATURE_INTERVAL_ID_QUALIFIERS — generated -/
def idRegexKeys : List Str := Gen.features_FEATURE_INTERVAL_ID_QUALIFIERS

/-- `re.fullmatch(r"(^k1$|^k2$|…)", q, re.IGNORECASE)` on ASCII (`fullMatch = true`, the code since 5ed9681);
    before that repair it was `re.match`, where `$` also matches before one final `\n` (`fullMatch = false`). -/
def reMatchKeys (fullMatch : Bool) (keys : List Str) (q : Str) : Bool :=
  let core := if !fullMatch && q.getLast? == some '\n' then q.dropLast else q
  keys.contains (lowerStr core)

/-- the four loop variables of `extract_feature_name_id` -/
structure St where
  name : Option Str
  key : Option Int
  id : Option Str
  idKey : Option Int
  deriving DecidableEq, Repr

def St.init : St := ⟨none, none, none, none⟩

/-- `not feature_key` (as coded: `None` and the member with value 0 are falsy) / `feature_key is None` (repaired) -/
def unset (r : Rule) : Option Int → Bool
  | none => true
  | some v => !r.isNoneTest && v == 0

/-- `not feature_key or this_feature_key < feature_key` -/
def better (r : Rule) (cur : Option Int) (this : Int) : Bool :=
  unset r cur || (match cur with | some k => decide (this < k) | none => false)

/-- the guard of one branch: `re.fullmatch(REGEX, qualifier) and qualifier.upper() in Enum.__members__`, then
    `Enum[qualifier.upper()]`.  Before the repair (`fullMatch = false`) there was no membership test and the
    enum lookup raised KeyError (F-C18b). -/
def branchHit (r : Rule) (keys : List Str) (table : List (Str × Int)) (q : Str) : R (Option Int) :=
  if reMatchKeys r.fullMatch keys q then
    match table.lookup (upperStr q) with
    | some this => pure (some this)
    | none => if r.fullMatch then pure none else throw .keyError
  else pure none

/-- one iteration of `for qualifier, vals in feature_qualifiers.items()` -/
def step (r : Rule) (st : St) (e : Str × List Str) : R St := do
  match (← branchHit r nameRegexKeys Gen.featureNameQualifiers e.1) with
  | some this =>
    if better r st.key this then
      match e.2 with
      | [] => throw .indexError
      | v :: _ => pure { st with name := some v, key := some this }
    else pure st
  | none =>
    match (← branchHit r idRegexKeys Gen.featureIdQualifiers e.1) with
    | some this =>
      if better r st.idKey this then
        match e.2 with
        | [] => throw .indexError
        | v :: _ => pure { st with id := some v, idKey := some this }
      else pure st
    | none => pure st

def loop (r : Rule) : St → QDict → R St
  | st, [] => pure st
  | st, e :: es => do let st' ← step r st e; loop r st' es

/-- truthiness of `Optional[str]` -/
def truthy : Option Str → Bool
  | none => false
  | some s => !s.isEmpty

/-- code points for which `str.isspace()` holds (ASCII) -/
def spaceCodes : List Nat := [9, 10, 11, 12, 13, 28, 29, 30, 31, 32]
def isSpace (c : Char) : Bool := spaceCodes.contains c.toNat
def notSpace (c : Char) : Bool := !isSpace c

/-- code points of `string.punctuation` -/
def punctCodes : List Nat := [33, 34, 35, 36, 37, 38, 39, 40, 41, 42, 43, 44, 45, 46, 47, 58, 59, 60, 61, 62, 63, 64,
  91, 92, 93, 94, 95, 96, 123, 124, 125, 126]
def isPunct (c : Char) : Bool := punctCodes.contains c.toNat

/-- `str.split()` (no argument): maximal runs of non-whitespace -/
def pySplitFuel : Nat → Str → List Str
  | 0, _ => []
  | n + 1, s =>
    match s.dropWhile isSpace with
    | [] => []
    | c :: t => (c :: t).takeWhile notSpace :: pySplitFuel n ((c :: t).dropWhile notSpace)

def pySplit (s : Str) : List Str := pySplitFuel (s.length + 1) s

/-- `str.strip(string.punctuation)` -/
def pyStripPunct (s : Str) : Str := ((s.dropWhile isPunct).reverse.dropWhile isPunct).reverse

def noteKey : Str := ['n', 'o', 't', 'e']

/-- `dict.get` by exact key -/
def dictGet (k : Str) : QDict → Option (List Str)
  | [] => none
  | e :: es => if e.1 = k then some e.2 else dictGet k es

/-- `extract_feature_name_id` -/
def extractWith (r : Rule) (qs : QDict) : R (Option Str × Option Str) := do
  let st ← loop r St.init qs
  if !truthy st.name && !truthy st.id then
    match dictGet noteKey qs with
    | some (v :: _) =>
      match pySplit v with
      | w :: _ => let t := pyStripPunct w; pure (some t, some t)
      | [] => pure (st.name, st.id)          -- IndexError is caught: `pass`
    | some [] => pure (st.name, st.id)       -- IndexError is caught: `pass`
    | none => pure (st.name, st.id)
  else pure (st.name, st.id)

def extract (qs : QDict) : R (Option Str × Option Str) := extractWith currentRule qs

/-! ### extract_feature_types -/

def isInfix (pat : Str) : Str → Bool
  | [] => pat.isEmpty
  | c :: cs => pat.isPrefixOf (c :: cs) || isInfix pat cs

/-- FEATURE_TYPE_IDENTIFIERS — generated -/
def typeIdentifiers : List Str := Gen.features_FEATURE_TYPE_IDENTIFIERS

/-- `re.search(FEATURE_TYPE_IDENTIFIERS_REGEX, key)` with IGNORECASE -/
def typeRegexSearch (key : Str) : Bool := typeIdentifiers.any fun p => isInfix p (lowerStr key)

/-- `set.update(vals)` on a set kept as a duplicate-free list -/
def setUpdate (s : List Str) (vals : List Str) : List Str :=
  vals.foldl (fun a v => if a.contains v then a else a ++ [v]) s

def extractTypes (init : List Str) (qs : QDict) : List Str :=
  qs.foldl (fun acc e => if typeRegexSearch e.1 then setUpdate acc e.2 else acc) (setUpdate [] init)

/-! ### merge_qualifiers -/

/-- `merged[key].update(vals)` on a `defaultdict(set)` kept in insertion order -/
def dictUpdate : QDict → Str → List Str → QDict
  | [], k, vals => [(k, setUpdate [] vals)]
  | e :: es, k, vals => if e.1 = k then (e.1, setUpdate e.2 vals) :: es else e :: dictUpdate es k vals

/-- `sorted(...)` of strings -/
def sortStrs (l : List Str) : List Str := l.mergeSort strLe

def mergeQualifiers (a b : QDict) : QDict :=
  ((a ++ b).foldl (fun m e => dictUpdate m e.1 e.2) []).map fun e => (e.1, sortStrs e.2)

/-! ### AbstractFeatureInterval._merge_qualifiers and export_qualifiers (gene/interval.py, feature.py, transcript.py, cds.py) -/

/-- `_merge_qualifiers(other_qualifiers)`:
    `merged = {key: set(vals) for key, vals in self.qualifiers.items()}`; `if other_qualifiers:` (None and `{}` are
    falsy) `for key, vals in other.items(): if key not in merged: merged[key] = set(); merged[key].update(vals)` -/
def mergeIntervalQualifiers (own : QDict) (other : Option QDict) : QDict :=
  let merged := own.map fun e => (e.1, setUpdate [] e.2)
  match other with
  | none => merged
  | some o => if o.isEmpty then merged else o.foldl (fun m e => dictUpdate m e.1 e.2) merged

/-- the enum members whose `.value` keys the identifiers of each class (looked up in the GENERATED BioCantorQualifiers) -/
def exportMemberNames : IvKind → List Str
  | .feature => ["FEATURE_SYMBOL".toList, "FEATURE_ID".toList]
  | .transcript => ["TRANSCRIPT_ID".toList, "TRANSCRIPT_NAME".toList, "TRANSCRIPT_TYPE".toList, "PROTEIN_ID".toList]
  | .cds => ["PROTEIN_ID".toList, "PRODUCT".toList]

/-- `BioCantorQualifiers.X.value` for every member used; `none` = AttributeError (a member is missing) -/
def exportMemberKeys (k : IvKind) : Option (List Str) :=
  (exportMemberNames k).mapM fun n => Gen.gff3_BioCantorQualifiers.lookup n

/-- the values paired with the keys: `self.transcript_type.name if self.transcript_type else UNKNOWN_BIOTYPE` -/
def exportValues (k : IvKind) (attrs : List (Option Str)) : List (Option Str) :=
  match k, attrs with
  | .transcript, a :: b :: none :: rest => a :: b :: some Gen.biotype_UNKNOWN_BIOTYPE :: rest
  | _, l => l

/-- `for key, val in [...]: if not val: continue; if key not in q: q[key] = set(); q[key].add(val)` -/
def addIdentifiers (q : QDict) (pairs : List (Str × Option Str)) : QDict :=
  pairs.foldl (fun m p =>
    match p.2 with
    | some v => if v.isEmpty then m else dictUpdate m p.1 [v]
    | none => m) q

/-- `export_qualifiers(parent_qualifiers)` of FeatureInterval (without feature types) / TranscriptInterval /
    CDSInterval; value sets reported sorted -/
def exportQualifiers (k : IvKind) (own : QDict) (parent : Option QDict) (attrs : List (Option Str)) : Option QDict :=
  match exportMemberKeys k with
  | none => none
  | some keys =>
    some ((addIdentifiers (mergeIntervalQualifiers own parent) (keys.zip (exportValues k attrs))).map
      fun e => (e.1, sortStrs e.2))

/-! ### filter_and_sort_qualifiers -/

/-- iterating an `Enum` class skips aliases: one member (the first) per distinct value -/
def enumCanonical (members : List (Str × Str)) : List (Str × Str) :=
  members.foldl (fun acc m => if acc.any (fun x => x.2 == m.2) then acc else acc ++ [m]) []

/-- alternatives of BIOCANTOR_QUALIFIERS_REGEX (gff3/constants.py):
    `set.union(*[{k.name.lower(), k.value} for k in chain(BioCantorQualifiers, BioCantorGFF3ReservedQualifiers)])`
    over the GENERATED enum tables (duplicates are harmless: the list is only searched) -/
def biocantorQualifierTerms : List Str :=
  (enumCanonical Gen.gff3_BioCantorQualifiers ++ enumCanonical Gen.gff3_BioCantorGFF3ReservedQualifiers).flatMap
    fun m => [lowerStr m.1, m.2]

/-- `re.fullmatch(BIOCANTOR_QUALIFIERS_REGEX, key)` (`exact = true`, the code since 245297c); before that repair
    `re.match`: an unanchored alternation matched at the start = PREFIX match (F-C11b, `exact = false`). -/
def reservedMatch (exact : Bool) (key : Str) : Bool :=
  biocantorQualifierTerms.any fun t => if exact then t == key else t.isPrefixOf key

/-- as coded today -/
def currentFilterExact : Bool := true   -- F-C11b repaired in /repo (245297c)

def filterSortWith (exact : Bool) (q : QDict) : Option QDict :=
  let r := (q.filter fun e => !reservedMatch exact e.1).map fun e => (e.1, sortStrs e.2)
  if r.isEmpty then none else some r

def filterSort (q : QDict) : Option QDict := filterSortWith currentFilterExact q

/-! ### locus-tag grouping -/

/-- `sorted(features, key=lambda f: f.qualifiers["locus_tag"])` (one-element lists compare as their strings) -/
def sortByTag (fs : List Feat) : List Feat := fs.mergeSort fun a b => strLe a.tag b.tag

/-- `itertools.groupby(features, key=tag)`: maximal runs of consecutive equal keys -/
def groupRuns : List Feat → List (Str × List Feat)
  | [] => []
  | f :: fs =>
    match groupRuns fs with
    | (t, g) :: rest => if t = f.tag then (t, f :: g) :: rest else (f.tag, [f]) :: (t, g) :: rest
    | [] => [(f.tag, [f])]

/-- the inner `for feature in gene_features` loop -/
def scanRun : Option Nat → List Nat → List Nat → List Feat → R (Option Nat × List Nat × List Nat)
  | g, ts, cs, [] => pure (g, ts, cs)
  | g, ts, cs, f :: fs =>
    match f.kind with
    | .gene => if g.isSome then throw .locusTag else scanRun (some f.uid) ts cs fs
    | .transcript => scanRun g (ts ++ [f.uid]) cs fs
    | .cds => scanRun g ts (cs ++ [f.uid]) fs
    | .other => scanRun g ts cs fs

def processRun (run : Str × List Feat) : R Group := do
  let (g, ts, cs) ← scanRun none [] [] run.2
  let ts' := if ts.length > 1 && cs.length > 1 then ts.take 1 else ts
  pure ⟨run.1, g, ts', cs⟩

/-- `gene_feature is None and not transcript_features and not cds_features`: only features of unknown types carry
    the locus tag -/
def emptyGroup (g : Group) : Bool := g.gene.isNone && g.transcripts.isEmpty && g.cdss.isEmpty

/-- the outer `for locus_tag, gene_features in itertools.groupby(...)` loop (the first error aborts it).
    Since 48a0909 a tag carried only by features of unknown type is skipped (`continue`: "each was warned about:
    no gene to build") instead of yielding an empty group (which later raised IndexError). -/
def processRuns : List (Str × List Feat) → R (List Group)
  | [] => pure []
  | r :: rs => do
    let g ← processRun r
    let gs ← processRuns rs
    pure (if emptyGroup g then gs else g :: gs)

/-- the loop before 48a0909: every tag yields a group -/
def processRunsBefore : List (Str × List Feat) → R (List Group)
  | [] => pure []
  | r :: rs => do
    let g ← processRun r
    let gs ← processRunsBefore rs
    pure (g :: gs)

def groupSorted (fs : List Feat) : R (List Group) := processRuns (groupRuns fs)

/-- sort (LocusTagGenBankParser._extract_seqfeatures_from_seqrecords) + `_group_features_by_locus_tag` -/
def groupByLocusTag (fs : List Feat) : R (List Group) := groupSorted (sortByTag fs)

/-- the grouping before 48a0909 (regression witness) -/
def groupByLocusTagBefore (fs : List Feat) : R (List Group) := processRunsBefore (groupRuns (sortByTag fs))

/-! ### gene biotype (GeneFeature.to_gene_model, io/genbank/parser.py) -/

/-- `Counter[k] += 1` on a Counter kept in insertion order -/
def counterBump : List (Str × Nat) → Str → List (Str × Nat)
  | [], k => [(k, 1)]
  | e :: es, k => if e.1 = k then (e.1, e.2 + 1) :: es else e :: counterBump es k

/-- `tx_biotypes = Counter(); for tx in children: tx_biotypes[biotype] += 1` (biotypes by their `.name`) -/
def counterOf (types : List Str) : List (Str × Nat) := types.foldl counterBump []

/-- `min(iterable, key=…)`: the first element that no other element is strictly below (`none` = ValueError) -/
def pyMinBy {α} (lt : α → α → Bool) : List α → Option α
  | [] => none
  | x :: xs => some (xs.foldl (fun best y => if lt y best then y else best) x)

/-- `key=lambda biotype: (-tx_biotypes[biotype], biotype.name)` compared as tuples -/
def biotypeKeyLt (a b : Str × Nat) : Bool := decide (a.2 > b.2) || (a.2 == b.2 && strLt a.1 b.1)

/-- the transcript biotype name of a GenBank transcript feature type (no /pseudo qualifier): `protein_coding` for
    the coding type (`TranscriptFeatures.CODING_TRANSCRIPT`, generated), else `Biotype[type].name` = the type itself -/
def txBiotypeName (featureType : Str) : Str :=
  if Gen.genbank_TranscriptFeatures.lookup "CODING_TRANSCRIPT".toList == some featureType then "protein_coding".toList
  else featureType

/-- `gene_biotype = min(tx_biotypes, key=lambda b: (-tx_biotypes[b], b.name))` (the code since 3370634) -/
def geneBiotype (types : List Str) : Option Str := (pyMinBy biotypeKeyLt (counterOf types)).map (·.1)

/-- before the repair: `tx_biotypes.most_common(1)[0][0]` — a stable sort by decreasing count, i.e. the FIRST
    inserted biotype of maximal count (F-C18c) -/
def geneBiotypeOld (types : List Str) : Option Str :=
  (pyMinBy (fun (a b : Str × Nat) => decide (a.2 > b.2)) (counterOf types)).map (·.1)

end BioCantor.Model.Qual
