/-
  Hand-written mirror of
    inscripta/biocantor/io/features/__init__.py   extract_feature_name_id, extract_feature_types, merge_qualifiers
    inscripta/biocantor/io/gff3/parser.py          filter_and_sort_qualifiers
    inscripta/biocantor/io/genbank/parser.py       LocusTagGenBankParser._extract_seqfeatures_from_seqrecords (the sort)
                                                   BaseGenBankParser._group_features_by_locus_tag
  following the Python control flow statement by statement.  The priority enums are the GENERATED tables
  `Gen.featureNameQualifiers` / `Gen.featureIdQualifiers` (regenerated from the source on every run).

  Python specifics that decide answers and are therefore explicit here:
    * dict iteration order  = list order;
    * `not feature_key`     = truthiness of `None` / of an IntEnum member (member with value 0 is falsy)  [F-C18a];
    * `re.match("^k$", q)`  = `$` also matches before ONE trailing newline                               [F-C18b];
    * `Enum[q.upper()]`     = KeyError when absent; `vals[0]` = IndexError on an empty list;
    * `sorted`              = stable merge sort; `set` = duplicate-free list (reported sorted by the driver).

  Only the vocabulary (Str, QDict, Feat, Group, the string order) is imported from Spec.
-/
import BioCantor.Base
import BioCantor.Gen.Tables
import BioCantor.Spec.Qualifiers
namespace BioCantor.Model.Qual
open BioCantor
open BioCantor.Spec.Qual (Str QDict Kind Feat Group strLe strLt)

/-- Internal errors of the Python code that the shared `Err` type deliberately does not contain, plus the one
    documented refusal of the grouping (`GenBankLocusTagError`). -/
inductive QErr where
  | keyError | indexError | locusTag
  deriving DecidableEq, Repr, Inhabited

abbrev R := Except QErr

/-- Which variant of the two defective tests is modelled: `false` = the code as it is. -/
structure Rule where
  /-- `feature_key is None` instead of `not feature_key` (proposed patch for F-C18a) -/
  isNoneTest : Bool
  /-- `\Z` / `fullmatch` instead of `$` (proposed patch for F-C18b) -/
  fullMatch : Bool
  deriving DecidableEq, Repr

def Rule.asCoded : Rule := ⟨false, false⟩
def Rule.repaired : Rule := ⟨true, true⟩

/-- The rule the model driver runs = the code in /repo today.  Flip when the patches are applied. -/
def currentRule : Rule := ⟨false, true⟩   -- F-C18b repaired in /repo (5ed9681); F-C18a stays (pinned tests encode it)

def upperStr (s : Str) : Str := s.map Char.toUpper
def lowerStr (s : Str) : Str := s.map Char.toLower

/-- FEATURE_INTERVAL_NAME_QUALIFIERS (a Python set; order is irrelevant) -/
def nameRegexKeys : List Str := [
  ['f', 'e', 'a', 't', 'u', 'r', 'e', '_', 'n', 'a', 'm', 'e'],
  ['n', 'a', 'm', 'e'],
  ['s', 't', 'a', 'n', 'd', 'a', 'r', 'd', '_', 'n', 'a', 'm', 'e'],
  ['g', 'e', 'n', 'e'],
  ['g', 'e', 'n', 'e', '_', 'n', 'a', 'm', 'e'],
  ['l', 'a', 'b', 'e', 'l'],
  ['o', 'p', 'e', 'r', 'o', 'n']]

/-- FEATURE_INTERVAL_ID_QUALIFIERS -/
def idRegexKeys : List Str := [
  ['f', 'e', 'a', 't', 'u', 'r', 'e', '_', 'i', 'd'],
  ['i', 'd']]

/-- `re.match(r"(^k1$|^k2$|…)", q, re.IGNORECASE)` on ASCII: `$` matches at the end and before one final `\n`. -/
def reMatchKeys (fullMatch : Bool) (keys : List Str) (q : Str) : Bool :=
  let core := if !fullMatch && q.getLast? == some '\n' then q.dropLast else q
  keys.contains (lowerStr core)

/-- the four loop variables of `extract_feature_name_id` -/
structure St where
  name : Option Str
  key : Option Int
  id : Option Str
  idKey : Option Int
  deriving DecidableEq, Repr

def St.init : St := ⟨none, none, none, none⟩

/-- `not feature_key` (as coded: `None` and the member with value 0 are falsy) / `feature_key is None` (repaired) -/
def unset (r : Rule) : Option Int → Bool
  | none => true
  | some v => !r.isNoneTest && v == 0

/-- `not feature_key or this_feature_key < feature_key` -/
def better (r : Rule) (cur : Option Int) (this : Int) : Bool :=
  unset r cur || (match cur with | some k => decide (this < k) | none => false)

/-- one iteration of `for qualifier, vals in feature_qualifiers.items()` -/
def step (r : Rule) (st : St) (e : Str × List Str) : R St :=
  if reMatchKeys r.fullMatch nameRegexKeys e.1 then
    match Gen.featureNameQualifiers.lookup (upperStr e.1) with
    | none => throw .keyError
    | some this =>
      if better r st.key this then
        match e.2 with
        | [] => throw .indexError
        | v :: _ => pure { st with name := some v, key := some this }
      else pure st
  else if reMatchKeys r.fullMatch idRegexKeys e.1 then
    match Gen.featureIdQualifiers.lookup (upperStr e.1) with
    | none => throw .keyError
    | some this =>
      if better r st.idKey this then
        match e.2 with
        | [] => throw .indexError
        | v :: _ => pure { st with id := some v, idKey := some this }
      else pure st
  else pure st

def loop (r : Rule) : St → QDict → R St
  | st, [] => pure st
  | st, e :: es => do let st' ← step r st e; loop r st' es

/-- truthiness of `Optional[str]` -/
def truthy : Option Str → Bool
  | none => false
  | some s => !s.isEmpty

/-- code points for which `str.isspace()` holds (ASCII) -/
def spaceCodes : List Nat := [9, 10, 11, 12, 13, 28, 29, 30, 31, 32]
def isSpace (c : Char) : Bool := spaceCodes.contains c.toNat
def notSpace (c : Char) : Bool := !isSpace c

/-- code points of `string.punctuation` -/
def punctCodes : List Nat := [33, 34, 35, 36, 37, 38, 39, 40, 41, 42, 43, 44, 45, 46, 47, 58, 59, 60, 61, 62, 63, 64,
  91, 92, 93, 94, 95, 96, 123, 124, 125, 126]
def isPunct (c : Char) : Bool := punctCodes.contains c.toNat

/-- `str.split()` (no argument): maximal runs of non-whitespace -/
def pySplitFuel : Nat → Str → List Str
  | 0, _ => []
  | n + 1, s =>
    match s.dropWhile isSpace with
    | [] => []
    | c :: t => (c :: t).takeWhile notSpace :: pySplitFuel n ((c :: t).dropWhile notSpace)

def pySplit (s : Str) : List Str := pySplitFuel (s.length + 1) s

/-- `str.strip(string.punctuation)` -/
def pyStripPunct (s : Str) : Str := ((s.dropWhile isPunct).reverse.dropWhile isPunct).reverse

def noteKey : Str := ['n', 'o', 't', 'e']

/-- `dict.get` by exact key -/
def dictGet (k : Str) : QDict → Option (List Str)
  | [] => none
  | e :: es => if e.1 = k then some e.2 else dictGet k es

/-- `extract_feature_name_id` -/
def extractWith (r : Rule) (qs : QDict) : R (Option Str × Option Str) := do
  let st ← loop r St.init qs
  if !truthy st.name && !truthy st.id then
    match dictGet noteKey qs with
    | some (v :: _) =>
      match pySplit v with
      | w :: _ => let t := pyStripPunct w; pure (some t, some t)
      | [] => pure (st.name, st.id)          -- IndexError is caught: `pass`
    | some [] => pure (st.name, st.id)       -- IndexError is caught: `pass`
    | none => pure (st.name, st.id)
  else pure (st.name, st.id)

def extract (qs : QDict) : R (Option Str × Option Str) := extractWith currentRule qs

/-! ### extract_feature_types -/

def isInfix (pat : Str) : Str → Bool
  | [] => pat.isEmpty
  | c :: cs => pat.isPrefixOf (c :: cs) || isInfix pat cs

/-- FEATURE_TYPE_IDENTIFIERS -/
def typeIdentifiers : List Str := [['_', 'c', 'l', 'a', 's', 's'], ['g', 'b', 'k', 'e', 'y'], ['_', 't', 'y', 'p', 'e']]

/-- `re.search(FEATURE_TYPE_IDENTIFIERS_REGEX, key)` with IGNORECASE -/
def typeRegexSearch (key : Str) : Bool := typeIdentifiers.any fun p => isInfix p (lowerStr key)

/-- `set.update(vals)` on a set kept as a duplicate-free list -/
def setUpdate (s : List Str) (vals : List Str) : List Str :=
  vals.foldl (fun a v => if a.contains v then a else a ++ [v]) s

def extractTypes (init : List Str) (qs : QDict) : List Str :=
  qs.foldl (fun acc e => if typeRegexSearch e.1 then setUpdate acc e.2 else acc) (setUpdate [] init)

/-! ### merge_qualifiers -/

/-- `merged[key].update(vals)` on a `defaultdict(set)` kept in insertion order -/
def dictUpdate : QDict → Str → List Str → QDict
  | [], k, vals => [(k, setUpdate [] vals)]
  | e :: es, k, vals => if e.1 = k then (e.1, setUpdate e.2 vals) :: es else e :: dictUpdate es k vals

/-- `sorted(...)` of strings -/
def sortStrs (l : List Str) : List Str := l.mergeSort strLe

def mergeQualifiers (a b : QDict) : QDict :=
  ((a ++ b).foldl (fun m e => dictUpdate m e.1 e.2) []).map fun e => (e.1, sortStrs e.2)

/-! ### filter_and_sort_qualifiers -/

/-- alternatives of BIOCANTOR_QUALIFIERS_REGEX (gff3/constants.py) -/
def biocantorQualifierTerms : List Str := [
  "ID".toList, "Name".toList, "Parent".toList, "feature_collection_id".toList, "feature_collection_name".toList,
  "feature_collection_type".toList, "feature_colletion_type".toList, "feature_id".toList, "feature_name".toList,
  "feature_type".toList, "gene_biotype".toList, "gene_id".toList, "gene_name".toList, "gene_symbol".toList,
  "gene_type".toList, "id".toList, "locus_tag".toList, "name".toList, "parent".toList, "product".toList,
  "protein_id".toList, "transcript_biotype".toList, "transcript_id".toList, "transcript_name".toList,
  "transcript_type".toList]

/-- `re.match(BIOCANTOR_QUALIFIERS_REGEX, key)`: an unanchored alternation matched at the start = PREFIX match
    (F-C11b); `exact = true` is the proposed `fullmatch`. -/
def reservedMatch (exact : Bool) (key : Str) : Bool :=
  biocantorQualifierTerms.any fun t => if exact then t == key else t.isPrefixOf key

/-- as coded today -/
def currentFilterExact : Bool := true   -- F-C11b repaired in /repo (245297c)

def filterSortWith (exact : Bool) (q : QDict) : Option QDict :=
  let r := (q.filter fun e => !reservedMatch exact e.1).map fun e => (e.1, sortStrs e.2)
  if r.isEmpty then none else some r

def filterSort (q : QDict) : Option QDict := filterSortWith currentFilterExact q

/-! ### locus-tag grouping -/

/-- `sorted(features, key=lambda f: f.qualifiers["locus_tag"])` (one-element lists compare as their strings) -/
def sortByTag (fs : List Feat) : List Feat := fs.mergeSort fun a b => strLe a.tag b.tag

/-- `itertools.groupby(features, key=tag)`: maximal runs of consecutive equal keys -/
def groupRuns : List Feat → List (Str × List Feat)
  | [] => []
  | f :: fs =>
    match groupRuns fs with
    | (t, g) :: rest => if t = f.tag then (t, f :: g) :: rest else (f.tag, [f]) :: (t, g) :: rest
    | [] => [(f.tag, [f])]

/-- the inner `for feature in gene_features` loop -/
def scanRun : Option Nat → List Nat → List Nat → List Feat → R (Option Nat × List Nat × List Nat)
  | g, ts, cs, [] => pure (g, ts, cs)
  | g, ts, cs, f :: fs =>
    match f.kind with
    | .gene => if g.isSome then throw .locusTag else scanRun (some f.uid) ts cs fs
    | .transcript => scanRun g (ts ++ [f.uid]) cs fs
    | .cds => scanRun g ts (cs ++ [f.uid]) fs
    | .other => scanRun g ts cs fs

def processRun (run : Str × List Feat) : R Group := do
  let (g, ts, cs) ← scanRun none [] [] run.2
  let ts' := if ts.length > 1 && cs.length > 1 then ts.take 1 else ts
  pure ⟨run.1, g, ts', cs⟩

/-- the outer `for locus_tag, gene_features in itertools.groupby(...)` loop (the first error aborts it) -/
def processRuns : List (Str × List Feat) → R (List Group)
  | [] => pure []
  | r :: rs => do
    let g ← processRun r
    let gs ← processRuns rs
    pure (g :: gs)

def groupSorted (fs : List Feat) : R (List Group) := processRuns (groupRuns fs)

/-- sort (LocusTagGenBankParser._extract_seqfeatures_from_seqrecords) + `_group_features_by_locus_tag` -/
def groupByLocusTag (fs : List Feat) : R (List Group) := groupSorted (sortByTag fs)

end BioCantor.Model.Qual
