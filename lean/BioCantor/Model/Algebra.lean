/-
  Hand-written mirror of the set algebra of inscripta/biocantor/location/location_impl.py
  (SingleInterval / CompoundInterval / _EmptyLocation) and of `Location.contains` (location.py), for
  locations WITH parents.  Every function follows the control flow of the Python method named in its
  doc comment; `raise X` is `throw Err.X`.  The code modelled is the pinned tree including the `fix:`
  commits (`end = max(ends)`, merge keeps the larger end, `gap_list()` of all-empty blocks is `[]`).

  A location is a pair `(Location, PKey)`: blocks/strand/Python type and the key of its parent
  (`[]` = no parent; `EmptyLocation` never has one).

  Structure: parent-less cores (`intersection`, `singleMinus`, …) and parent-aware entry points (`…P`).
  The parent gate sits at the head of `SingleInterval.has_overlap`; every nested call of the Python code
  evaluates it on the same two parents (blocks and spans inherit the parent of their location, and the gate
  is symmetric), so it is evaluated once at the entry point.  `union` still evaluates the gate inside
  `_union_single_interval` (after its own two-sided parent test, F-C19j repaired, the gate is `True` there); it is
  passed down explicitly to keep the mirror literal.
-/
import BioCantor.Model.Location
import BioCantor.Model.ParentKey
namespace BioCantor.Model
open BioCantor

/-- a location together with the key of its parent -/
abbrev PLoc := Location × PKey

/-- `inscripta.biocantor.DistanceType` -/
inductive DistType where
  | inner | outer | starts | ends
  deriving DecidableEq, Repr, Inhabited

/-! ### constructors with a parent -/

/-- `end > len(parent.sequence)` ⇒ `InvalidPositionException` (`SingleInterval.__init__`; for a compound the
    same test is made by `Parent.__init__` on the location handed to `reset_location`) -/
def checkEnd (e : Int) (par : PKey) : R Unit :=
  match parentSeqLen par with
  | some n => if e > n then throw .InvalidPosition else pure ()
  | none => pure ()

/-- `SingleInterval(start, end, strand, parent)` -/
def mkSingleP (s e : Int) (st : Strand) (par : PKey) : R PLoc := do
  let l ← mkSingle s e st
  checkEnd e par
  pure (l, par)

/-- `CompoundInterval(starts, ends, strand, parent)` -/
def mkCompoundP (bs : List Blk) (st : Strand) (par : PKey) : R PLoc := do
  let l ← mkCompoundLoc bs st
  checkEnd (maxEnd l.blocks) par
  pure (.compound l, par)

/-- `SingleInterval(start, end, strand)` on natural coordinates -/
def mkSingleN (b : Blk) (st : Strand) : R Location :=
  if b.1 ≤ b.2 then pure (.single b st) else throw .InvalidPosition

/-- attach the parent of a result; `EmptyLocation().parent` is `None` -/
def withPar (r : Location) (par : PKey) : PLoc :=
  match r with
  | .empty => (.empty, [])
  | _ => (r, par)

/-! ### has_overlap -/

/-- `has_overlap` of parent-compatible operands as the code is since F-C02c was repaired (d8ea142):
    `SingleInterval.has_overlap` answers `False` for an EmptyLocation argument before any strand is looked at
    (`if other.is_empty: return False`), and every other class reaches that test through its blocks / full span.
    (`Model.hasOverlap` of Model/Location.lean still mirrors the code before the repair on that corner.) -/
def hasOverlapN (a b : Location) (ms fs : Bool) : R Bool :=
  match b with
  | .empty => pure false
  | _ => hasOverlap a b ms fs

/-- `has_overlap(other, match_strand, full_span, strict_parent_compare)` of the three classes -/
def hasOverlapP (a b : PLoc) (ms fs strict : Bool) : R Bool := do
  if strict then requireParentsEq a.2 b.2
  match a.1 with
  | .empty => pure false
  | _ => if !parentGate a.2 b.2 then pure false else hasOverlapN a.1 b.1 ms fs

/-! ### intersection -/

/-- `SingleInterval._intersection_single_interval`: `(max starts, min ends)` -/
def isectBlk (a b : Blk) : Blk := (max a.1 b.1, min a.2 b.2)

/-- `SingleInterval.intersection(other: SingleInterval)` -/
def isectSS (a : Blk) (sa : Strand) (b : Blk) (sb : Strand) (ms : Bool) : R Location :=
  if ms ∧ sa ≠ sb then pure .empty
  else if !overlapKernel a b then pure .empty
  else mkSingleN (isectBlk a b) sa

/-- `CompoundInterval.intersection(other: SingleInterval)` → `_intersection_single_interval`.
    In the block loop `single_interval.has_overlap(other, ms)` is the kernel: the strand test was decided by
    the enclosing `has_overlap` (all blocks carry the strand of their location). -/
def isectCS (la : Loc) (b : Blk) (sb : Strand) (ms fs : Bool) : R Location := do
  if !(← hasOverlap (.compound la) (.single b sb) ms fs) then pure .empty
  else if fs then do
    let f ← fullSpan la
    isectSS f la.strand b sb ms
  else do
    let bs := la.blocks.filterMap (fun x => if overlapKernel x b then some (isectBlk x b) else none)
    let c ← mkCompoundLoc bs la.strand
    optimizeLoc true c

/-- `SingleInterval.intersection(other: CompoundInterval)`: `other.intersection(self)` then strand reset -/
def isectSC (a : Blk) (sa : Strand) (lb : Loc) (ms fs : Bool) : R Location := do
  if !(← hasOverlap (.single a sa) (.compound lb) ms fs) then pure .empty
  else do
    let r ← isectCS lb a sa ms fs
    let rs ← locStrand r
    if rs ≠ sa then resetStrand r sa else pure r

/-- `CompoundInterval.intersection(other: CompoundInterval)` → `_intersection_compound_interval`
    (the branch without cgranges; cgranges is not installed) -/
def isectCC (la lb : Loc) (ms fs : Bool) : R Location := do
  if !(← hasOverlap (.compound la) (.compound lb) ms fs) then pure .empty
  else if fs then do
    let f ← fullSpan la
    isectSC f la.strand lb ms true
  else if ms ∧ la.strand ≠ lb.strand then pure .empty
  else do
    let bs := la.blocks.flatMap (fun x =>
      if lb.blocks.any (fun y => overlapKernel y x) then
        lb.blocks.filterMap (fun y => if overlapKernel x y then some (isectBlk x y) else none)
      else [])
    let c ← mkCompoundLoc bs la.strand
    optimizeLoc true c

/-! #### the cgranges branch of `_intersection_compound_interval`

  Not executed in this sandbox (cgranges is not installed), modelled from the source and from the documented
  semantics of `cgranges.overlap(ctg, st, en)`: it reports the stored intervals `[s, e)` with `s < en ∧ st < e`.
  `Proofs/AlgCgranges.lean` proves the branch equal to the pairwise branch when no block is zero-length, and shows
  that with a zero-length block strictly inside a block of the other operand it raises EmptyLocationException
  (the tree reports the pair, `SingleInterval.intersection` answers EmptyLocation, whose `.start` raises). -/

/-- `tree.overlap("", other.start, other.end)` for one stored block `x` and one query block `y` -/
def cgrOverlaps (x y : Blk) : Bool := decide (x.1 < y.2) && decide (y.1 < x.2)

/-- `CompoundInterval._from_single_intervals_no_validation` on a list of intersection results -/
def fromResults (rs : List Location) (st : Strand) : R Loc := do
  let bs ← rs.mapM (fun r => match r with
    | .single b _ => (pure b : R Blk)
    | .empty => throw .EmptyLocation          -- `EmptyLocation.start`
    | .compound _ => throw .TypeError)        -- not produced by single ∩ single
  mkCompoundLoc bs st

/-- the `else:` branch (HAS_CGRANGES) of `_intersection_compound_interval` -/
def isectCCcgrTail (la lb : Loc) (ms : Bool) : R Location := do
  let pairs := lb.blocks.flatMap (fun y => (la.blocks.filter (fun x => cgrOverlaps x y)).map (fun x => (x, y)))
  let rs ← pairs.mapM (fun p => isectSS p.1 la.strand p.2 lb.strand ms)
  let c ← fromResults rs la.strand
  optimizeLoc true c

/-- `CompoundInterval.intersection(other: CompoundInterval)` when cgranges is installed -/
def isectCCcgr (la lb : Loc) (ms fs : Bool) : R Location := do
  if !(← hasOverlap (.compound la) (.compound lb) ms fs) then pure .empty
  else if fs then do
    let f ← fullSpan la
    isectSC f la.strand lb ms true
  else if ms ∧ la.strand ≠ lb.strand then pure .empty
  else isectCCcgrTail la lb ms

/-- `intersection(other, match_strand, full_span)` for operands whose parents passed the gate -/
def intersection (a b : Location) (ms fs : Bool) : R Location :=
  match a, b with
  | .empty, _ => pure .empty
  | .single x sa, .single y sb => isectSS x sa y sb ms
  | .single x sa, .compound lb => isectSC x sa lb ms fs
  | .single _ _, .empty => pure .empty      -- `has_overlap` is False for an EmptyLocation argument
  | .compound la, .single y sb => isectCS la y sb ms fs
  | .compound la, .compound lb => isectCC la lb ms fs
  | .compound _, .empty => pure .empty

/-- parent of a non-empty intersection: the receiver's, except where the code delegates to
    `other.intersection(self)` (single ∩ compound; compound ∩ compound with `full_span`) -/
def isectResultParent (a b : PLoc) (fs : Bool) : PKey :=
  match a.1, b.1 with
  | .single _ _, .compound _ => b.2
  | .compound _, .compound _ => if fs then b.2 else a.2
  | _, _ => a.2

def intersectionP (a b : PLoc) (ms fs strict : Bool) : R PLoc := do
  if strict then requireParentsEq a.2 b.2
  match a.1 with
  | .empty => pure (.empty, [])
  | _ =>
    if !parentGate a.2 b.2 then pure (.empty, [])
    else do
      let r ← intersection a.1 b.1 ms fs
      pure (withPar r (isectResultParent a b fs))

/-! ### union -/

/-- `SingleInterval._union_single_interval` (strands already equal); `gate` is the parent gate inside
    `self.has_overlap(other)` -/
def unionSS (a b : Blk) (st : Strand) (gate : Bool) : R Location :=
  if a.len = 0 then mkSingleN b st
  else if b.len = 0 then mkSingleN a st
  else if gate && overlapKernel a b then mkSingleN (min a.1 b.1, max a.2 b.2) st
  else mkCompound [a, b] st

/-- `CompoundInterval._union_single_interval` -/
def unionCS (la : Loc) (b : Blk) (gate : Bool) : R Location := do
  let ov := la.blocks.filter (fun x => gate && overlapKernel x b)
  let non := la.blocks.filter (fun x => !(gate && overlapKernel x b))
  if !ov.isEmpty then
    let s := ov.foldl (fun m x => min m x.1) b.1
    let e := ov.foldl (fun m x => max m x.2) b.2
    if s ≤ e then do
      let c ← mkCompoundLoc (non ++ [(s, e)]) la.strand
      optimizeLoc true c
    else throw .InvalidPosition
  else do
    let c ← mkCompoundLoc (non ++ [b]) la.strand
    optimizeLoc true c

/-- `X.union(other: SingleInterval)` for X single / compound / empty: strand test, two-sided parent test
    (`if self.parent or other.parent:`, F-C19j repaired), then the class-specific merge.  The result keeps the
    receiver's parent. -/
def unionWithSingle (l : PLoc) (b : Blk) (sb : Strand) (pb : PKey) : R PLoc := do
  let sl ← locStrand l.1
  if sl ≠ sb then throw .ValueError
  if !l.2.isEmpty || !pb.isEmpty then requireParentsEq l.2 pb
  let gate := parentGate l.2 pb
  match l.1 with
  | .single a _ => do let r ← unionSS a b sl gate; pure (withPar r l.2)
  | .compound la => do let r ← unionCS la b gate; pure (withPar r l.2)
  | .empty => throw .EmptyLocation

/-- `SingleInterval.__lt__` → `compare`: parent id (`""` when there is no parent), start, end
    (the strands are equal wherever this is used) -/
def singleLt (x y : Blk × PKey) : Bool :=
  let ix := (parentId x.2).getD ""
  let iy := (parentId y.2).getD ""
  if ix != iy then decide (ix < iy)
  else if x.1.1 != y.1.1 then decide (x.1.1 < y.1.1)
  else if x.1.2 != y.1.2 then decide (x.1.2 < y.1.2)
  else false

/-- `sorted(blocks)` (stable, uses `<` only) -/
def sortSingles (l : List (Blk × PKey)) : List (Blk × PKey) := l.mergeSort (fun x y => !singleLt y x)

/-- `CompoundInterval._merge_compound_blocks`: `reduce(lambda left, right: left.union(right), blocks)` -/
def mergeBlocks (blocks : List (Blk × PKey)) (st : Strand) : R PLoc :=
  match blocks with
  | [] => throw .TypeError
  | (b0, p0) :: rest =>
    rest.foldlM (fun (l : PLoc) r => unionWithSingle l r.1 st r.2) ((.single b0 st, p0) : PLoc)

/-- `union(other)` of the three classes -/
def unionP (a b : PLoc) : R PLoc :=
  match a.1, b.1 with
  | .empty, _ => throw .EmptyLocation
  | _, .single y sb => unionWithSingle a y sb b.2
  | .single x sa, .compound lb => do
      if sa ≠ lb.strand then throw .ValueError
      if !a.2.isEmpty || !b.2.isEmpty then requireParentsEq a.2 b.2
      unionWithSingle b x sa a.2          -- `other.union(self)`
  | .compound la, .compound lb => do
      if la.strand ≠ lb.strand then throw .ValueError
      if !a.2.isEmpty || !b.2.isEmpty then requireParentsEq a.2 b.2
      -- `_union_compound_interval`; after the two-sided parent test every block carries a compatible parent, so
      -- `SingleInterval.compare` never meets the keys `""` (no parent) and `None` (parent without id) together
      mergeBlocks (sortSingles (la.blocks.map (fun x => (x, a.2)) ++ lb.blocks.map (fun x => (x, b.2)))) la.strand
  | _, .empty => throw .EmptyLocation     -- `self.strand != other.strand` evaluates `EmptyLocation.strand`

/-- `optimize_blocks` with the parent carried along -/
def optimizeBlocksP (a : PLoc) : R PLoc := do
  let r ← optimizeBlocks a.1
  pure (withPar r a.2)

def optimizeAndCombineP (a : PLoc) : R PLoc := do
  let r ← optimizeAndCombine a.1
  pure (withPar r a.2)

/-- `_union_preserve_overlaps` -/
def unionPreserveP (a b : PLoc) : R PLoc :=
  match a.1 with
  | .empty => throw .EmptyLocation
  | _ => do
    let sa ← locStrand a.1
    let sb ← locStrand b.1
    if sa ≠ sb then throw .InvalidStrand
    if !a.2.isEmpty || !b.2.isEmpty then requireParentsEq a.2 b.2
    let c ← mkCompoundP (locBlocks a.1 ++ locBlocks b.1) sa a.2
    optimizeBlocksP c

/-- `merge_overlapping` -/
def mergeOverlappingP (a : PLoc) : R PLoc :=
  match a.1 with
  | .compound la =>
    if nonOverlap la.blocks then pure a     -- `is_overlapping` is False
    else mergeBlocks (la.blocks.map (fun x => (x, a.2))) la.strand
  | _ => pure a

/-! ### minus -/

/-- `block.contains(self, match_strand)` for two single intervals whose strands passed the enclosing test:
    `has_overlap` and `len(block ∩ self) == len(self)` -/
def containsBlk (x y : Blk) : Bool :=
  overlapKernel x y && ((isectBlk x y).2 - (isectBlk x y).1 == y.2 - y.1)

/-- the moving-window loop of `SingleInterval.minus`; `none` = `return EmptyLocation()`.
    `cs`/`ce` are `curr_result_block_start`/`_end`, `acc` the result blocks so far (reversed).
    A result block may have start > end here; the constructor refuses it afterwards. -/
def minusWalk (self : Blk) : List Blk → Nat → Nat → List Blk → Option (List Blk)
  | [], cs, ce, acc => some (acc.reverse ++ [(cs, ce)])
  | blk :: rest, cs, ce, acc =>
    if containsBlk blk self then none
    else if blk.2 ≤ cs then minusWalk self rest cs ce acc
    else if blk.1 ≥ ce then some (acc.reverse ++ [(cs, ce)])
    else if blk.1 ≥ cs ∧ blk.2 ≤ ce then minusWalk self rest blk.2 ce ((cs, blk.1) :: acc)
    else if blk.1 < cs ∧ blk.2 ≤ ce then minusWalk self rest blk.2 ce acc
    else some (acc.reverse ++ [(cs, blk.1)])

/-- `SingleInterval.minus(other, match_strand)` (parents gated) -/
def singleMinus (a : Blk) (sa : Strand) (b : Location) (ms : Bool) : R Location := do
  if !(← hasOverlapN (.single a sa) b ms false) then pure (.single a sa)
  else match minusWalk a (locBlocks b) a.1 a.2 [] with
    | none => pure .empty
    | some bs => do
      let c ← mkCompoundLoc bs sa
      optimizeLoc true c

/-- `CompoundInterval.minus(other, match_strand)` (parents gated) -/
def compoundMinus (la : Loc) (b : Location) (ms : Bool) : R Location := do
  if !(← hasOverlapN (.compound la) b ms false) then optimizeLoc true la
  else do
    let parts ← la.blocks.mapM (fun x => singleMinus x la.strand b ms)
    let rbs := parts.flatMap locBlocks
    match rbs with
    | [] => pure .empty
    | [x] => pure (.single x la.strand)
    | _ => do
      let c ← mkCompoundLoc rbs la.strand
      optimizeLoc true c

def minusP (a b : PLoc) (ms strict : Bool) : R PLoc := do
  if strict then requireParentsEq a.2 b.2
  match a.1 with
  | .empty => pure (.empty, [])
  | .single x sa =>
    if !parentGate a.2 b.2 then pure a
    else do let r ← singleMinus x sa b.1 ms; pure (withPar r a.2)
  | .compound la =>
    if !parentGate a.2 b.2 then do let r ← optimizeLoc true la; pure (withPar r a.2)
    else do let r ← compoundMinus la b.1 ms; pure (withPar r a.2)

/-! ### contains (location.py) -/

/-- `_full_span_interval` -/
def spanLoc : Location → R Location
  | .single b s => pure (.single b s)
  | .compound l => do let f ← fullSpan l; pure (.single f l.strand)
  | .empty => pure .empty

/-- `Location.contains(other, match_strand, full_span, strict_parent_compare)` -/
def containsP (a b : PLoc) (ms fs strict : Bool) : R Bool := do
  if strict then requireParentsEq a.2 b.2
  if !(← hasOverlapP a b ms fs false) then pure false
  else match b.1 with
    | .empty => throw .EmptyLocation      -- `other.reset_parent(None)`
    | _ =>
      if !fs then do
        let i ← intersection a.1 b.1 ms false
        pure (locLen i == locLen b.1)
      else do
        let sa ← spanLoc a.1
        let sb ← spanLoc b.1
        -- `contains` with its default flags on the two spans (parents reset to None)
        if !(← hasOverlap sa sb false false) then pure false
        else do
          let i ← intersection sa sb false false
          pure (locLen i == locLen sb)

/-! ### gaps -/

/-- consecutive pairs of `scan_blocks()`: `(min(ends), max(starts))` -/
def gapPairs : List Blk → List Blk
  | b1 :: b2 :: rest => (min b1.2 b2.2, max b1.1 b2.1) :: gapPairs (b2 :: rest)
  | _ => []

/-- `gap_list()`: the gaps (each a SingleInterval on the location's strand) in strand order -/
def gapList (l : Location) : R (List Blk) :=
  match l with
  | .single _ _ => pure []
  | .empty => pure []
  | .compound la => do
    match ← optimizeLoc false la with
    | .empty => pure []
    | .single _ _ => pure []          -- `scan_blocks` of a SingleInterval yields itself: no pair
    | .compound lo => do
      let bs ← scanBlocks lo
      let gs := gapPairs bs
      if gs.all (fun g => decide (g.1 ≤ g.2)) then pure gs else throw .InvalidPosition

/-- `gap_list()` as observed: every gap is a SingleInterval on the strand of the location -/
def gapListP (a : PLoc) : R (List (Strand × Blk)) := do
  let gs ← gapList a.1
  let st := match a.1 with
    | .single _ s => s
    | .compound l => l.strand
    | .empty => Strand.plus
  pure (gs.map (fun g => (st, g)))

/-- `gaps_location()` -/
def gapsLocationP (a : PLoc) : R PLoc :=
  match a.1 with
  | .single _ _ => pure (.empty, [])
  | .empty => pure (.empty, [])
  | .compound la => do
    let gs ← gapList a.1
    if gs.isEmpty then pure (.empty, [])
    else do
      let c ← mkCompoundLoc gs la.strand      -- `from_single_intervals`: stays a CompoundInterval
      pure (.compound c, a.2)

/-! ### extend -/

/-- `extend_absolute(extend_start, extend_end)` -/
def extendAbsoluteP (a : PLoc) (es ee : Int) : R PLoc :=
  match a.1 with
  | .empty => throw .EmptyLocation
  | .single b st =>
    if min es ee < 0 then throw .ValueError
    else mkSingleP (b.1 - es) (b.2 + ee) st a.2
  | .compound la => do
    if min es ee < 0 then throw .ValueError
    let s ← locStart a.1
    let e ← locEnd a.1
    let ext1 ← (if es > 0 then do
                  let lf ← mkSingleP (s - es) s la.strand a.2
                  unionP a lf
                else pure a)
    let ext2 ← (if ee > 0 then do
                  let rf ← mkSingleP e (e + ee) la.strand a.2
                  unionP ext1 rf
                else pure ext1)
    optimizeBlocksP ext2

/-- `extend_relative(extend_upstream, extend_downstream)` -/
def extendRelativeP (a : PLoc) (up down : Int) : R PLoc :=
  match a.1 with
  | .empty => throw .EmptyLocation
  | .single _ st => do
    assertDirectional st
    if st = .plus then extendAbsoluteP a up down else extendAbsoluteP a down up
  | .compound la => do
    assertDirectional la.strand
    if la.strand = .plus then extendAbsoluteP a up down else extendAbsoluteP a down up

/-! ### distance_to -/

/-- `abs(x - y)` -/
def absDiff (x y : Nat) : Nat := if x ≤ y then y - x else x - y

/-- `_distance_to_single_interval(…, INNER)` -/
def innerSS (x y : Blk) : Nat :=
  if overlapKernel x y then 0 else min (absDiff x.1 y.2) (absDiff x.2 y.1)

/-- the `distance is None or interval_distance < distance` loop -/
def minOver (f : Blk → Nat) : List Blk → Option Nat → Option Nat
  | [], d => d
  | b :: bs, d =>
    match d with
    | none => minOver f bs (some (f b))
    | some d0 => minOver f bs (some (if f b < d0 then f b else d0))

/-- INNER distance of one single interval to a location -/
def innerToLoc (x : Blk) : Location → R Nat
  | .single y _ => pure (innerSS x y)
  | .compound lb =>
    match minOver (fun y => innerSS x y) lb.blocks none with
    | some d => pure d
    | none => throw .Location
  | .empty => throw .EmptyLocation

/-- `distance_to(other, distance_type)` -/
def distanceP (a b : PLoc) (ty : DistType) : R Nat :=
  match a.1 with
  | .empty => throw .EmptyLocation
  | _ => do
    requireParentsEq a.2 b.2
    match ty with
    | .starts => do pure (absDiff (← locStart a.1) (← locStart b.1))
    | .ends => do pure (absDiff (← locEnd a.1) (← locEnd b.1))
    | .outer => do
      let sb ← locStart b.1
      let eb ← locEnd b.1
      let sa ← locStart a.1
      let ea ← locEnd a.1
      pure (max (absDiff sa eb) (absDiff ea sb))
    | .inner =>
      match a.1, b.1 with
      | _, .empty => throw .EmptyLocation
      | .single x _, other => innerToLoc x other
      | .compound la, other => do
        let ds ← la.blocks.mapM (fun x => innerToLoc x other)
        match ds.foldl (fun (d : Option Nat) v => match d with
                          | none => some v
                          | some d0 => some (if v < d0 then v else d0)) none with
        | some d => pure d
        | none => throw .Location
      | .empty, _ => throw .EmptyLocation

/-! ### `__eq__` / `__hash__` -/

/-- `self.parent != other.parent` negated: both `None`, or `Parent.__eq__` — `equals_except_location` plus equal
    `location` / `strand`, which hold here because start, end and strand were compared before (the location stored in
    the parent of a SingleInterval is that interval without parent) -/
def parentEq (a b : PKey) : Bool :=
  match a, b with
  | [], [] => true
  | _ :: _, _ :: _ => eqExceptLoc a b
  | _, _ => false

/-- `SingleInterval.__eq__` for two single intervals -/
def singleEq (x : Blk) (sa : Strand) (pa : PKey) (y : Blk) (sb : Strand) (pb : PKey) : Bool :=
  x.1 == y.1 && x.2 == y.2 && sa == sb && parentEq pa pb

/-- `__eq__` of the three classes (`type(other) is not …` ⇒ `False`; CompoundInterval: same number of blocks and
    `all(block1 == block2 …)`, every block being a SingleInterval on the strand and parent of its location) -/
def locEqP (a b : PLoc) : Bool :=
  match a.1, b.1 with
  | .single x sa, .single y sb => singleEq x sa a.2 y sb b.2
  | .compound la, .compound lb =>
    la.blocks.length == lb.blocks.length &&
      (la.blocks.zip lb.blocks).all (fun p => singleEq p.1 la.strand a.2 p.2 lb.strand b.2)
  | .empty, .empty => true
  | _, _ => false

/-- the id component of the hashed tuple: `self.parent.id if self.parent else 0` -/
def hashParent (p : PKey) : Option (Option String) :=
  match p with
  | [] => none
  | _ :: _ => some (parentId p)

/-- the tuple handed to `hash()`: `(start, end, strand, id)` / `(_starts, _ends, strand, id)` / `"EmptyLocation"`
    (equal tuples have equal hashes) -/
inductive HashKey where
  | single (s e : Nat) (st : Strand) (pid : Option (Option String))
  | compound (starts ends : List Nat) (st : Strand) (pid : Option (Option String))
  | empty
  deriving DecidableEq, Repr

/-- `__hash__` up to the final `hash()` of the tuple -/
def hashKeyP (a : PLoc) : HashKey :=
  match a.1 with
  | .single b st => .single b.1 b.2 st (hashParent a.2)
  | .compound l => .compound (l.blocks.map Prod.fst) (l.blocks.map Prod.snd) l.strand (hashParent a.2)
  | .empty => .empty

/-- what the `eqhash` operation observes: `a == b`, and "equal locations have equal hashes" -/
def eqHashP (a b : PLoc) : Bool × Bool := (locEqP a b, !locEqP a b || decide (hashKeyP a = hashKeyP b))

/-! ### reverse / strand / shift -/

/-- `reverse()` -/
def reverseP (a : PLoc) : R PLoc :=
  match a.1 with
  | .empty => pure a
  | .single b st => mkSingleP b.1 b.2 (strandReverse st) a.2
  | .compound la => do
    let s ← locStart a.1
    let e ← locEnd a.1
    mkCompoundP (la.blocks.map (fun b => (s + e - b.2, s + e - b.1))) (strandReverse la.strand) a.2

/-- `reverse_strand()` -/
def reverseStrandP (a : PLoc) : R PLoc :=
  match a.1 with
  | .empty => pure a
  | .single b st => mkSingleP b.1 b.2 (strandReverse st) a.2
  | .compound la => mkCompoundP la.blocks (strandReverse la.strand) a.2

/-- `reset_strand(new_strand)` -/
def resetStrandP (a : PLoc) (ns : Strand) : R PLoc :=
  match a.1 with
  | .empty => throw .EmptyLocation
  | .single b _ => mkSingleP b.1 b.2 ns a.2
  | .compound la => mkCompoundP la.blocks ns a.2

/-- `shift_position(shift)` -/
def shiftP (a : PLoc) (shift : Int) : R PLoc :=
  match a.1 with
  | .empty => throw .EmptyLocation
  | .single b st => mkSingleP (b.1 + shift) (b.2 + shift) st a.2
  | .compound la => do
    -- the constructor refuses negative block starts (F-C19g repaired)
    if la.blocks.any (fun b => (b.1 : Int) + shift < 0) then throw .InvalidPosition
    mkCompoundP (la.blocks.map (fun b => (((b.1 : Int) + shift).toNat, ((b.2 : Int) + shift).toNat))) la.strand a.2

end BioCantor.Model
