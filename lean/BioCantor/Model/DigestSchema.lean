/-
  C08 — the marshmallow-dataclass layer (io/models.py:26-447) as plain data: per model class the fields
  `XModel.Schema().load` knows, whether a field is required, whether `None` is accepted, and the shape of value the
  field deserialises (`schema`).  `accepts c d` = `XModel.Schema().load(d)` does not raise ValidationError:
  every key of `d` is a declared field (marshmallow's default `unknown = RAISE`), every required field is present,
  `None` only where `Optional[...]`, values of the declared shape, nested models recursively.

  The table is hand-written from the dataclasses; it is tied to the real schemas on every run by the `schemafields`
  operation (field name, required, allow_none of `XModel.Schema().fields`) and by the `schema` operation (accept /
  reject of generated and mutated dictionaries).  marshmallow's type coercions (e.g. the string "5" for an Integer
  field) are outside the model: generated values have the declared Python types.
-/
import BioCantor.Model.DigestDict
namespace BioCantor.Model.Digest
open BioCantor
open BioCantor.Spec.Qual (Str strLt strLe)
open BioCantor.Spec.Digest

/-- the model classes of io/models.py (CDSInterval has none) -/
inductive MCls where
  | tx | feat | var | gene | fc | vc | ac | parent
  deriving DecidableEq, Repr

/-- value shapes of the marshmallow fields -/
inductive FType where
  | int | ints | str | strs | bool | uuid
  | strand | frames | biotype | alphabet | seqType
  | quals
  | nestedList (c : MCls)
  | nestedOne (c : MCls)
  deriving DecidableEq, Repr

structure Field where
  key : Key
  ty : FType
  required : Bool
  allowNone : Bool
  deriving Repr

/-- `Optional[T] = None` -/
def opt (k : Key) (t : FType) : Field := ⟨k, t, false, true⟩
/-- `T` without default -/
def req (k : Key) (t : FType) : Field := ⟨k, t, true, false⟩

def schema : MCls → List Field
  | .tx => [req .exon_starts .ints, req .exon_ends .ints, req .strand .strand, opt .cds_starts .ints,
      opt .cds_ends .ints, opt .cds_frames .frames, opt .qualifiers .quals, opt .is_primary_tx .bool,
      opt .transcript_id .str, opt .protein_id .str, opt .product .str, opt .transcript_symbol .str,
      opt .transcript_type .biotype, opt .sequence_name .str, opt .sequence_guid .uuid,
      opt .transcript_interval_guid .uuid, opt .transcript_guid .uuid]
  | .feat => [req .interval_starts .ints, req .interval_ends .ints, req .strand .strand, opt .qualifiers .quals,
      opt .sequence_name .str, opt .sequence_guid .uuid, opt .feature_interval_guid .uuid, opt .feature_guid .uuid,
      opt .feature_types .strs, opt .feature_name .str, opt .feature_id .str, opt .is_primary_feature .bool]
  | .var => [req .start .int, req .end .int, req .sequence .str, req .variant_type .str, opt .phase_block .int,
      opt .variant_interval_guid .uuid, opt .variant_guid .uuid, opt .variant_name .str, opt .variant_id .str,
      opt .qualifiers .quals]
  | .gene => [req .transcripts (.nestedList .tx), opt .gene_id .str, opt .gene_symbol .str, opt .gene_type .biotype,
      opt .locus_tag .str, opt .qualifiers .quals, opt .sequence_name .str, opt .sequence_guid .uuid,
      opt .gene_guid .uuid]
  | .fc => [req .feature_intervals (.nestedList .feat), opt .feature_collection_name .str,
      opt .feature_collection_id .str, opt .locus_tag .str, opt .feature_collection_type .str,
      opt .sequence_name .str, opt .sequence_guid .uuid, opt .feature_collection_guid .uuid, opt .qualifiers .quals]
  | .vc => [req .variant_intervals (.nestedList .var), opt .variant_collection_name .str,
      opt .variant_collection_id .str, opt .sequence_name .str, opt .sequence_guid .uuid,
      opt .variant_collection_guid .uuid, opt .qualifiers .quals]
  | .ac => [⟨.feature_collections, .nestedList .fc, false, false⟩, ⟨.genes, .nestedList .gene, false, false⟩,
      ⟨.variant_collections, .nestedList .vc, false, false⟩, opt .name .str, opt .id .str, opt .sequence_name .str,
      opt .sequence_guid .uuid, opt .sequence_path .str, opt .qualifiers .quals, opt .start .int, opt .end .int,
      opt .completely_within .bool, opt .parent_or_seq_chunk_parent (.nestedOne .parent)]
  | .parent => [opt .seq .str, opt .alphabet .alphabet, opt .sequence_name .str, opt .type .seqType, opt .start .int,
      opt .end .int, opt .strand .strand]

/-- lookup of a declared field by `Key` -/
def findField (k : Key) : List Field → Option Field
  | [] => none
  | f :: fs => if f.key = k then some f else findField k fs

/-- the declared field with this key -/
def fieldOfKey (c : MCls) (k : Key) : Option Field := findField k (schema c)

/-- the declared field with this dictionary key (as text) -/
def fieldOf (c : MCls) (k : Str) : Option Field := (schema c).find? fun f => f.key.str == k

def isIntVal : PyVal → Bool
  | .int _ => true
  | _ => false
def isStrVal : PyVal → Bool
  | .str _ => true
  | _ => false
/-- a qualifier value: `Union[str, int, bool, float]` -/
def isQualAtom : PyVal → Bool
  | .str _ => true
  | .int _ => true
  | .bool _ => true
  | .obj _ _ => true
  | _ => false
def isFrameName : PyVal → Bool
  | .str n => (frameOfName n).isSome
  | _ => false
def isQualEntry (e : Str × PyVal) : Bool :=
  match e.2 with
  | .list vs => vs.all isQualAtom
  | _ => false

/-- shape check of a non-null, non-nested value -/
def atomOk : FType → PyVal → Bool
  | .int, v => isIntVal v
  | .ints, .list vs => vs.all isIntVal
  | .str, v => isStrVal v
  | .strs, .list vs => vs.all isStrVal
  | .bool, .bool _ => true
  | .uuid, .uuid _ => true
  | .strand, .str n => (strandOfName n).isSome
  | .frames, .list vs => vs.all isFrameName
  | .biotype, .str n => (biotypeOfName n).isSome
  | .alphabet, .str n => (Gen.alphabets.lookup n).isSome
  | .seqType, .str _ => true
  | .quals, .dict kvs => kvs.all isQualEntry
  | _, _ => false

mutual
/-- `XModel.Schema().load(v)` succeeds -/
def accepts (c : MCls) : PyVal → Bool
  | .dict kvs => entriesOk c kvs && (schema c).all fun f => !f.required || (kvs.any fun e => e.1 == f.key.str)
  | _ => false
def entriesOk (c : MCls) : List (Str × PyVal) → Bool
  | [] => true
  | (k, v) :: rest =>
    (match fieldOf c k with
     | none => false                                       -- unknown field
     | some f => valueOk f.ty f.allowNone v) && entriesOk c rest
def valueOk (t : FType) (allowNone : Bool) : PyVal → Bool
  | .none => allowNone
  | .list vs =>
    (match t with
     | .nestedList c => acceptsAll c vs
     | t => atomOk t (.list vs))
  | .dict kvs =>
    (match t with
     | .nestedOne c => accepts c (.dict kvs)
     | t => atomOk t (.dict kvs))
  | v => atomOk t v
def acceptsAll (c : MCls) : List PyVal → Bool
  | [] => true
  | v :: vs => accepts c v && acceptsAll c vs
end

/-- an unknown field is refused; a declared one must hold a value of its shape (what `entriesOk` does per entry) -/
def optFieldOk : Option Field → PyVal → Bool
  | none, _ => false
  | some f, v => valueOk f.ty f.allowNone v

/-- the field facts the `schemafields` operation compares with `XModel.Schema().fields` -/
def fieldFacts (c : MCls) : List (Str × Bool × Bool) := (schema c).map fun f => (f.key.str, f.required, f.allowNone)

end BioCantor.Model.Digest
