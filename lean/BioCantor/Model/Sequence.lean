/-
  Hand-written mirror of the sequence side of BioCantor:
    * `SingleInterval.extract_sequence`, `CompoundInterval.extract_sequence`, `_EmptyLocation.extract_sequence`
      (location/location_impl.py),
    * `Sequence.__getitem__`, `Sequence.reverse_complement`, `Sequence.append` (sequence/sequence.py),
    * the parts of `Parent` they touch: `Parent.strand`, `Parent.reset_location` (parent/parent.py).
  Every function follows the control flow of the Python method named in its doc comment.

  World: one root parent `Parent(id="chr", sequence=Sequence(P, alphabet))`; every location lives on it.
  Sequences are `List Char`; the alphabet is given by its member NAME; complement maps and alphabet flags are
  the GENERATED tables (`Gen.complementMaps`, `Gen.nucleotideAlphabetFlags`).
  A derived `Sequence` object is its text plus its `parent` reduced to what the methods read:
  `_strand` and `location` (id/type/sequence/grand-parent of these parents are the same for all objects of a
  world, so `equals_except_location` between them is `True`).

  Python truthiness that decides answers: a `Location` has `__len__`, so `if location:` is `len(location) > 0`;
  `Strand` members and `Parent` objects are always truthy.
-/
import BioCantor.Model.Location
import BioCantor.Model.Algebra
import BioCantor.Gen.Tables
namespace BioCantor.Model.Sq
open BioCantor BioCantor.Model

abbrev Str := List Char

/-! ### complement (sequence/alphabet.py, Sequence.reverse_complement) -/

/-- head of `reverse_complement`: `if not self.alphabet.is_nucleotide_alphabet(): raise AlphabetError`, then
    `rc_map = ALPHABET_TO_NUCLEOTIDE_COMPLEMENT[self.alphabet]`.
    (A flagged alphabet without a map would be a KeyError in Python; `Props/C15.alphabets_complete` proves that
    this cannot happen for the generated tables, the branch is kept only for totality.) -/
def rcMap (alph : List Char) : R (List (Char × Char)) :=
  match Gen.nucleotideAlphabetFlags.lookup alph with
  | none => throw .NotImplemented
  | some false => throw .Alphabet
  | some true =>
    match Gen.complementMaps.lookup alph with
    | some m => pure m
    | none => throw .Alphabet

/-- `"".join(rc_map[c] for c in …)` with `KeyError ↦ AlphabetError` -/
def compData (m : List (Char × Char)) : Str → R Str
  | [] => pure []
  | c :: cs =>
    match m.lookup c with
    | none => throw .Alphabet
    | some d => do let rest ← compData m cs; pure (d :: rest)

/-- the text of `Sequence.reverse_complement()` -/
def rcData (alph : List Char) (s : Str) : R Str := do
  let m ← rcMap alph
  compData m s.reverse

/-! ### extract_sequence -/

/-- `str(self.parent.sequence)[self.start : self.end]` -/
def sliceP (P : Str) (b : Blk) : Str := (P.drop b.1).take (b.2 - b.1)

/-- `SingleInterval.extract_sequence` -/
def extractSingle (P : Str) (alph : List Char) (b : Blk) (st : Strand) : R Str :=
  if st = .plus then pure (sliceP P b)
  else if st = .minus then rcData alph (sliceP P b)
  else throw .InvalidStrand

/-- the generator `(interval.extract_sequence() for interval in …)` -/
def extractBlocks (P : Str) (alph : List Char) (st : Strand) : List Blk → R (List Str)
  | [] => pure []
  | b :: bs => do
    let s ← extractSingle P alph b st
    let rest ← extractBlocks P alph st bs
    pure (s :: rest)

/-- `reduce(lambda seq1, seq2: seq1.append(seq2), seqs)` on parent-less sequences of one alphabet:
    concatenation; `reduce` of an empty iterable is a TypeError -/
def reduceAppend : List Str → R Str
  | [] => throw .TypeError
  | s :: ss => pure (ss.foldl (fun acc x => acc ++ x) s)

/-- `CompoundInterval.extract_sequence` -/
def extractCompound (P : Str) (alph : List Char) (l : Loc) : R Str := do
  assertDirectional l.strand
  let bs := if l.strand = .plus then l.blocks else l.blocks.reverse
  let seqs ← extractBlocks P alph l.strand bs
  reduceAppend seqs

/-- `location.extract_sequence()` -/
def extract (P : Str) (alph : List Char) : Location → R Str
  | .single b st => extractSingle P alph b st
  | .compound l => extractCompound P alph l
  | .empty => throw .EmptyLocation

/-! ### constructors on the root parent -/

/-- `SingleInterval(s, e, strand, parent=root)` : own check, then `end > len(parent.sequence)` -/
def mkSingleOn (P : Str) (s e : Int) (st : Strand) : R Location := do
  let l ← mkSingle s e st
  if e > P.length then throw .InvalidPosition
  pure l

/-- `CompoundInterval(starts, ends, strand, parent=root)`; `Parent.__init__` (inside `reset_location`) checks
    `location.end > len(sequence)` -/
def mkCompoundOn (P : Str) (bs : List Blk) (st : Strand) : R Location := do
  let l ← mkCompoundLoc bs st
  if maxEnd l.blocks > P.length then throw .InvalidPosition
  pure (.compound l)

/-! ### Parent bookkeeping -/

/-- what the sequence methods read of a `Parent`: `_strand` and `location` -/
structure Par where
  strand : Option Strand
  loc : Option Location
  deriving DecidableEq, Repr

/-- a `Sequence` object: text and parent -/
structure SeqObj where
  data : Str
  par : Option Par
  deriving DecidableEq, Repr

/-- `if location:` -/
def truthy : Option Location → Bool
  | some l => decide (0 < locLen l)
  | none => false

/-- `Parent.strand` property: `_strand`, overridden by the location's strand when `if self.location:` -/
def parStrand (p : Par) : R (Option Strand) :=
  match p.loc with
  | some l => if 0 < locLen l then do let s ← locStrand l; pure (some s) else pure p.strand
  | none => pure p.strand

/-- `Parent.reset_location(location)`: `strand = location.strand if location else None` -/
def resetLocation (loc : Option Location) : R Par :=
  match loc with
  | some l => if 0 < locLen l then do let s ← locStrand l; pure ⟨some s, some l⟩ else pure ⟨none, some l⟩
  | none => pure ⟨none, none⟩

/-- the object the harness starts from: `Sequence(str(l.extract_sequence()), alphabet, parent=Parent(location=l))` -/
def seqOf (P : Str) (alph : List Char) (l : Location) : R SeqObj := do
  let d ← extract P alph l
  pure ⟨d, some ⟨none, some l⟩⟩

/-! ### Python slicing (CPython `PySlice_AdjustIndices` + `range`) -/

/-- clamp of one bound -/
def adjust (x len lo hi : Int) : Int :=
  if x < 0 then (if x + len < lo then lo else x + len)
  else (if x > hi then hi else x)

/-- `slice(a, b, 1).indices(n)[0]` : the start bound clamped into `[0, n]` (`None` ↦ 0, negative counts from the end) -/
def startOf (n : Nat) (a : Option Int) : Int :=
  match a with | some x => adjust x n 0 n | none => 0

/-- `slice(a, b, 1).indices(n)[1]` : the stop bound clamped into `[0, n]` (`None` ↦ n) -/
def stopOf (n : Nat) (b : Option Int) : Int :=
  match b with | some x => adjust x n 0 n | none => n

/-- indices selected by `slice(a, b, c)` on a sequence of length `n`; ValueError for step 0 -/
def sliceIndices (n : Nat) (a b c : Option Int) : R (List Nat) :=
  let step : Int := match c with | some s => s | none => 1
  let len : Int := n
  if step = 0 then throw .ValueError
  else if step > 0 then
    let start := startOf n a
    let stop := stopOf n b
    let cnt := if stop ≤ start then 0 else ((stop - start + step - 1) / step).toNat
    pure ((List.range cnt).map fun (i : Nat) => (start + step * (i : Int)).toNat)
  else
    let start := match a with | some x => adjust x len (-1) (len - 1) | none => len - 1
    let stop := match b with | some x => adjust x len (-1) (len - 1) | none => -1
    let cnt := if start ≤ stop then 0 else ((start - stop + (-step) - 1) / (-step)).toNat
    pure ((List.range cnt).map fun (i : Nat) => (start + step * (i : Int)).toNat)

/-- characters at the selected indices (all in range by construction) -/
def pick (s : Str) : List Nat → Str
  | [] => []
  | i :: is => match s[i]? with
    | some c => c :: pick s is
    | none => pick s is

/-! ### Sequence.__getitem__ -/

/-- the parent of `self[key]` once the relative bounds are known:
    `new_parent = self.parent.reset_location(self.parent.location.relative_interval_to_parent_location(rs, re, PLUS))` -/
def childPar (par : Par) (l : Location) (rs re : Int) : R Par := do
  let l' ← relInterval l rs re .plus
  resetLocation (some l')

/-- `Sequence.__getitem__(slice(a, b, c))`.  Text: Python slicing.  When the parent has a location:
    `rel_start, rel_end, step = key.indices(len(self))`; a step other than 1 is refused (ValueError);
    `rel_end = max(rel_start, rel_end)` (an empty slice records a zero-length location at `rel_start`). -/
def getSlice (x : SeqObj) (a b c : Option Int) : R SeqObj := do
  let n := x.data.length
  let idx ← sliceIndices n a b c
  let sub := pick x.data idx
  match x.par with
  | none => pure ⟨sub, none⟩
  | some par =>
    match par.loc with
    | none => pure ⟨sub, some par⟩                     -- `self.parent.location is None`: parent kept
    | some l => do
      let step : Int := match c with | some s => s | none => 1
      if step ≠ 1 then throw .ValueError
      let rs := startOf n a
      let re := max rs (stopOf n b)
      let np ← childPar par l rs re
      pure ⟨sub, some np⟩

/-- `Sequence.__getitem__(i)` for an int: `Seq.__getitem__` raises IndexError outside `[-n, n)`;
    the location uses `(i, i + 1)` unchanged -/
def getIndex (x : SeqObj) (i : Int) : R SeqObj := do
  let n : Int := x.data.length
  if i < -n ∨ i ≥ n then throw .ValueError          -- IndexError (Python sequence protocol)
  let j := if i < 0 then i + n else i
  let sub := pick x.data [j.toNat]
  match x.par with
  | none => pure ⟨sub, none⟩
  | some par =>
    match par.loc with
    | none => pure ⟨sub, some par⟩
    | some l => do
      let np ← childPar par l i (i + 1)
      pure ⟨sub, some np⟩

/-! ### Sequence.reverse_complement -/

/-- `location.reverse_strand()` -/
def reverseStrand (l : Location) : R Location := do
  let s ← locStrand l
  resetStrand l (strandReverse s)

/-- `Sequence.reverse_complement()` -/
def reverseComplement (alph : List Char) (x : SeqObj) : R SeqObj := do
  let m ← rcMap alph
  let locOnParent : Option Location := match x.par with | some p => p.loc | none => none
  let location ← (if truthy locOnParent then
                    match locOnParent with
                    | some l => do let r ← reverseStrand l; pure (some r)
                    | none => pure none
                  else pure none : R (Option Location))
  let parentStrand ← (match x.par with | some p => parStrand p | none => pure none : R (Option Strand))
  let strand := parentStrand.map strandReverse
  let d ← compData m x.data.reverse
  -- `Parent(strand=strand, location=location) if strand or location else None`
  let rcPar : Option Par := if strand.isSome || truthy location then some ⟨strand, location⟩ else none
  pure ⟨d, rcPar⟩

/-! ### Sequence.append -/

/-- `location.start` / `location.end` -/
def locStartEnd (l : Location) : R (Nat × Nat) := do
  let s ← locStart l
  let e ← locEnd l
  pure (s, e)

/-- key of the root parent for the union of two locations on it -/
def rootKey (P : Str) : PKey := [(some "chr", none, some P)]

/-- `Sequence.append(other)` with `data_only=False`; same alphabet, `sequence_type` None on both -/
def append (P : Str) (x y : SeqObj) : R SeqObj := do
  let d := x.data ++ y.data
  match x.par with
  | none =>
    -- `if self.parent or other.parent:` (repair 8efbbce): a parent on one side only is refused
    match y.par with
    | none => pure ⟨d, none⟩
    | some _ => throw .ValueError
  | some px =>
    match y.par with
    | none => throw .ValueError                      -- `equals_except_location(None)` is False
    | some py => do
      let sx ← parStrand px
      let sy ← parStrand py
      if sx = some .unstranded ∨ sx ≠ sy then throw .ValueError
      if truthy px.loc ∧ truthy py.loc then
        match px.loc, py.loc with
        | some lx, some ly => do
          let (xs, xe) ← locStartEnd lx
          let (ys, ye) ← locStartEnd ly
          if sx = some .plus ∧ xe > ys then throw .ValueError
          if sx = some .minus ∧ xs < ye then throw .ValueError
          let u ← unionP (lx, rootKey P) (ly, rootKey P)
          let np ← resetLocation (some u.1)
          pure ⟨d, some np⟩
        | _, _ => throw .TypeError                   -- unreachable: both truthy
      else do
        let np ← resetLocation none
        pure ⟨d, some np⟩

/-! ### programs (driver / theorems) -/

/-- `l.reverse_strand().extract_sequence()` -/
def revStrandExtract (P : Str) (alph : List Char) (l : Location) : R Str := do
  let r ← reverseStrand l
  extract P alph r

/-- identity-like re-constructions of a location (each builds a NEW location object in the library) -/
inductive Xform where
  | resetStrand (s : Strand)      -- `reset_strand(s)`
  | rev2                          -- `reverse_strand().reverse_strand()`
  | resetParent                   -- `reset_parent(same parent)`
  | optimize                      -- `optimize_blocks()`
  | shift0                        -- `shift_position(0)`
  deriving Repr

/-- the re-constructed location (on the root parent) -/
def xform (P : Str) : Xform → Location → R Location
  | .resetStrand s, l => resetStrand l s
  | .rev2, .empty => pure .empty                       -- `_EmptyLocation.reverse_strand` returns self
  | .rev2, l => do let r ← reverseStrand l; reverseStrand r
  | .resetParent, .single b st => mkSingleOn P b.1 b.2 st
  | .resetParent, .compound c => mkCompoundOn P c.blocks c.strand
  | .resetParent, .empty => throw .EmptyLocation
  | .optimize, l => optimizeBlocks l
  | .shift0, .single b st => mkSingleOn P ((b.1 : Int) + 0) ((b.2 : Int) + 0) st
  | .shift0, .compound c => mkCompoundOn P c.blocks c.strand
  | .shift0, .empty => throw .EmptyLocation

/-- the re-constructed location and the answer of its `extract_sequence()` -/
def xformExtract (P : Str) (alph : List Char) (t : Xform) (l : Location) : R (Location × R Str) := do
  let r ← xform P t l
  pure (r, extract P alph r)

/-- sequences of the two halves `relint(l, 0, k, +)` and `relint(l, k, len(l), +)` -/
def splitExtract (P : Str) (alph : List Char) (l : Location) (k : Int) : R (Str × Str) := do
  let m1 ← relInterval l 0 k .plus
  let m2 ← relInterval l k (locLen l) .plus
  let s1 ← extract P alph m1
  let s2 ← extract P alph m2
  pure (s1, s2)

inductive Step where
  | sl (a b c : Option Int)
  | ix (i : Int)
  | rc
  deriving Repr

def runStep (alph : List Char) (x : SeqObj) : Step → R SeqObj
  | .sl a b c => getSlice x a b c
  | .ix i => getIndex x i
  | .rc => reverseComplement alph x

def runProg (alph : List Char) : SeqObj → List Step → R SeqObj
  | x, [] => pure x
  | x, s :: rest => do let y ← runStep alph x s; runProg alph y rest

end BioCantor.Model.Sq
