/-
  Hand-written mirror of the GenBank WRITER as data:
    inscripta/biocantor/io/genbank/writer.py   collection_to_genbank (the loop), gene_to_feature,
                                               transcripts_to_feature, add_cds_feature, feature_intervals_to_features
    inscripta/biocantor/gene/{gene,transcript,feature}.py   export_qualifiers
    inscripta/biocantor/location/location_impl.py           to_biopython (block order of the part list)
  Each function follows the Python control flow statement by statement.  A written feature is a
  `Spec.Gb.Rec` = (type, strand, parts in the order handed to Biopython, qualifiers).

  Python facts that decide answers and are therefore explicit:
    * a qualifier dict is `Dict[str, Set[str]]` in insertion order; `d[k].add(v)` / `d[k] = [v]` keep the position
      of an existing key and append a new one; value SETS are reported sorted by the drivers;
    * `if not val` is false for `None` and for the empty string;
    * `Biotype[name].name` is the FIRST name declared with that value (aliases collapse) — `Gen.biotypes`;
    * `max(strands, key=strands.count)` is the first strand with the greatest count;
    * `SeqFeature(location, strand=s)` overwrites the strand of every part;
    * `Location.to_biopython()` lists the blocks in ascending order for BOTH strands; Biopython expects the parts of a
      minus-strand location 5'→3' (descending) — the writer reverses them since 3396281 (F-C12b); switch
      `currentMinusPartsDescending` (`false` = the code before that fix);
    * `add_cds_feature` writes `/codon_start` since bc2bc66 (F-C12a); switch `currentWriterEmitsCodonStart`.

  Only the vocabulary (`Spec.Gb.*` structures, `Spec.Qual.QDict`) is imported from Spec.
-/
import BioCantor.Base
import BioCantor.Gen.Tables
import BioCantor.Spec.Genbank
import BioCantor.Model.CDS
namespace BioCantor.Model.Gb
open BioCantor
open BioCantor.Spec.Qual (Str QDict)
open BioCantor.Spec.Gb (Flavor Mode Tx Gene FeatI FColl Item Coll Rec)

/-- which variant of the two defective places is modelled -/
structure WriterRule where
  /-- `add_cds_feature` writes `/codon_start = start frame + 1` (proposed patch for F-C12a) -/
  emitsCodonStart : Bool
  /-- `to_biopython` lists the parts of a minus-strand location in descending order (proposed patch for F-C12b) -/
  minusPartsDescending : Bool
  deriving DecidableEq, Repr

/-- the code in /repo today: flip when the patches are applied -/
def currentWriterEmitsCodonStart : Bool := true    -- F-C12a repaired in /repo (bc2bc66)
def currentMinusPartsDescending : Bool := true
def currentWriterRule : WriterRule := ⟨currentWriterEmitsCodonStart, currentMinusPartsDescending⟩
def WriterRule.repaired : WriterRule := ⟨true, true⟩

structure Cfg where
  flavor : Flavor
  forceStrand : Bool
  updateTranslations : Bool
  rule : WriterRule
  deriving Repr

/-! ### dictionaries of sets -/

def setAdd (vs : List Str) (v : Str) : List Str := if vs.contains v then vs else vs ++ [v]
def setOf (vs : List Str) : List Str := vs.foldl setAdd []

/-- `_import_qualifiers_from_list`: `{key: {str(x) for x in vals}}` -/
def importQuals (q : QDict) : QDict := q.map fun e => (e.1, setOf e.2)

/-- `if key not in d: d[key] = set()` ; `d[key].add(v)` -/
def dictAdd : QDict → Str → Str → QDict
  | [], k, v => [(k, [v])]
  | e :: es, k, v => if e.1 = k then (e.1, setAdd e.2 v) :: es else e :: dictAdd es k v

/-- `d[key] = vals` -/
def dictSet : QDict → Str → List Str → QDict
  | [], k, vs => [(k, vs)]
  | e :: es, k, vs => if e.1 = k then (e.1, vs) :: es else e :: dictSet es k vs

/-- `del d[key]` (only executed when the key is present) -/
def dictDel (d : QDict) (k : Str) : QDict := d.filter fun e => e.1 ≠ k

/-- truthiness of an `Optional[str]` -/
def truthy : Option Str → Option Str
  | some s => if s.isEmpty then none else some s
  | none => none

/-- the loop `for key, val in [...]: if not val: continue; qualifiers[key].add(val)` -/
def addIds (d : QDict) (ids : List (Str × Option Str)) : QDict :=
  ids.foldl (fun acc kv => match truthy kv.2 with | some v => dictAdd acc kv.1 v | none => acc) d

/-! ### biotypes -/

def unknownBiotype : Str := "unspecified".toList

/-- `Biotype[name].name`: first declared name with the same value; `none` = KeyError at construction -/
def biotypeName (n : Str) : Option Str :=
  match Gen.biotypes.lookup n with
  | none => none
  | some v => (Gen.biotypes.find? fun e => e.2 == v).map (·.1)

/-- `x.name if x else UNKNOWN_BIOTYPE` for an attribute built by `Biotype[vals[...]] if vals[...] else None` -/
def biotypeQual (ty : Option Str) : R Str :=
  match truthy ty with
  | none => pure unknownBiotype
  | some n => match biotypeName n with
    | some c => pure c
    | none => throw .ValueError          -- KeyError in `from_dict`; never requested by the harness

/-- values of `TranscriptFeatures` -/
def transcriptFeatureValues : List Str :=
  ["mRNA".toList, "ncRNA".toList, "tRNA".toList, "rRNA".toList, "misc_RNA".toList, "tmRNA".toList]

/-! ### export_qualifiers -/

def geneExportQuals (g : Gene) : R QDict := do
  let ty ← biotypeQual g.geneType
  pure (addIds (importQuals g.quals)
    [("gene_id".toList, g.geneId), ("gene_name".toList, g.geneSymbol), ("gene_biotype".toList, some ty),
     ("locus_tag".toList, g.locusTag)])

def txExportQuals (t : Tx) : R QDict := do
  let ty ← biotypeQual t.txType
  pure (addIds (importQuals t.quals)
    [("transcript_id".toList, t.txId), ("transcript_name".toList, t.txSymbol),
     ("transcript_biotype".toList, some ty), ("protein_id".toList, t.proteinId)])

def featExportQuals (x : FeatI) : QDict :=
  let q := addIds (importQuals x.quals) [("feature_name".toList, x.featName), ("feature_id".toList, x.featId)]
  if x.types.isEmpty then q else dictSet q "feature_type".toList (setOf x.types)

/-- `set.union(*[x.feature_types for x in feature_intervals])` -/
def fcTypes (f : FColl) : List Str := setOf (f.feats.flatMap (·.types))

def fcExportQuals (f : FColl) : QDict :=
  let q := addIds (importQuals f.quals)
    [("feature_collection_id".toList, f.id), ("feature_collection_name".toList, f.name),
     ("locus_tag".toList, f.locusTag), ("feature_collection_type".toList, f.type)]
  if (fcTypes f).isEmpty then q else dictSet q "feature_type".toList (fcTypes f)

/-! ### locations -/

/-- `max(strands, key=strands.count)`: the first element whose count is maximal -/
def majorityStrand : List Strand → Option Strand
  | [] => none
  | s :: ss =>
    let all := s :: ss
    some (all.foldl (fun best x => if all.count x > all.count best then x else best) s)

/-- part list handed to Biopython by `Location.to_biopython()` -/
def toBiopythonParts (rule : WriterRule) (st : Strand) (blocks : List Blk) : List Blk :=
  if rule.minusPartsDescending && st == .minus then blocks.reverse else blocks

def minStartOf (bs : List Blk) : Option Nat := Spec.Gb.minStart bs
def maxEndOf (bs : List Blk) : Option Nat := Spec.Gb.maxEnd bs

/-- `GeneInterval.start / end`: min / max over the transcripts (`exon_starts[0]`, `exon_ends[-1]` of each) -/
def geneBounds (g : Gene) : Option Blk :=
  let ss := g.txs.filterMap fun t => t.exons.head?.map (·.1)
  let es := g.txs.filterMap fun t => t.exons.getLast?.map (·.2)
  match ss, es with
  | s :: srest, e :: erest => some (srest.foldl min s, erest.foldl max e)
  | _, _ => none

def fcBounds (f : FColl) : Option Blk :=
  let ss := f.feats.filterMap fun t => t.blocks.head?.map (·.1)
  let es := f.feats.filterMap fun t => t.blocks.getLast?.map (·.2)
  match ss, es with
  | s :: srest, e :: erest => some (srest.foldl min s, erest.foldl max e)
  | _, _ => none

/-! ### translation on request (C05's model) -/

def tableInt : Flavor → Int
  | .prokaryotic => 11
  | .eukaryotic => 0

/-- `str(transcript.get_protein_sequence(translation_table=...))` -/
def proteinOf (fl : Flavor) (seq : Option Str) (t : Tx) : R Str := do
  let c ← mkCDS t.cds t.strand (.frames t.frames) seq
  translate c false (tableInt fl) true

def frameDigit : CDSFrame → Str
  | .ONE => ['2'] | .TWO => ['3'] | _ => ['1']

/-! ### the writer -/

/-- qualifiers every record of a transcript starts from: export_qualifiers + `/gene` + `/locus_tag` -/
def txBaseQuals (q0 : QDict) (symbol locusTag : Option Str) : QDict :=
  let q1 := match symbol with | some s => dictSet q0 "gene".toList [s] | none => q0
  match locusTag with | some s => dictSet q1 "locus_tag".toList [s] | none => q1

/-- qualifiers of the CDS record: the transcript-level qualifiers (+ `/codon_start`, proposed patch for F-C12a:
    `feature.qualifiers["codon_start"] = [start_frame.value + 1]`, before the translation) -/
def cdsBaseQuals (cfg : Cfg) (t : Tx) (txQuals : QDict) : QDict :=
  if cfg.rule.emitsCodonStart then
    dictSet txQuals "codon_start".toList [frameDigit ((Spec.Gb.startFrame t).getD .ZERO)] else txQuals

def cdsRecord (cfg : Cfg) (t : Tx) (strand : Strand) (q : QDict) : Rec :=
  { type := "CDS".toList, strand := strand, parts := toBiopythonParts cfg.rule t.strand t.cds, quals := q }

/-- `add_cds_feature` (`except ValueError: pass` around the translation) -/
def addCdsFeature (cfg : Cfg) (seq : Option Str) (t : Tx) (txQuals : QDict) (strand : Strand) : R Rec :=
  let q0 := cdsBaseQuals cfg t txQuals
  if cfg.updateTranslations then
    match proteinOf cfg.flavor seq t with
    | .ok p => .ok (cdsRecord cfg t strand (dictSet q0 "translation".toList [p]))
    | .error .ValueError => .ok (cdsRecord cfg t strand q0)
    | .error e => .error e
  else .ok (cdsRecord cfg t strand q0)

/-- `Biotype[name].name` of an optional biotype attribute (`none` = attribute is None) -/
def canonType (ty : Option Str) : R (Option Str) :=
  match truthy ty with
  | none => .ok none
  | some n => match biotypeName n with
    | some c => .ok (some c)
    | none => .error .ValueError

/-- feature key of the transcript-level record, given the canonical biotype name -/
def featTypeOf (nm : Option Str) (coding : Bool) : Str :=
  match nm with
  | some c => if transcriptFeatureValues.contains c then c else if coding then "mRNA".toList else "misc_RNA".toList
  | none => if coding then "mRNA".toList else "misc_RNA".toList

def txRecord (cfg : Cfg) (t : Tx) (ft : Str) (strand : Strand) (q : QDict) : Rec :=
  { type := ft, strand := strand, parts := toBiopythonParts cfg.rule t.strand t.exons,
    quals := dictDel (dictDel q "protein_id".toList) "translation".toList }

/-- one iteration of `for transcript in transcripts` in `transcripts_to_feature` -/
def transcriptToFeatures (cfg : Cfg) (seq : Option Str) (strand : Strand) (symbol locusTag : Option Str) (t : Tx) :
    R (List Rec) :=
  match txExportQuals t with
  | .error e => .error e
  | .ok q0 =>
    let q2 := txBaseQuals q0 symbol locusTag
    if t.strand ≠ strand ∧ ¬ cfg.forceStrand then .ok []            -- strand mismatch, not forced: skipped
    else
      match canonType t.txType with
      | .error e => .error e
      | .ok nm =>
        let ft := featTypeOf nm (!t.cds.isEmpty)
        if ft = "mRNA".toList ∧ cfg.flavor = .prokaryotic then
          -- a coding gene in prokaryotic mode: straight to the CDS
          match addCdsFeature cfg seq t q2 strand with
          | .error e => .error e
          | .ok c => .ok [c]
        else if cfg.flavor = .eukaryotic ∧ ft = "mRNA".toList then
          match addCdsFeature cfg seq t q2 strand with
          | .error e => .error e
          | .ok c => .ok [txRecord cfg t ft strand q2, c]
        else .ok [txRecord cfg t ft strand q2]

def featRecord (cfg : Cfg) (strand : Strand) (name locusTag : Option Str) (x : FeatI) : Rec :=
  { type := "feat_interval".toList, strand := strand, parts := toBiopythonParts cfg.rule x.strand x.blocks,
    quals := txBaseQuals (featExportQuals x) (truthy name) (truthy locusTag) }

/-- one iteration of `for feature in features` in `feature_intervals_to_features`
    (`if feature_name:` / `if locus_tag:` set `/gene` and `/locus_tag`) -/
def featureToFeatures (cfg : Cfg) (strand : Strand) (name locusTag : Option Str) (x : FeatI) : List Rec :=
  if x.strand ≠ strand ∧ ¬ cfg.forceStrand then [] else [featRecord cfg strand name locusTag x]

def mapMR {α β} (f : α → R β) : List α → R (List β)
  | [] => pure []
  | a :: as => do let b ← f a; let bs ← mapMR f as; pure (b :: bs)

/-- `symbol` of a gene: gene_symbol, else gene_id -/
def geneSymbolOf (g : Gene) : Option Str := (truthy g.geneSymbol).orElse fun _ => truthy g.geneId
/-- `locus_tag` written for a gene: locus_tag, else the symbol -/
def geneTagOf (g : Gene) : Option Str := (truthy g.locusTag).orElse fun _ => geneSymbolOf g

def geneRecord (strand : Strand) (bounds : Blk) (q0 : QDict) (g : Gene) : Rec :=
  { type := "gene".toList, strand := strand, parts := [bounds], quals := txBaseQuals q0 (geneSymbolOf g) (geneTagOf g) }

/-- `gene_to_feature` on a `GeneInterval` (`max([])` cannot happen: a GeneInterval always has transcripts) -/
def geneToFeatures (cfg : Cfg) (seq : Option Str) (g : Gene) : R (List Rec) :=
  match majorityStrand (g.txs.map (·.strand)), geneBounds g with
  | some strand, some bounds =>
    match geneExportQuals g with
    | .error e => .error e
    | .ok q0 =>
      match mapMR (transcriptToFeatures cfg seq strand (geneSymbolOf g) (geneTagOf g)) g.txs with
      | .error e => .error e
      | .ok rest => .ok (geneRecord strand bounds q0 g :: rest.flatten)
  | _, _ => .error .ValueError

def fcSymbolOf (f : FColl) : Option Str := (truthy f.name).orElse fun _ => truthy f.id
def fcTagOf (f : FColl) : Option Str := (truthy f.locusTag).orElse fun _ => fcSymbolOf f

/-- `qualifiers[feature_type] = [symbol]` then `qualifiers["locus_tag"] = [tag]` -/
def fcRecQuals (q0 : QDict) (symbol tag : Option Str) : QDict :=
  let q1 := match symbol with | some s => dictSet q0 "misc_feature".toList [s] | none => q0
  match tag with | some s => dictSet q1 "locus_tag".toList [s] | none => q1

def fcRecord (strand : Strand) (bounds : Blk) (f : FColl) : Rec :=
  { type := "misc_feature".toList, strand := strand, parts := [bounds],
    quals := fcRecQuals (fcExportQuals f) (fcSymbolOf f) (fcTagOf f) }

/-- `gene_to_feature` on a `FeatureIntervalCollection`
    (NB the children get `gene_or_feature.locus_tag`, without the fall-back to the symbol) -/
def fcToFeatures (cfg : Cfg) (f : FColl) : R (List Rec) :=
  match majorityStrand (f.feats.map (·.strand)), fcBounds f with
  | some strand, some bounds =>
    .ok (fcRecord strand bounds f :: f.feats.flatMap (featureToFeatures cfg strand (fcSymbolOf f) f.locusTag))
  | _, _ => .error .ValueError

def itemToFeatures (cfg : Cfg) (seq : Option Str) : Item → R (List Rec)
  | .gene g => geneToFeatures cfg seq g
  | .fcoll f => fcToFeatures cfg f

def itemStart : Item → Nat
  | .gene g => ((geneBounds g).map (·.1)).getD 0
  | .fcoll f => ((fcBounds f).map (·.1)).getD 0

/-- `AnnotationCollection.children`: `sorted(chain(genes, feature_collections), key=start)` (stable) -/
def childrenOf (c : Coll) : List Item :=
  let genes := c.items.filter fun | .gene _ => true | _ => false
  let fcs := c.items.filter fun | .fcoll _ => true | _ => false
  (genes ++ fcs).mergeSort fun a b => decide (itemStart a ≤ itemStart b)

/-- the loop of `collection_to_genbank` over one collection
    (`GenBankExportError` when the collection has no sequence) -/
def writeModel (cfg : Cfg) (c : Coll) : R (List Rec) :=
  if c.seq.isNone then .error .Export
  else
    match mapMR (itemToFeatures cfg c.seq) (childrenOf c) with
    | .error e => .error e
    | .ok rs => .ok rs.flatten

end BioCantor.Model.Gb
