/-
  Hand-written mirror of the table-driven public functions of gene/codon.py, sequence/alphabet.py,
  location/strand.py (the parts that are not translated kernels) and gene/biotype.py, as look-ups in the
  REGENERATED tables of `Gen/Tables.lean`.  `raise X` is `.error PyExc.X` (class names as in the source;
  `KeyError` appears because several functions index dict literals).
-/
import BioCantor.Gen.Tables
import BioCantor.Gen.Kernels
namespace BioCantor.Model.Tab
open BioCantor BioCantor.GenP

/-- `str.upper()` (ASCII input) -/
def upper (s : List Char) : List Char := s.map Char.toUpper

/-- `d[k]` on a dict literal: KeyError when absent -/
def dictGetE {κ ν} [BEq κ] (d : List (κ × ν)) (k : κ) : PyR ν :=
  match d.lookup k with
  | some v => .ok v
  | none => .error .KeyError

/-! ### gene/codon.py -/

/-- `Codon.__init__`: `_val = str(codon).upper()`; length 3; `_val.strip(ALPHABET) == ""` -/
def mkCodon (s : List Char) : PyR (List Char) :=
  let v := upper s
  if v.length ≠ 3 then .error .ValueError
  else if ¬ (v.all (fun c => Gen.codonAlphabet.contains c)) then .error .ValueError
  else .ok v

/-- `Codon.translate(strict)` -/
def translate (val : List Char) (strict : Bool) : Char :=
  match Gen.gencode.lookup val with
  | some a => a
  | none =>
    if !strict then
      match Gen.extendedGencode.lookup val with
      | some a => a
      | none => 'X'
    else 'X'

/-- `[Codon(c) for c in xs if keep c]` -/
def mkCodons : List (List Char) → PyR (List (List Char))
  | [] => .ok []
  | c :: cs =>
    match mkCodon c with
    | .error e => .error e
    | .ok v =>
      match mkCodons cs with
      | .error e => .error e
      | .ok vs => .ok (v :: vs)

/-- `Codon.synonymous_codons(include_self)` -/
def synonymousCodons (val : List Char) (includeSelf : Bool) : PyR (List (List Char)) :=
  let aa := translate val false
  if aa = 'X' then .ok (if includeSelf then [val] else [])
  else
    match dictGetE Gen.aacodons aa with
    | .error e => .error e
    | .ok cs => mkCodons (cs.filter (fun c => includeSelf || c != val))

/-- `Codon.is_stop_codon` : `self._val in aacodons["*"]` -/
def isStopCodon (val : List Char) : PyR Bool :=
  match dictGetE Gen.aacodons '*' with
  | .error e => .error e
  | .ok cs => .ok (cs.contains val)

/-- `Codon.is_strict_codon` -/
def isStrictCodon (val : List Char) : Bool := (Gen.gencode.lookup val).isSome

/-- `Codon.is_canonical_start_codon` -/
def isCanonicalStart (val : List Char) : Bool := val == ['A', 'T', 'G']

/-- `Codon.is_start_codon_in_specific_translation_table(table)`; `table` = the enum member's value.
    (Codon objects are singletons per text, so set membership is text membership.) -/
def isStartCodon (val : List Char) (table : Int) : PyR Bool :=
  match dictGetE Gen.startCodons table with
  | .error e => .error e
  | .ok cs => .ok (cs.contains val)

/-! ### histories over the Codon API

  `Codon.__new__` keeps one object per upper-cased text and `__init__` (re-run on every construction) stores that
  same upper-cased text, so an object's state is a function of the key it is filed under: constructing other codons
  cannot change a held object, and `Codon(t) is held` iff `upper(t)` is the held value.  The model is therefore
  state-free: every answer is a function of the value. -/

def ansO {α} : PyR α → Option α
  | .ok a => some a
  | .error _ => none

/-- every answer of the codon object with value `v` -/
structure Answers where
  text : List Char
  trStrict : Option Char
  trLoose : Option Char
  stop : Option Bool
  strict : Option Bool
  canon : Option Bool
  st0 : Option Bool
  st1 : Option Bool
  st11 : Option Bool
  syn0 : Option (List (List Char))
  syn1 : Option (List (List Char))
  deriving DecidableEq, Repr

def answers (v : List Char) : Answers :=
  { text := v, trStrict := some (translate v true), trLoose := some (translate v false),
    stop := ansO (isStopCodon v), strict := some (isStrictCodon v), canon := some (isCanonicalStart v),
    st0 := ansO (isStartCodon v 0), st1 := ansO (isStartCodon v 1), st11 := ansO (isStartCodon v 11),
    syn0 := ansO (synonymousCodons v false), syn1 := ansO (synonymousCodons v true) }

/-- outcome of one interleaved `Codon(sp)`: accepted?, and is it the held object (same singleton key)? -/
def outcome (v : List Char) (sp : List Char) : Bool × Bool :=
  match mkCodon sp with
  | .ok w => (true, w == v)
  | .error _ => (false, false)

/-- hold `Codon(held)`; answers before, outcomes of the interleaved constructions, answers after,
    (`Codon(held) is obj`, `obj == Codon(held)`, `hash(obj) == hash(value)`) -/
def hist (held : List Char) (sps : List (List Char)) :
    PyR (Answers × List (Bool × Bool) × Answers × (Bool × Bool × Bool)) :=
  match mkCodon held with
  | .error e => .error e
  | .ok v => .ok (answers v, sps.map (outcome v), answers v, (true, true, true))

/-- `aacodons[aa]` -/
def aaCodons (aa : Char) : PyR (List (List Char)) := dictGetE Gen.aacodons aa

/-! ### sequence/alphabet.py -/

/-- `ALPHABET_TO_NUCLEOTIDE_COMPLEMENT[alphabet][c]`, `none` when either key is absent -/
def complementChar (alphabet : List Char) (c : Char) : Option Char :=
  match Gen.complementMaps.lookup alphabet with
  | none => none
  | some m => m.lookup c

/-- the complement applied twice -/
def complementTwice (alphabet : List Char) (c : Char) : Option Char :=
  match complementChar alphabet c with
  | none => none
  | some d => complementChar alphabet d

/-- `Sequence(text, alphabet, validate_alphabet=False).reverse_complement()` as a string (sequence.py:185-193):
    `"".join(rc_map[c] for c in reversed(str(self)))`; AlphabetError (`none`) for an alphabet without complement map or
    a character outside the map -/
def reverseComplement (alphabet : List Char) (text : List Char) : Option (List Char) :=
  match Gen.complementMaps.lookup alphabet with
  | none => none                                   -- `not self.alphabet.is_nucleotide_alphabet()`: refused, also when empty
  | some _ => text.reverse.mapM (complementChar alphabet)

/-- `Alphabet[name].value` and `.is_nucleotide_alphabet()` -/
def alphabetInfo (name : List Char) : PyR (List Char × Bool) :=
  match Gen.alphabets.lookup name with
  | none => .error .KeyError
  | some letters =>
    match Gen.nucleotideAlphabetFlags.lookup name with
    | some f => .ok (letters, f)
    | none => .error .NotImplementedError

/-! ### location/strand.py (non-kernel parts) -/

def strandName (s : Strand) : Option (List Char) :=
  (Gen.strandMembers.find? (fun p => p.2 == s.value)).map (·.1)

/-- `Strand.__lt__` through `Strand._order()` -/
def strandLt (a b : Strand) : PyR Bool :=
  match strandName a, strandName b with
  | some na, some nb =>
    match dictGetE Gen.strandOrder na, dictGetE Gen.strandOrder nb with
    | .ok x, .ok y => .ok (decide (x < y))
    | .error e, _ => .error e
    | _, .error e => .error e
  | _, _ => .error .KeyError

/-! ### gene/biotype.py -/

/-- `(Biotype[a].value, Biotype[b].value)`; KeyError for a name that is not a member or alias -/
def biotypePair (a b : List Char) : PyR (Int × Int) :=
  match dictGetE Gen.biotypes a, dictGetE Gen.biotypes b with
  | .ok x, .ok y => .ok (x, y)
  | .error e, _ => .error e
  | _, .error e => .error e

end BioCantor.Model.Tab
