/-
  C09 — hand-written mirror of the collection queries of gene/collections.py (pure-Python branch: `cgranges` is not
  installed, `HAS_CGRANGES` is False), over the abstract children of Spec/Query.lean.

    selfBounds               AnnotationCollection.__init__ 117-144 (start/end inference; `is_empty` ignores variants)
    iterChildren             `children`: sorted(chain(genes, feature_collections, variant_collections), key=start)
    queryByPosition          query_by_position 617-663 (validation cascade as coded, incl. `start == end`)
    queryKept / keepChild    _query_by_position 712-754 (bin pre-filter on the GRAND-children's bins, `contains` /
                             `has_overlap` on full spans, `coding_only`); the bins are the GENERATED `Gen.bins`
    subsetParent             _subset_parent 455-510 (uses the GENERATED `SingleInterval.parent_to_relative_pos`)
    buildNew                 _build_new_collection_from_query 512-539 (`to_dict` / `from_dict` on the new parent)
    returnForIdQueries       _return_collection_for_id_queries 756-785 (idQueryBounds = its min / max)
    queryByGuids, queryByIntervalGuids (all / transcript / feature: ownerGuidsOf, ownerStep), queryByIdentifiers
                                                                                                    787-974
    childQueryByGuids        GeneInterval / FeatureIntervalCollection / VariantIntervalCollection .query_by_guids

  `raise X` = `throw (.doc X)`.  One path of the real code ends in an INTERNAL error; it is mirrored by
  `.attributeError` so that the correspondence is exact on it too (a finding, see Props/C09.lean):
    * `self.start` on a collection without bounds (empty, no located parent)                            F-C19f
  Repaired in /repo and followed here: F-C09a (`is_coding` of variant collections, 88921fc), F-C09b (sequence-less
  parent, 996fc35), F-C09c (end clamp), F-C08a (`VariantInterval.from_dict` passes the parent on, 81459d6).
  `subsetParentBefore` keeps `_subset_parent` as it was before the repairs of F-C09b / F-C09c (regression witnesses).
  F-C09d (clamps against the BOUNDS, conversion on the LOCATED range bounds ∩ chunk → InvalidPositionException when
  the bounds exceed the sequence) is repaired in /repo 7f0e193 and followed here; `subsetParentBeforeD` keeps the
  old `_subset_parent` for the regression witness.

  Modelled domain (the harness generates exactly this):
    * all members were built on the collection's own parent (`strict_parent_compare` never fails);
    * whole-chromosome and chunk parents come from `seq_to_parent` / `seq_chunk_to_parent` (plus strand); the
      collection takes its bounds from them or carries explicit `start=`/`end=` (any, also missing the chunk);
    * grandchildren are single-block; a child's span is the hull of its grandchildren.
-/
import BioCantor.Spec.Query
import BioCantor.Gen.Kernels
namespace BioCantor.Model.Query
open BioCantor BioCantor.Spec.Query BioCantor.GenP BioCantor.Gen

inductive QErr where
  | doc (e : Err)
  | attributeError
  | typeError
  | unmodelled
  deriving DecidableEq, Repr, Inhabited

abbrev QR := Except QErr

/-! ### the collection -/

def ofKind (k : Kind) (src : Source) : List Child := src.children.filter (fun c => c.kind = k)

/-- `itertools.chain(self.genes, self.feature_collections, self.variant_collections)` -/
def chain (src : Source) : List Child := ofKind .gene src ++ ofKind .feat src ++ ofKind .var src

def byStart (a b : Child) : Bool := decide (a.start ≤ b.start)

/-- `sorted(chain_iter, key=lambda x: x.start)` — Python's sort is stable, so is `mergeSort` -/
def iterChildren (src : Source) : List Child := (chain src).mergeSort byStart

/-- `len(self) == 0` with `__len__ = len(feature_collections) + len(genes)` (variant collections do not count) -/
def isEmpty (src : Source) : Bool := (ofKind .gene src).length + (ofKind .feat src).length == 0

/-- `self.start`, `self.end` as set by `__init__`; `none` = the attributes do not exist -/
def selfBounds (src : Source) : Option (Int × Int) :=
  match src.bounds with
  | some b => some b
  | none =>
    match src.par with
    | .whole seq => some (0, seq.length)                  -- chrom_parent.location of seq_to_parent
    | .chunk cs seq => some (cs, cs + seq.length)         -- chrom_parent.location of seq_chunk_to_parent
    | _ => if isEmpty src then none else hullOf ((iterChildren src).map fun c => (c.start, c.stop))

def needBounds (src : Source) : QR (Int × Int) :=
  match selfBounds src with
  | some b => pure b
  | none => throw .attributeError

/-- `AnnotationCollection.__init__` → `_initialize_location(start, end, parent)`: `SingleInterval(start, end)` wants
    `0 ≤ start ≤ end`; on a whole chromosome `reset_parent` wants `end ≤ len(sequence)` -/
def checkSource (src : Source) : QR Unit :=
  match src.bounds with
  | some (bs, be) =>
      if ¬ (0 ≤ bs ∧ bs ≤ be) then throw (.doc .InvalidPosition)
      else match src.par with
        | .whole seq => if be > seq.length then throw (.doc .InvalidPosition) else pure ()
        | _ => pure ()
  | none => pure ()

/-! ### span tests (location_impl.py, parent-less kernels over ints) -/

/-- `SingleInterval._has_overlap_single_interval` (self = a, other = b) -/
def overlapInt (a b : Int × Int) : Bool :=
  if a.2 - a.1 = 0 ∨ b.2 - b.1 = 0 then false
  else if b.1 ≤ a.1 ∧ a.1 < b.2 then true
  else if b.1 < a.2 ∧ a.2 ≤ b.2 then true
  else if a.1 ≤ b.1 ∧ b.1 < a.2 then true
  else if a.1 < b.2 ∧ b.2 ≤ a.2 then true
  else false

/-- `Location.contains(other, full_span=True)`: `has_overlap`, then on the full spans `has_overlap` again and
    `len(self.intersection(other)) == len(other)` with the intersection `[max starts, min ends)` -/
def containsInt (q c : Int × Int) : Bool :=
  if !overlapInt q c then false
  else if !overlapInt q c then false
  else decide (min q.2 c.2 - max q.1 c.1 = c.2 - c.1)

/-! ### the bin pre-filter -/

/-- truthiness of a Python set -/
def rsNonEmpty (S : RangeSet) : Bool := S.any (fun r => decide (r.1 ≤ r.2))

/-- `bins(start, end, fmt="bed", one=False)` -/
def binsAll (s e : Int) : QR RangeSet :=
  match bins s e .bed false with
  | .ok (.many S) => pure S
  | _ => throw .typeError

/-- `grandchild.bin in my_bins` with `grandchild.bin = bins(start, end, fmt="bed")` set by its constructor -/
def gcBinIn (S : RangeSet) (g : GChild) : QR Bool :=
  match bins g.start g.stop .bed true with
  | .ok (.one n) => pure (S.mem n)
  | _ => throw .typeError

/-- `any(grandchild.bin in my_bins for grandchild in child)` -/
def anyBinIn (S : RangeSet) : List GChild → QR Bool
  | [] => pure false
  | g :: gs => do
      if (← gcBinIn S g) then pure true else anyBinIn S gs

/-- `child.is_coding`: GeneInterval any(tx.is_coding), FeatureIntervalCollection False,
    VariantIntervalCollection False (property added by the repair of F-C09a, /repo 88921fc) -/
def isCoding (c : Child) : QR Bool :=
  match c.kind with
  | .var => pure false
  | _ => pure c.coding

/-- one iteration of the loop of `_query_by_position`: is the child appended? -/
def keepChild (codingOnly cw : Bool) (myBins : Option RangeSet) (s e : Int) (c : Child) : QR Bool := do
  let skipCoding ← if codingOnly then (do let ic ← isCoding c; pure (!ic)) else pure false
  if skipCoding then pure false
  else
    let skipBins ←
      match myBins with
      | some S => if rsNonEmpty S then (do let hit ← anyBinIn S c.gcs; pure (!hit)) else pure false
      | none => pure false
    if skipBins then pure false
    else if cw then pure (containsInt (s, e) (c.start, c.stop))
    else pure (overlapInt (s, e) (c.start, c.stop))

def filterQ (f : Child → QR Bool) : List Child → QR (List Child)
  | [] => pure []
  | c :: cs => do
      let k ← f c
      let rest ← filterQ f cs
      pure (if k then c :: rest else rest)

/-- `_query_by_position`: the kept children in iteration order (the three result lists are its per-kind filters) -/
def queryKept (src : Source) (s e : Int) (cw codingOnly : Bool) : QR (List Child) := do
  -- `if completely_within and start and end:`
  let myBins ← if cw ∧ s ≠ 0 ∧ e ≠ 0 then (do let S ← binsAll s e; pure (some S)) else pure none
  filterQ (keepChild codingOnly cw myBins s e) (iterChildren src)

/-! ### building the result -/

def _root_.BioCantor.Spec.Query.Par.isChunk : Par → Bool
  | .chunk _ _ => true
  | _ => false

/-- `SingleInterval(lo, hi, +).parent_to_relative_pos(p)` — the generated kernel -/
def p2r (lo hi p : Int) : QR Int :=
  match SingleInterval_parent_to_relative_pos ⟨lo, hi, .plus⟩ p with
  | .ok r => pure r
  | .error _ => throw (.doc .InvalidPosition)

/-- `seq_chunk_to_parent(seq, id, start, end)`: `SingleInterval(start, end)` and `Sequence.__init__`'s length check -/
def mkChunk (start stop : Int) (seq : List Char) : QR RPar :=
  if ¬ (0 ≤ start ∧ start ≤ stop) then throw (.doc .InvalidPosition)
  else if stop - start ≠ seq.length then throw (.doc .MismatchedParent)
  else pure (.chunk start stop seq)

/-- `_subset_parent(start, end)` as it was BEFORE the repairs of F-C09b (`fixB`) and F-C09c (`fixC`), for collections
    that take their bounds from the parent — kept for the regression witnesses only -/
def subsetParentBefore (fixB fixC : Bool) (src : Source) (start stop : Int) : QR RPar := do
  match src.par with
  | .none => pure .none
  | par =>
    if start = stop then pure .none
    else if fixB = true ∧ par.hasSeq = false then pure par.toRPar
    else
      let (bs, be) ← needBounds src
      if start = bs ∧ stop = be then pure par.toRPar
      else
        if par.hasSeq ∧ src.bounds.isSome then throw .unmodelled
        else
        let chunkRel : Bool := par.isChunk
        let start' := if chunkRel = true ∧ start < bs then bs else start
        let crs ← p2r bs be start'
        let (stop', cre) ←
          if fixC = true then (do
            let stop' := if chunkRel = true ∧ stop > be then be else stop
            let r ← p2r bs be (stop' - 1)
            pure (stop', r + 1))
          else if stop = be then (do let r ← p2r bs be (stop - 1); pure (stop, r + 1))
          else (do
            let stop' := if chunkRel = true ∧ stop > be then be - 1 else stop
            let r ← p2r bs be stop'
            pure (stop', r))
        match par with
        | .whole seq => mkChunk start' stop' (slice seq crs cre)
        | .chunk _ seq => mkChunk start' stop' (slice seq crs cre)
        | _ => throw (.doc .NullSequence)

/-- `self.chunk_relative_location` of the collection, lifted to the chromosome, and its `extract_sequence()`:
    `(A, B, bases of [A,B))`; `none` = EmptyLocation (bounds and sequence chunk do not overlap), which has no parent.
    `_initialize_location`: `SingleInterval(start, end)` is `reset_parent`ed onto a whole chromosome, or cut to the
    chunk window by `parent_to_relative_location` (LocationOverlapException → EmptyLocation). -/
def located (par : Par) (bs be : Int) : Option (Int × Int × List Char) :=
  match par with
  | .whole seq => some (bs, be, slice seq bs be)
  | .chunk cs seq =>
      let ce := cs + seq.length
      if overlapInt (cs, ce) (bs, be) then
        some (max bs cs, min be ce, slice seq (max bs cs - cs) (min be ce - cs))
      else none
  | _ => none

/-- `_subset_parent(start, end)` as it was BEFORE the repair of F-C09d (/repo 7f0e193): the clamps compared with
    `self.chromosome_location` = the BOUNDS `[bs, be)` (and only when chunk-relative) while the positions were
    converted on the located range `[A, B)` — kept for the regression witness only -/
def subsetParentBeforeD (src : Source) (start stop : Int) : QR RPar := do
  match src.par with
  | .none => pure .none
  | .noseq => if start = stop then pure .none else pure .noseq
  | par =>
    let (bs, be) ← needBounds src
    match located par bs be with
    | none => pure .none
    | some (A, B, ext) =>
      if start = stop then pure .none
      else if start = bs ∧ stop = be then pure par.toRPar
      else
        let chunkRel : Bool := par.isChunk
        let start' := if chunkRel = true ∧ start < bs then bs else start
        let crs ← p2r A B start'
        let stop' := if chunkRel = true ∧ stop > be then be else stop
        let r ← p2r A B (stop' - 1)
        mkChunk start' stop' (slice ext crs (r + 1))

/-- `_subset_parent(start, end)` -/
def subsetParent (src : Source) (start stop : Int) : QR RPar := do
  match src.par with
  | .none => pure .none                                   -- `not self.chunk_relative_location.parent`
  | .noseq =>
      if start = stop then pure .none                       -- "edge case for a now null interval"
      else pure .noseq                                      -- a parent without sequence cannot be subset
  | par =>
    let (bs, be) ← needBounds src
    match located par bs be with
    | none => pure .none                                  -- EmptyLocation().parent is None
    | some (A, B, ext) =>
      if start = stop then pure .none
      else if start = bs ∧ stop = be then pure par.toRPar   -- "we are not actually subsetting at all"
      else
        -- clamp to the stretch the collection has sequence for: `chrom_ancestor` = the located range [A, B)
        let start' := if start < A then A else start
        let stop' := if stop > B then B else stop
        if start' ≥ stop' then pure .none                   -- nothing of the requested interval lies on the sequence
        else
          let crs ← p2r A B start'
          -- `end` is exclusive: the last included position is converted
          let r ← p2r A B (stop' - 1)
          mkChunk start' stop' (slice ext crs (r + 1))

/-- `self.lift_over_to_first_ancestor_of_type(CHROMOSOME)` when `self.chunk_relative_location.parent and
    self.chunk_relative_location.parent.sequence`: the stretch the collection has sequence for -/
def seqRange (src : Source) : QR (Option (Int × Int)) :=
  match src.par with
  | .whole seq => do
      let (bs, be) ← needBounds src
      pure ((located (.whole seq) bs be).map fun t => (t.1, t.2.1))
  | .chunk cs seq => do
      let (bs, be) ← needBounds src
      pure ((located (.chunk cs seq) bs be).map fun t => (t.1, t.2.1))
  | _ => pure none

/-- spliced sequence of a member rebuilt by `from_dict` on the result's parent
    (`liftover_location_to_seq_chunk_parent`, then `extract_sequence`) -/
def memberSeq (rp : RPar) (g : GChild) : MSeq :=
  match rp with
  | .none | .noseq => .noSeq
  | .whole seq => .bases (orient g.strand (slice seq g.start g.stop))
  | .chunk cs ce seq =>
      -- `parent_to_relative_location`: LocationOverlapException → EmptyLocation, else the intersection,
      -- relative to the chunk
      if overlapInt (cs, ce) (g.start, g.stop) then
        .bases (orient g.strand (slice seq (max g.start cs - cs) (min g.stop ce - cs)))
      else .emptyLoc

/-- a member rebuilt on the result's parent (every kind: `VariantInterval.from_dict` passes the parent on since the
    repair of F-C08a), or a member of the source on the source's parent -/
def liftG (rp : RPar) (g : GChild) : RGChild := ⟨g.guid, g.start, g.stop, g.strand, true, memberSeq rp g⟩

/-- `X.from_dict(x.to_dict(), new_parent)`: the span is recomputed from the grandchildren -/
def liftChild (rp : RPar) (c : Child) : QR RChild :=
  match hullOf (c.gcs.map fun g => (g.start, g.stop)) with
  | some (a, b) => pure ⟨c.guid, c.kind, a, b, c.idents, c.gcs.map (liftG rp)⟩
  | none => throw (.doc .InvalidAnnotation)              -- "GeneInterval must have transcripts"

def mapQ {α β} (f : α → QR β) : List α → QR (List β)
  | [] => pure []
  | x :: xs => do
      let y ← f x
      let ys ← mapQ f xs
      pure (y :: ys)

def partKinds (kept : List Child) : List Child :=
  kept.filter (fun c => c.kind = .gene) ++ kept.filter (fun c => c.kind = .feat) ++ kept.filter (fun c => c.kind = .var)

/-- `_build_new_collection_from_query`; `kept` in the order the three lists were filled -/
def buildNew (src : Source) (kept : List Child) (start stop : Int) : QR Result := do
  let rp ← subsetParent src start stop
  -- the new collection's `children`: sorted(chain(genes, feature_collections, variant_collections), key=start)
  let kids := (partKinds kept).mergeSort byStart
  let rkids ← mapQ (liftChild rp) kids
  -- `AnnotationCollection.__init__` on an EMPTY chunk sequence: `Sequence.__len__ == 0` is falsy …
  match rp with
  | .chunk _ _ [] => throw (.doc .NullSequence)
  | _ => pure ⟨start, stop, rkids, rp⟩

/-- the expansion loop of `query_by_position` (feature collections first, then genes; never variants) -/
def expandBounds (start stop : Int) : List Child → Int × Int
  | [] => (start, stop)
  | c :: cs =>
      let start := if c.start < start then c.start else start
      let stop := if c.stop > stop then c.stop else stop
      expandBounds start stop cs

/-- the argument cascade of `query_by_position` -/
def validate (src : Source) (qs qe : Option Int) : QR (Int × Int) := do
  let start ← match qs with | some s => pure s | none => (do let b ← needBounds src; pure b.1)
  let stop ← match qe with | some e => pure e | none => (do let b ← needBounds src; pure b.2)
  if start < 0 then throw (.doc .InvalidQuery)
  else if start > stop then throw (.doc .InvalidQuery)
  else
    let (bs, be) ← needBounds src
    if start < bs then throw (.doc .InvalidQuery)
    else if stop > be then throw (.doc .InvalidQuery)
    else if start = stop then throw (.doc .InvalidQuery)
    else pure (start, stop)

def queryByPosition (src : Source) (q : PosQ) : QR Result := do
  checkSource src
  let (qs, qe) ← validate src q.s q.e
  let kept ← queryKept src qs qe q.cw q.codingOnly
  -- `query_start, query_end = start, end`, then the expansion loop
  let (start, stop) :=
    if q.expand ∧ ¬ q.cw then
      expandBounds qs qe (kept.filter (fun c => c.kind = .feat) ++ kept.filter (fun c => c.kind = .gene))
    else (qs, qe)
  -- `if self.chunk_relative_location.parent and self.chunk_relative_location.parent.sequence:` refuse an
  -- expansion (a bound moved) that leaves the stretch the collection has sequence for
  let sr ← seqRange src
  let refuse : Bool :=
    match sr with
    | some (A, B) => decide ((start < qs ∨ stop > qe) ∧ (start < A ∨ stop > B))
    | none => false
  if refuse then throw (.doc .InvalidQuery)
  else buildNew src kept start stop

/-! ### id / GUID queries -/

/-- `start = min(self.start, min(x.start …))`, `end = max(self.end, max(x.end …))` when anything is kept -/
def idQueryBounds (bs be : Int) (kept : List Child) : Int × Int :=
  match hullOf ((partKinds kept).map fun c => (c.start, c.stop)) with
  | some (a, b) => (min bs a, max be b)
  | none => (bs, be)

/-- `_return_collection_for_id_queries` -/
def returnForIdQueries (src : Source) (kept : List Child) : QR Result := do
  checkSource src
  let (bs, be) ← needBounds src
  let (start, stop) := idQueryBounds bs be kept
  buildNew src kept start stop

/-- a dict built by successive assignment: the LAST entry with the key wins -/
def dictGet {α} (key : α → Nat) (l : List α) (k : Nat) : Option α := l.reverse.find? (fun x => key x == k)

/-- `query_by_guids`: `self.guid_map.get(i)` for each id, in the order of the ids -/
def queryByGuids (src : Source) (ids : List Nat) : QR Result :=
  returnForIdQueries src (ids.filterMap (dictGet Child.guid (iterChildren src)))

/-- `chunk_relative_location` of a member built directly on the parent: on a chunk the intersection with the
    chunk window (relative to it), `none` = EmptyLocation -/
def chunkRelLoc (par : Par) (g : GChild) : Option (Int × Int) :=
  match par with
  | .chunk cs seq =>
      let ce := cs + seq.length
      if overlapInt (cs, ce) (g.start, g.stop) then some (max g.start cs - cs, min g.stop ce - cs) else none
  | _ => some (g.start, g.stop)

/-- `a.chunk_relative_location.has_overlap(b.chunk_relative_location)` (an EmptyLocation overlaps nothing) -/
def relOverlap (par : Par) (x y : GChild) : Bool :=
  match chunkRelLoc par x, chunkRelLoc par y with
  | some a, some b => overlapInt a b
  | _, _ => false

/-- adjacent pairs of the start-sorted variant list: `chunk_relative_location.has_overlap` -/
def adjOverlap (par : Par) : List GChild → Bool
  | x :: y :: rest => relOverlap par x y || adjOverlap par (y :: rest)
  | _ => false

/-- `X.query_by_guids(ids)` of a child: `None`, or a new child with the SAME guid holding the requested
    grandchildren in the order of the ids; a repeated id makes the constructor raise -/
def childQueryByGuids (par : Par) (c : Child) (ids : List Nat) : QR (Option Child) :=
  let txs := ids.filterMap (dictGet GChild.guid c.gcs)
  match hullOf (txs.map fun g => (g.start, g.stop)) with
  | none => pure none
  | some (a, b) =>
      -- `if tx.guid in self.guid_map: raise Duplicate…Error`
      let dup := decide (¬ (txs.map GChild.guid).Nodup)
      match c.kind with
      | .var =>
          -- sorted by start; adjacent `has_overlap` → LocationOverlapException (a variant overlaps its own copy)
          let sorted := txs.mergeSort (fun x y => decide (x.start ≤ y.start))
          if adjOverlap par sorted then throw (.doc .LocationOverlap)
          else if dup then throw (.doc .InvalidAnnotation)
          else pure (some { c with gcs := sorted, start := a, stop := b })
      | _ =>
          if dup then throw (.doc .InvalidAnnotation)      -- DuplicateTranscriptError / DuplicateFeatureError
          else pure (some { c with gcs := txs, start := a, stop := b })

/-- a Python set of guids, in some order without repetition -/
def dedup : List Nat → List Nat
  | [] => []
  | x :: xs => if (dedup xs).contains x then dedup xs else x :: dedup xs

/-- `_child_interval_guid_map`: grandchild guid ↦ its child (last wins) -/
def intervalOwner (src : Source) (g : Nat) : Option Child :=
  (iterChildren src).reverse.find? (fun c => c.gcs.any (fun x => x.guid == g))

/-- the guids collected in `gene_guids_to_keep` / `features_collection_guids_to_keep` /
    `variant_collection_guids_to_keep` (Python sets; their iteration order is not modelled — results are
    compared as sets of members) -/
def ownerGuidsOf (src : Source) (kinds : List Kind) (ids : List Nat) : List Nat :=
  dedup (((ids.filterMap (intervalOwner src)).filter (fun c => kinds.contains c.kind)).map Child.guid)

/-- `self.guid_map[x].query_by_guids(ids)` for one collected guid -/
def ownerStep (src : Source) (ids : List Nat) (g : Nat) : QR Child :=
  match dictGet Child.guid (iterChildren src) g with
  | some c => (do
      match (← childQueryByGuids src.par c ids) with
      | some c' => pure c'
      | none => throw .typeError)                        -- `None.to_dict()`; unreachable: an owner has a hit
  | none => throw .typeError

/-- `query_by_interval_guids` (kinds = all three) and its typed variants. -/
def queryByIntervalGuids (src : Source) (kinds : List Kind) (ids : List Nat) : QR Result := do
  checkSource src                                       -- the collection exists before it is queried
  let kept ← mapQ (ownerStep src ids) (ownerGuidsOf src kinds ids)
  returnForIdQueries src kept

/-- `query_by_feature_identifiers` -/
def queryByIdentifiers (src : Source) (ids : List (List Char)) : QR Result :=
  returnForIdQueries src ((iterChildren src).filter (fun c => c.idents.any (fun i => ids.contains i)))

/-- rendering of `child.query_by_guids(ids)` on the source's own parent: the grandchildren are the SAME objects
    (not rebuilt), so their sequences are those of the source -/
def childQueryResult (src : Source) (c : Child) (ids : List Nat) : QR (Option RChild) := do
  checkSource src
  match (← childQueryByGuids src.par c ids) with
  | none => pure none
  | some c' => pure (some ⟨c'.guid, c'.kind, c'.start, c'.stop, c'.idents, c'.gcs.map (liftG src.par.toRPar)⟩)

/-! ### the cgranges branch (`HAS_CGRANGES`): `_optimized_query_by_position` 676-710

  Not executable in this sandbox (cgranges is absent); modelled for the proof that the answer does not depend on the
  branch.  TRUSTED here: the documented semantics of the interval tree — `tree.overlap("", start, end)` over the
  entries `tree.add("", child.genomic_start, child.genomic_end, i)` yields exactly the indices whose half-open
  interval `[genomic_start, genomic_end)` satisfies `genomic_start < end ∧ start < genomic_end` (cgranges
  `cr_overlap`), each once, in an unspecified order. -/

/-- `tree.overlap("", start, end)` resolved to the children (order: that of `self.children`) -/
def treeOverlap (src : Source) (s e : Int) : List Child :=
  (iterChildren src).filter (fun c => decide (c.start < e ∧ s < c.stop))

/-- the post-filters of the loop: `contains` when `completely_within`, then `coding_only` -/
def optimizedKeep (codingOnly cw : Bool) (s e : Int) (c : Child) : QR Bool := do
  if cw = true ∧ containsInt (s, e) (c.start, c.stop) = false then pure false
  else if codingOnly then (do let ic ← isCoding c; pure ic)
  else pure true

def optimizedKept (src : Source) (s e : Int) (cw codingOnly : Bool) : QR (List Child) :=
  filterQ (optimizedKeep codingOnly cw s e) (treeOverlap src s e)

end BioCantor.Model.Query
