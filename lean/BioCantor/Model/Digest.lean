/-
  C08 — hand-written mirror of
    * util/hashing.py            `_order_set`, `_order_dict_of_possible_sets`, `_encode_object_for_digest`
    * gene/interval.py:533-549   `_import_qualifiers_from_list`, `_export_qualifiers_to_list`
    * the `digest_object(...)` call of every class constructor (WHICH fields are digested, in which order):
      transcript.py:139-155, cds.py:87-97, feature.py:80-93 / 562-575, gene.py:84-96, variants.py:112-124 / 378-388,
      collections.py:152-154
    * `to_dict` / `from_dict` (+ the part of the constructors that decides the stored state) of every class and
      `_parent_to_dict` / `convert_parent_dict_to_parent` (Model/DigestDict.lean).

  Python values are `Spec.Digest.PyVal`; `str()` / `repr()` are `Spec.Digest.pyStr` / `pyRepr` (Python semantics).
  `sorted(...)` is a stable merge sort (`List.mergeSort`), as in Python.
  MD5 is NOT modelled: the digest is a parameter `md5 : List Str → Str` (token list ↦ 32 hex digits).  The driver
  instantiates it with an executable MD5 so that the correspondence compares real GUIDs.
-/
import BioCantor.Spec.Digest
import BioCantor.Gen.Tables
namespace BioCantor.Model.Digest
open BioCantor
open BioCantor.Spec.Qual (Str strLt strLe)
open BioCantor.Spec.Digest

/-! ### util/hashing.py -/

/-- `sorted(...)` of strings -/
def sortStrs (l : List Str) : List Str := l.mergeSort strLe

/-- `_order_set`: `sorted(str(x) for x in set_of_hashables)` -/
def orderSet (vs : List PyVal) : List Str := sortStrs (vs.map pyStr)

/-- order used by `sorted(dict)` on (key, payload) pairs: by key -/
def keyLe (a b : Str × List Str) : Bool := strLe a.1 b.1

mutual
/-- what `_encode_object_for_digest` yields for ONE positional member, and `_order_dict_of_possible_sets` for ONE
    dictionary value: a dict is walked in sorted key order (`str(key)`, then the value), a set contributes
    `str(_order_set(val))`, everything else its `str()`. -/
def memberTokens : PyVal → List Str
  | .dict kvs => ((entryTokens kvs).mergeSort keyLe).flatMap fun e => e.1 :: e.2
  | .set vs => [strOfStrList (orderSet vs)]
  | v => [pyStr v]
/-- per entry: the key and what its value yields (computed before sorting; sorting by key does not look at it) -/
def entryTokens : List (Str × PyVal) → List (Str × List Str)
  | [] => []
  | (k, v) :: rest => (k, memberTokens v) :: entryTokens rest
end

/-- `_order_dict_of_possible_sets(d)` -/
def orderDict (kvs : List (Str × PyVal)) : List Str := memberTokens (.dict kvs)

/-- `list(_encode_object_for_digest(*args, **kwargs))` -/
def encodeObjectForDigest (args : List PyVal) (kwargs : List (Str × PyVal)) : List Str :=
  args.flatMap memberTokens ++ orderDict kwargs

/-! ### qualifier import / export (gene/interval.py:533-549) -/

/-- a qualifier dictionary as handed to a constructor: `{key: [values]}` in insertion order -/
abbrev RawQuals := List (Str × List PyVal)
/-- the stored form `Dict[key, Set[str]]`; a set is kept as its strictly ascending member list -/
abbrev Quals := List (Str × List Str)

/-- drop repeated members of an ascending list -/
def dedupSorted : List Str → List Str
  | [] => []
  | [x] => [x]
  | x :: y :: rest => if x = y then dedupSorted (y :: rest) else x :: dedupSorted (y :: rest)

/-- `{str(x) for x in vals}` (canonical representative: ascending, duplicate free) -/
def strSet (vals : List PyVal) : List Str := dedupSorted (sortStrs (vals.map pyStr))

/-- `set.union(*sets)` of sets of str (canonical representative) -/
def strUnion (sets : List (List Str)) : List Str := dedupSorted (sortStrs sets.flatten)

/-- `_import_qualifiers_from_list` (`None` and `{}` both give `{}`) -/
def importQuals (q : Option RawQuals) : Quals :=
  match q with
  | none => []
  | some kvs => kvs.map fun e => (e.1, strSet e.2)

/-- `_export_qualifiers_to_list`: `None` for an empty dictionary, else `{key: sorted(vals)}` -/
def exportQuals (q : Quals) : Option (List (Str × List Str)) :=
  if q.isEmpty then none else some (q.map fun e => (e.1, sortStrs e.2))

/-- the stored qualifiers as the Python value that is digested: a dict of sets of str -/
def qualsVal (q : Quals) : PyVal := .dict (q.map fun e => (e.1, .set (e.2.map .str)))

/-! ### renderings of the library's own objects (as `obj str repr`) -/

def strandName : Strand → Str
  | .plus => "PLUS".toList | .minus => "MINUS".toList | .unstranded => "UNSTRANDED".toList

/-- `Strand.__str__` = `to_symbol()`; `repr` is the Enum default -/
def ofStrand (s : Strand) : PyVal :=
  match s with
  | .plus => .obj ['+'] "<Strand.PLUS: 1>".toList
  | .minus => .obj ['-'] "<Strand.MINUS: -1>".toList
  | .unstranded => .obj ['.'] "<Strand.UNSTRANDED: 0>".toList

def frameName : CDSFrame → Str
  | .NONE => "NONE".toList | .ZERO => "ZERO".toList | .ONE => "ONE".toList | .TWO => "TWO".toList

/-- `repr(CDSFrame.X)` = `<CDSFrame.X: v>` -/
def frameRepr : CDSFrame → Str
  | .NONE => "<CDSFrame.NONE: -1>".toList | .ZERO => "<CDSFrame.ZERO: 0>".toList
  | .ONE => "<CDSFrame.ONE: 1>".toList | .TWO => "<CDSFrame.TWO: 2>".toList

def ofFrame (f : CDSFrame) : PyVal := .obj ("CDSFrame.".toList ++ frameName f) (frameRepr f)

/-- a `Biotype` member, identified by its canonical (first declared) name; `str` = `Biotype.<name>` -/
def ofBiotype (name : Str) : PyVal := .obj ("Biotype.".toList ++ name) ('<' :: "Biotype.".toList ++ name ++ ['>'])

/-- `str(SingleInterval)` = `start-end:strand` -/
def ofSpan (s e : Int) : PyVal :=
  .obj (intStr s ++ '-' :: intStr e ++ [':', '+']) ("<SingleInterval ".toList ++ intStr s ++ '-' :: intStr e ++ ":+>".toList)

def ofEmptyLocation : PyVal := .obj "EmptyLocation".toList "EmptyLocation".toList

/-- `str(Sequence)` is the sequence text -/
def ofSequence (s : Str) : PyVal := .obj s ("<Sequence=".toList ++ s ++ ['>'])

def ofInts (l : List Int) : PyVal := .list (l.map .int)
def ofOptStr : Option Str → PyVal
  | none => .none
  | some s => .str s
def ofOptInt : Option Int → PyVal
  | none => .none
  | some n => .int n
def ofOptBool : Option Bool → PyVal
  | none => .none
  | some b => .bool b
def ofOptUuid : Option Str → PyVal
  | none => .none
  | some h => .uuid h
def ofOptBiotype : Option Str → PyVal
  | none => .none
  | some n => ofBiotype n

/-- `Biotype[name]`: the member = the FIRST name declared with the same value (aliases: `mRNA` is `protein_coding`);
    `none` = KeyError.  Tied to the enum by the regenerated table `Gen.biotypes`. -/
def biotypeOfName (name : Str) : Option Str :=
  match Gen.biotypes.lookup name with
  | none => none
  | some v => (Gen.biotypes.find? fun e => e.2 == v).map (·.1)

/-- `Strand[name]` -/
def strandOfName (name : Str) : Option Strand :=
  match Gen.strandMembers.lookup name with
  | some 1 => some .plus
  | some (-1) => some .minus
  | some 0 => some .unstranded
  | _ => none

/-- `CDSFrame[name]` -/
def frameOfName (name : Str) : Option CDSFrame :=
  match Gen.cdsFrameMembers.lookup name with
  | some (-1) => some .NONE
  | some 0 => some .ZERO
  | some 1 => some .ONE
  | some 2 => some .TWO
  | _ => none

/-! ### which fields each constructor digests

  Each `…Args` structure holds the constructor arguments that reach the digest, already in stored form
  (qualifiers imported).  `…DigestArgs` is the positional argument list of the `digest_object(...)` call. -/

section
variable (md5 : List Str → Str)

def guidOf (args : List PyVal) : Str := md5 (encodeObjectForDigest args [])

/-- gene/cds.py:87-97 -/
structure CdsArgs where
  starts : List Int
  ends : List Int
  strand : Strand
  frames : List CDSFrame
  product : Option Str
  proteinId : Option Str
  quals : Quals
  deriving Repr

def cdsDigestArgs (c : CdsArgs) : List PyVal :=
  [ofInts c.starts, ofInts c.ends, ofStrand c.strand, .list (c.frames.map ofFrame), ofOptStr c.product,
   ofOptStr c.proteinId, qualsVal c.quals]

def cdsGuid (c : CdsArgs) : Str := guidOf md5 (cdsDigestArgs c)

/-- gene/transcript.py:139-155.  `cds` = the CDS arguments when the transcript is coding; the CDS built inside the
    transcript constructor receives NO qualifiers, the transcript's `protein_id` and `product`. -/
structure TxArgs where
  starts : List Int
  ends : List Int
  strand : Strand
  cds : Option (List Int × List Int × List CDSFrame)
  quals : Quals
  transcriptId : Option Str
  transcriptSymbol : Option Str
  transcriptType : Option Str          -- canonical Biotype name
  proteinId : Option Str
  product : Option Str
  sequenceName : Option Str
  isPrimary : Option Bool              -- `_is_primary_feature`
  deriving Repr

/-- the CDSInterval the transcript constructor builds (transcript.py:101-111) -/
def TxArgs.cdsArgs (t : TxArgs) : Option CdsArgs :=
  t.cds.map fun c => ⟨c.1, c.2.1, t.strand, c.2.2, t.product, t.proteinId, []⟩

/-- `is_primary_feature` = `self._is_primary_feature is True` -/
def isTrue : Option Bool → Bool
  | some true => true
  | _ => false

/-- `self._cds_frames`: the frame list as given, `None` for a non-coding transcript -/
def framesVal : Option (List Int × List Int × List CDSFrame) → PyVal
  | none => .none
  | some c => .list (c.2.2.map ofFrame)

/-- `self.cds.guid if self.cds else None` -/
def cdsGuidVal : Option CdsArgs → PyVal
  | none => .none
  | some c => .uuid (cdsGuid md5 c)

def txDigestArgs (t : TxArgs) : List PyVal :=
  [ofInts t.starts, ofInts t.ends, ofStrand t.strand, framesVal t.cds,
   qualsVal t.quals, ofOptStr t.transcriptId, ofOptStr t.transcriptSymbol, ofOptBiotype t.transcriptType,
   ofOptStr t.proteinId, ofOptStr t.sequenceName, .bool (isTrue t.isPrimary), cdsGuidVal md5 t.cdsArgs]

def txGuid (t : TxArgs) : Str := guidOf md5 (txDigestArgs md5 t)

/-- gene/feature.py:80-93 -/
structure FeatArgs where
  starts : List Int
  ends : List Int
  strand : Strand
  quals : Quals
  sequenceName : Option Str
  featureTypes : List Str              -- `set(feature_types)`, canonical (ascending, duplicate free)
  featureName : Option Str
  featureId : Option Str
  isPrimary : Option Bool
  deriving Repr

def featDigestArgs (f : FeatArgs) : List PyVal :=
  [ofInts f.starts, ofInts f.ends, ofStrand f.strand, qualsVal f.quals, ofOptStr f.sequenceName,
   .set (f.featureTypes.map .str), ofOptStr f.featureName, ofOptStr f.featureId, .bool (isTrue f.isPrimary)]

def featGuid (f : FeatArgs) : Str := guidOf md5 (featDigestArgs f)

/-- gene/variants.py:112-124 (note: `variant_id` is NOT digested, `variant_guid` is) -/
structure VarArgs where
  start : Int
  stop : Int
  quals : Quals
  sequence : Str
  variantType : Str
  phaseBlock : Option Int
  variantName : Option Str
  variantGuid : Option Str
  deriving Repr

def varDigestArgs (v : VarArgs) : List PyVal :=
  [.int v.start, .int v.stop, qualsVal v.quals, ofSequence v.sequence, .str v.variantType, ofOptInt v.phaseBlock,
   ofOptStr v.variantName, ofOptUuid v.variantGuid]

def varGuid (v : VarArgs) : Str := guidOf md5 (varDigestArgs v)

/-- the location a collection digests: `chunk_relative_location` of the span `[min start, max end)`, expressed in the
    frame of the sequence chunk `[cs, ce)` that contains it (`Frame.none` without parent / on a chromosome parent) -/
structure Frame where
  cs : Int
  ce : Int
  minus : Bool
  deriving DecidableEq, Repr

/-- no parent / whole-chromosome parent: chunk-relative = chromosome coordinates -/
def Frame.none : Frame := ⟨0, 0, false⟩

/-- `str(SingleInterval)` on the minus strand -/
def ofSpanMinus (s e : Int) : PyVal :=
  .obj (intStr s ++ '-' :: intStr e ++ [':', '-']) ("<SingleInterval ".toList ++ intStr s ++ '-' :: intStr e ++ ":->".toList)

/-- a plus-strand chunk `[cs, ce)` shifts the span by `cs`; a MINUS-strand chunk mirrors it at `ce` and reports the
    minus strand -/
def spanVal (lo hi : Int) (fr : Frame) : PyVal :=
  if fr.minus then ofSpanMinus (fr.ce - hi) (fr.ce - lo) else ofSpan (lo - fr.cs) (hi - fr.cs)

def minList : List Int → Option Int
  | [] => none
  | x :: xs => some (xs.foldl min x)
def maxList : List Int → Option Int
  | [] => none
  | x :: xs => some (xs.foldl max x)

/-- gene/gene.py:84-96 -/
structure GeneArgs where
  transcripts : List TxArgs
  geneId : Option Str
  geneSymbol : Option Str
  geneType : Option Str
  locusTag : Option Str
  sequenceName : Option Str
  quals : Quals
  deriving Repr

/-- span of a list of children given (first start, last end) of each -/
def spanOf (bounds : List (Option Int × Option Int)) : Option (Int × Int) :=
  match minList (bounds.filterMap (·.1)), maxList (bounds.filterMap (·.2)) with
  | some lo, some hi => some (lo, hi)
  | _, _ => none

def TxArgs.bounds (t : TxArgs) : Option Int × Option Int := (t.starts.head?, t.ends.getLast?)

def geneDigestArgs (g : GeneArgs) (cs : Frame) : Option (List PyVal) :=
  (spanOf (g.transcripts.map TxArgs.bounds)).map fun sp =>
    [spanVal sp.1 sp.2 cs, ofOptStr g.geneId, ofOptStr g.geneSymbol, ofOptBiotype g.geneType, ofOptStr g.locusTag,
     ofOptStr g.sequenceName, qualsVal g.quals, .set (g.transcripts.map fun t => .uuid (txGuid md5 t))]

/-- gene/feature.py:562-575 -/
structure FcArgs where
  features : List FeatArgs
  name : Option Str
  id : Option Str
  ctype : Option Str
  locusTag : Option Str
  sequenceName : Option Str
  quals : Quals
  deriving Repr

def FeatArgs.bounds (f : FeatArgs) : Option Int × Option Int := (f.starts.head?, f.ends.getLast?)

def fcDigestArgs (c : FcArgs) (cs : Frame) : Option (List PyVal) :=
  (spanOf (c.features.map FeatArgs.bounds)).map fun sp =>
    [spanVal sp.1 sp.2 cs, ofOptStr c.name, ofOptStr c.id, ofOptStr c.ctype,
     .set ((strUnion (c.features.map (·.featureTypes))).map .str), ofOptStr c.locusTag, ofOptStr c.sequenceName,
     qualsVal c.quals, .set (c.features.map fun f => .uuid (featGuid md5 f))]

/-- gene/variants.py:378-388 -/
structure VcArgs where
  variants : List VarArgs
  name : Option Str
  id : Option Str
  sequenceName : Option Str
  quals : Quals
  deriving Repr

def vcDigestArgs (c : VcArgs) (cs : Frame) : Option (List PyVal) :=
  (spanOf (c.variants.map fun v => (some v.start, some v.stop))).map fun sp =>
    [spanVal sp.1 sp.2 cs, ofOptStr c.name, ofOptStr c.id, ofOptStr c.sequenceName, qualsVal c.quals,
     .set (c.variants.map fun v => .uuid (varGuid md5 v))]

end
end BioCantor.Model.Digest
