/-
  C07 — hand-written mirror of the CHUNK branches of the interval classes: what changes when an interval is built
  on a sequence chunk (`io.parser.seq_chunk_to_parent`) instead of the whole chromosome (`seq_to_parent`).

    gene/interval.py   `initialize_location`, `liftover_location_to_seq_chunk_parent` (= `Model.chunkDown`),
                       `chromosome_location`, `chunk_relative_location`, `_chunk_relative_bounded_chromosome_location`,
                       `is_chunk_relative`, `get_spliced_sequence`, collection `_initialize_location`,
                       `get_reference_sequence`
    gene/cds.py        `chunk_relative_frames`, the `if chunk_relative_coordinates and self.is_chunk_relative`
                       branches of the two `_prepare_*_window_for_scan_codon_locations`, `_scan_codon_locations`,
                       `chunk_relative_codon_locations`, `chromosome_codon_locations`, `num_codons`,
                       `extract_sequence` (fast path), `translate`
    gene/transcript.py the constructor (CDS validation, "CDS sliced out ⇒ cds = None")
    gene/feature.py, gene/gene.py, gene/collections.py   constructors: span, location, which members reach
                       `digest_object` (chromosome coordinates vs the chunk-relative location) and `to_dict`
    io/parser.py       the two parents
    alternative constructors (last section): `from_chunk_relative_location` of feature.py / cds.py / transcript.py,
                       `to_dict` → `from_dict(vals, parent)`, `liftover_to_parent_or_seq_chunk_parent`
                       (interval.py:434-463), `incorporate_variants` of the three leaf classes with one
                       length-preserving `VariantInterval` (variants.py `lift_over_location`,
                       `parent_with_alternative_sequence`)

  The chromosome-level machinery is NOT re-modelled: `Model.CDS` (C05) is the CDS on a chromosome,
  `Model.chunkDown` / `Model.liftOnce` (C04) are the two directions of the chunk lift.

  Python facts that decide answers and are therefore explicit here:
    * an `EmptyLocation` has no parent, so `is_chunk_relative` is False for an interval without a base in the chunk,
      and every "chunk-relative" accessor then silently answers in chromosome coordinates;
    * `chromosome_location` of a chunk-built interval hangs below a chromosome parent WITHOUT sequence;
    * the parent a chunk hands to `first_ancestor_of_type(CHROMOSOME)` carries the chunk window as its location,
      which is where an AnnotationCollection without explicit bounds takes its bounds from.
-/
import BioCantor.Model.Lift
import BioCantor.Model.CDS
import BioCantor.Model.Algebra
import BioCantor.Spec.Chunk
namespace BioCantor.Model.Chunk
open BioCantor BioCantor.Model
open BioCantor.Spec.Chunk (FeatD CdsD TxD GeneD FicD AcD Desc Via)

/-! ### the two parents -/

/-- `seq_chunk_to_parent(letters, name, w.1, w.2, wst)` -/
structure Chunk where
  w : Blk
  wst : Strand
  letters : List Char
  deriving Repr

/-- the parent an interval is built on -/
inductive Par where
  | whole (letters : List Char)        -- `seq_to_parent(letters)`
  | chunk (c : Chunk)
  deriving Repr

/-- `sequence_chunk.location_on_parent` -/
def placement (ch : Chunk) : Location := .single ch.w ch.wst

/-- `SingleInterval(starts[0], ends[0], strand)` / `CompoundInterval(starts, ends, strand)` of `initialize_location` -/
def initialLocation (bs : List Blk) (st : Strand) : R Location :=
  match bs with
  | [b] => mkSingle b.1 b.2 st
  | _ => mkCompound bs st

/-- `liftover_location_to_seq_chunk_parent(location, parent)` for a chromosome-coordinate location:
    chunk parent ⇒ `chunkDown`; chromosome parent ⇒ `reset_parent` (the end is checked against the sequence) -/
def locate (l : Location) : Par → R Location
  | .whole letters =>
      if (locBlocks l).any (fun b => b.2 > letters.length) then throw .InvalidPosition else pure l
  | .chunk c => chunkDown l c.w c.wst

/-- `initialize_location(starts, ends, strand, parent)` -/
def initializeLocation (bs : List Blk) (st : Strand) (p : Par) : R Location := do
  let l ← initialLocation bs st
  locate l p

/-- `lift_over_to_first_ancestor_of_type(CHROMOSOME)` of a chunk-relative location: one level up through the
    placement of the chunk (an `EmptyLocation` has no ancestor: EmptyLocationException) -/
def liftUp (ch : Chunk) (l : Location) : R Location :=
  if l == .empty then throw .EmptyLocation else liftOnce l (placement ch)

/-! ### nodes of the object tree (pre-order) and what `to_dict` / `digest_object` read from them -/

/-- one argument of a `digest_object(...)` call or one coordinate entry of a `to_dict()`; members that are `None`
    in every object of the harness (names, ids, qualifiers) are left out -/
inductive Tok where
  | nats (l : List Nat)
  | strand (s : Strand)
  | frames (l : List CDSFrame)
  | noFrames
  | loc (l : Location)        -- `str(location)`: start-end:strand per block, or `EmptyLocation`
  deriving DecidableEq, Repr

structure Node where
  tag : Char
  depth : Nat
  /-- `start`, `end` -/
  start : Nat
  «end» : Nat
  /-- `chromosome_location` -/
  chrom : Location
  /-- `_location` = `chunk_relative_location` -/
  location : Location
  /-- own coordinate entries of `to_dict()` -/
  dictKey : List Tok
  /-- own arguments of `digest_object` (the children's GUIDs are the following deeper nodes) -/
  guidKey : List Tok
  deriving Repr

def firstLast (bs : List Blk) : R (Nat × Nat) :=
  match bs.head?, bs.getLast? with
  | some f, some l => pure (f.1, l.2)
  | _, _ => throw .Location

/-- `FeatureInterval.__init__` (feature.py:63-93): location, `_genomic_starts/_ends`, `start = starts[0]`,
    `end = ends[-1]`; digest = genomic starts, ends, strand (+ constant members) -/
def mkFeat (f : FeatD) (p : Par) (depth : Nat) : R Node := do
  let loc ← initializeLocation f.blocks f.st p
  let (s, e) ← firstLast f.blocks
  let chrom ← mkCompoundLoc f.blocks f.st
  let key := [Tok.nats (f.blocks.map (·.1)), .nats (f.blocks.map (·.2)), .strand f.st]
  pure ⟨'F', depth, s, e, .compound chrom, loc, key, key⟩

/-! ### CDS -/

/-- a CDSInterval built on a chunk: the chromosome-level members (`Model.CDS` without sequence) and `_location` -/
structure ChunkCDS where
  base : CDS
  location : Location
  chunk : Chunk
  deriving Repr

def framesOf (vals : List Nat) : R (List CDSFrame) := vals.mapM (fun (v : Nat) => liftPy (GenP.frameOfInt (Int.ofNat v)))

/-- `CDSInterval.__init__` on a chunk parent -/
def mkChunkCDS (x : CdsD) (ch : Chunk) : R ChunkCDS := do
  let loc ← initializeLocation (x.exons.map (·.1)) x.st (.chunk ch)
  let fs ← framesOf (x.exons.map (·.2))
  let base ← mkCDS (x.exons.map (·.1)) x.st (.frames fs) none
  pure ⟨base, loc, ch⟩

/-- `CDSInterval.__init__` on the whole chromosome: `initialize_location` checks the blocks against the sequence
    (`reset_parent`); the members are then set exactly as without a parent -/
def mkWholeCDS (x : CdsD) (letters : List Char) : R CDS := do
  let _ ← initializeLocation (x.exons.map (·.1)) x.st (.whole letters)
  let fs ← framesOf (x.exons.map (·.2))
  let c ← mkCDS (x.exons.map (·.1)) x.st (.frames fs) none
  pure { c with seq := some letters }

/-- the node of a CDS: digest = genomic starts, ends, strand, frames (cds.py:87-97); `to_dict` exports the same -/
def cdsNode (x : CdsD) (base : CDS) (loc : Location) (depth : Nat) : Node :=
  let key := [Tok.nats (x.exons.map (·.1.1)), .nats (x.exons.map (·.1.2)), .strand x.st, .frames base.frames]
  ⟨'D', depth, base.start, base.«end», .compound base.loc, loc, key, key⟩

def mkCdsNode (x : CdsD) (p : Par) (depth : Nat) : R Node :=
  match p with
  | .whole letters => do
      let c ← mkWholeCDS x letters
      let loc ← initializeLocation (x.exons.map (·.1)) x.st p
      pure (cdsNode x c loc depth)
  | .chunk ch => do
      let k ← mkChunkCDS x ch
      pure (cdsNode x k.base k.location depth)

/-- `is_chunk_relative`: `_location.has_ancestor_of_type(SEQUENCE_CHUNK)` — False for an EmptyLocation -/
def ChunkCDS.isChunkRelative (k : ChunkCDS) : Bool := k.location != .empty

/-- the frame-cleaned CDS location of `_prepare_multi_exon_window_for_scan_codon_locations` (cds.py:714-752) -/
def cleanedLoc (c : CDS) : R Loc := do
  if c.exonIter.length ≠ c.frameIter.length then throw .MismatchedFrame
  let st ← cleanExons c.loc CleanSt.init (c.exonIter.zip c.frameIter)
  cleanedLocation c.loc st

/-- chunk branch shared by both `_prepare_*` functions (cds.py:690-703, 760-772): lift the (window-restricted)
    location `relativeLoc` onto the chunk, lift it back, and measure the 5' distance on the WHOLE (cleaned) location
    `fullLoc` — also when a codon window restricted `relativeLoc` (repaired by d8ca372; before, the distance was
    measured on `relativeLoc` and a window cutting the 5' end lost the frame: F-C07d) -/
def chunkBranch (k : ChunkCDS) (fullLoc relativeLoc : Location) : R (Location × Int) := do
  let crl ← chunkDown relativeLoc k.chunk.w k.chunk.wst
  let onChrom ← liftUp k.chunk crl
  let d ← calculateFrameOffset k.base fullLoc onChrom
  pure (crl, d)

/-- `_prepare_single_exon_window_for_scan_codon_locations(None, chunk_relative_coordinates=True)` -/
def prepareSingleChunk (k : ChunkCDS) : R (Location × Int) := do
  if k.isChunkRelative then do
    let frame0 ← match k.base.frames.head? with
      | some f => pure f
      | none => throw .MismatchedFrame
    let (crl, d) ← chunkBranch k (.compound k.base.loc) (.compound k.base.loc)
    pure (crl, frame0.value + d)             -- NOT reduced mod 3 (F-C05a)
  else prepareSingle k.base none

/-- `_prepare_multi_exon_window_for_scan_codon_locations(None, chunk_relative_coordinates=True)` -/
def prepareMultiChunk (k : ChunkCDS) : R (Location × Int) := do
  if k.isChunkRelative then do
    let cleaned ← cleanedLoc k.base
    chunkBranch k (.compound cleaned) (.compound cleaned)
  else prepareMulti k.base none

def prepareChunk (k : ChunkCDS) : R (Location × Int) :=
  if k.base.numBlocks > 1 then prepareMultiChunk k else prepareSingleChunk k

/-- `chunk_relative_codon_locations` = `_scan_codon_locations(None, chunk_relative_coordinates=True)` -/
def chunkRelativeCodonLocations (k : ChunkCDS) : R (List Location) := do
  let (location, offset) ← prepareChunk k
  if (locLen location : Int) - offset ≥ 3 then scanWindows3 location offset else pure []

/-- both `_prepare_*` functions with a codon window (`relative_window` in chromosome coordinates) on a chunk-built
    CDS: the (cleaned) location is first restricted to the window, then lifted onto the chunk; the frame offset is
    measured against the whole (cleaned) location (cds.py:699, 772) -/
def prepareChunkW (k : ChunkCDS) (win : Option Blk) : R (Location × Int) :=
  if ¬ k.isChunkRelative then prepare k.base win
  else if k.base.numBlocks > 1 then do
    let cleaned ← cleanedLoc k.base
    let rel ← match windowTruthy win with
      | some w => intersectWindow cleaned w
      | none => pure (Location.compound cleaned)
    chunkBranch k (.compound cleaned) rel
  else do
    let frame0 ← match k.base.frames.head? with
      | some f => pure f
      | none => throw .MismatchedFrame
    let rel ← match windowTruthy win with
      | some w => intersectWindow k.base.loc w
      | none => pure (Location.compound k.base.loc)
    let (crl, d) ← chunkBranch k (.compound k.base.loc) rel
    pure (crl, frame0.value + d)

/-- `scan_chunk_relative_codon_locations(chromosome_start, chromosome_end)` (no expansion) -/
def scanChunkRelativeCodonLocations (k : ChunkCDS) (lo hi : Int) : R (List Location) := do
  let win ← convertWindow k.base (some ⟨some lo, some hi, false⟩)
  let (location, offset) ← prepareChunkW k win
  if (locLen location : Int) - offset ≥ 3 then scanWindows3 location offset else pure []

/-- `chromosome_codon_locations` = `_scan_codon_locations(None, chunk_relative_coordinates=False)`: the chunk branch
    is not taken; the chromosome-level members alone decide -/
def chromosomeCodonLocations (k : ChunkCDS) : R (List Location) := codonLocations k.base

/-- `num_codons` = `len(chromosome_codon_locations)` -/
def numCodonsChunk (k : ChunkCDS) : R Nat := numCodons k.base

/-- the letters `location.extract_sequence()` reads: the chunk's for a chunk-relative location; a chromosome
    location of a chunk-built interval has a parent without sequence -/
def ChunkCDS.letters (k : ChunkCDS) : Option (List Char) :=
  if k.isChunkRelative then some k.chunk.letters else none

/-- `extract_sequence()` (fast path) -/
def extractSequenceChunk (k : ChunkCDS) : R (List Char) := do
  let (location, offset) ← prepareChunk k
  let s ← locationSeq k.letters location
  let n : Int := locLen location
  pure (pySlice s offset (n - ((n - offset) % 3)))

/-- `translate()` with the defaults (no truncation, DEFAULT table, strict) -/
def translateChunk (k : ChunkCDS) : R (List Char) := do
  let seq ← extractSequenceChunk k
  translateLoop false 0 true 0 (chunks3 (upperStr seq))

/-- the exon loop of `chunk_relative_frames` (cds.py:146-171); `none` = the loop ended without `return` -/
def framesLoopChunk (st : Strand) (chromLoc : Location) : List Blk → Int → R (Option Int)
  | [], _ => pure none
  | exon :: rest, dist => do
    let i ← intersection (.single exon st) chromLoc false false
    if i == .empty then framesLoopChunk st chromLoc rest (dist + exon.len)
    else if (locBlocks i).length ≠ 1 then throw .LocationOverlap
    else do
      let s ← locStart i
      let e ← locEnd i
      pure (some (if st = .plus then dist + ((s : Int) - exon.1) else dist + ((exon.2 : Int) - e)))

/-- `chunk_relative_frames` -/
def chunkRelativeFrames (k : ChunkCDS) : R (List CDSFrame) := do
  if ¬ k.isChunkRelative then pure k.base.frames
  else do
    let first ← match k.base.frameIter.head? with
      | some f => pure f
      | none => throw .MismatchedFrame
    let ph ← frameToPhase first
    -- `_chunk_relative_bounded_chromosome_location` (non-empty `_location`): the lift back to the chromosome
    let bounded ← liftUp k.chunk k.location
    let chromLoc ← match bounded with
      | .compound l => optimizeLoc false l          -- `optimize_and_combine_blocks()`
      | other => pure other
    match ← framesLoopChunk k.base.strand chromLoc k.base.exonIter ph.value with
    | none => throw .TypeError                       -- `None` where a list is expected (unreachable: `_location` non-empty)
    | some dist => do
      let p ← phaseOfInt (dist % 3)
      let frame ← phaseToFrame p
      constructFramesFromLocation k.location frame

/-! ### transcripts -/

/-- the CDS part of `TranscriptInterval.__init__` (transcript.py:86-118): validation against the exon bounds, then
    the CDSInterval on the same parent — dropped when its construction raises LocationOverlapException.
    `none` = non-coding, `some none` = coding but dropped, `some (some n)` = the CDS node -/
def txCds (t : TxD) (p : Par) (depth : Nat) : R (Option (Option Node)) :=
  if t.cds.isEmpty then pure none else do
    let (cs, ce) ← firstLast (t.cds.map (·.1))
    let (es, ee) ← firstLast t.exons
    if cs < es then throw .InvalidCDSInterval
    if ce > ee then throw .InvalidCDSInterval
    match mkCdsNode t.cdsD p (depth + 1) with
    | .error .LocationOverlap => pure (some none)          -- `except LocationOverlapException: self.cds = None`
    | .error e => throw e
    | .ok n => pure (some (some n))

/-- `TranscriptInterval.__init__` (transcript.py:72-155): exon location, the CDS, digest members -/
def mkTx (t : TxD) (p : Par) (depth : Nat) : R (List Node) := do
  let loc ← initializeLocation t.exons t.st p
  let cds ← txCds t p depth
  let (s, e) ← firstLast t.exons
  let chrom ← mkCompoundLoc t.exons t.st
  let coords := [Tok.nats (t.exons.map (·.1)), .nats (t.exons.map (·.2)), .strand t.st]
  let fr ← (if t.cds.isEmpty then pure Tok.noFrames else do
    let fs ← framesOf (t.cds.map (·.2)); pure (Tok.frames fs))      -- `self._cds_frames`, kept also without CDS object
  let dict := coords ++ (match cds with
    | some (some _) => [Tok.nats (t.cds.map (·.1.1)), .nats (t.cds.map (·.1.2)), fr]
    | _ => [])
  let me : Node := ⟨'T', depth, s, e, .compound chrom, loc, dict, coords ++ [fr]⟩
  pure (match cds with
    | none => [me]
    | some none => [me, ⟨'X', depth + 1, 0, 0, .empty, .empty, [], []⟩]
    | some (some n) => [me, n])

/-! ### collections -/

def minNat : List Nat → Nat
  | [] => 0
  | x :: xs => xs.foldl min x
def maxNat : List Nat → Nat
  | [] => 0
  | x :: xs => xs.foldl max x

/-- collection `_initialize_location(start, end, parent)`: `SingleInterval(start, end, PLUS)`, then the lift -/
def spanLocation (s e : Nat) (p : Par) : R Location := do
  let l ← mkSingle s e .plus
  locate l p

/-- the keys of a subtree, as they reach the parent's digest through `children_guids` -/
def subtreeKeys (ns : List Node) : List (List Tok) := ns.map (·.guidKey)

def hasDuplicate : List (List (List Tok)) → Bool
  | [] => false
  | x :: xs => xs.contains x || hasDuplicate xs

/-- `GeneInterval.__init__` (gene.py:62-102): span of the children, location, digest = `chunk_relative_location`
    + children GUIDs; duplicate children refused -/
def mkGene (g : GeneD) (p : Par) (depth : Nat) : R (List Node) := do
  if g.txs.isEmpty then throw .InvalidAnnotation
  let kids ← g.txs.mapM (fun t => mkTx t p (depth + 1))
  let s := minNat (kids.filterMap (fun k => k.head?.map (·.start)))
  let e := maxNat (kids.filterMap (fun k => k.head?.map (·.«end»)))
  let loc ← spanLocation s e p
  if hasDuplicate (kids.map subtreeKeys) then throw .InvalidAnnotation
  pure (⟨'G', depth, s, e, .single (s, e) .plus, loc, [], [.loc loc]⟩ :: kids.flatten)

/-- `FeatureIntervalCollection.__init__` (feature.py:520-585) -/
def mkFic (q : FicD) (p : Par) (depth : Nat) : R (List Node) := do
  if q.feats.isEmpty then throw .InvalidAnnotation
  let kids ← q.feats.mapM (fun f => mkFeat f p (depth + 1))
  let s := minNat (kids.map (·.start))
  let e := maxNat (kids.map (·.«end»))
  let loc ← spanLocation s e p
  if hasDuplicate (kids.map fun k => [k.guidKey]) then throw .InvalidAnnotation
  pure (⟨'Q', depth, s, e, .single (s, e) .plus, loc, [], [.loc loc]⟩ :: kids)

/-- the location of the first CHROMOSOME ancestor of the parent: `[0, L)` for `seq_to_parent`, the chunk window for
    `seq_chunk_to_parent` -/
def parentBounds : Par → Blk
  | .whole letters => (0, letters.length)
  | .chunk c => c.w

/-- `AnnotationCollection.__init__` (collections.py:79-154) with both or neither bound given -/
def mkAc (a : AcD) (p : Par) : R (List Node) := do
  let genes ← a.genes.mapM (fun g => mkGene g p 1)
  let fics ← a.fics.mapM (fun q => mkFic q p 1)
  let (s, e) := match a.bounds with
    | some b => b
    | none => parentBounds p
  let loc ← spanLocation s e p
  pure (⟨'A', 0, s, e, .single (s, e) .plus, loc, [.nats [s, e]], [.loc loc]⟩ :: (genes.flatten ++ fics.flatten))

/-- the object tree of a description built on a parent, in pre-order -/
def buildNodes (d : Desc) (p : Par) : R (List Node) :=
  match d with
  | .feat f => do let n ← mkFeat f p 0; pure [n]
  | .tx t => mkTx t p 0
  | .cds x => do let n ← mkCdsNode x p 0; pure [n]
  | .gene g => mkGene g p 0
  | .fic q => mkFic q p 0
  | .ac a => mkAc a p

/-- both twins; an op answers only when both constructions succeed -/
def buildTwins (d : Desc) (letters : List Char) (ch : Chunk) : R (List Node × List Node) := do
  let a ← buildNodes d (.whole letters)
  let b ← buildNodes d (.chunk ch)
  pure (a, b)

/-! ### identity -/

/-- the nodes of the subtree rooted at the head of the list (pre-order, `depth` strictly larger below) -/
def subtree : List Node → List Node
  | [] => []
  | n :: rest => n :: rest.takeWhile (fun m => m.depth > n.depth)

/-- per node: do the twins digest the same values (own arguments and, through `children_guids`, those of the
    whole subtree)?  Equal digest input ⇒ equal GUID; different input ⇒ different GUID unless MD5 collides. -/
def guidFlags : List Node → List Node → List Bool
  | [], _ => []
  | _, [] => []
  | a :: as, b :: bs => (subtreeKeys (subtree (a :: as)) == subtreeKeys (subtree (b :: bs))) :: guidFlags as bs

/-- `to_dict()` of the twins equal (identifier entries are compared by `guidFlags`) -/
def dictEqual (a b : List Node) : Bool :=
  a.map (fun n => (n.tag, n.dictKey)) == b.map (fun n => (n.tag, n.dictKey))

/-! ### sequences of the chunk-built twin -/

/-- `get_spliced_sequence()` (features, transcripts) / `get_reference_sequence()` (collections): both are
    `chunk_relative_location.extract_sequence()` against the chunk's letters -/
def nodeSequence (ch : Chunk) (n : Node) : R (List Char) := locationSeq (some ch.letters) n.location

/-- the CDS an op about codons speaks of, built on the chunk (through the transcript constructor for a transcript) -/
def codingTwin (d : Desc) (letters : List Char) (ch : Chunk) : R ChunkCDS := do
  let _ ← buildTwins d letters ch
  match d with
  | .cds x => mkChunkCDS x ch
  | .tx t => if t.cds.isEmpty then throw .NoncodingTranscript else mkChunkCDS t.cdsD ch
  | _ => throw .NoncodingTranscript

/-! ### the cached-codons path of `extract_sequence`

  `extract_sequence` (cds.py:442-467) joins the sequences of the cached chunk-relative codons when
  `chunk_relative_codon_locations` was evaluated before (and is non-empty), and slices the prepared location
  otherwise.  The model has no state: the call history is an argument. -/

/-- `extract_sequence()` after `chunk_relative_codon_locations` was evaluated on the same object -/
def extractSequenceChunkAfterCodons (k : ChunkCDS) : R (List Char) := do
  let cods ← chunkRelativeCodonLocations k
  if cods.isEmpty then extractSequenceChunk k
  else do
    let ss ← cods.mapM (locationSeq k.letters)
    pure ss.flatten

def translateChunkAfterCodons (k : ChunkCDS) : R (List Char) := do
  let seq ← extractSequenceChunkAfterCodons k
  translateLoop false 0 true 0 (chunks3 (upperStr seq))

/-- `scan_chromosome_codon_locations(lo, hi)` of a chunk-built CDS: the chunk branch is not taken -/
def scanChromosomeCodonLocationsChunk (k : ChunkCDS) (lo hi : Int) : R (List Location) :=
  scanChromosomeCodonLocations k.base (some ⟨some lo, some hi, false⟩)

/-! ### alternative constructors

  Each of them ends in the ORDINARY constructor on the chunk parent, with chromosome coordinates it obtained in its
  own way: by lifting a chunk-relative location (`from_chunk_relative_location`, reached again by
  `incorporate_variants`) or by unpacking a dictionary (`from_dict`, reached again by
  `liftover_to_parent_or_seq_chunk_parent`). -/

/-- `location.lift_over_to_first_ancestor_of_type("chromosome")` behind the guard
    `if not location.has_ancestor_of_type(SEQUENCE_CHUNK): raise NoSuchAncestorException` (an EmptyLocation has no
    parent at all) -/
def liftToChromosome (ch : Chunk) (l : Location) : R Location :=
  if l == .empty then throw .NoSuchAncestor else liftUp ch l

/-- `FeatureInterval.from_chunk_relative_location` (feature.py:233-276): blocks of the lifted location, and
    `strand=location.strand` — the strand of the CHUNK-RELATIVE location (wrong chromosome strand on a chunk of the
    minus strand: F-C07e) -/
def featFromChunkRelative (ch : Chunk) (l : Location) (depth : Nat) : R Node := do
  let chrom ← liftToChromosome ch l
  let st ← locStrand l
  mkFeat ⟨st, locBlocks chrom⟩ (.chunk ch) depth

/-- `cds_starts`, `cds_ends`, `frames_or_phases` as three parallel lists: the constructor refuses lists of different
    lengths -/
def zipFrames (bs : List Blk) (fr : List Nat) : R (List (Blk × Nat)) :=
  if bs.length ≠ fr.length then throw .MismatchedFrame else pure (bs.zip fr)

/-- `CDSInterval.from_chunk_relative_location(location, cds_frames)` (cds.py:264-304): blocks AND strand of the
    lifted location, the frames as given -/
def cdsDescFromChunkRelative (ch : Chunk) (l : Location) (frames : List Nat) : R CdsD := do
  let chrom ← liftToChromosome ch l
  let st ← locStrand chrom
  let ex ← zipFrames (locBlocks chrom) frames
  pure ⟨st, ex⟩

def cdsFromChunkRelative (ch : Chunk) (l : Location) (frames : List Nat) : R ChunkCDS := do
  let x ← cdsDescFromChunkRelative ch l frames
  mkChunkCDS x ch

def frameNat (f : CDSFrame) : Nat := f.value.toNat

/-- `TranscriptInterval.from_chunk_relative_location(location, cds)` (transcript.py:418-480): exon blocks and strand
    of the lifted location; CDS blocks from the lifted `cds.chunk_relative_location`, frames from `cds.frames` -/
def txDescFromChunkRelative (ch : Chunk) (l : Location) (cds : Option ChunkCDS) : R TxD := do
  let chrom ← liftToChromosome ch l
  let cdsPart ← (match cds with
    | none => pure []
    | some k => do
      let cchrom ← liftToChromosome ch k.location
      zipFrames (locBlocks cchrom) (k.base.frames.map frameNat))
  let st ← locStrand chrom
  pure ⟨st, locBlocks chrom, cdsPart⟩

/-- what the harness hands to the chunk-relative constructors: the chunk-relative location(s) of a description
    lying inside the chunk (there, `initialize_location` is plain coordinate arithmetic) -/
def handedLocation (bs : List Blk) (st : Strand) (ch : Chunk) : R Location := initializeLocation bs st (.chunk ch)

/-- the description an interval built by `from_chunk_relative_location` has (feature / transcript / CDS) -/
def descFromChunkRelative (d : Desc) (ch : Chunk) : R Desc :=
  match d with
  | .feat f => do
      let l ← handedLocation f.blocks f.st ch
      let chrom ← liftToChromosome ch l
      let st ← locStrand l
      pure (.feat ⟨st, locBlocks chrom⟩)
  | .cds x => do
      let l ← handedLocation (x.exons.map (·.1)) x.st ch
      let x' ← cdsDescFromChunkRelative ch l (x.exons.map (·.2))
      pure (.cds x')
  | .tx t => do
      let l ← handedLocation t.exons t.st ch
      let cds ← (if t.cds.isEmpty then pure none else do
        let cl ← handedLocation (t.cds.map (·.1)) t.st ch
        let k ← cdsFromChunkRelative ch cl (t.cds.map (·.2))
        pure (some k))
      let t' ← txDescFromChunkRelative ch l cds
      pure (.tx t')
  | _ => throw .NotImplemented

/-! #### `to_dict()` → `from_dict(vals, parent_or_seq_chunk_parent)`

  `to_dict()` exports the constructor's own coordinate lists (`_genomic_starts`, `_genomic_ends`, strand name, frame
  names; children as nested dictionaries; an AnnotationCollection also its `start` / `end`), `from_dict` hands them
  back to the ordinary constructor together with the NEW parent. -/

def reDictFeat (f : FeatD) : FeatD := ⟨f.st, (f.blocks.map (·.1)).zip (f.blocks.map (·.2))⟩
def reDictCds (ex : List (Blk × Nat)) : List (Blk × Nat) :=
  ((ex.map (·.1.1)).zip (ex.map (·.1.2))).zip (ex.map (·.2))
def reDictCdsD (x : CdsD) : CdsD := ⟨x.st, reDictCds x.exons⟩
/-- `cds_starts=vals["cds_starts"] if vals["cds_starts"] else None` -/
def reDictTx (t : TxD) : TxD :=
  ⟨t.st, (t.exons.map (·.1)).zip (t.exons.map (·.2)), if t.cds.isEmpty then [] else reDictCds t.cds⟩
def reDictGene (g : GeneD) : GeneD := ⟨g.txs.map reDictTx⟩
def reDictFic (q : FicD) : FicD := ⟨q.feats.map reDictFeat⟩

/-- the description `from_dict(o.to_dict(), …)` hands to the constructor; `root` = the exported object's own node
    (an AnnotationCollection exports the bounds it HAS, given or inferred) -/
def reDict (d : Desc) (root : Option Node) : Desc :=
  match d with
  | .feat f => .feat (reDictFeat f)
  | .tx t => .tx (reDictTx t)
  | .cds x => .cds (reDictCdsD x)
  | .gene g => .gene (reDictGene g)
  | .fic q => .fic (reDictFic q)
  | .ac a => .ac ⟨a.genes.map reDictGene, a.fics.map reDictFic,
      match root with | some n => some (n.start, n.«end») | none => a.bounds⟩

/-- `Cls.from_dict(<object built on src>.to_dict(), parent_or_seq_chunk_parent=p)` -/
def viaDict (d : Desc) (src p : Par) : R (List Node) := do
  let a ← buildNodes d src
  buildNodes (reDict d a.head?) p

/-- `liftover_to_parent_or_seq_chunk_parent(p)` (interval.py:434-463): the two parents' chromosome ancestors are
    compared except for location (and sequence) — equal here by construction: both come from the same chromosome
    name — then `self.from_dict(self.to_dict(), p)` -/
def viaLift (d : Desc) (src p : Par) : R (List Node) := viaDict d src p

/-! #### `incorporate_variants(<one length-preserving VariantInterval>)` on a chunk-built leaf interval -/

/-- `VariantInterval.parent_with_alternative_sequence` for a variant `[p, p+1) ↦ letter` built on the chunk: the
    letter replaces `chunk_relative_location.start … end` of the chunk's letters AS IT STANDS (no complement on a
    minus-strand chunk), and `seq_chunk_to_parent(alt, id, start, start + len(alt))` is called WITHOUT the chunk's
    strand: the new chunk always lies on the plus strand (F-C07f) -/
def variantChunk (ch : Chunk) (p : Nat) (letter : Char) : R Chunk := do
  let vl ← initializeLocation [(p, p + 1)] .plus (.chunk ch)
  match vl with
  | .single b _ =>
      let alt := ch.letters.take b.1 ++ [letter] ++ ch.letters.drop b.2
      pure ⟨(ch.w.1, ch.w.1 + alt.length), .plus, alt⟩
  | _ => throw .NullSequence            -- no base of the variant in the chunk: `has_sequence` is False

/-- `VariantInterval.lift_over_location(location)` for `len(variant) == len(alt)` (variants.py:254-268): up to the
    chromosome, then `liftover_location_to_seq_chunk_parent(location, parent_with_alternative_sequence)` -/
def variantLiftLocation (ch ch' : Chunk) (l : Location) : R Location :=
  if l == .empty then pure .empty
  else do
    let chrom ← liftUp ch l
    chunkDown chrom ch'.w ch'.wst

/-- the description `incorporate_variants` re-builds (feature.py:482-505, cds.py:1044-1063, transcript.py:864-900),
    on the variant's chunk `ch'`: `new_loc`, `is_empty` ⇒ EmptyLocationException, then `from_chunk_relative_location`
    (the interval is chunk-relative: `_location` is not empty) -/
def descIncorporateSnv (d : Desc) (ch ch' : Chunk) : R Desc :=
  match d with
  | .feat f => do
      let l ← initializeLocation f.blocks f.st (.chunk ch)
      let nl ← variantLiftLocation ch ch' l
      if nl == .empty then throw .EmptyLocation
      let chrom ← liftToChromosome ch' nl
      let st ← locStrand nl
      pure (.feat ⟨st, locBlocks chrom⟩)
  | .cds x => do
      let k ← mkChunkCDS x ch
      let nl ← variantLiftLocation ch ch' k.location
      if nl == .empty then throw .EmptyLocation
      let f0 ← (match k.base.frames.head? with | some f => pure f | none => throw .MismatchedFrame)
      let fr ← constructFramesFromLocation nl f0         -- `self.frames[0]`: the frame of the FIRST block in plus order
      let x' ← cdsDescFromChunkRelative ch' nl (fr.map frameNat)
      pure (.cds x')
  | .tx t => do
      let _ ← mkTx t (.chunk ch) 0
      let cds ← (if t.cds.isEmpty then pure none else do
        let k ← mkChunkCDS t.cdsD ch
        let nl ← variantLiftLocation ch ch' k.location
        if nl == .empty then throw .EmptyLocation
        let f0 ← (match k.base.frames.head? with | some f => pure f | none => throw .MismatchedFrame)
        let fr ← constructFramesFromLocation nl f0
        let k' ← cdsFromChunkRelative ch' nl (fr.map frameNat)
        pure (some k'))
      let l ← initializeLocation t.exons t.st (.chunk ch)
      let nl ← variantLiftLocation ch ch' l
      if nl == .empty then throw .EmptyLocation
      let t' ← txDescFromChunkRelative ch' nl cds
      pure (.tx t')
  | _ => throw .NotImplemented

/-- `from_dict` hands the exported identifier back to the constructor (`guid=vals["…_guid"]`) for features,
    transcripts, genes and feature collections: their identifier is the SOURCE object's; a CDS and an
    AnnotationCollection digest again -/
def copyGuids : List Node → List Node → List Node
  | s :: ss, b :: bs =>
    (if b.tag = 'F' ∨ b.tag = 'T' ∨ b.tag = 'G' ∨ b.tag = 'Q' then { b with guidKey := s.guidKey } else b) :: copyGuids ss bs
  | _, bs => bs

/-- the chunk-built twin through an alternative constructor: its nodes, the description the ordinary constructor
    finally received and the chunk parent it received it on.  `other` = source of `relift`: the chunk `[0, L)` of the
    opposite strand; `snv`: the object lived on `before` (the chunk of the chromosome that differs at `p`). -/
def viaNodes (v : Via) (d : Desc) (letters : List Char) (ch before other : Chunk) : R (List Node × Desc × Chunk) :=
  match v with
  | .fcrl => do
      let d' ← descFromChunkRelative d ch
      let b ← buildNodes d' (.chunk ch)
      pure (b, d', ch)
  | .dict | .lift => do
      let a ← buildNodes d (.whole letters)
      let b ← buildNodes (reDict d a.head?) (.chunk ch)
      pure (copyGuids a b, reDict d a.head?, ch)
  | .relift => do
      let a ← buildNodes d (.chunk other)
      let b ← buildNodes (reDict d a.head?) (.chunk ch)
      pure (copyGuids a b, reDict d a.head?, ch)
  | .snv p => do
      let letter ← (match letters[p]? with | some c => pure c | none => throw .InvalidPosition)
      let ch' ← variantChunk before p letter
      let d' ← descIncorporateSnv d before ch'
      let b ← buildNodes d' (.chunk ch')
      pure (b, d', ch')

end BioCantor.Model.Chunk
