/-
  C08 — structural model of the dictionary forms: `to_dict` / `from_dict` of every interval / collection class, the
  part of the constructors that decides the stored (and exported) state, and `_parent_to_dict` /
  `convert_parent_dict_to_parent`.

    transcript.py:309-371   cds.py:173-229   feature.py:156-196, 646-678   gene.py:132-160
    variants.py:158-192, 424-452   collections.py:315-453   interval.py:89-157

  An object is modelled by the attributes that `to_dict` reads (`…Obj`), a dictionary by a `PyVal.dict` whose keys
  are the `Key`s below (`mkDict`).  `…ToDict` mirrors `to_dict(chromosome_relative_coordinates=True)`, `…FromDict`
  mirrors `from_dict` followed by the constructor: which keys are read, `x if x else None` truthiness, enum lookups
  by name, qualifier import (list → set of str), GUID taken from the dictionary or recomputed by the digest.
  NOT modelled here: coordinate validation in the constructors (C19), locations / parents other than the four
  parent situations of `ParentDesc`, marshmallow, pickle, JSON text.
-/
import BioCantor.Model.Digest
namespace BioCantor.Model.Digest
open BioCantor
open BioCantor.Spec.Qual (Str strLt strLe)
open BioCantor.Spec.Digest

/-- every dictionary key the library's `to_dict` methods write / `from_dict` methods read -/
inductive Key where
  | exon_starts | exon_ends | strand | cds_starts | cds_ends | cds_frames | qualifiers | is_primary_tx
  | transcript_id | transcript_symbol | transcript_type | sequence_name | sequence_guid | protein_id | product
  | transcript_guid | transcript_interval_guid
  | interval_starts | interval_ends | feature_id | feature_name | feature_types | feature_interval_guid
  | feature_guid | is_primary_feature
  | start | «end» | sequence | variant_type | phase_block | variant_interval_guid | variant_guid | variant_name
  | variant_id
  | transcripts | gene_id | gene_symbol | gene_type | locus_tag | gene_guid
  | feature_intervals | feature_collection_name | feature_collection_id | feature_collection_type
  | feature_collection_guid
  | variant_intervals | variant_collection_name | variant_collection_id | variant_collection_guid
  | genes | feature_collections | variant_collections | name | id | sequence_path | completely_within
  | parent_or_seq_chunk_parent
  | seq | alphabet | type
  deriving DecidableEq, Repr

def Key.all : List Key := [
  .exon_starts, .exon_ends, .strand, .cds_starts, .cds_ends, .cds_frames, .qualifiers, .is_primary_tx,
  .transcript_id, .transcript_symbol, .transcript_type, .sequence_name, .sequence_guid, .protein_id, .product,
  .transcript_guid, .transcript_interval_guid,
  .interval_starts, .interval_ends, .feature_id, .feature_name, .feature_types, .feature_interval_guid,
  .feature_guid, .is_primary_feature,
  .start, .end, .sequence, .variant_type, .phase_block, .variant_interval_guid, .variant_guid, .variant_name,
  .variant_id,
  .transcripts, .gene_id, .gene_symbol, .gene_type, .locus_tag, .gene_guid,
  .feature_intervals, .feature_collection_name, .feature_collection_id, .feature_collection_type,
  .feature_collection_guid,
  .variant_intervals, .variant_collection_name, .variant_collection_id, .variant_collection_guid,
  .genes, .feature_collections, .variant_collections, .name, .id, .sequence_path, .completely_within,
  .parent_or_seq_chunk_parent, .seq, .alphabet, .type]

/-- the key as written in the Python source -/
def Key.str : Key → Str
  | .exon_starts => "exon_starts".toList | .exon_ends => "exon_ends".toList | .strand => "strand".toList
  | .cds_starts => "cds_starts".toList | .cds_ends => "cds_ends".toList | .cds_frames => "cds_frames".toList
  | .qualifiers => "qualifiers".toList | .is_primary_tx => "is_primary_tx".toList
  | .transcript_id => "transcript_id".toList | .transcript_symbol => "transcript_symbol".toList
  | .transcript_type => "transcript_type".toList | .sequence_name => "sequence_name".toList
  | .sequence_guid => "sequence_guid".toList | .protein_id => "protein_id".toList | .product => "product".toList
  | .transcript_guid => "transcript_guid".toList | .transcript_interval_guid => "transcript_interval_guid".toList
  | .interval_starts => "interval_starts".toList | .interval_ends => "interval_ends".toList
  | .feature_id => "feature_id".toList | .feature_name => "feature_name".toList
  | .feature_types => "feature_types".toList | .feature_interval_guid => "feature_interval_guid".toList
  | .feature_guid => "feature_guid".toList | .is_primary_feature => "is_primary_feature".toList
  | .start => "start".toList | .end => "end".toList | .sequence => "sequence".toList
  | .variant_type => "variant_type".toList | .phase_block => "phase_block".toList
  | .variant_interval_guid => "variant_interval_guid".toList
  | .variant_guid => "variant_guid".toList | .variant_name => "variant_name".toList
  | .variant_id => "variant_id".toList
  | .transcripts => "transcripts".toList | .gene_id => "gene_id".toList | .gene_symbol => "gene_symbol".toList
  | .gene_type => "gene_type".toList | .locus_tag => "locus_tag".toList | .gene_guid => "gene_guid".toList
  | .feature_intervals => "feature_intervals".toList
  | .feature_collection_name => "feature_collection_name".toList
  | .feature_collection_id => "feature_collection_id".toList
  | .feature_collection_type => "feature_collection_type".toList
  | .feature_collection_guid => "feature_collection_guid".toList
  | .variant_intervals => "variant_intervals".toList
  | .variant_collection_name => "variant_collection_name".toList
  | .variant_collection_id => "variant_collection_id".toList
  | .variant_collection_guid => "variant_collection_guid".toList
  | .genes => "genes".toList | .feature_collections => "feature_collections".toList
  | .variant_collections => "variant_collections".toList | .name => "name".toList | .id => "id".toList
  | .sequence_path => "sequence_path".toList | .completely_within => "completely_within".toList
  | .parent_or_seq_chunk_parent => "parent_or_seq_chunk_parent".toList
  | .seq => "seq".toList | .alphabet => "alphabet".toList | .type => "type".toList

/-- exceptions of the dictionary legs (`KeyError` / `TypeError` / `AttributeError` are internal errors of the
    real code; they are modelled because the current code produces them, F-C19f) -/
inductive DErr where
  | keyError | typeError | attributeError | invalidCDS | invalidAnnotation | emptyLocation
  deriving DecidableEq, Repr

abbrev D := Except DErr

/-- `dict(k1=v1, …)` -/
def mkDict (fields : List (Key × PyVal)) : PyVal := .dict (fields.map fun f => (f.1.str, f.2))

/-- a missing key is a `KeyError` -/
def orKeyError : Option PyVal → D PyVal
  | some v => .ok v
  | none => .error .keyError

/-- `vals[key]` -/
def getK (k : Key) : PyVal → D PyVal
  | .dict kvs => orKeyError (kvs.lookup k.str)
  | _ => .error .typeError

/-- lookup in a field list by `Key` (what `vals[key]` amounts to on a `mkDict` dictionary: `Key.str` is injective) -/
def lookupK (k : Key) : List (Key × PyVal) → Option PyVal
  | [] => none
  | f :: fs => if k = f.1 then some f.2 else lookupK k fs

/-- `bool(v)` for the values that occur -/
def truthy : PyVal → Bool
  | .none => false
  | .bool b => b
  | .int n => n != 0
  | .str s => !s.isEmpty
  | .list vs => !vs.isEmpty
  | .set vs => !vs.isEmpty
  | .dict kvs => !kvs.isEmpty
  | _ => true

/-! ### typed readers (what the constructors expect; anything else is a `TypeError` somewhere downstream) -/

def asInt : PyVal → D Int
  | .int n => .ok n
  | _ => .error .typeError
def asInts : PyVal → D (List Int)
  | .list vs => vs.mapM asInt
  | _ => .error .typeError
def asStr : PyVal → D Str
  | .str s => .ok s
  | _ => .error .typeError
def asStrs : PyVal → D (List Str)
  | .list vs => vs.mapM asStr
  | _ => .error .typeError
def asOptStr : PyVal → D (Option Str)
  | .none => .ok none
  | .str s => .ok (some s)
  | _ => .error .typeError
def asOptInt : PyVal → D (Option Int)
  | .none => .ok none
  | .int n => .ok (some n)
  | _ => .error .typeError
def asOptBool : PyVal → D (Option Bool)
  | .none => .ok none
  | .bool b => .ok (some b)
  | _ => .error .typeError
def asOptUuid : PyVal → D (Option Str)
  | .none => .ok none
  | .uuid h => .ok (some h)
  | _ => .error .typeError
def asList : PyVal → D (List PyVal)
  | .list vs => .ok vs
  | _ => .error .typeError

/-- one qualifier entry `key: [values]` -/
def asQualEntry (e : Str × PyVal) : D (Str × List PyVal) :=
  match e.2 with
  | .list vs => .ok (e.1, vs)
  | _ => .error .typeError

/-- the `qualifiers` argument: `None` or a dict of lists (ValidationException otherwise) -/
def asRawQuals : PyVal → D (Option RawQuals)
  | .none => .ok none
  | .dict kvs => (kvs.mapM asQualEntry).map some
  | _ => .error .typeError

/-- `Strand[name]` / `CDSFrame[name]` / `Biotype[name]` (KeyError for an unknown name) -/
def lookupStrand (v : PyVal) : D Strand := do
  match strandOfName (← asStr v) with
  | some s => pure s
  | none => throw .keyError
def lookupFrame (v : PyVal) : D CDSFrame := do
  match frameOfName (← asStr v) with
  | some f => pure f
  | none => throw .keyError
def lookupBiotype (v : PyVal) : D Str := do
  match biotypeOfName (← asStr v) with
  | some b => pure b
  | none => throw .keyError

/-- `Biotype[x] if x else None` -/
def optBiotype (v : PyVal) : D (Option Str) :=
  if truthy v then (lookupBiotype v).map some else pure none

/-- `x if x else None` on an int list / a frame-name list -/
def optInts (v : PyVal) : D (Option (List Int)) :=
  if truthy v then (asInts v).map some else pure none
def optFrames (v : PyVal) : D (Option (List CDSFrame)) :=
  if truthy v then (asList v >>= fun l => l.mapM lookupFrame).map some else pure none

/-- `[Child.from_dict(x, parent) for x in vals[key]] if vals[key] else None`, then `children if children else []` -/
def optChildren {α : Type} (f : PyVal → D α) (v : PyVal) : D (List α) :=
  if truthy v then asList v >>= fun l => l.mapM f else pure []

/-- the exported qualifiers: `None` or `{key: sorted(values)}` -/
def qualsExportVal (q : Quals) : PyVal :=
  match exportQuals q with
  | none => .none
  | some kvs => .dict (kvs.map fun e => (e.1, .list (e.2.map .str)))

section
variable (md5 : List Str → Str)

/-! ### TranscriptInterval -/

structure TxObj where
  args : TxArgs
  sequenceGuid : Option Str
  guid : Str
  transcriptGuid : Option Str
  deriving Repr

/-- transcript.py:309-347 (`self.cds` exists: no chunk slicing) -/
def txToDict (o : TxObj) : PyVal :=
  let a := o.args
  mkDict [
    (.exon_starts, ofInts a.starts), (.exon_ends, ofInts a.ends), (.strand, .str (strandName a.strand)),
    (.cds_starts, match a.cds with | none => .none | some c => ofInts c.1),
    (.cds_ends, match a.cds with | none => .none | some c => ofInts c.2.1),
    (.cds_frames, match a.cds with | none => .none | some c => .list (c.2.2.map fun f => .str (frameName f))),
    (.qualifiers, qualsExportVal a.quals), (.is_primary_tx, ofOptBool a.isPrimary),
    (.transcript_id, ofOptStr a.transcriptId), (.transcript_symbol, ofOptStr a.transcriptSymbol),
    (.transcript_type, ofOptStr a.transcriptType), (.sequence_name, ofOptStr a.sequenceName),
    (.sequence_guid, ofOptUuid o.sequenceGuid), (.protein_id, ofOptStr a.proteinId), (.product, ofOptStr a.product),
    (.transcript_guid, ofOptUuid o.transcriptGuid), (.transcript_interval_guid, .uuid o.guid)]

/-- the CDS branch of `TranscriptInterval.__init__` (transcript.py:82-115), without the coordinate comparisons -/
def txCdsOf (cs ce : Option (List Int)) (cf : Option (List CDSFrame)) :
    D (Option (List Int × List Int × List CDSFrame)) :=
  match cs, ce with
  | some _, none => .error .invalidCDS
  | none, some _ => .error .invalidCDS
  | none, none => .ok none
  | some s, some e =>
    if s.length != e.length then .error .invalidCDS
    else if s.length == 0 then .error .invalidCDS          -- transcript.py:89-90 (fix cb56bb9)
    else match cf with
      | none => .error .invalidCDS
      | some f => if f.length != s.length then .error .invalidCDS else .ok (some (s, e, f))

/-- transcript.py:349-371 followed by the constructor -/
def txFromDict (d : PyVal) : D TxObj := do
  let starts ← asInts (← getK .exon_starts d)
  let ends ← asInts (← getK .exon_ends d)
  let strand ← lookupStrand (← getK .strand d)
  let cs ← optInts (← getK .cds_starts d)
  let ce ← optInts (← getK .cds_ends d)
  let cf ← optFrames (← getK .cds_frames d)
  let guid ← asOptUuid (← getK .transcript_interval_guid d)
  let tguid ← asOptUuid (← getK .transcript_guid d)
  let quals ← asRawQuals (← getK .qualifiers d)
  let prim ← asOptBool (← getK .is_primary_tx d)
  let tid ← asOptStr (← getK .transcript_id d)
  let sym ← asOptStr (← getK .transcript_symbol d)
  let ty ← optBiotype (← getK .transcript_type d)
  let sname ← asOptStr (← getK .sequence_name d)
  let sguid ← asOptUuid (← getK .sequence_guid d)
  let pid ← asOptStr (← getK .protein_id d)
  let prod ← asOptStr (← getK .product d)
  let cds ← txCdsOf cs ce cf
  let a : TxArgs := ⟨starts, ends, strand, cds, importQuals quals, tid, sym, ty, pid, prod, sname, prim⟩
  pure ⟨a, sguid, (guid.getD (txGuid md5 a)), tguid⟩

/-! ### CDSInterval (no GUID in the dictionary: always recomputed) -/

structure CdsObj where
  args : CdsArgs
  sequenceName : Option Str
  sequenceGuid : Option Str
  guid : Str
  deriving Repr

def cdsToDict (o : CdsObj) : PyVal :=
  let a := o.args
  mkDict [
    (.cds_starts, ofInts a.starts), (.cds_ends, ofInts a.ends), (.strand, .str (strandName a.strand)),
    (.cds_frames, .list (a.frames.map fun f => .str (frameName f))), (.qualifiers, qualsExportVal a.quals),
    (.sequence_name, ofOptStr o.sequenceName), (.sequence_guid, ofOptUuid o.sequenceGuid),
    (.protein_id, ofOptStr a.proteinId), (.product, ofOptStr a.product)]

def cdsFromDict (d : PyVal) : D CdsObj := do
  let starts ← asInts (← getK .cds_starts d)
  let ends ← asInts (← getK .cds_ends d)
  let strand ← lookupStrand (← getK .strand d)
  let frames ← (← asList (← getK .cds_frames d)).mapM lookupFrame
  let quals ← asRawQuals (← getK .qualifiers d)
  let sname ← asOptStr (← getK .sequence_name d)
  let sguid ← asOptUuid (← getK .sequence_guid d)
  let pid ← asOptStr (← getK .protein_id d)
  let prod ← asOptStr (← getK .product d)
  let a : CdsArgs := ⟨starts, ends, strand, frames, prod, pid, importQuals quals⟩
  pure ⟨a, sname, sguid, cdsGuid md5 a⟩

/-! ### FeatureInterval -/

structure FeatObj where
  args : FeatArgs
  sequenceGuid : Option Str
  guid : Str
  featureGuid : Option Str
  deriving Repr

def featToDict (o : FeatObj) : PyVal :=
  let a := o.args
  mkDict [
    (.interval_starts, ofInts a.starts), (.interval_ends, ofInts a.ends), (.strand, .str (strandName a.strand)),
    (.qualifiers, qualsExportVal a.quals), (.feature_id, ofOptStr a.featureId),
    (.feature_name, ofOptStr a.featureName),
    (.feature_types, if a.featureTypes.isEmpty then .none else .list ((sortStrs a.featureTypes).map .str)),
    (.sequence_name, ofOptStr a.sequenceName), (.sequence_guid, ofOptUuid o.sequenceGuid),
    (.feature_interval_guid, .uuid o.guid), (.feature_guid, ofOptUuid o.featureGuid),
    (.is_primary_feature, ofOptBool a.isPrimary)]

/-- `set(feature_types) if feature_types else set()` -/
def importTypes (v : PyVal) : D (List Str) :=
  if truthy v then (asStrs v).map fun l => dedupSorted (sortStrs l) else pure []

def featFromDict (d : PyVal) : D FeatObj := do
  let starts ← asInts (← getK .interval_starts d)
  let ends ← asInts (← getK .interval_ends d)
  let strand ← lookupStrand (← getK .strand d)
  let quals ← asRawQuals (← getK .qualifiers d)
  let sguid ← asOptUuid (← getK .sequence_guid d)
  let sname ← asOptStr (← getK .sequence_name d)
  let types ← importTypes (← getK .feature_types d)
  let fname ← asOptStr (← getK .feature_name d)
  let fid ← asOptStr (← getK .feature_id d)
  let guid ← asOptUuid (← getK .feature_interval_guid d)
  let fguid ← asOptUuid (← getK .feature_guid d)
  let prim ← asOptBool (← getK .is_primary_feature d)
  let a : FeatArgs := ⟨starts, ends, strand, importQuals quals, sname, types, fname, fid, prim⟩
  pure ⟨a, sguid, (guid.getD (featGuid md5 a)), fguid⟩

/-! ### VariantInterval -/

structure VarObj where
  args : VarArgs
  variantId : Option Str
  guid : Str
  deriving Repr

def varToDict (o : VarObj) : PyVal :=
  let a := o.args
  mkDict [
    (.start, .int a.start), (.end, .int a.stop), (.sequence, .str a.sequence), (.variant_type, .str a.variantType),
    (.phase_block, ofOptInt a.phaseBlock), (.variant_interval_guid, .uuid o.guid),
    (.variant_guid, ofOptUuid a.variantGuid),
    (.variant_name, ofOptStr a.variantName), (.variant_id, ofOptStr o.variantId),
    (.qualifiers, qualsExportVal a.quals)]

/-- variants.py:179-192 + constructor (`start == end` is refused) -/
def varFromDict (d : PyVal) : D VarObj := do
  let s ← asInt (← getK .start d)
  let e ← asInt (← getK .end d)
  let sq ← asStr (← getK .sequence d)
  let vt ← asStr (← getK .variant_type d)
  let pb ← asOptInt (← getK .phase_block d)
  let guid ← asOptUuid (← getK .variant_interval_guid d)
  let vguid ← asOptUuid (← getK .variant_guid d)
  let vname ← asOptStr (← getK .variant_name d)
  let vid ← asOptStr (← getK .variant_id d)
  let quals ← asRawQuals (← getK .qualifiers d)
  if s == e then throw .emptyLocation
  let a : VarArgs := ⟨s, e, importQuals quals, sq, vt, pb, vname, vguid⟩
  pure ⟨a, vid, (guid.getD (varGuid md5 a))⟩

/-! ### GeneInterval / FeatureIntervalCollection / VariantIntervalCollection -/

/-- the GUID given in the dictionary, else the digest; the digest does not exist when the span cannot be computed
    (a child without blocks: IndexError / ValueError in the real code) -/
def guidOr (given : Option Str) (computed : Option Str) : D Str :=
  match given with
  | some g => pure g
  | none =>
    match computed with
    | some g => pure g
    | none => throw .typeError

structure GeneObj where
  transcripts : List TxObj
  geneId : Option Str
  geneSymbol : Option Str
  geneType : Option Str
  locusTag : Option Str
  quals : Quals
  sequenceName : Option Str
  sequenceGuid : Option Str
  guid : Str
  deriving Repr

def geneToDict (o : GeneObj) : PyVal :=
  mkDict [
    (.transcripts, .list (o.transcripts.map txToDict)), (.gene_id, ofOptStr o.geneId),
    (.gene_symbol, ofOptStr o.geneSymbol), (.gene_type, ofOptStr o.geneType), (.locus_tag, ofOptStr o.locusTag),
    (.qualifiers, qualsExportVal o.quals), (.sequence_name, ofOptStr o.sequenceName),
    (.sequence_guid, ofOptUuid o.sequenceGuid), (.gene_guid, .uuid o.guid)]

/-- the digest of a collection built from child OBJECTS: the children's stored GUIDs are digested (whether they were
    read from the dictionary or recomputed) -/
def geneObjDigestArgs (txs : List TxObj) (gid sym ty lt sname : Option Str) (q : Quals) (cs : Frame) :
    Option (List PyVal) :=
  (spanOf (txs.map fun t => t.args.bounds)).map fun sp =>
    [spanVal sp.1 sp.2 cs, ofOptStr gid, ofOptStr sym, ofOptBiotype ty, ofOptStr lt, ofOptStr sname,
      qualsVal q, .set (txs.map fun t => .uuid t.guid)]

def geneGuidOfObjs (txs : List TxObj) (gid sym ty lt sname : Option Str) (q : Quals) (cs : Frame) : Option Str :=
  (geneObjDigestArgs txs gid sym ty lt sname q cs).map (guidOf md5)

/-- gene.py:146-160 + constructor; `cs` = frame of the chunk parent handed to `from_dict` (`Frame.none` without parent / on
    a chromosome parent; the chunk is assumed to contain the gene); an empty transcript list is refused -/
def geneFromDict (cs : Frame) (d : PyVal) : D GeneObj := do
  let txs ← (← asList (← getK .transcripts d)).mapM (txFromDict md5)
  let gid ← asOptStr (← getK .gene_id d)
  let sym ← asOptStr (← getK .gene_symbol d)
  let ty ← optBiotype (← getK .gene_type d)
  let lt ← asOptStr (← getK .locus_tag d)
  let quals ← asRawQuals (← getK .qualifiers d)
  let sname ← asOptStr (← getK .sequence_name d)
  let sguid ← asOptUuid (← getK .sequence_guid d)
  let guid ← asOptUuid (← getK .gene_guid d)
  if txs.isEmpty then throw .invalidAnnotation
  let q := importQuals quals
  let g ← guidOr guid (geneGuidOfObjs md5 txs gid sym ty lt sname q cs)
  pure ⟨txs, gid, sym, ty, lt, q, sname, sguid, g⟩

structure FcObj where
  features : List FeatObj
  name : Option Str
  id : Option Str
  ctype : Option Str
  locusTag : Option Str
  quals : Quals
  sequenceName : Option Str
  sequenceGuid : Option Str
  guid : Str
  deriving Repr

def fcToDict (o : FcObj) : PyVal :=
  mkDict [
    (.feature_intervals, .list (o.features.map featToDict)), (.feature_collection_name, ofOptStr o.name),
    (.feature_collection_id, ofOptStr o.id), (.feature_collection_type, ofOptStr o.ctype),
    (.locus_tag, ofOptStr o.locusTag), (.qualifiers, qualsExportVal o.quals),
    (.sequence_name, ofOptStr o.sequenceName), (.sequence_guid, ofOptUuid o.sequenceGuid),
    (.feature_collection_guid, .uuid o.guid)]

def fcObjDigestArgs (fs : List FeatObj) (name id ctype lt sname : Option Str) (q : Quals) (cs : Frame) :
    Option (List PyVal) :=
  (spanOf (fs.map fun f => f.args.bounds)).map fun sp =>
    [spanVal sp.1 sp.2 cs, ofOptStr name, ofOptStr id, ofOptStr ctype,
      .set ((strUnion (fs.map (·.args.featureTypes))).map .str), ofOptStr lt, ofOptStr sname, qualsVal q,
      .set (fs.map fun f => .uuid f.guid)]

def fcGuidOfObjs (fs : List FeatObj) (name id ctype lt sname : Option Str) (q : Quals) (cs : Frame) : Option Str :=
  (fcObjDigestArgs fs name id ctype lt sname q cs).map (guidOf md5)

def fcFromDict (cs : Frame) (d : PyVal) : D FcObj := do
  let fs ← (← asList (← getK .feature_intervals d)).mapM (featFromDict md5)
  let name ← asOptStr (← getK .feature_collection_name d)
  let id ← asOptStr (← getK .feature_collection_id d)
  let ctype ← asOptStr (← getK .feature_collection_type d)
  let lt ← asOptStr (← getK .locus_tag d)
  let quals ← asRawQuals (← getK .qualifiers d)
  let sname ← asOptStr (← getK .sequence_name d)
  let sguid ← asOptUuid (← getK .sequence_guid d)
  let guid ← asOptUuid (← getK .feature_collection_guid d)
  if fs.isEmpty then throw .invalidAnnotation
  let q := importQuals quals
  let g ← guidOr guid (fcGuidOfObjs md5 fs name id ctype lt sname q cs)
  pure ⟨fs, name, id, ctype, lt, q, sname, sguid, g⟩

structure VcObj where
  variants : List VarObj               -- sorted by start by the constructor
  name : Option Str
  id : Option Str
  quals : Quals
  sequenceName : Option Str
  sequenceGuid : Option Str
  guid : Str
  deriving Repr

def vcToDict (o : VcObj) : PyVal :=
  mkDict [
    (.variant_intervals, .list (o.variants.map varToDict)), (.variant_collection_name, ofOptStr o.name),
    (.variant_collection_id, ofOptStr o.id), (.qualifiers, qualsExportVal o.quals),
    (.sequence_name, ofOptStr o.sequenceName), (.sequence_guid, ofOptUuid o.sequenceGuid),
    (.variant_collection_guid, .uuid o.guid)]

def vcObjDigestArgs (vs : List VarObj) (name id sname : Option Str) (q : Quals) (cs : Frame) : Option (List PyVal) :=
  (spanOf (vs.map fun v => (some v.args.start, some v.args.stop))).map fun sp =>
    [spanVal sp.1 sp.2 cs, ofOptStr name, ofOptStr id, ofOptStr sname, qualsVal q,
      .set (vs.map fun v => .uuid v.guid)]

def vcGuidOfObjs (vs : List VarObj) (name id sname : Option Str) (q : Quals) (cs : Frame) : Option Str :=
  (vcObjDigestArgs vs name id sname q cs).map (guidOf md5)

/-- `sorted(variant_intervals, key=lambda x: x.start)` (stable) -/
def sortVars (vs : List VarObj) : List VarObj := vs.mergeSort fun a b => decide (a.args.start ≤ b.args.start)

def vcFromDict (cs : Frame) (d : PyVal) : D VcObj := do
  let vs0 ← (← asList (← getK .variant_intervals d)).mapM (varFromDict md5)
  let name ← asOptStr (← getK .variant_collection_name d)
  let id ← asOptStr (← getK .variant_collection_id d)
  let quals ← asRawQuals (← getK .qualifiers d)
  let sname ← asOptStr (← getK .sequence_name d)
  let sguid ← asOptUuid (← getK .sequence_guid d)
  let guid ← asOptUuid (← getK .variant_collection_guid d)
  if vs0.isEmpty then throw .invalidAnnotation   -- variants.py:355-356 (fix 7977ad0)
  let vs := sortVars vs0
  let q := importQuals quals
  let g ← guidOr guid (vcGuidOfObjs md5 vs name id sname q cs)
  pure ⟨vs, name, id, q, sname, sguid, g⟩

/-! ### the parent dictionary (interval.py:89-157, collections.py:371-425) -/

/-- the four parent situations the round trip distinguishes -/
inductive ParentDesc where
  | none
  /-- `Parent(id=…, sequence_type=…)`: no sequence, no location; `chromosome = true` ⇔ the type is CHROMOSOME -/
  | bare (id : Option Str) (chromosome : Bool)
  /-- `seq_to_parent(seq, alphabet, seq_id)`: the whole chromosome -/
  | chrom (seq : Str) (alphabet : Str) (id : Option Str)
  /-- `seq_chunk_to_parent(seq, name, start, end, strand, alphabet)` -/
  | chunk (seq : Str) (alphabet : Str) (name : Str) (start stop : Int) (strand : Strand)
  deriving DecidableEq, Repr

/-- `_parent_to_dict()` of a collection whose chromosome bounds are `bounds` -/
def parentToDict (p : ParentDesc) (bounds : Int × Int) : PyVal :=
  match p with
  | .none => .none
  | .chunk sq al name s e st =>
    mkDict [(.seq, .str sq), (.sequence_name, .str name), (.start, .int s), (.end, .int e),
      (.strand, .str (strandName st)), (.alphabet, .str al), (.type, .str "SEQUENCE_CHUNK".toList)]
  | .chrom sq al id =>
    mkDict [(.seq, .str sq), (.sequence_name, ofOptStr id), (.start, .int bounds.1), (.end, .int bounds.2),
      (.strand, .str "PLUS".toList), (.alphabet, .str al), (.type, .str "CHROMOSOME".toList)]
  | .bare id true =>
    mkDict [(.seq, .none), (.sequence_name, ofOptStr id), (.start, .int bounds.1), (.end, .int bounds.2),
      (.strand, .str "PLUS".toList), (.alphabet, .none), (.type, .str "CHROMOSOME".toList)]
  | .bare id false =>
    mkDict [(.seq, .none), (.sequence_name, ofOptStr id), (.start, .none), (.end, .none), (.strand, .none),
      (.alphabet, .none), (.type, .none)]

/-- `parent_dict.get(key)` after null values were stripped -/
def getOpt (k : Key) : PyVal → PyVal
  | .dict kvs => (kvs.lookup k.str).getD .none
  | _ => .none

def upperAscii (s : Str) : Str := s.map Char.toUpper

/-- `SequenceType.sequence_type_str_to_type(type)`, reported as the upper-cased text (`None` for a falsy type) -/
def typeUpper (ty : PyVal) : D (Option Str) :=
  if truthy ty then (asStr ty).map fun s => some (upperAscii s) else pure none

/-- `Strand[...]` when a strand is present, else the default of `seq_chunk_to_parent` -/
def strandOrPlus (v : PyVal) : D Strand :=
  if truthy v then lookupStrand v else pure Strand.plus

/-- SWITCH for F-C08f.  `true` = the code as it is since d13579b (`parent_dict.get("sequence_name")`).
    `false` = the earlier code: `parent_dict["seq_id"] = parent_dict["sequence_name"]` raised KeyError for a
    whole-chromosome parent exported without sequence id. -/
def chromIdRepaired : Bool := true

/-- the key survived the `v is not None` filter -/
def truthyOrPresent : PyVal → Bool
  | .none => false
  | _ => true

/-- `convert_parent_dict_to_parent(vals)` -/
def parentFromDict (v : PyVal) : D ParentDesc :=
  match v with
  | .none => .ok .none
  | .dict _ => do
    let seq := getOpt .seq v
    let ty := getOpt .type v
    let tyU ← typeUpper ty
    if truthy seq then
      let sq ← asStr seq
      let al ← asStr (getOpt .alphabet v)          -- `Alphabet[...]`; absent alphabet = the functions' default
      if tyU == some "SEQUENCE_CHUNK".toList then
        let name ← asStr (getOpt .sequence_name v)
        let s ← asInt (getOpt .start v)
        let e ← asInt (getOpt .end v)
        let st ← strandOrPlus (getOpt .strand v)
        pure (.chunk sq al name s e st)
      else
        -- `parent_dict["seq_id"] = parent_dict["sequence_name"]`: KeyError when the name was null (F-C08f)
        if !chromIdRepaired && !truthyOrPresent (getOpt .sequence_name v) then throw .keyError
        let id ← asOptStr (getOpt .sequence_name v)
        pure (.chrom sq al id)
    else if truthy ty || truthy (getOpt .sequence_name v) then
      let id ← asOptStr (getOpt .sequence_name v)
      pure (.bare id (tyU == some "CHROMOSOME".toList))
    else pure .none
  | _ => .error .typeError

/-! ### AnnotationCollection -/

structure AcObj where
  genes : List GeneObj
  fcs : List FcObj
  vcs : List VcObj
  name : Option Str
  id : Option Str
  quals : Quals
  sequenceName : Option Str
  sequenceGuid : Option Str
  sequencePath : Option Str
  bounds : Option (Int × Int)          -- `self.start`, `self.end`: set only when a range could be determined
  completelyWithin : Option Bool
  parent : ParentDesc
  guid : Str
  deriving Repr

/-- collections.py:315-352; `self.start` does not exist for a collection without bounds (F-C19f) -/
def acToDict (o : AcObj) (exportParent : Bool) : D PyVal :=
  match o.bounds with
  | none => .error .attributeError
  | some b => .ok (mkDict [
      (.genes, .list (o.genes.map geneToDict)), (.feature_collections, .list (o.fcs.map fcToDict)),
      (.variant_collections, .list (o.vcs.map vcToDict)), (.name, ofOptStr o.name), (.id, ofOptStr o.id),
      (.qualifiers, qualsExportVal o.quals), (.sequence_name, ofOptStr o.sequenceName),
      (.sequence_guid, ofOptUuid o.sequenceGuid), (.sequence_path, ofOptStr o.sequencePath),
      (.start, .int b.1), (.end, .int b.2), (.completely_within, ofOptBool o.completelyWithin),
      (.parent_or_seq_chunk_parent, if exportParent then parentToDict o.parent b else .none)])

/-- the collection's digest (collections.py:152-154), children given by their stored GUIDs; `cs` = chunk start -/
def boundsVal (cs : Frame) : Option (Int × Int) → PyVal
  | none => ofEmptyLocation
  | some b => spanVal b.1 b.2 cs

def acDigestArgs (bounds : Option (Int × Int)) (cs : Frame) (name sname : Option Str) (q : Quals) (cw : Option Bool)
    (children : List Str) : List PyVal :=
  [boundsVal cs bounds, ofOptStr name, ofOptStr sname, qualsVal q, ofOptBool cw, .set (children.map .uuid)]

def acGuidOf (bounds : Option (Int × Int)) (cs : Frame) (name sname : Option Str) (q : Quals) (cw : Option Bool)
    (children : List Str) : Str :=
  guidOf md5 (acDigestArgs bounds cs name sname q cw children)

/-- chunk start of a parent (0 unless a chunk) -/
def ParentDesc.frame : ParentDesc → Frame
  | .chunk _ _ _ s e st => ⟨s, e, st == .minus⟩
  | _ => Frame.none

/-- bounds the constructor infers when `start`/`end` are not given (collections.py:122-144): from the parent's
    chromosome location, else from the children of a non-empty (genes + feature collections) collection -/
def inferBounds (p : ParentDesc) (genes : List GeneObj) (fcs : List FcObj) (vcs : List VcObj) : Option (Int × Int) :=
  match p with
  | .chrom sq _ _ => some (0, sq.length)
  | .chunk _ _ _ s e _ => some (s, e)
  | _ =>
    if genes.isEmpty && fcs.isEmpty then none
    else spanOf ((genes.flatMap fun g => g.transcripts.map fun t => t.args.bounds) ++
                 (fcs.flatMap fun c => c.features.map fun f => f.args.bounds) ++
                 (vcs.flatMap fun c => c.variants.map fun v => (some v.args.start, some v.args.stop)))

/-- `if not parent_or_seq_chunk_parent and "parent_or_seq_chunk_parent" in vals: … convert_parent_dict_to_parent` -/
def resolveParent (d : PyVal) (given : ParentDesc) : D ParentDesc :=
  if given != .none then pure given else
    match getK .parent_or_seq_chunk_parent d with
    | .ok v => parentFromDict v
    | .error _ => pure ParentDesc.none

/-- collections.py:112-144: explicit bounds need both ends; without them the bounds are inferred -/
def resolveBounds (s e : Option Int) (inferred : Option (Int × Int)) : D (Option (Int × Int)) :=
  match s, e with
  | some s, some e => pure (some (s, e))
  | none, none => pure inferred
  | _, _ => throw .invalidAnnotation

/-- collections.py:354-453 + constructor; `given` = the `parent_or_seq_chunk_parent` argument of `from_dict` -/
def acFromDict (d : PyVal) (given : ParentDesc) : D AcObj := do
  let parent ← resolveParent d given
  let genes ← optChildren (geneFromDict md5 parent.frame) (← getK .genes d)
  let fcs ← optChildren (fcFromDict md5 parent.frame) (← getK .feature_collections d)
  let vcs ← optChildren (vcFromDict md5 parent.frame) (← getK .variant_collections d)
  let name ← asOptStr (← getK .name d)
  let id ← asOptStr (← getK .id d)
  let quals ← asRawQuals (← getK .qualifiers d)
  let sname ← asOptStr (← getK .sequence_name d)
  let sguid ← asOptUuid (← getK .sequence_guid d)
  let spath ← asOptStr (← getK .sequence_path d)
  let s ← asOptInt (← getK .start d)
  let e ← asOptInt (← getK .end d)
  let cw ← asOptBool (← getK .completely_within d)
  let bounds ← resolveBounds s e (inferBounds parent genes fcs vcs)
  let q := importQuals quals
  let children := genes.map (·.guid) ++ fcs.map (·.guid) ++ vcs.map (·.guid)
  pure ⟨genes, fcs, vcs, name, id, q, sname, sguid, spath, bounds, cw, parent,
        acGuidOf md5 bounds parent.frame name sname q cw children⟩

end
end BioCantor.Model.Digest
