/-
  Abstraction of `inscripta.biocantor.parent.Parent` to exactly what the location algebra looks at:
  id, sequence_type, the sequence data (its length bounds coordinates, its content is compared), and the
  chain of ancestors.  A `PKey` is the chain `[parent, grand-parent, …]`; `[]` is Python's `None`.

  Deliberately built from core types only (no new structure), so that Spec/Algebra.lean can talk about the
  same values without importing the model.

  Modelled methods (parent/parent.py, util/object_validation.py):
    * `Parent.equals_except_location`  (with `require_same_sequence=True`)
    * `Parent.__eq__` on ancestors: the harness builds ancestors without a location/strand, for which
      `__eq__` is `equals_except_location`
    * `ObjectValidation.require_parents_equal_except_location`
    * the parent gate at the head of `SingleInterval.has_overlap`
  `Parent` defines neither `__bool__` nor `__len__`, so `if self.parent:` is `is not None`.
-/
import BioCantor.Base
namespace BioCantor.Model
open BioCantor

/-- `(id, sequence_type, sequence data)` of one `Parent` -/
abbrev PInfo := Option String × Option String × Option (List Char)

/-- a `Parent` with its ancestors; `[]` = `None` -/
abbrev PKey := List PInfo

def pinfoId (p : PInfo) : Option String := p.1
def pinfoType (p : PInfo) : Option String := p.2.1
def pinfoSeq (p : PInfo) : Option (List Char) := p.2.2

/-- `location.parent_id`: `self.parent.id if self.parent else None` -/
def parentId : PKey → Option String
  | [] => none
  | p :: _ => pinfoId p

/-- `len(parent.sequence)` when the parent has a sequence -/
def parentSeqLen : PKey → Option Nat
  | [] => none
  | p :: _ => (pinfoSeq p).map List.length

/-- `Parent.equals_except_location`: ids, types, sequences equal; the ancestors are compared only when
    BOTH sides have one (`if self.parent and other.parent and self.parent != other.parent`). -/
def eqExceptLoc : PKey → PKey → Bool
  | x :: xs, y :: ys =>
    pinfoId x == pinfoId y && pinfoType x == pinfoType y &&
      (if xs.isEmpty || ys.isEmpty then true else eqExceptLoc xs ys) &&
      pinfoSeq x == pinfoSeq y
  | _, _ => false

/-- `ObjectValidation.require_parents_equal_except_location` -/
def requireParentsEq (a b : PKey) : Except Err Unit :=
  match a, b with
  | [], [] => pure ()
  | [], _ :: _ => throw .MismatchedParent
  | _ :: _, [] => throw .MismatchedParent
  | _ :: _, _ :: _ => if eqExceptLoc a b then pure () else throw .MismatchedParent

/-- head of `SingleInterval.has_overlap`:
    `if self.parent_id != other.parent_id: return False`
    `if self.parent or other.parent: if not (self.parent and other.parent): return False;`
    `   if not self.parent.equals_except_location(other.parent): return False` -/
def parentGate (a b : PKey) : Bool :=
  if parentId a != parentId b then false
  else if a.isEmpty && b.isEmpty then true
  else if a.isEmpty || b.isEmpty then false
  else eqExceptLoc a b

end BioCantor.Model
