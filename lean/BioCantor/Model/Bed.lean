/-
  Hand-written mirror of BED12 export:
    io/bed/bed.py            RGB.__str__, BED12.__str__
    gene/transcript.py       TranscriptInterval.__init__ (the checks that matter here), to_bed12
    gene/feature.py          FeatureInterval.to_bed12
  on what `to_bed12` reads from an interval: `_genomic_starts/_genomic_ends`, `start`, `end`, `strand`,
  the CDS (`cds.start`, `cds.end`, its chunk-relative location), `sequence_name`, the identifier selected by
  `getattr(self, name, name)`, and the chunk-relative location.

  Chunk parents: the modelled domain is a PLUS-strand chunk window that CONTAINS the interval (the
  quantifier of C14); then `parent_to_relative_location(…, optimize_blocks=False)` is the shift by the
  window start.  A window that cuts the interval is outside this model (`none`), it is C07's subject.
  Tied to the source by the correspondence run of every check.
-/
import BioCantor.Base
namespace BioCantor.Model.Bed
open BioCantor

abbrev R := Except Err

/-! ### `str(int)`, `str(None)`, `sep.join` -/

def digitChar : Nat → Char
  | 0 => '0' | 1 => '1' | 2 => '2' | 3 => '3' | 4 => '4'
  | 5 => '5' | 6 => '6' | 7 => '7' | 8 => '8' | _ => '9'

/-- decimal digits, most significant first; `fuel` bounds the recursion (fuel = n suffices) -/
def natStrAux : Nat → Nat → List Char
  | 0, n => [digitChar (n % 10)]
  | f + 1, n => if n < 10 then [digitChar n] else natStrAux f (n / 10) ++ [digitChar (n % 10)]

/-- `str(n)` for a non-negative int -/
def natStr (n : Nat) : List Char := natStrAux n n

/-- `str(i)` for an int -/
def intStr (i : Int) : List Char := if i < 0 then '-' :: natStr (-i).toNat else natStr i.toNat

/-- `str(x)` for an `Optional[str]` -/
def optStr : Option (List Char) → List Char
  | none => ['N', 'o', 'n', 'e']
  | some s => s

/-- `sep.join(fields)` -/
def join (sep : Char) : List (List Char) → List Char
  | [] => []
  | [x] => x
  | x :: y :: rest => x ++ sep :: join sep (y :: rest)

/-- `Strand.to_symbol` -/
def strandSym : Strand → List Char
  | .plus => ['+']
  | .minus => ['-']
  | .unstranded => ['.']

/-! ### io/bed/bed.py -/

/-- the dataclass `BED12` (block starts are whatever ints the exporter computed) -/
structure Bed12 where
  chrom : Option (List Char)
  start : Nat
  «end» : Nat
  name : Option (List Char)
  score : Nat
  strand : Strand
  thickStart : Nat
  thickEnd : Nat
  rgb : Nat × Nat × Nat
  blockCount : Nat
  blockSizes : List Nat
  blockStarts : List Int
  deriving DecidableEq, Repr

/-- `RGB.__str__` -/
def rgbStr (c : Nat × Nat × Nat) : List Char := join ',' [natStr c.1, natStr c.2.1, natStr c.2.2]

/-- `BED12.__str__` -/
def Bed12.str (b : Bed12) : List Char :=
  join '\t' [optStr b.chrom, natStr b.start, natStr b.«end», optStr b.name, natStr b.score, strandSym b.strand,
             natStr b.thickStart, natStr b.thickEnd, rgbStr b.rgb, natStr b.blockCount,
             join ',' (b.blockSizes.map natStr), join ',' (b.blockStarts.map intStr)]

/-! ### the interval as `to_bed12` sees it -/

/-- `parent_or_seq_chunk_parent` -/
inductive Par where
  | none                          -- no parent
  | chromosome                    -- `seq_to_parent(…)`: whole chromosome
  | chunk (cs ce : Nat)           -- `seq_chunk_to_parent(seq, name, cs, ce)`, plus strand
  deriving DecidableEq, Repr

/-- which identifier `getattr(self, name, name)` resolves to -/
inductive NameSel where
  | symbol                        -- "transcript_symbol" / "feature_name" (the defaults)
  | ident                         -- "transcript_id" / "feature_id"
  | literal (s : List Char)       -- a string that is not an attribute name: used directly
  | seqname                       -- "sequence_name": any OTHER attribute of the record resolves to its value too
  deriving DecidableEq, Repr

structure Iv where
  exons : List Blk                -- zip(_genomic_starts, _genomic_ends), as passed to the constructor
  strand : Strand
  cds : Option (List Blk)         -- zip(cds._genomic_starts, cds._genomic_ends) when `self.cds`
  seqName : Option (List Char)    -- sequence_name
  symbol : Option (List Char)     -- transcript_symbol / feature_name
  ident : Option (List Char)      -- transcript_id / feature_id
  par : Par
  deriving DecidableEq, Repr

/-- last element of the non-empty list `b :: rest` (`xs[-1]`) -/
def lastOf : Blk → List Blk → Blk
  | b, [] => b
  | _, c :: rest => lastOf c rest

/-- the constructor checks of `TranscriptInterval.__init__` / `FeatureInterval.__init__` that concern this
    export, in the order of the source: a location needs a block (LocationException), `start ≤ end` per block
    (InvalidPositionException), the CDS must lie inside `[exon_starts[0], exon_ends[-1]]`
    (InvalidCDSIntervalError), its blocks must be valid and it must not be empty (InvalidCDSIntervalError).
    (`cds_starts = []` makes the real constructor fail with IndexError; the driver cannot express it.) -/
def mkIv (exons : List Blk) (strand : Strand) (cds : Option (List Blk))
    (seqName symbol ident : Option (List Char)) (par : Par) : R Iv :=
  match exons with
  | [] => throw .Location
  | e0 :: erest =>
    if exons.any (fun b => decide (b.2 < b.1)) then throw .InvalidPosition
    else match cds with
      | none => pure ⟨exons, strand, none, seqName, symbol, ident, par⟩
      | some [] => throw .InvalidCDSInterval
      | some (c0 :: crest) =>
        if c0.1 < e0.1 then throw .InvalidCDSInterval
        else if (lastOf c0 crest).2 > (lastOf e0 erest).2 then throw .InvalidCDSInterval
        else if (c0 :: crest).any (fun b => decide (b.2 < b.1)) then throw .InvalidPosition
        else if blocksLen (c0 :: crest) = 0 then throw .InvalidCDSInterval
        else pure ⟨exons, strand, some (c0 :: crest), seqName, symbol, ident, par⟩

/-- `max(self._ends)` : `.end` of a location -/
def maxEnd : List Blk → Nat
  | [] => 0
  | b :: bs => max b.2 (maxEnd bs)

/-- insertion into a list ordered by the constructor's key (blocks with equal keys are equal, so stability is moot) -/
def insertBlk (st : Strand) (x : Blk) : List Blk → List Blk
  | [] => [x]
  | y :: ys => if blkLe st x y then x :: y :: ys else y :: insertBlk st x ys

/-- `CompoundInterval._sort_starts_ends` (Python's `sorted` by the strand's key; an insertion sort here — structurally
    recursive, so that statements about concrete intervals evaluate) -/
def sortLoc (st : Strand) : List Blk → List Blk
  | [] => []
  | x :: xs => insertBlk st x (sortLoc st xs)

/-- blocks of the chunk-relative location; `none` = the window cuts the interval (not modelled here).
    On a chunk parent the location is built by `parent_to_relative_location`, which keeps only the blocks that
    OVERLAP the window: a zero-length block overlaps nothing and is dropped (it stays in `_genomic_starts/_ends`, so
    the chromosome-mode record still lists it).  Without a chunk parent (`reset_parent`) all blocks are kept.
    The blocks of a location come in the constructor's order (`sortLoc`: by (start, end) on plus, by (start, −end)
    otherwise) — the identity on ascending non-empty blocks, visible only with zero-length blocks. -/
def chunkBlocks (st : Strand) (par : Par) (bs : List Blk) : Option (List Blk) :=
  match par with
  | .chunk cs ce =>
    if bs.all (fun b => decide (cs ≤ b.1) && decide (b.2 ≤ ce)) then
      some (sortLoc st ((bs.filter fun b => decide (b.1 < b.2)).map fun b => (b.1 - cs, b.2 - cs)))
    else none
  | _ => some (sortLoc st bs)

/-- `getattr(self, name, name)` -/
def selName (x : Iv) : NameSel → Option (List Char)
  | .symbol => x.symbol
  | .ident => x.ident
  | .literal s => some s
  | .seqname => x.seqName

/-- `block_sizes = [end - start for start, end in blocks]` -/
def sizes (bs : List Blk) : List Nat := bs.map fun b => b.2 - b.1

/-- `block_starts = [start - origin for start, _ in blocks]` (Python ints: may be negative) -/
def startsRel (origin : Nat) (bs : List Blk) : List Int := bs.map fun b => (b.1 : Int) - (origin : Int)

/-- `TranscriptInterval.to_bed12` (transcript.py:785-851).  `none` = outside the modelled domain.
    `repaired = false` is the code AS IT IS: block starts are taken against `self.start`, the CHROMOSOME start
    (transcript.py:819), also in chunk-relative mode.  `repaired = true` is the one-token repair (block starts
    against the record's own start column, `self.chunk_relative_start`). -/
def txCore (repaired : Bool) (x : Iv) (score : Nat) (rgb : Nat × Nat × Nat) (name : NameSel) (chromRel : Bool) :
    Option Bed12 :=
  match x.exons with
  | [] => none
  | e0 :: erest =>
    let selfStart := e0.1                  -- self.start = exon_starts[0]
    let selfEnd := (lastOf e0 erest).2     -- self.end = exon_ends[-1]
    if chromRel then
      let thick : Nat × Nat :=
        match x.cds with
        | some (c0 :: crest) => (c0.1, (lastOf c0 crest).2)     -- self.cds.start, self.cds.end
        | _ => (0, 0)
      some ⟨x.seqName, selfStart, selfEnd, selName x name, score, x.strand, thick.1, thick.2, rgb,
            x.exons.length, sizes x.exons, startsRel selfStart x.exons⟩
    else
      match chunkBlocks x.strand x.par x.exons with
      | some (r0 :: rrest) =>
        let blocks := r0 :: rrest
        let thick : Option (Nat × Nat) :=
          match x.cds with
          | some (c0 :: crest) =>
            match chunkBlocks x.strand x.par (c0 :: crest) with
            | some (q0 :: qrest) => some (q0.1, maxEnd (q0 :: qrest))   -- cds chunk-relative location .start/.end
            | _ => none
          | _ => some (0, 0)
        match thick with
        | none => none
        | some t =>
          some ⟨x.seqName, r0.1, maxEnd blocks, selName x name, score, x.strand, t.1, t.2, rgb,
                blocks.length, sizes blocks, startsRel (if repaired then r0.1 else selfStart) blocks⟩
      | _ => none

/-- `FeatureInterval.to_bed12` (feature.py:424-480): thick columns always 0; same `self.start` at feature.py:458. -/
def featCore (repaired : Bool) (x : Iv) (score : Nat) (rgb : Nat × Nat × Nat) (name : NameSel) (chromRel : Bool) :
    Option Bed12 :=
  match x.exons with
  | [] => none
  | e0 :: erest =>
    if chromRel then
      some ⟨x.seqName, e0.1, (lastOf e0 erest).2, selName x name, score, x.strand, 0, 0, rgb,
            x.exons.length, sizes x.exons, startsRel e0.1 x.exons⟩
    else
      match chunkBlocks x.strand x.par x.exons with
      | some (r0 :: rrest) =>
        some ⟨x.seqName, r0.1, maxEnd (r0 :: rrest), selName x name, score, x.strand, 0, 0, rgb,
              (r0 :: rrest).length, sizes (r0 :: rrest), startsRel (if repaired then r0.1 else e0.1) (r0 :: rrest)⟩
      | _ => none

/-- the code as it is (with the repair of F-C14a, /repo commit f0d82c2) -/
def txToBed12 := txCore true
def featToBed12 := featCore true
/-- the code BEFORE the repair of F-C14a (/repo commit f0d82c2), kept for the regression witness -/
def txToBed12Before := txCore false
def featToBed12Before := featCore false

end BioCantor.Model.Bed
