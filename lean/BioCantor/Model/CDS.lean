/-
  Hand-written mirror of inscripta/biocantor/gene/cds.py (`CDSInterval`) for a CDS that lives on a whole
  chromosome (no sequence chunk: `is_chunk_relative == False`; the chunk branches belong to C07 and are
  marked `-- CHUNK:` where they would attach).  Every function follows the control flow of the Python
  method named in its doc comment; `raise X` is `throw Err.X`.

  Reused, not re-modelled:
    * `Model.Location` : `compoundP2R` (parent_to_relative_pos), `relInterval`
      (relative_interval_to_parent_location), `optimizeLoc`, `overlapKernel`, `hasOverlap`, `mkCompoundLoc`
    * generated kernels  `Gen.CDSFrame_shift`, `Gen.CDSFrame_to_phase`, `Gen.CDSPhase_to_frame`
    * generated tables   `Gen.gencode`, `Gen.extendedGencode`, `Gen.aacodons`, `Gen.startCodons`,
                         `Gen.codonAlphabet`, `Gen.complementMaps`

  Python facts that decide answers and are therefore explicit here:
    * `if relative_window:` is `len(window) > 0` (a zero-length window counts as "no window");
    * `chromosome_location` of a CDS is always a CompoundInterval, also with one block;
    * `self.start` / `self.end` are `cds_starts[0]` / `cds_ends[-1]` as given, not min / max;
    * slices `s[a:b]` never raise; `x % 3` is the non-negative remainder, `x % -3` the non-positive one.

  The tie to the source is checked on every run by the correspondence harness (harness/props/c05.py).
-/
import BioCantor.Model.Location
import BioCantor.Gen.Tables
import BioCantor.Gen.Kernels
namespace BioCantor.Model
open BioCantor

/-- exception classes of the generated kernels ↦ the documented classes of `Base.Err` -/
def liftPy {α} : GenP.PyR α → R α
  | .ok a => .ok a
  | .error .InvalidPositionException => .error .InvalidPosition
  | .error .InvalidStrandException => .error .InvalidStrand
  | .error .ValueError => .error .ValueError
  | .error .TypeError => .error .TypeError
  | .error .KeyError => .error .TypeError      -- dict lookups on enum values: unreachable (Proofs/CDSFrames)
  | .error .UnsupportedOperationException => .error .UnsupportedOperation
  | .error .EmptyLocationException => .error .EmptyLocation
  | .error .LocationException => .error .Location
  | .error .NotImplementedError => .error .NotImplemented
  | .error .MismatchedFrameException => .error .MismatchedFrame
  | .error .InvalidCDSIntervalError => .error .InvalidCDSInterval

/-- `CDSFrame.shift` (generated kernel) -/
def frameShift (f : CDSFrame) (n : Int) : R CDSFrame := liftPy (Gen.CDSFrame_shift f n)
/-- `CDSPhase.to_frame` (generated kernel) -/
def phaseToFrame (p : CDSPhase) : R CDSFrame := liftPy (Gen.CDSPhase_to_frame p)
/-- `CDSFrame.to_phase` (generated kernel) -/
def frameToPhase (f : CDSFrame) : R CDSPhase := liftPy (Gen.CDSFrame_to_phase f)
/-- `CDSPhase(value)` -/
def phaseOfInt (v : Int) : R CDSPhase := liftPy (GenP.phaseOfInt v)

/-! ### The object -/

/-- What the methods below read from a `CDSInterval` built on a chromosome. -/
structure CDS where
  /-- `chromosome_location`: `CompoundInterval(_genomic_starts, _genomic_ends, _strand)` (sorted by the constructor) -/
  loc : Loc
  /-- `self.start = cds_starts[0]` -/
  start : Nat
  /-- `self.end = cds_ends[-1]` -/
  «end» : Nat
  /-- `self.frames`, in the order given (plus orientation) -/
  frames : List CDSFrame
  /-- the chromosome sequence of the parent, if any -/
  seq : Option (List Char)
  deriving Repr

/-- `frames_or_phases` argument: all CDSFrame or all CDSPhase (a mixed list raises MismatchedFrame; not representable here) -/
inductive FramesOrPhases where
  | frames (fs : List CDSFrame)
  | phases (ps : List CDSPhase)

def FramesOrPhases.length : FramesOrPhases → Nat
  | .frames fs => fs.length
  | .phases ps => ps.length

/-- `CDSInterval.__init__` with `parent_or_seq_chunk_parent` = None or a chromosome parent carrying `seq`.
    `initialize_location` builds a SingleInterval for one block and a CompoundInterval otherwise (both validate
    `start <= end`; only the SingleInterval is checked against the sequence length at this point). -/
def mkCDS (exons : List Blk) (strand : Strand) (fp : FramesOrPhases) (seq : Option (List Char)) : R CDS := do
  -- initialize_location
  match exons with
  | [b] =>
    if ¬ (b.1 ≤ b.2) then throw .InvalidPosition
    match seq with
    | some s => if b.2 > s.length then throw .InvalidPosition
    | none => pure ()
  | _ => let _ ← mkCompoundLoc exons strand      -- raises Location for no block, InvalidPosition for start > end
  let first ← match exons.head? with
    | some b => pure b
    | none => throw .Location
  let last ← match exons.getLast? with
    | some b => pure b
    | none => throw .Location
  if fp.length ≠ exons.length then throw .MismatchedFrame
  -- chromosome_location
  let loc ← mkCompoundLoc exons strand
  if loc.len = 0 then throw .InvalidCDSInterval
  let frames ← match fp with
    | .frames fs => pure fs
    | .phases ps => ps.mapM phaseToFrame
  pure { loc := loc, start := first.1, «end» := last.2, frames := frames, seq := seq }

/-- `num_blocks` -/
def CDS.numBlocks (c : CDS) : Nat := c.loc.blocks.length
/-- `strand` (of `chromosome_location`) -/
def CDS.strand (c : CDS) : Strand := c.loc.strand

/-- `_exon_iter(chunk_relative_exon=False)`: blocks in transcription direction -/
def CDS.exonIter (c : CDS) : List Blk :=
  if c.loc.strand = .plus ∨ c.loc.strand = .unstranded then c.loc.blocks else c.loc.blocks.reverse

/-- `_frame_iter(chunk_relative_frames=False)` -/
def CDS.frameIter (c : CDS) : List CDSFrame :=
  if c.strand = .minus then c.frames.reverse else c.frames

/-! ### Frame cleaning (`_prepare_multi_exon_window_for_scan_codon_locations`, lines 714-745) -/

/-- state of the loop: `next_frame` and the two lists `cleaned_rel_starts`, `cleaned_rel_ends`
    (zipped; MOST RECENT FIRST, so `cleaned_rel_ends[-1]` is the head) -/
structure CleanSt where
  nextFrame : CDSFrame
  cleanedRev : List (Int × Int)
  deriving Repr

def CleanSt.init : CleanSt := ⟨.ZERO, []⟩

/-- `sum((coords[1] - coords[0] for coords in zip(cleaned_rel_starts, cleaned_rel_ends)))` -/
def cleanedSum : List (Int × Int) → Int
  | [] => 0
  | p :: rest => (p.2 - p.1) + cleanedSum rest

/-- `cleaned_rel_ends[-1] = cleaned_rel_ends[-1] - shift` (on an empty list Python would raise IndexError;
    unreachable because the sum of an empty list is 0, so `shift > 0` fails) -/
def trimLastEnd (shift : Int) : List (Int × Int) → List (Int × Int)
  | [] => []
  | p :: rest => (p.1, p.2 - shift) :: rest

/-- `rel_start`, `rel_end` of one exon: both ends through `parent_to_relative_pos` of the CDS location -/
def exonRel (loc : Loc) (exon : Blk) : R (Int × Int) := do
  let startToRel ← compoundP2R loc exon.1
  let endToRelInclusive ← compoundP2R loc ((exon.2 : Int) - 1)
  pure (min startToRel endToRelInclusive, max startToRel endToRelInclusive + 1)

/-- one iteration of the loop body, after `rel_start` / `rel_end` have been computed -/
def cleanStep (st : CleanSt) (rel : Int × Int) (frame : CDSFrame) : R CleanSt :=
  let relEnd := rel.2
  let resync := st.nextFrame ≠ frame
  let relStart := if resync then rel.1 + frame.value else rel.1
  let shift := cleanedSum st.cleanedRev % 3
  let cleaned := if resync ∧ shift > 0 then trimLastEnd shift st.cleanedRev else st.cleanedRev
  let nextFrame := if resync then CDSFrame.ZERO else st.nextFrame
  if relStart ≥ relEnd then pure ⟨nextFrame, cleaned⟩
  else do
    let nf ← frameShift nextFrame (relEnd - relStart)
    pure ⟨nf, (relStart, relEnd) :: cleaned⟩

/-- the loop over `zip_longest(exons, frames)` on already computed relative intervals -/
def cleanLoop : CleanSt → List ((Int × Int) × CDSFrame) → R CleanSt
  | st, [] => pure st
  | st, (rel, f) :: rest => do
    let st' ← cleanStep st rel f
    cleanLoop st' rest

/-- the whole loop: relative interval of each exon, then the cleaning step -/
def cleanExons (loc : Loc) : CleanSt → List (Blk × CDSFrame) → R CleanSt
  | st, [] => pure st
  | st, (exon, f) :: rest => do
    let rel ← exonRel loc exon
    let st' ← cleanStep st rel f
    cleanExons loc st' rest

/-- `CompoundInterval.from_single_intervals` on parent-less (or same-parent) intervals -/
def fromSingleIntervals (ls : List Location) : R Loc := do
  match ls with
  | [] => throw .ValueError                         -- "List of intervals must be nonempty"
  | l0 :: _ =>
    let st0 ← locStrand l0
    let sts ← ls.mapM locStrand
    if sts.any (· ≠ st0) then throw .ValueError
    let blocks ← ls.mapM (fun l => do let s ← locStart l; let e ← locEnd l; pure ((s, e) : Blk))
    mkCompoundLoc blocks st0

/-- `cleaned_blocks` (0-bp entries skipped) and `cleaned_location` -/
def cleanedLocation (loc : Loc) (st : CleanSt) : R Loc := do
  let entries := st.cleanedRev.reverse.filter (fun p => p.2 ≠ p.1)
  let blocks ← entries.mapM (fun p => compoundRelInterval loc p.1 p.2 .plus)
  fromSingleIntervals blocks

/-! ### Windows -/

/-- `CompoundInterval.intersection(SingleInterval window)` for operands that pass the parent and strand
    gates (same parent, same strand or `match_strand=False`): per-block intersections, then `optimize_blocks()` -/
def intersectWindow (l : Loc) (w : Blk) : R Location :=
  let parts := (l.blocks.filter (fun b => overlapKernel b w)).map (fun b => ((max b.1 w.1, min b.2 w.2) : Blk))
  if parts.isEmpty then pure .empty
  else do
    let c ← mkCompoundLoc parts l.strand
    optimizeLoc true c

/-- `SingleInterval(start, end, strand, parent)` of a window: position check, and the end must not exceed the
    parent's sequence when there is one -/
def mkWindow (c : CDS) (s e : Int) : R Blk := do
  if ¬ (0 ≤ s ∧ s ≤ e) then throw .InvalidPosition
  match c.seq with
  | some sq => if e > sq.length then throw .InvalidPosition
  | none => pure ()
  pure (s.toNat, e.toNat)

/-- `_expand_coordinates_to_codons` -/
def expandCoordinatesToCodons (c : CDS) (cs ce : Int) : R (Int × Int) := do
  let locS ← locStart (.compound c.loc)
  let locE ← locEnd (.compound c.loc)
  let cs := if cs < locS then (c.start : Int) else cs
  let ce := if ce > locE then (c.«end» : Int) else ce
  -- sequence_interval_to_cds(cs, ce, PLUS) = SingleInterval(cs, ce, PLUS).location_relative_to(chromosome_location)
  let i ← mkWindow c cs ce
  let ov ← hasOverlap (.single i .plus) (.compound c.loc) false false
  if ¬ ov then throw .LocationOverlap
  let inter ← intersectWindow c.loc i
  let is ← locStart inter
  let ie ← locEnd inter
  let p1 ← compoundP2R c.loc is
  let p2 ← compoundP2R c.loc ((ie : Int) - 1)
  let cdsStart := min p1 p2
  let cdsEnd := max p1 p2 + 1
  if ¬ (0 ≤ cdsStart ∧ cdsStart ≤ cdsEnd) then throw .InvalidPosition
  let adjStart := cdsStart - cdsStart % 3
  let adjEnd := cdsEnd + (-cdsEnd) % 3           -- `end - (end % -3)`
  -- cds_interval_to_sequence(adjStart, adjEnd, PLUS)
  let ci ← compoundRelInterval c.loc adjStart adjEnd .plus
  let s ← locStart ci
  let e ← locEnd ci
  pure (s, e)

/-- a window request as the public methods take it -/
structure WinReq where
  s : Option Int
  e : Option Int
  expand : Bool

/-- `_convert_chromosome_start_end_to_relative_window` -/
def convertWindow (c : CDS) (w : Option WinReq) : R (Option Blk) := do
  match w with
  | none => pure none
  | some w =>
    if w.s.isNone ∧ w.e.isNone then pure none
    else do
      let cs : Int := match w.s with | some x => x | none => c.start
      let ce : Int := match w.e with | some x => x | none => c.«end»
      let (cs, ce) ← (if w.expand then expandCoordinatesToCodons c cs ce else pure (cs, ce))
      let b ← mkWindow c cs ce
      pure (some b)

/-- `if relative_window:` — a SingleInterval is falsy when its length is 0 -/
def windowTruthy : Option Blk → Option Blk
  | some b => if b.len = 0 then none else some b
  | none => none

/-! ### `_calculate_frame_offset` -/

def calculateFrameOffset (c : CDS) (cleaned : Location) (locOnChrom : Location) : R Int := do
  let anchor : Int ← (if c.strand = .plus then do let s ← locStart locOnChrom; pure (s : Int)
                       else do let e ← locEnd locOnChrom; pure ((e : Int) - 1))
  let rel ← p2r cleaned anchor
  let fivep ← relInterval cleaned 0 rel .plus
  let fivepDistanceMod3 : Int := (locLen fivep : Int) % 3
  let phase ← phaseOfInt fivepDistanceMod3
  let frame ← phaseToFrame phase
  pure frame.value

/-! ### `_prepare_*_window_for_scan_codon_locations` : (location to iterate, offset) -/

/-- `_prepare_single_exon_window_for_scan_codon_locations` -/
def prepareSingle (c : CDS) (win : Option Blk) : R (Location × Int) := do
  let loc : Location := .compound c.loc
  let frame0 ← match c.frames.head? with
    | some f => pure f
    | none => throw .MismatchedFrame
  let offset := frame0.value
  let relativeLoc ← match windowTruthy win with
    | some w => intersectWindow c.loc w
    | none => pure loc
  -- CHUNK: `if chunk_relative_coordinates and self.is_chunk_relative` branch goes here
  let d ← calculateFrameOffset c loc relativeLoc
  pure (relativeLoc, offset + d)            -- NOT reduced mod 3 on the pinned tree (F-C05a)

/-- `_prepare_multi_exon_window_for_scan_codon_locations` -/
def prepareMulti (c : CDS) (win : Option Blk) : R (Location × Int) := do
  if c.exonIter.length ≠ c.frameIter.length then throw .MismatchedFrame
  let st ← cleanExons c.loc CleanSt.init (c.exonIter.zip c.frameIter)
  let cleaned ← cleanedLocation c.loc st
  let relativeCleaned ← match windowTruthy win with
    | some w => intersectWindow cleaned w
    | none => pure (Location.compound cleaned)
  -- CHUNK: `if chunk_relative_coordinates and self.is_chunk_relative` branch goes here
  let offset ← calculateFrameOffset c (.compound cleaned) relativeCleaned
  pure (relativeCleaned, offset)

def prepare (c : CDS) (win : Option Blk) : R (Location × Int) :=
  if c.numBlocks > 1 then prepareMulti c win else prepareSingle c win

/-! ### `Location.scan_windows(3, 3, start_pos)` and `_scan_codon_locations` -/

/-- `range(start, stop, 3)` for `start ≥ 0` -/
def range3 (start stop : Int) : List Int :=
  if stop ≤ start then [] else (List.range ((stop - start + 2) / 3).toNat).map (fun (i : Nat) => start + 3 * (i : Int))

/-- `Location.scan_windows(window_size=3, step_size=3, start_pos)` -/
def scanWindows3 (l : Location) (startPos : Int) : R (List Location) := do
  let n : Int := locLen l
  if ¬ (0 ≤ startPos ∧ startPos < n) then throw .ValueError
  if 3 > n then throw .ValueError
  if startPos + 3 > n then throw .ValueError
  let st ← locStrand l
  assertDirectional st
  (range3 startPos (n - 3 + 1)).mapM (fun cur => relInterval l cur (cur + 3) .plus)

/-- `_scan_codon_locations(relative_window, chunk_relative_coordinates)` (consumed as a list) -/
def scanCodonLocations (c : CDS) (win : Option Blk) : R (List Location) := do
  let (location, offset) ← prepare c win
  if (locLen location : Int) - offset ≥ 3 then scanWindows3 location offset else pure []

/-- `scan_chromosome_codon_locations(start, end, expand)`; with a chromosome parent
    `scan_chunk_relative_codon_locations` is the same computation -/
def scanChromosomeCodonLocations (c : CDS) (w : Option WinReq) : R (List Location) := do
  let win ← convertWindow c w
  scanCodonLocations c win

/-- `chromosome_codon_locations` / `chunk_relative_codon_locations` / deprecated `scan_codon_locations()` -/
def codonLocations (c : CDS) : R (List Location) := scanCodonLocations c none

/-- `num_codons` -/
def numCodons (c : CDS) : R Nat := do
  let ls ← codonLocations c
  pure ls.length

/-! ### Sequences -/

/-- Python slice `xs[a:b]` -/
def pySlice {α} (xs : List α) (a b : Int) : List α :=
  let n : Int := xs.length
  let norm (i : Int) : Nat := (if i < 0 then max (i + n) 0 else min i n).toNat
  let a' := norm a
  let b' := norm b
  (xs.drop a').take (b' - a')

/-- `ALPHABET_TO_NUCLEOTIDE_COMPLEMENT[Alphabet.NT_EXTENDED_GAPPED]` (generated table) -/
def complementMap : List (Char × Char) :=
  match Gen.complementMaps.lookup "NT_EXTENDED_GAPPED".toList with
  | some m => m
  | none => []

/-- `Sequence.reverse_complement` : AlphabetError for a letter without complement -/
def reverseComplement (s : List Char) : R (List Char) :=
  s.reverse.mapM (fun ch => match complementMap.lookup ch with
    | some x => pure x
    | none => throw .Alphabet)

/-- `SingleInterval.extract_sequence` against the chromosome letters -/
def blockSeq (chrom : Option (List Char)) (b : Blk) (st : Strand) : R (List Char) := do
  match chrom with
  | none => throw .NullParent
  | some s =>
    let plus := (s.drop b.1).take (b.2 - b.1)
    if st = .plus then pure plus
    else if st = .minus then reverseComplement plus
    else throw .InvalidStrand

/-- `Location.extract_sequence()` -/
def locationSeq (chrom : Option (List Char)) : Location → R (List Char)
  | .single b st => blockSeq chrom b st
  | .compound l => do
    assertDirectional l.strand
    let bs := if l.strand = .plus then l.blocks else l.blocks.reverse
    let parts ← bs.mapM (fun b => blockSeq chrom b l.strand)
    pure parts.flatten
  | .empty => throw .EmptyLocation

/-- `extract_sequence()` — fast path (nothing cached yet) -/
def extractSequence (c : CDS) : R (List Char) := do
  let (location, offset) ← prepare c none
  let s ← locationSeq c.seq location
  let n : Int := locLen location
  pure (pySlice s offset (n - ((n - offset) % 3)))

/-- `extract_sequence()` after `chunk_relative_codon_locations` was evaluated — the cached codon path, taken
    `if self._chunk_relative_codon_locations_cached is True and self.chunk_relative_codon_locations`
    (a non-empty tuple); a CDS without codons falls through to the fast path -/
def extractSequenceCached (c : CDS) : R (List Char) := do
  let ls ← codonLocations c
  if ls.isEmpty then extractSequence c
  else do
    let parts ← ls.mapM (locationSeq c.seq)
    pure parts.flatten

/-! ### Codons and translation (`gene/codon.py`) -/

def upperStr (s : List Char) : List Char := s.map Char.toUpper

/-- `Codon(str)`: upper-cased, length 3, only letters of `ATUCGNWSMKRYBDHV` -/
def mkCodon (s : List Char) : R (List Char) :=
  let v := upperStr s
  if v.length ≠ 3 then throw .ValueError
  else if v.any (fun ch => !Gen.codonAlphabet.contains ch) then throw .ValueError
  else pure v

/-- `Codon.is_stop_codon` -/
def isStopCodon (v : List Char) : Bool :=
  match Gen.aacodons.lookup '*' with
  | some l => l.contains v
  | none => false

/-- `Codon.is_strict_codon` -/
def isStrictCodon (v : List Char) : Bool := (Gen.gencode.lookup v).isSome

/-- `Codon.translate(strict)` -/
def codonTranslate (v : List Char) (strict : Bool) : Char :=
  match Gen.gencode.lookup v with
  | some a => a
  | none =>
    if !strict then
      match Gen.extendedGencode.lookup v with
      | some a => a
      | none => 'X'
    else 'X'

/-- `Codon.is_start_codon_in_specific_translation_table` (table number as in `TranslationTable`) -/
def isStartCodonIn (v : List Char) (table : Int) : R Bool :=
  match Gen.startCodons.lookup table with
  | some l => pure (l.contains v)
  | none => throw .ValueError          -- `TranslationTable(n)` for an unknown n

/-- consecutive chunks of three letters: `seq[i : i + 3] for i in range(0, len(seq), 3)` -/
def chunks3 : List Char → List (List Char)
  | [] => []
  | a :: b :: c :: rest => [a, b, c] :: chunks3 rest
  | short => [short]

/-- `scan_codons(truncate_at_in_frame_stop)` consumed as a list -/
def scanCodons (c : CDS) (trunc : Bool) : R (List (List Char)) := do
  let seq ← extractSequence c
  let rec go : List (List Char) → R (List (List Char))
    | [] => pure []
    | ch :: rest => do
      let cod ← mkCodon ch
      if trunc ∧ isStopCodon cod then pure [cod]
      else do let more ← go rest; pure (cod :: more)
  go (chunks3 seq)

/-- loop of `translate` over the chunks; `i` is the chunk index, `n` the number of chunks -/
def translateLoop (trunc : Bool) (table : Int) (strict : Bool) : Nat → List (List Char) → R (List Char)
  | _, [] => pure []
  | i, ch :: rest => do
    let codon ← mkCodon ch
    let isStart ← (if i = 0 then isStartCodonIn codon table else pure false)
    let aa ← (if isStart then pure (codonTranslate "ATG".toList true)
              else if strict ∧ ¬ isStrictCodon codon then throw .ValueError
              else pure (codonTranslate codon strict))
    if trunc ∧ isStopCodon codon ∧ ¬ rest.isEmpty then pure [aa]
    else do let more ← translateLoop trunc table strict (i + 1) rest; pure (aa :: more)

/-- `translate(truncate_at_in_frame_stop, translation_table, strict)` -/
def translate (c : CDS) (trunc : Bool) (table : Int) (strict : Bool) : R (List Char) := do
  let seq ← extractSequence c
  -- the table is looked up only when there is a first codon
  translateLoop trunc table strict 0 (chunks3 (upperStr seq))

/-- `has_in_frame_stop` : `"*" in str(self.translate()[:-1])` -/
def hasInFrameStop (c : CDS) : R Bool := do
  let p ← translate c false 0 true
  pure (p.dropLast.contains '*')

/-- `has_valid_stop` : `False` when fewer than three bases are translated (since 7757ccc), else
    `Codon(seq[-3:].sequence.upper()).is_stop_codon` -/
def hasValidStop (c : CDS) : R Bool := do
  let seq ← extractSequence c
  if seq.length < 3 then pure false
  else do
    let cod ← mkCodon (pySlice seq (-3) seq.length)
    pure (isStopCodon cod)

/-- `next(self.scan_codons(), None)`: the first codon, `none` for a CDS without a complete codon -/
def firstCodon (c : CDS) : R (Option (List Char)) := do
  let seq ← extractSequence c
  match chunks3 seq with
  | [] => pure none
  | ch :: _ => do let cod ← mkCodon ch; pure (some cod)

/-- `has_canonical_start_codon`: `first_codon is not None and first_codon.is_canonical_start_codon` -/
def hasCanonicalStartCodon (c : CDS) : R Bool := do
  match ← firstCodon c with
  | none => pure false
  | some cod => pure (cod == "ATG".toList)

/-- `has_start_codon_in_specific_translation_table(table)` -/
def hasStartCodonIn (c : CDS) (table : Int) : R Bool := do
  match ← firstCodon c with
  | none => pure false
  | some cod => isStartCodonIn cod table

/-! ### `construct_frames_from_location` -/

/-- the loop `for s in sizes: frames.append(frames[-1].shift(s))` started from `[ZERO]` -/
def framesLoop : CDSFrame → List Int → R (List CDSFrame)
  | _, [] => pure []
  | last, s :: rest => do
    let f ← frameShift last s
    let more ← framesLoop f rest
    pure (f :: more)

/-- `CDSInterval.construct_frames_from_location(location, starting_frame)` -/
def constructFramesFromLocation (l : Location) (startingFrame : CDSFrame) : R (List CDSFrame) := do
  match l with
  | .single _ _ => pure [startingFrame]
  | .empty => throw .TypeError       -- `for x in None`; never requested by the harness
  | .compound loc =>
    if loc.blocks.length = 1 then pure [startingFrame]
    else do
      let bs ← scanBlocks loc
      let sizes : List Int := (bs.map (fun b => (b.len : Int))).dropLast
      match sizes with
      | [] => throw .Location        -- a CompoundInterval has at least one block; with exactly one we returned above
      | s0 :: rest =>
        let sizes' := (s0 - startingFrame.value) :: rest
        let tail ← framesLoop .ZERO sizes'
        let frames := startingFrame :: tail
        pure (if loc.strand = .minus then frames.reverse else frames)

end BioCantor.Model
