/-
  C04 as decidable predicates: lifting is composition of the level maps, base by base; the lifted
  location reads the same letters from the ancestor; chunk round trips return the part inside the chunk.
-/
import BioCantor.Spec.LocationCheck
namespace BioCantor.Spec
open BioCantor

/-- one ancestor level as the spec sees it -/
structure SLevel where
  id : List Char
  type : List Char
  seq : Option (List Char)
  place : Option Location

/-- map relative positions through one placement; `none` when a position is not on the placement -/
def throughPlacement (p : Location) (xs : List Nat) : Option (List Nat) :=
  match toLoc p with
  | none => none
  | some pl => if pl.strand = .unstranded then none else xs.mapM (fun i => (bases pl)[i]?)

def strandOf (l : Location) : Strand := (locationStrand? l).getD .unstranded

/-- compose through the placements of levels 1..k (given nearest first); also composes strands -/
def composeLevels : List Nat → Strand → List (Option Location) → Option (List Nat × Strand)
  | xs, st, [] => some (xs, st)
  | _, _, none :: _ => none
  | xs, st, some p :: rest =>
    match throughPlacement p xs with
    | none => none
    | some ys => composeLevels ys (compose st (strandOf p)) rest

def complACGT : Char → Char
  | 'A' => 'T' | 'C' => 'G' | 'G' => 'C' | 'T' => 'A' | c => c

/-- letters read by a location from a sequence (5'→3', complemented on minus); none if out of range -/
def readSeq (s : List Char) (bs : List Nat) (st : Strand) : Option (List Char) :=
  bs.mapM (fun i => (s[i]?).map (fun c => if st = .minus then complACGT c else c))

def allNonOverlap (c : Location) (ps : List (Option Location)) : Bool :=
  nonOverlap (locationBlocks c) && ps.all (fun p => match p with | some x => nonOverlap (locationBlocks x) | none => true)

/-- index of the first level whose type is `t` -/
def findType (t : List Char) : List SLevel → Option Nat
  | [] => none
  | l :: ls => if l.type == t then some 0 else (findType t ls).map (· + 1)

/-- the bases of the answer, read so that they are comparable with the composed list -/
def answerBases (m : Location) : List Nat := locationBases m

/-- core comparison shared by both lift forms: `k` levels are crossed -/
def okLifted (c : Location) (levels : List SLevel) (k : Nat) (ans : Option Location) : Bool :=
  let places := ((levels.drop 1).take k).map (·.place)
  let start := locationBases c
  let cst := strandOf c
  if c == .empty then ans.isNone
  else if start.isEmpty ∧ ans.isNone then true      -- a location without bases: refusing is accepted
  else match composeLevels start cst places with
  | none => ans.isNone                                   -- missing placement / position off the placement / undirected level
  | some (want, wst) =>
    match ans with
    | none => false
    | some m =>
      let strandOk := locationStrand? m == some wst
      let got := answerBases m
      let basesOk :=
        if allNonOverlap c places ∧ wst ≠ .unstranded ∧ cst ≠ .unstranded then got == want
        else sortNat got == sortNat want
      -- sequence preservation (when both ends carry sequence and everything is directional)
      let seqOk :=
        -- only when EVERY crossed level carries sequence (otherwise nothing relates the two ends)
        if ¬ (levels.take (k + 1)).all (fun l => l.seq.isSome) then true else
        match (levels[0]?).bind (·.seq), (levels[k]?).bind (·.seq) with
        | some s0, some sk =>
          if allNonOverlap c places ∧ wst ≠ .unstranded ∧ cst ≠ .unstranded then
            match readSeq s0 start cst with
            | none => true          -- the child itself does not fit its own parent: not a consistent hierarchy
            | some own => readSeq sk got wst == some own
          else true
        | _, _ => true
      strandOk && wfLocation m && basesOk && seqOk

/-- `lift_over_to_first_ancestor_of_type(t)` -/
def okLiftType (t : List Char) (c : Location) (levels : List SLevel) (ans : Option Location) : Bool :=
  match findType t levels with
  | none => ans.isNone                                    -- no such ancestor: must refuse
  | some k => okLifted c levels k ans

/-- consecutive run (ascending or descending by one) -/
def consecutive : List Nat → Bool
  | [] => true
  | [_] => true
  | a :: b :: rest => (b == a + 1 || a == b + 1) && consecutive (b :: rest)

def findSeq (key : List Char × List Char × List Char) : List SLevel → Option Nat
  | [] => none
  | l :: ls => if l.seq.map (fun s => (l.id, l.type, s)) == some key then some 0 else (findSeq key ls).map (· + 1)

/-- `lift_over_to_sequence(seq)`: additionally the library refuses locations that are not contiguous
    (documented ValueError) — at any level on the way; such refusals are accepted, never required. -/
def okLiftSeq (key : List Char × List Char × List Char) (c : Location) (levels : List SLevel)
    (ans : Option Location) : Bool :=
  match findSeq key levels with
  | none => ans.isNone
  | some k =>
    if ans.isNone ∧ ¬ ((locationBlocks c).length ≤ 1 ∧ (levels.drop 1 |>.take k).all
          (fun l => match l.place with | some p => (locationBlocks p).length ≤ 1 | none => true)) then true
    else okLifted c levels k ans

/-! ### chunks -/

/-- part of block `b` inside window `w` (none when they share no position) -/
def clip (w b : Blk) : Option Blk :=
  if max w.1 b.1 < min w.2 b.2 then some (max w.1 b.1, min w.2 b.2) else none

/-- lift a chunk-relative block back to the chromosome through window `w` on strand `wst` -/
def unchunkBlk (w : Blk) (wst : Strand) (r : Blk) : Blk :=
  if wst = .minus then (w.2 - r.2, w.2 - r.1) else (w.1 + r.1, w.1 + r.2)

/-- `liftover_location_to_seq_chunk_parent` onto the chunk `w` (strand `wst`): the answer is the empty
    location exactly when nothing of `l` lies in the chunk; otherwise its blocks, lifted back, are exactly
    the non-empty clips of `l`'s blocks (block structure kept: adjacent blocks stay separate), and its
    strand is `l.strand` relative to the chunk's. -/
def okChunkDown (l : Location) (w : Blk) (wst : Strand) (ans : Option Location) (keepBlocks : Bool := true) : Bool :=
  if wst = .unstranded ∨ w.2 ≤ w.1 then true else        -- a chunk holds at least one base
  match l with
  | .empty => ans == some .empty
  | _ =>
    let clips := (locationBlocks l).filterMap (clip w)
    match ans with
    | none => false
    | some m =>
      if clips.isEmpty then m == .empty
      else
        m != .empty && wfLocation m &&
        locationStrand? m == some (compose (strandOf l) wst) &&
        sortNat (((locationBlocks m).map (unchunkBlk w wst)).flatMap blkAsc) == sortNat (clips.flatMap blkAsc) &&
        (!keepBlocks || (locationBlocks m).length == clips.length) &&
        (locationBlocks m).all (fun r => r.2 ≤ w.2 - w.1)

/-! ### moving a location from below one chunk onto another chunk / the chromosome, with real sequence -/

/-- `relocate`: a chunk A (window `w1` on strand `s1`) is cut from the chromosome `G`; optionally a spliced
    sequence sits on the chunk by the placement `tx`; the child location `c` lives on the nearest of these.  It is
    moved onto the target: the chunk `w2` on strand `s2`, or (`tgt = none`) the whole chromosome.

    Written from the property: the child's bases are composed through EVERY level up to chromosome coordinates;
    those inside the target window, expressed in the target's coordinates (mirrored and strand-flipped on a minus
    window), are what the answer must cover, 5'→3' in the same order — the empty location exactly when none is
    inside — and the letters the answer reads on the target must be the chromosome's letters at those composed
    positions (complemented where the composed orientation is minus). -/
def okRelocate (G : List Char) (w1 : Blk) (s1 : Strand) (tx : Option Location) (c : Location)
    (tgt : Option (Blk × Strand)) (ans : Option (Location × List Char)) : Bool :=
  let w2 : Blk := match tgt with | some t => t.1 | none => (0, G.length)
  let s2 : Strand := match tgt with | some t => t.2 | none => Strand.plus
  -- a chunk holds at least one base and has a direction (as in `okChunkDown`)
  if w1.2 ≤ w1.1 ∨ w2.2 ≤ w2.1 ∨ s2 = Strand.unstranded then true
  -- hierarchies that cannot exist must be refused: a window that is not on the chromosome, a placement that
  -- does not fit the chunk, a child that does not fit its own parent
  else if G.length < w1.2 ∨ G.length < w2.2 then ans.isNone
  else if (match tx with | some t => t == Location.empty || (locationBlocks t).any (fun r => w1.2 - w1.1 < r.2) | none => false)
    then ans.isNone
  else
  let len0 := match tx with | some t => (locationBases t).length | none => w1.2 - w1.1
  if (locationBlocks c).any (fun r => len0 < r.2) then ans.isNone
  -- the empty location has no bases and no parent: refusing it and answering it are both fine
  else if c == Location.empty then (match ans with | none => true | some a => a.1 == Location.empty)
  else
  let start := locationBases c
  let cst := strandOf c
  if start.isEmpty ∧ ans.isNone then true            -- a location without bases: refusing is accepted
  else
  let places : List (Option Location) := (match tx with | some t => [some t] | none => []) ++ [some (Location.single w1 s1)]
  match composeLevels start cst places with
  | none => ans.isNone          -- a position off its placement / a level without direction
  | some (want, wst) =>
    -- an undirected child has no 5'→3' reading: there are no letters to answer, refusing is accepted
    if wst = Strand.unstranded ∧ ans.isNone then true else
    let inside := want.filter (fun p => decide (w2.1 ≤ p) && decide (p < w2.2))
    let expect := inside.map (fun p => if s2 = Strand.minus then w2.2 - 1 - p else p - w2.1)
    match ans with
    | none => false
    | some (m, letters) =>
      if inside.isEmpty then m == Location.empty
      else
        let exact := allNonOverlap c places ∧ wst ≠ Strand.unstranded ∧ cst ≠ Strand.unstranded
        m != Location.empty && wfLocation m &&
        locationStrand? m == some (compose wst s2) &&
        (if exact then locationBases m == expect else sortNat (locationBases m) == sortNat expect) &&
        (locationBlocks m).all (fun r => r.2 ≤ w2.2 - w2.1) &&
        (if exact then readSeq G inside wst == some letters else true)

end BioCantor.Spec
