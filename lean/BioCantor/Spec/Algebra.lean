/-
  C02 as decidable predicates on (input, answer) pairs, written against the position-set semantics of
  Spec/Location.lean (`locationCovers`, `locationBases`) and NOT against how the library computes anything.
  An answer is `some v` (the call returned v) or `none` (the call raised).

  Vocabulary
    * a location with its parent is a pair `(Location, Par)`;  `Par = [parent, grand-parent, …]`, `[]` = no parent;
      one entry is `(id, sequence_type, sequence data)`
    * `sameParent`   the documented "parents equal except location"
    * `covX fs l p`  p is covered by l (`fs = false`) / lies in the full span `[min start, max end)` of l (`fs = true`)
    * clauses restricted by the property text to operands whose own blocks do not overlap (`nonOverlapLoc`) answer
      `true` outside that domain but still demand a well-formed result (`resultOk`)

  Every predicate quantifies over the positions `0 … hi` where `hi` bounds every coordinate in the case, and demands that
  the result does not reach beyond `hi` (`endsWithin`), so agreement on that range is agreement everywhere.
-/
import BioCantor.Spec.LocationCheck
namespace BioCantor.Spec
open BioCantor

abbrev ParentInfo := Option String × Option String × Option (List Char)
abbrev Par := List ParentInfo
abbrev LocP := Location × Par

/-! ### parents -/

/-- "equal except location": same id, same sequence type, same sequence; the ancestors agree as far as both
    sides know them.  Two absent parents are equal. -/
def sameParent : Par → Par → Bool
  | [], [] => true
  | x :: xs, y :: ys =>
    x.1 == y.1 && x.2.1 == y.2.1 && x.2.2 == y.2.2 && (xs.isEmpty || ys.isEmpty || sameParent xs ys)
  | _, _ => false

/-- length of the parent's sequence, when it has one -/
def parLen : Par → Option Nat
  | [] => none
  | x :: _ => x.2.2.map List.length

/-! ### positions -/

def maxEndOf : List Blk → Nat
  | [] => 0
  | b :: bs => max b.2 (maxEndOf bs)

def minStartOf : List Blk → Nat
  | [] => 0
  | [b] => b.1
  | b :: bs => min b.1 (minStartOf bs)

/-- the full span `[min start, max end)` of a location (none for EmptyLocation) -/
def spanOf (l : Location) : Option Blk :=
  match locationBlocks l with
  | [] => none
  | bs => some (minStartOf bs, maxEndOf bs)

def covSpan (l : Location) (p : Nat) : Bool :=
  match spanOf l with
  | none => false
  | some s => decide (s.1 ≤ p) && decide (p < s.2)

def covX (fs : Bool) (l : Location) (p : Nat) : Bool :=
  if fs then covSpan l p else locationCovers l p

/-- a bound for every coordinate of the given locations -/
def hiOf (ls : List Location) : Nat := maxEndOf (ls.flatMap locationBlocks)

def allUpTo (n : Nat) (f : Nat → Bool) : Bool := (List.range (n + 1)).all f
def anyUpTo (n : Nat) (f : Nat → Bool) : Bool := (List.range (n + 1)).any f

def endsWithin (l : Location) (hi : Nat) : Bool := (locationBlocks l).all (fun b => decide (b.2 ≤ hi))

def nonOverlapLoc (l : Location) : Bool := nonOverlap (locationBlocks l)

def strandEq (a b : Location) : Bool :=
  match locationStrand? a, locationStrand? b with
  | some x, some y => x == y
  | _, _ => false

/-- a non-empty result is on the expected strand -/
def strandIs (r : Location) (s : Option Strand) : Bool := r == .empty || locationStrand? r == s

/-- no zero-length block -/
def noEmptyBlock (l : Location) : Bool := (locationBlocks l).all (fun b => decide (b.1 < b.2))

/-- ascending, non-empty blocks separated by at least one position -/
def ascSeparated : List Blk → Bool
  | [] => true
  | [a] => decide (a.1 < a.2)
  | a :: b :: rest => decide (a.1 < a.2) && decide (a.2 < b.1) && ascSeparated (b :: rest)

/-- the Python type promise of the optimisers: one block ⇒ SingleInterval, none ⇒ EmptyLocation -/
def kindOk : Location → Bool
  | .compound l => decide (2 ≤ l.blocks.length)
  | _ => true

/-- every returned location: what the constructors establish, inside the bounds of its parent's sequence, and its
    parent is the expected one (EmptyLocation has none) -/
def resultOk (r : LocP) (expectPar : Par) : Bool :=
  wfLocation r.1 &&
  (match parLen r.2 with
   | none => true
   | some n => endsWithin r.1 n) &&
  (if r.1 == .empty then r.2 == [] else sameParent r.2 expectPar)

/-- the operation applies to the pair: compatible parents and, with `match_strand`, equal strands -/
def active (a b : LocP) (ms : Bool) : Bool := sameParent a.2 b.2 && (!ms || strandEq a.1 b.1)

/-! ### has_overlap -/

def expectOverlap (a b : LocP) (ms fs : Bool) : Bool :=
  active a b ms && anyUpTo (hiOf [a.1, b.1]) (fun p => covX fs a.1 p && covX fs b.1 p)

/-- has_overlap ⇔ some position is covered by both (full spans with `full_span`); `False` for incompatible parents /
    different strands under `match_strand`; `strict_parent_compare` turns incompatible parents into a refusal -/
def okOverlap (a b : LocP) (ms fs strict : Bool) (ans : Option Bool) : Bool :=
  if strict && !sameParent a.2 b.2 then ans.isNone
  else ans == some (expectOverlap a b ms fs)

/-! ### intersection -/

/-- coverage, strand, well-formedness, no empty block -/
def okIntersection (a b : LocP) (ms fs strict : Bool) (ans : Option LocP) : Bool :=
  if strict && !sameParent a.2 b.2 then ans.isNone
  else match ans with
    | none => false
    | some r =>
      let hi := hiOf [a.1, b.1]
      resultOk r a.2 && endsWithin r.1 hi &&
      allUpTo hi (fun p => locationCovers r.1 p == (active a b ms && covX fs a.1 p && covX fs b.1 p)) &&
      strandIs r.1 (locationStrand? a.1) && noEmptyBlock r.1

/-- for operands that are not self-overlapping (and for the span variant) the intersection is in normal form -/
def okIntersectionNormal (a b : LocP) (fs : Bool) (ans : Option LocP) : Bool :=
  match ans with
  | none => true
  | some r => if fs || (nonOverlapLoc a.1 && nonOverlapLoc b.1) then normalBlocks (locationBlocks r.1) else true

/-! ### union -/

/-- the union must be refused for EmptyLocation operands, different strands, incompatible parents -/
def unionRefused (a b : LocP) : Bool :=
  a.1 == .empty || b.1 == .empty || !strandEq a.1 b.1 || !sameParent a.2 b.2

def okUnion (a b : LocP) (ans : Option LocP) : Bool :=
  if unionRefused a b then ans.isNone
  else match ans with
    | none => false
    | some r =>
      let hi := hiOf [a.1, b.1]
      resultOk r a.2 && endsWithin r.1 hi &&
      allUpTo hi (fun p => locationCovers r.1 p == (locationCovers a.1 p || locationCovers b.1 p)) &&
      strandIs r.1 (locationStrand? a.1)

/-- operands without self-overlap give a union without overlapping blocks -/
def okUnionDisjoint (a b : LocP) (ans : Option LocP) : Bool :=
  match ans with
  | none => true
  | some r => if nonOverlapLoc a.1 && nonOverlapLoc b.1 then nonOverlapLoc r.1 else true

/-- union_preserve_overlaps: the multiset of covered positions is the sum; no empty block; normal form when the
    blocks of the two operands taken together do not overlap (the optimiser keeps overlapping blocks apart by
    design, and "adjacent" has no clear meaning between blocks that overlap a third one: for
    `(0,3) (0,1) (1,5) (3,6)` on the minus strand the library answers `(0,5) (0,3) (3,6)`) -/
def okUnionPreserve (a b : LocP) (ans : Option LocP) : Bool :=
  if unionRefused a b then ans.isNone
  else match ans with
    | none => false
    | some r =>
      resultOk r a.2 &&
      sortNat (locationBases r.1) == sortNat (locationBases a.1 ++ locationBases b.1) &&
      strandIs r.1 (locationStrand? a.1) && noEmptyBlock r.1 && kindOk r.1 &&
      (if nonOverlap (sortBlocks .plus (locationBlocks a.1 ++ locationBlocks b.1))
       then normalBlocks (locationBlocks r.1) else true)

/-! ### minus -/

/-- claimed for a subtrahend that is not self-overlapping; outside, a refusal or any well-formed answer -/
def okMinus (a b : LocP) (ms strict : Bool) (ans : Option LocP) : Bool :=
  if strict && !sameParent a.2 b.2 then ans.isNone
  else if !nonOverlapLoc b.1 then
    match ans with
    | none => true
    | some r => resultOk r a.2
  else match ans with
    | none => false
    | some r =>
      let hi := hiOf [a.1, b.1]
      resultOk r a.2 && endsWithin r.1 hi &&
      allUpTo hi (fun p => locationCovers r.1 p == (locationCovers a.1 p && !(active a b ms && locationCovers b.1 p))) &&
      strandIs r.1 (locationStrand? a.1)

/-! ### contains -/

/-- claimed for operands that are not self-overlapping (always for the span variant): true iff `b` has a position
    and every position of `b` is one of `a` -/
def okContains (a b : LocP) (ms fs strict : Bool) (ans : Option Bool) : Bool :=
  if strict && !sameParent a.2 b.2 then ans.isNone
  else if !(fs || (nonOverlapLoc a.1 && nonOverlapLoc b.1)) then ans.isSome
  else
    let hi := hiOf [a.1, b.1]
    ans == some (active a b ms && anyUpTo hi (covX fs b.1) && allUpTo hi (fun p => !covX fs b.1 p || covX fs a.1 p))

/-! ### gaps -/

/-- p lies between the first and last non-empty block and is not covered -/
def gapExpected (l : Location) (p : Nat) : Bool :=
  match (locationBlocks l).filter (fun b => decide (b.1 < b.2)) with
  | [] => false
  | ne => decide (minStartOf ne ≤ p) && decide (p < maxEndOf ne) && !locationCovers l p

/-- gaps_location.  An unstranded location has no "order relative to strand": a refusal is accepted there. -/
def okGaps (a : LocP) (ans : Option LocP) : Bool :=
  match ans with
  | none => a.1 != .empty && locationStrand? a.1 == some .unstranded
  | some r =>
    let hi := hiOf [a.1]
    resultOk r a.2 && endsWithin r.1 hi &&
    allUpTo hi (fun p => locationCovers r.1 p == gapExpected a.1 p) &&
    strandIs r.1 (locationStrand? a.1) && ascSeparated (locationBlocks r.1)

/-- gap_list: the same gaps as single intervals on the location's strand, in 5'→3' order -/
def okGapList (a : LocP) (ans : Option (List (Strand × Blk))) : Bool :=
  match ans with
  | none => a.1 != .empty && locationStrand? a.1 == some .unstranded
  | some gs =>
    let hi := hiOf [a.1]
    let bs := gs.map Prod.snd
    let asc := if locationStrand? a.1 == some .minus then bs.reverse else bs
    gs.all (fun g => some g.1 == locationStrand? a.1) &&
    bs.all (fun b => decide (b.2 ≤ hi)) &&
    allUpTo hi (fun p => coversBlocks bs p == gapExpected a.1 p) &&
    ascSeparated asc

/-! ### optimisers -/

/-- optimize_blocks: same multiset of covered positions, no empty block, type promise; normal form (no block ends
    where the next one starts) for layouts that are not self-overlapping — see `okUnionPreserve` for why the claim
    stops there -/
def okOptimize (a : LocP) (ans : Option LocP) : Bool :=
  match ans with
  | none => false
  | some r =>
    resultOk r a.2 &&
    sortNat (locationBases r.1) == sortNat (locationBases a.1) &&
    noEmptyBlock r.1 && strandIs r.1 (locationStrand? a.1) && kindOk r.1 &&
    (if nonOverlapLoc a.1 then normalBlocks (locationBlocks r.1) else true)

/-- optimize_and_combine_blocks (CompoundInterval only): same covered set, blocks pairwise separated -/
def okOptCombine (a : LocP) (ans : Option LocP) : Bool :=
  match a.1 with
  | .compound _ =>
    (match ans with
     | none => false
     | some r =>
       let hi := hiOf [a.1]
       resultOk r a.2 && endsWithin r.1 hi &&
       allUpTo hi (fun p => locationCovers r.1 p == locationCovers a.1 p) &&
       ascSeparated (locationBlocks r.1) && strandIs r.1 (locationStrand? a.1) && kindOk r.1)
  | _ => true

/-- merge_overlapping: unchanged when nothing overlaps, otherwise the same covered set without overlaps -/
def okMergeOverlapping (a : LocP) (ans : Option LocP) : Bool :=
  match ans with
  | none => false
  | some r =>
    if nonOverlapLoc a.1 then r == a
    else
      let hi := hiOf [a.1]
      resultOk r a.2 && endsWithin r.1 hi &&
      allUpTo hi (fun p => locationCovers r.1 p == locationCovers a.1 p) &&
      nonOverlapLoc r.1 && strandIs r.1 (locationStrand? a.1)

/-! ### extend -/

/-- extend_absolute: old positions plus the two flanks; refused iff a distance is negative or a flank leaves
    `[0, parent length]`; EmptyLocation cannot be extended -/
def okExtendAbs (a : LocP) (es ee : Int) (ans : Option LocP) : Bool :=
  match spanOf a.1 with
  | none => ans.isNone
  | some s =>
    let tooLong := match parLen a.2 with
      | none => false
      | some n => decide ((s.2 : Int) + ee > n)
    if es < 0 || ee < 0 || decide ((s.1 : Int) - es < 0) || tooLong then ans.isNone
    else match ans with
      | none => false
      | some r =>
        let lo := s.1 - es.toNat
        let hi := s.2 + ee.toNat
        resultOk r a.2 && endsWithin r.1 hi &&
        allUpTo hi (fun p => locationCovers r.1 p ==
          (locationCovers a.1 p || (decide (lo ≤ p) && decide (p < s.1)) || (decide (s.2 ≤ p) && decide (p < hi)))) &&
        strandIs r.1 (locationStrand? a.1) &&
        (match a.1 with
         | .compound _ => noEmptyBlock r.1 && kindOk r.1
         | _ => true)

/-- a CompoundInterval that is not self-overlapping is extended to a location in normal form -/
def okExtendAbsNormal (a : LocP) (ans : Option LocP) : Bool :=
  match a.1, ans with
  | .compound _, some r => if nonOverlapLoc a.1 then normalBlocks (locationBlocks r.1) else true
  | _, _ => true

/-- extend_relative = extend_absolute with the arguments swapped on the minus strand; needs a direction -/
def okExtendRel (a : LocP) (up down : Int) (ans : Option LocP) : Bool :=
  match locationStrand? a.1 with
  | some .plus => okExtendAbs a up down ans && okExtendAbsNormal a ans
  | some .minus => okExtendAbs a down up ans && okExtendAbsNormal a ans
  | _ => ans.isNone

/-! ### distance -/

def absDist (x y : Nat) : Nat := if x ≤ y then y - x else x - y

def minList : List Nat → Option Nat
  | [] => none
  | x :: xs => match minList xs with
    | none => some x
    | some m => some (min x m)

/-- documented function of the end points (DESIGN C02-T9) -/
def expectDistance (a b : Location) (ty : Nat) : Option Nat :=
  match spanOf a, spanOf b with
  | some sa, some sb =>
    match ty with
    | 0 => -- INNER
      if anyUpTo (hiOf [a, b]) (fun p => locationCovers a p && locationCovers b p) then some 0
      else minList ((locationBlocks a).flatMap (fun x => (locationBlocks b).map (fun y =>
             min (absDist x.1 y.2) (absDist x.2 y.1))))
    | 1 => some (max (absDist sa.1 sb.2) (absDist sa.2 sb.1))      -- OUTER
    | 2 => some (absDist sa.1 sb.1)                                 -- STARTS
    | _ => some (absDist sa.2 sb.2)                                 -- ENDS
  | _, _ => none

/-- distance_to: refused for EmptyLocation operands and for different parents -/
def okDistance (a b : LocP) (ty : Nat) (ans : Option Nat) : Bool :=
  if !sameParent a.2 b.2 then ans.isNone
  else ans == expectDistance a.1 b.1 ty

/-! ### reverse / strand / shift / constructors -/

def flipStrand : Strand → Strand
  | .plus => .minus
  | .minus => .plus
  | .unstranded => .unstranded

/-- reverse: same span, structure mirrored inside it, strand flipped -/
def okReverse (a : LocP) (ans : Option LocP) : Bool :=
  match ans with
  | none => false
  | some r =>
    match spanOf a.1 with
    | none => r == a
    | some s =>
      resultOk r a.2 && endsWithin r.1 s.2 &&
      allUpTo s.2 (fun p => locationCovers r.1 p ==
        (decide (s.1 ≤ p) && decide (p < s.2) && locationCovers a.1 (s.1 + s.2 - 1 - p))) &&
      locationStrand? r.1 == (locationStrand? a.1).map flipStrand &&
      (locationBlocks r.1).length == (locationBlocks a.1).length

/-- same blocks (as a multiset), given strand -/
def sameBlocksOn (r a : LocP) (st : Strand) : Bool :=
  resultOk r a.2 && sortBlocks .plus (locationBlocks r.1) == sortBlocks .plus (locationBlocks a.1) &&
  locationStrand? r.1 == some st

def okReverseStrand (a : LocP) (ans : Option LocP) : Bool :=
  match ans with
  | none => false
  | some r =>
    match locationStrand? a.1 with
    | none => r == a
    | some st => sameBlocksOn r a (flipStrand st)

def okResetStrand (a : LocP) (ns : Strand) (ans : Option LocP) : Bool :=
  match a.1 with
  | .empty => ans.isNone
  | _ => match ans with
    | none => false
    | some r => sameBlocksOn r a ns

/-- shift_position: every block moved by `k`; refused iff the result leaves `[0, parent length]` -/
def okShift (a : LocP) (k : Int) (ans : Option LocP) : Bool :=
  match spanOf a.1 with
  | none => ans.isNone
  | some s =>
    let tooLong := match parLen a.2 with
      | none => false
      | some n => decide ((s.2 : Int) + k > n)
    if decide ((s.1 : Int) + k < 0) || tooLong then ans.isNone
    else match ans with
      | none => false
      | some r =>
        resultOk r a.2 &&
        sortBlocks .plus (locationBlocks r.1) ==
          sortBlocks .plus ((locationBlocks a.1).map (fun b => (((b.1 : Int) + k).toNat, ((b.2 : Int) + k).toNat))) &&
        locationStrand? r.1 == locationStrand? a.1

/-! ### equality -/

/-- two locations are equal iff they are of the same kind (a one-block CompoundInterval is not a SingleInterval),
    have the same blocks in the same order, the same strand and parents that are equal except location; the second
    component of the answer reports that equal locations had equal hashes -/
def okEq (a b : LocP) (ans : Option (Bool × Bool)) : Bool :=
  let sameKind := match a.1, b.1 with
    | .single _ _, .single _ _ => true
    | .compound _, .compound _ => true
    | .empty, .empty => true
    | _, _ => false
  let expected := sameKind && locationBlocks a.1 == locationBlocks b.1 &&
    locationStrand? a.1 == locationStrand? b.1 && sameParent a.2 b.2
  ans == some (expected, true)

end BioCantor.Spec
