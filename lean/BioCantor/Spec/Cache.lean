/-
  C10 — "answers do not depend on call history; operations never change their operands".

  Reference semantics of the library's memoisation devices, written from the DOCUMENTED behaviour of the
  devices (functools / methodtools `lru_cache`, "lazy" attributes, `dict.copy()`), never from the model:

    * a memoised call answers what the un-memoised function answers, whatever happened before;
    * the hit / miss / eviction pattern of an LRU cache of capacity `cap` is a function of the key history:
      a call hits iff its key is among the `cap` most recently used DISTINCT keys;
    * reading a lazily filled attribute gives what a fresh object gives;
    * an export / merge leaves its operand as it was, and its result is the key-wise union.

  Import-free apart from Base (the spec driver imports Base and Spec only).
-/
import BioCantor.Base
namespace BioCantor.Spec.Cache
open BioCantor

/-- What one call of a memoised function looks like from outside (`cache_info()`): a hit bumps `hits`;
    a miss bumps `misses`; a miss that finds `currsize = maxsize > 0` evicts the least recently used entry. -/
inductive Ev where
  | hit | miss | missEvict
  deriving DecidableEq, Repr, Inhabited

def Ev.sym : Ev → Char
  | .hit => 'H' | .miss => 'M' | .missEvict => 'E'

/-- The distinct keys of a history given NEWEST CALL FIRST, ordered most recently used first. -/
def recent {κ} [DecidableEq κ] : List κ → List κ
  | [] => []
  | k :: older => k :: (recent older).erase k

/-- The documented LRU discipline on the list `r` of distinct keys used so far, most recently used first:
    hit iff `k` is among the first `cap` of them. -/
def evOn {κ} [DecidableEq κ] (cap : Nat) (r : List κ) (k : κ) : Ev :=
  if k ∈ r.take cap then .hit
  else if r.length < cap ∨ cap = 0 then .miss
  else .missEvict

/-- … for one call with key `k` after the history `histRev` (newest first). -/
def expectEv {κ} [DecidableEq κ] (cap : Nat) (histRev : List κ) (k : κ) : Ev := evOn cap (recent histRev) k

def expectEvsOn {κ} [DecidableEq κ] (cap : Nat) : List κ → List κ → List Ev
  | _, [] => []
  | r, k :: ks => evOn cap r k :: expectEvsOn cap (k :: r.erase k) ks

/-- … for a whole sequence of calls (`histRev` = what was asked before, newest first); computed incrementally:
    `expectEvs cap h (k :: ks) = expectEv cap h k :: expectEvs cap (k :: h) ks` (lemma `expectEvs_cons`). -/
def expectEvs {κ} [DecidableEq κ] (cap : Nat) (histRev : List κ) (ks : List κ) : List Ev :=
  expectEvsOn cap (recent histRev) ks

/-- `lru` operation: the answers are those of the un-memoised function `f` and the hit/miss/evict pattern
    is the documented one. -/
def okLru {κ ν} [DecidableEq κ] [DecidableEq ν] (f : κ → ν) (cap : Nat) (keys : List κ)
    (outs : List ν) (evs : List Ev) : Bool :=
  decide (outs = keys.map f) && decide (evs = expectEvs cap [] keys)

/-- Per-object memo tables (methodtools): the pattern of object `o` depends only on the calls made on `o`. -/
def expectEvsObj {ο κ} [DecidableEq ο] [DecidableEq κ] (cap : Nat) : List (ο × κ) → List (ο × κ) → List Ev
  | _, [] => []
  | h, (o, k) :: rest =>
    expectEv cap ((h.filter (fun p => decide (p.1 = o))).map (·.2)) k :: expectEvsObj cap ((o, k) :: h) rest

def okMemo {ο κ ν} [DecidableEq ο] [DecidableEq κ] [DecidableEq ν] (f : ο → κ → ν) (cap : Nat)
    (calls : List (ο × κ)) (outs : List ν) (evs : List Ev) : Bool :=
  decide (outs = calls.map (fun c => f c.1 c.2)) && decide (evs = expectEvsObj cap [] calls)

/-- Reads of lazily filled attributes: every read of attribute `i` answers like the first read of `i`
    (the first read of a fresh object IS the fresh twin's answer). `reads` pairs attribute and answer. -/
def okSameAnswers {ι ν} [DecidableEq ι] [DecidableEq ν] : List (ι × ν) → Bool
  | [] => true
  | (i, v) :: rest => rest.all (fun p => decide (p.1 = i → p.2 = v)) && okSameAnswers rest

/-! ### answers of the CDS sequence accessors (value AND Python type) -/

/-- the Python-level answer of one step of a CDS history -/
inductive Ans where
  | seqObj (letters : List Char)     -- a `Sequence` object
  | str (letters : List Char)        -- a plain `str`
  | bool (b : Bool)
  | count (n : Nat)
  | internalError                    -- AttributeError & co.
  deriving DecidableEq, Repr, Inhabited

/-- the steps of a CDS history -/
inductive CdsOp where
  | listCodons      -- `chunk_relative_codon_locations`  (answer: number of codons)
  | numCodons       -- `num_chunk_relative_codons`
  | extract         -- `extract_sequence()`
  | validStop       -- `has_valid_stop`
  | totalCodons     -- `num_codons` (codons of the WHOLE CDS in chromosome coordinates, also on a sequence chunk)
  deriving DecidableEq, Repr, Inhabited

def isStopCodon (c : List Char) : Bool :=
  c == ['T', 'A', 'A'] || c == ['T', 'A', 'G'] || c == ['T', 'G', 'A']

def lastThree (l : List Char) : List Char := l.drop (l.length - 3)

/-- what a fresh CDS answers to one question; `letters` = its in-frame coding sequence as seen on its parent (the part
    inside the chunk for a chunk-relative CDS), `chunkCodons` = number of codon locations inside the chunk,
    `totalCodons` = number of codons of the whole CDS -/
def freshAns (letters : List Char) (chunkCodons totalCodons : Nat) : CdsOp → Ans
  | .listCodons => .count chunkCodons
  | .numCodons => .count chunkCodons
  | .totalCodons => .count totalCodons
  | .extract => .seqObj letters
  | .validStop => .bool (isStopCodon (lastThree (letters.map Char.toUpper)))

/-- `cdshist` operation: every step answers what the fresh object answers (value and type). -/
def okCdsHist (letters : List Char) (chunkCodons totalCodons : Nat) (hist : List CdsOp) (answers : List Ans) : Bool :=
  decide (answers = hist.map (freshAns letters chunkCodons totalCodons))

/-! ### qualifier dictionaries (keys and values interned as numbers) -/

def normSet (l : List Nat) : List Nat := (l.mergeSort (fun a b => decide (a ≤ b))).eraseDups

abbrev QDict := List (Nat × List Nat)

def normDict (d : QDict) : QDict :=
  (d.map fun kv => (kv.1, normSet kv.2)).mergeSort (fun a b => decide (a.1 ≤ b.1))

def qget (d : QDict) (k : Nat) : List Nat :=
  match d.lookup k with
  | some v => v
  | none => []

/-- key-wise union: what "merging this interval's qualifiers with the parent's" means -/
def unionDict (own other : QDict) : QDict :=
  let keys := (own.map (·.1) ++ other.map (·.1)).eraseDups
  normDict (keys.map fun k => (k, qget own k ++ qget other k))

/-- `merge` operation: the result is the key-wise union AND the interval's own dictionary is as before. -/
def okMerge (own other result ownAfter : QDict) : Bool :=
  decide (normDict result = unionDict own other) && decide (normDict ownAfter = normDict own)

/-- `export` operation (`export_qualifiers(parent_qualifiers)` of a CDS): the result is the key-wise union of the
    interval's qualifiers, the parent's and the identifiers the exporter adds; the interval's own dictionary AND the
    `parent_qualifiers` argument are as before. -/
def okExport (own other : QDict) (ids : List (Nat × Nat)) (result ownAfter otherAfter : QDict) : Bool :=
  decide (normDict result = unionDict (unionDict own other) (ids.map fun kv => (kv.1, [kv.2]))) &&
    decide (normDict ownAfter = normDict own) && decide (normDict otherAfter = normDict other)

/-- `hist` operation (histories on real objects): the digest lists the calls whose answer differed from the
    fresh twin's / whose operand changed; the property is that there are none. -/
def okHist (digest : List String) : Bool := digest == ["-"]

/-! ### operations with arguments on real objects: recorded answers are DIGESTS of canonical answer records -/

/-- `warm` operation.  `answers` = for every operation applied: (operation, digest of the answers the RESULT gives to the
    full question list when the operation was applied to a freshly built operand under cold caches, the same digest when
    operand and/or arguments had first been asked every question).  `snapPristine/Cold/Warm` = digest of the snapshot
    (dictionary form, hash, str, identifiers, qualifiers of children) of operand + arguments never touched / after the
    operations on cold operands / after warm-up and operations.
    The clause: the answers of a result do not depend on what its operands were asked before, and the operands read
    the same before and after. -/
def okWarm (answers : List (String × String × String)) (snapPristine snapCold snapWarm : String) : Bool :=
  answers.all (fun a => a.2.1 == a.2.2) && snapCold == snapPristine && snapWarm == snapPristine

/-- the first operation whose result answers differently (for the failure message) -/
def firstWarmDiff (answers : List (String × String × String)) : Option String :=
  (answers.find? (fun a => a.2.1 != a.2.2)).map (·.1)

/-- `args` operation: a call with dict / list / set / object arguments.  The arguments (deep content: nested sets,
    container types, key order, hash/str of objects) and the receiver read the same before and after; the call gives the
    same rendered result when repeated with the same argument objects and on a fresh twin with fresh arguments; no mutable
    container is reachable both from the result and from the arguments / the receiver (`aliases` lists the shared ones). -/
def okArgs (argsBefore argsAfter selfBefore selfAfter first second twin : String) (aliases : List String) : Bool :=
  argsBefore == argsAfter && selfBefore == selfAfter && first == second && first == twin && aliases.isEmpty

/-- `lazy` operation: the renderings (rows printed while iterating / after the generator was exhausted / again /
    on fresh twins) of a generator-returning export all coincide.  `(label, "<rows>:<digest>")`. -/
def okLazy : List (String × String) → Bool
  | [] => false
  | r :: rest => rest.all (fun x => x.2 == r.2)

def firstLazyDiff : List (String × String) → Option String
  | [] => none
  | r :: rest => (rest.find? (fun x => x.2 != r.2)).map (·.1)

end BioCantor.Spec.Cache
