/-
  Reference semantics of variant haplotypes (C13), written without looking at how the library computes
  anything.  A variant is an EDIT of the reference: "replace the bases ref[s, e) by the string alt".

  * the alternative sequence is defined position by position: at reference position i the haplotype carries the
    alt string of the edit that starts at i (if any) followed by ref[i] unless i is covered by an edit;
  * the edited image of a reference range [lo, hi) is the concatenation of these pieces over i ∈ [lo, hi);
  * a position p that is not strictly inside an edit sits, on the haplotype, at `|image [0, p)|`.
  Coordinates here are those of the sequence itself (chunk-relative for a chunk); the drivers translate.
-/
import BioCantor.Base
namespace BioCantor.Spec.Variants
open BioCantor

abbrev Seq := List Char

structure Edit where
  s : Nat
  e : Nat
  alt : Seq
  deriving DecidableEq, Repr

def Edit.delta (x : Edit) : Int := (x.alt.length : Int) - ((x.e : Int) - (x.s : Int))

/-- bases inserted in front of reference position `i` -/
def insAt : List Edit → Nat → Seq
  | [], _ => []
  | x :: xs, i => if x.s = i then x.alt else insAt xs i

/-- is reference position `i` replaced by some edit? -/
def covered (es : List Edit) (i : Nat) : Bool := es.any fun x => decide (x.s ≤ i) && decide (i < x.e)

/-- what the haplotype carries for reference position `i` -/
def piece (ref : Seq) (es : List Edit) (i : Nat) : Seq :=
  insAt es i ++ (if covered es i then [] else match ref[i]? with
                                              | some c => [c]
                                              | none => [])

/-- edited image of the reference range `[lo, hi)` -/
def image (ref : Seq) (es : List Edit) (lo hi : Nat) : Seq :=
  (List.range' lo (hi - lo)).flatMap (piece ref es)

/-- the alternative sequence: literal substitution of every edit -/
def altOf (ref : Seq) (es : List Edit) : Seq := image ref es 0 ref.length

/-- edits are usable on a sequence of length `n`: at least one base each, inside the sequence, pairwise disjoint -/
def disjointFrom (x : Edit) (ys : List Edit) : Bool := ys.all fun y => decide (x.e ≤ y.s) || decide (y.e ≤ x.s)

def validEdits (n : Nat) : List Edit → Bool
  | [] => true
  | x :: xs => decide (x.s < x.e) && decide (x.e ≤ n) && disjointFrom x xs && validEdits n xs

/-! ### locations -/

/-- non-empty ascending non-overlapping blocks inside a sequence of length `n` -/
def goodBlocks (n : Nat) : List Blk → Bool
  | [] => true
  | [a] => decide (a.1 < a.2) && decide (a.2 ≤ n)
  | a :: b :: rest => decide (a.1 < a.2) && decide (a.2 ≤ b.1) && goodBlocks n (b :: rest)

/-- the edit lies wholly inside one block, or wholly outside all of them -/
def insideOne (x : Edit) (bs : List Blk) : Bool := bs.any fun b => decide (b.1 ≤ x.s) && decide (x.e ≤ b.2)
def outsideAll (x : Edit) (bs : List Blk) : Bool := bs.all fun b => decide (x.e ≤ b.1) || decide (b.2 ≤ x.s)

/-- domain of the lift-over claim -/
def cleanEdits (es : List Edit) (bs : List Blk) : Bool := es.all fun x => insideOne x bs || outsideAll x bs

/-- the part of the reference a length-reducing edit removes (the first |alt| bases are the ones it keeps) -/
def deletedPart (x : Edit) : Option Blk :=
  if x.alt.length < x.e - x.s then some (x.s + x.alt.length, x.e) else none

/-- every block lies wholly inside the deleted part of some edit -/
def whollyDeleted (es : List Edit) (bs : List Blk) : Bool :=
  !bs.isEmpty && bs.all fun b => es.any fun x =>
    match deletedPart x with
    | some d => decide (d.1 ≤ b.1) && decide (b.2 ≤ d.2)
    | none => false

/-- position of reference coordinate `p` on the haplotype -/
def newPos (ref : Seq) (es : List Edit) (p : Nat) : Nat := (image ref es 0 p).length

/-- image of one block as a block of the haplotype -/
def imageBlock (ref : Seq) (es : List Edit) (b : Blk) : Blk := (newPos ref es b.1, newPos ref es b.2)

/-- drop empty blocks and merge blocks that touch (what `optimize_blocks` promises) -/
def normBlocks : List Blk → List Blk
  | [] => []
  | b :: rest =>
    if b.1 ≥ b.2 then normBlocks rest
    else match normBlocks rest with
      | [] => [b]
      | c :: cs => if b.2 = c.1 then (b.1, c.2) :: cs else b :: c :: cs

def complement : Char → Char
  | 'A' => 'T' | 'C' => 'G' | 'G' => 'C' | 'T' => 'A'
  | 'a' => 't' | 'c' => 'g' | 'g' => 'c' | 't' => 'a'
  | c => c

/-- read a concatenation of pieces on a strand -/
def onStrand (st : Strand) (s : Seq) : Seq :=
  match st with
  | .minus => s.reverse.map complement
  | _ => s

/-- the edited image of the reference bases of a location, read 5'→3' -/
def imageSeq (ref : Seq) (es : List Edit) (bs : List Blk) (st : Strand) : Seq :=
  onStrand st (bs.flatMap fun b => image ref es b.1 b.2)

/-- plain extraction of blocks from a sequence -/
def extractSeq (s : Seq) (bs : List Blk) (st : Strand) : Seq :=
  onStrand st (bs.flatMap fun b => (s.drop b.1).take (b.2 - b.1))

/-- an answered location: strand, blocks (coordinates of the haplotype sequence), the bases it reads there -/
structure Lifted where
  strand : Strand
  blocks : List Blk
  seq : Seq
  deriving DecidableEq, Repr

inductive Verdict where
  | pass | fail | na | failDeletedRaises
  deriving DecidableEq, Repr

/-- C13, alternative sequence: with valid edits the answer is the literal substitution. -/
def okAltSeq (ref : Seq) (es : List Edit) (ans : Option Seq) : Verdict :=
  if !validEdits ref.length es || es.isEmpty then .na
  else match ans with
    | some a => if a = altOf ref es then .pass else .fail
    | none => .fail

/-- C13, lift-over.  `ans`: `none` = raised, `some none` = EmptyLocation, `some (some l)` = a location.
    * every edit wholly inside one block or wholly outside all blocks: the lifted location has the strand of the
      original, its normalised blocks are exactly the images of the original blocks, and it reads the edited image
      of the original bases (an image without bases must be the EmptyLocation);
    * every block wholly inside a deleted part: EmptyLocation;
    * otherwise (an edit straddles a block boundary) the property does not say: n/a. -/
def okLift (ref : Seq) (es : List Edit) (st : Strand) (bs : List Blk) (ans : Option (Option Lifted)) : Verdict :=
  if !validEdits ref.length es || es.isEmpty || bs.isEmpty || !goodBlocks ref.length bs || st = .unstranded then .na
  else if cleanEdits es bs then
    let want := normBlocks (bs.map (imageBlock ref es))
    match ans with
    | none => if want.isEmpty then .failDeletedRaises else .fail
    | some none => if want.isEmpty then .pass else .fail
    | some (some l) =>
      if l.strand = st ∧ normBlocks l.blocks = want ∧ ¬ want.isEmpty ∧ l.seq = imageSeq ref es bs st
         ∧ l.seq = extractSeq (altOf ref es) l.blocks st then .pass else .fail
  else if whollyDeleted es bs then
    match ans with
    | some none => .pass
    | none => .failDeletedRaises
    | _ => .fail
  else .na

/-- C13, incorporate_variants of a feature / CDS / exon set: same claim; an interval deleted entirely is refused
    (`incorporate_variants` documents EmptyLocationException for it). -/
def okIncorporate (ref : Seq) (es : List Edit) (st : Strand) (bs : List Blk) (ans : Option Lifted) : Verdict :=
  if !validEdits ref.length es || es.isEmpty || bs.isEmpty || !goodBlocks ref.length bs || st = .unstranded then .na
  else if cleanEdits es bs then
    let want := normBlocks (bs.map (imageBlock ref es))
    match ans with
    | none => if want.isEmpty then .pass else .fail
    | some l =>
      if l.strand = st ∧ normBlocks l.blocks = want ∧ ¬ want.isEmpty ∧ l.seq = imageSeq ref es bs st
         ∧ l.seq = extractSeq (altOf ref es) l.blocks st then .pass else .fail
  else if whollyDeleted es bs then
    match ans with
    | none => .pass
    | some _ => .fail
  else .na

/-- shape of the known defect F-C13a (used only to keep its matcher narrow): a collection in which a
    length-changing variant is followed by another variant, and some block is not wholly to its left -/
def seqShiftShape (es : List Edit) (bs : List Blk) : Bool :=
  es.any fun x =>
    decide (x.delta ≠ 0) && es.any (fun y => decide (x.s < y.s)) && bs.any (fun b => decide (x.s < b.2))

/-! ### haplotype mapping of an annotation collection -/

/-- span `[smallest start, largest end)` of a non-empty family of intervals -/
def spanOf : List Blk → Option Blk
  | [] => none
  | b :: bs =>
    match spanOf bs with
    | none => some b
    | some r => some (min b.1 r.1, max b.2 r.2)

/-- two spans share at least one position (the documented overlap rule between a gene / feature collection and a
    variant collection: their spans overlap) -/
def spansMeet (a b : Option Blk) : Bool :=
  match a, b with
  | some x, some y => decide (max x.1 y.1 < min x.2 y.2)
  | _, _ => false

/-- a member: its leaves (strand, blocks); a haplotype: its edits.  Coordinates of the reference sequence. -/
abbrev MemberIn := List (Strand × List Blk)

def memberSpanOf (m : MemberIn) : Option Blk := spanOf (m.flatMap fun l => l.2)
def hapSpanOf (es : List Edit) : Option Blk := spanOf (es.map fun x => (x.s, x.e))

/-- indices of the members a haplotype must be mapped to: exactly those whose span overlaps the haplotype's span -/
def wantMembers (members : List MemberIn) (es : List Edit) : List Nat :=
  (List.range members.length).filter fun j =>
    match members[j]? with
    | some m => spansMeet (memberSpanOf m) (hapSpanOf es)
    | none => false

def sortNats (l : List Nat) : List Nat := l.foldr (fun x acc => (acc.filter (· < x)) ++ x :: acc.filter (fun y => ¬ y < x)) []

/-- one answered bucket: (member index, its leaves) -/
abbrev BucketOut := List (Nat × List Lifted)

/-- verdict on the leaves of one mapped member (member `m` incorporated with haplotype `es`) -/
def leavesVerdicts (ref : Seq) (es : List Edit) (m : MemberIn) (out : List Lifted) : List Verdict :=
  if m.length ≠ out.length then [.fail]
  else (m.zip out).map fun p => okIncorporate ref es p.1.1 p.1.2 (some p.2)

/-- membership part of C13 for `alternative_haplotype_mapping`: one bucket per haplotype, holding exactly the members
    whose span overlaps that haplotype (order inside a bucket is not part of the claim) -/
def hapMembersOk (members : List MemberIn) (haps : List (List Edit)) (tbl : List BucketOut) : Bool :=
  decide (tbl.length = haps.length) &&
  (haps.zip tbl).all fun p => decide (sortNats (p.2.map (·.1)) = wantMembers members p.1)

/-- all verdicts on the leaves of all buckets -/
def hapLeafVerdicts (ref : Seq) (members : List MemberIn) (haps : List (List Edit)) (tbl : List BucketOut) :
    List Verdict :=
  (haps.zip tbl).flatMap fun p => p.2.flatMap fun e =>
    match members[e.1]? with
    | some m => leavesVerdicts ref p.1 m e.2
    | none => [.fail]

/-- may the construction be refused?  yes when some member that has to be mapped loses a leaf entirely -/
def hapRefusalJustified (ref : Seq) (members : List MemberIn) (haps : List (List Edit)) : Verdict :=
  let vs := haps.flatMap fun es => (wantMembers members es).flatMap fun j =>
    match members[j]? with
    | some m => m.map fun l => okIncorporate ref es l.1 l.2 none
    | none => []
  if vs.any (· = .pass) then .pass else if vs.any (· = .na) then .na else .fail

/-- C13 for `alternative_haplotype_mapping`.  `ans = none`: the construction raised. -/
def okHap (ref : Seq) (members : List MemberIn) (haps : List (List Edit)) (ans : Option (List BucketOut)) : Verdict :=
  if haps.isEmpty || members.isEmpty || haps.any (fun es => es.isEmpty || !validEdits ref.length es)
     || members.any (fun m => m.isEmpty || m.any fun l => l.2.isEmpty || !goodBlocks ref.length l.2 || l.1 = .unstranded)
  then .na
  else match ans with
    | none => hapRefusalJustified ref members haps
    | some tbl =>
      if !hapMembersOk members haps tbl then .fail
      else
        let vs := hapLeafVerdicts ref members haps tbl
        if vs.any (fun v => v = .fail || v = .failDeletedRaises) then .fail else .pass

/-- used only to keep the matcher of the known finding F-C13a narrow: the membership is right, and every failing leaf
    belongs to a haplotype / leaf pair with the sequential-application shape -/
def hapFailureIsShaped (ref : Seq) (members : List MemberIn) (haps : List (List Edit)) (tbl : List BucketOut) : Bool :=
  hapMembersOk members haps tbl &&
  (haps.zip tbl).all fun p => p.2.all fun e =>
    match members[e.1]? with
    | some m =>
      decide (m.length = e.2.length) &&
      (m.zip e.2).all fun q =>
        okIncorporate ref p.1 q.1.1 q.1.2 (some q.2) != .fail || seqShiftShape p.1 q.1.2
    | none => false

/-- the same for a construction that raised: some (haplotype, leaf of a member it has to be mapped to) pair has the
    sequential-application shape -/
def hapRefusalIsShaped (members : List MemberIn) (haps : List (List Edit)) : Bool :=
  haps.any fun es => (wantMembers members es).any fun j =>
    match members[j]? with
    | some m => m.any fun l => seqShiftShape es l.2
    | none => false

/-! ### VCF records → haplotypes -/

inductive PS where
  | absent            -- the FORMAT has no PS field
  | missing           -- PS present but `.`
  | val (n : Int)
  deriving DecidableEq, Repr

structure VcfRec where
  chrom : List Char
  start : Nat
  «end» : Nat
  nsamples : Nat
  ps : PS
  alts : List (Seq × List Char)     -- (ALT sequence, type)
  deriving DecidableEq, Repr

structure VarOut where
  start : Nat
  «end» : Nat
  seq : Seq
  vtype : List Char
  phase : Option Int
  deriving DecidableEq, Repr

structure CollOut where
  id : Option (List Char)
  seqName : List Char
  vars : List VarOut
  deriving DecidableEq, Repr

/-- one variant per alternative allele; a zero-length affected range becomes one base -/
def varsOf (r : VcfRec) : List VarOut :=
  r.alts.map fun a =>
    ⟨r.start, if r.start = r.«end» then r.«end» + 1 else r.«end», a.1, a.2,
     match r.ps with | .val n => some n | _ => none⟩

def chromsOf : List VcfRec → List (List Char)
  | [] => []
  | r :: rs => let rest := chromsOf rs; if rest.contains r.chrom then rest else r.chrom :: rest

def phaseSets (vs : List VarOut) : List Int :=
  (vs.filterMap (·.phase)).eraseDups

/-- records of one chromosome are contiguous in the input -/
def contiguous : List VcfRec → Bool
  | [] => true
  | r :: rs => (match rs with
                | [] => true
                | r2 :: _ => r.chrom = r2.chrom || !(rs.any fun x => x.chrom = r.chrom)) && contiguous rs

def permOf {α} [DecidableEq α] : List α → List α → Bool
  | [], ys => ys.isEmpty
  | x :: xs, ys => ys.contains x && permOf xs (ys.erase x)

/-- the haplotypes of one chromosome: one collection per phase set (id = the phase set, all its variants), every
    unphased variant a collection of its own -/
def wantColls (chrom : List Char) (recs : List VcfRec) : List CollOut :=
  let vs := (recs.filter (·.chrom = chrom)).flatMap varsOf
  (phaseSets vs).map (fun p => ⟨some (toString p).toList, chrom, vs.filter (·.phase = some p)⟩)
  ++ (vs.filter (·.phase = none)).map (fun v => ⟨none, chrom, [v]⟩)

def collEq (a b : CollOut) : Bool := a.id = b.id && a.seqName = b.seqName && permOf a.vars b.vars

def collsMatch : List CollOut → List CollOut → Bool
  | [], ys => ys.isEmpty
  | x :: xs, ys =>
    match ys.find? (collEq x) with
    | some y => collsMatch xs (ys.erase y)
    | none => false

/-- C13, VCF grouping (order of collections / of variants inside a collection is not part of the claim) -/
def okVcf (recs : List VcfRec) (ans : Option (List (List Char × List CollOut))) : Verdict :=
  if recs.isEmpty || !contiguous recs || recs.any (fun r => r.nsamples = 0 || r.alts.isEmpty) then .na
  else match ans with
    | none => .fail
    | some out =>
      let chroms := (chromsOf recs.reverse).reverse
      if out.map (·.1) = chroms ∧ out.all (fun p => collsMatch (wantColls p.1 recs) p.2) then .pass else .fail

end BioCantor.Spec.Variants
