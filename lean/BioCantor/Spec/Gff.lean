/-
  C11 — reference semantics of GFF3 export, written from the GFF3 specification text quoted in
  io/gff3/rows.py (docstrings of `GFFRow` / `GFFAttributes`) and from the property statement, NOT from the
  code of the writer or of the parser:

    * a GFF3 line is nine tab-separated columns  seqid source type start end score strand phase attributes;
      start/end are 1-based inclusive decimal integers with 1 ≤ start ≤ end; strand is one of `+ - .`;
      phase is `.` or one of `0 1 2`; column nine is `tag=value;tag=value…`, multiple values of one tag are
      separated by `,`; a character with a structural meaning (tab, LF, CR, `;`, `=`, `,` and `%` itself) is
      written `%XX` (two hex digits of its code);
    * `percentDecode` reads `%XX` back (either hex case), everything else literally;
    * the phase of a CDS row is the number of bases to skip to reach the next codon start; a block whose first
      base is codon position f (the `CDSFrame`) has phase (3 - f) mod 3;
    * a feature's `Parent` names the `ID` of another line of the same file, which must come EARLIER;
    * the file is ordered by start coordinate; IDs are unique.

  Part 1: the plain source data of an annotation collection (what the writer is given).
  Part 2: percent-decoding, splitting, line parsing, per-line well-formedness.
  Part 3: the reference decoder `gffDecode` rows → genes / transcripts / exons / CDS blocks / frames / strand /
          identifiers + the feature collections, and `expected`, the same structure computed directly from the
          source data (`normalise (structure c)`): what a faithful export must decode to.
  Part 4: `checkText`, the list of violated clauses for one export.

  Strings are `List Char`; `none` = Python `None`.  Case folding of attribute keys is ASCII lower-casing
  (the writer lower-cases non-reserved keys; GFF3 reserves tags that start with an upper-case letter).
-/
import BioCantor.Base
namespace BioCantor.Spec.Gff
open BioCantor

abbrev Str := List Char
/-- a Python `Dict[str, Set[str]]` / `Dict[str, List[str]]` : key ↦ values, keys distinct -/
abbrev Quals := List (Str × List Str)

/-! ## Part 1 — source data -/

structure SCds where
  guid : Str
  blocks : List Blk
  frames : List CDSFrame
  deriving Repr, DecidableEq, Inhabited

structure STx where
  guid : Str
  strand : Strand
  exons : List Blk
  cds : Option SCds
  tid : Option Str
  sym : Option Str
  ttype : Option Str
  pid : Option Str
  product : Option Str
  quals : Quals
  deriving Repr, DecidableEq, Inhabited

structure SGene where
  guid : Str
  gid : Option Str
  sym : Option Str
  gtype : Option Str
  locus : Option Str
  quals : Quals
  txs : List STx
  deriving Repr, DecidableEq, Inhabited

structure SFeat where
  guid : Str
  strand : Strand
  blocks : List Blk
  name : Option Str
  fid : Option Str
  ftypes : List Str
  quals : Quals
  deriving Repr, DecidableEq, Inhabited

structure SFc where
  guid : Str
  name : Option Str
  fcid : Option Str
  fctype : Option Str
  locus : Option Str
  quals : Quals
  feats : List SFeat
  deriving Repr, DecidableEq, Inhabited

inductive SChild where
  | gene (g : SGene)
  | fc (f : SFc)
  deriving Repr, DecidableEq, Inhabited

/-- the parent situation of the collection -/
inductive SPar where
  | none | chrom | chunk (cs ce : Nat)
  deriving Repr, DecidableEq, Inhabited

structure SColl where
  seqName : Option Str
  par : SPar
  /-- genes first, then feature collections (the constructor's argument order) -/
  children : List SChild
  deriving Repr, DecidableEq, Inhabited

/-- a collection as `collection_to_gff3` sees it: the annotation data plus `str(collection.sequence)`
    (`none` when the collection has no sequence) -/
structure GColl where
  coll : SColl
  seq : Option Str
  deriving Repr, DecidableEq, Inhabited

/-! ## Part 2 — strings, percent decoding, line syntax -/

/-- code-point lexicographic order (Python `str.__lt__`) -/
def strLt : Str → Str → Bool
  | [], [] => false
  | [], _ :: _ => true
  | _ :: _, [] => false
  | a :: as, b :: bs => decide (a.toNat < b.toNat) || (a == b && strLt as bs)

def strLe (a b : Str) : Bool := !strLt b a

def lowerStr (s : Str) : Str := s.map Char.toLower

def hexVal (c : Char) : Option Nat :=
  if 48 ≤ c.toNat ∧ c.toNat ≤ 57 then some (c.toNat - 48)
  else if 65 ≤ c.toNat ∧ c.toNat ≤ 70 then some (c.toNat - 55)
  else if 97 ≤ c.toNat ∧ c.toNat ≤ 102 then some (c.toNat - 87)
  else none

/-- `%XX` ↦ the character with that code; anything else (also a `%` not followed by two hex digits) is kept.
    (Codes ≥ 128 would be UTF-8 bytes in a real file; the writer never produces them: it escapes ASCII only.) -/
def percentDecode : Str → Str
  | [] => []
  | [c] => [c]
  | [c, d] => [c, d]
  | c :: tl@(a :: b :: rest) =>
    if c = '%' then
      match hexVal a, hexVal b with
      | some x, some y => Char.ofNat (16 * x + y) :: percentDecode rest
      | _, _ => c :: percentDecode tl
    else c :: percentDecode tl

/-- every `%` is followed by two hex digits -/
def percentsOk : Str → Bool
  | [] => true
  | [c] => c ≠ '%'
  | [c, d] => c ≠ '%' && d ≠ '%'
  | c :: tl@(a :: b :: rest) =>
    if c = '%' then (hexVal a).isSome && (hexVal b).isSome && percentsOk rest
    else percentsOk tl

/-- characters with a structural meaning inside column nine -/
def structural : List Char := ['\t', '\n', '\r', ';', '=']
/-- … and inside one value of a tag -/
def structuralValue : List Char := ['\t', '\n', '\r', ';', '=', ',']

/-- an escaped token: no structural character left, every `%` starts an escape -/
def wellEscaped (reserved : List Char) (s : Str) : Bool :=
  s.all (fun c => !reserved.contains c) && percentsOk s

/-- Python `s.split(sep)` for a one-character separator -/
def splitOnChar (sep : Char) : Str → List Str
  | [] => [[]]
  | c :: rest =>
    if c = sep then [] :: splitOnChar sep rest
    else
      match splitOnChar sep rest with
      | [] => [[c]]
      | p :: ps => (c :: p) :: ps

def isDigit (c : Char) : Bool := decide (48 ≤ c.toNat) && decide (c.toNat ≤ 57)

def digitsVal : Str → Nat → Nat
  | [], acc => acc
  | c :: rest, acc => digitsVal rest (10 * acc + (c.toNat - 48))

/-- a decimal integer without sign: non-empty, digits only -/
def parseNat (s : Str) : Option Nat :=
  if s ≠ [] ∧ s.all isDigit then some (digitsVal s 0) else none

def parseStrand (s : Str) : Option Strand :=
  if s = ['+'] then some .plus else if s = ['-'] then some .minus else if s = ['.'] then some .unstranded else none

/-- `.` ↦ no phase; `0 1 2` -/
def parsePhase (s : Str) : Option (Option Nat) :=
  if s = ['.'] then some none else if s = ['0'] then some (some 0) else if s = ['1'] then some (some 1)
  else if s = ['2'] then some (some 2) else none

/-- one `tag=value` piece: exactly one `=`, non-empty tag and value, everything well escaped.
    Result: decoded tag, decoded values (split on `,`).  (A `,` inside a TAG is tolerated: the piece is split on
    `=` first and only the value on `,`, so it is unambiguous; the property does not claim commas in keys.) -/
def parseAttr (piece : Str) : Option (Str × List Str) :=
  match splitOnChar '=' piece with
  | [k, v] =>
    let vals := splitOnChar ',' v
    if k ≠ [] ∧ v ≠ [] ∧ wellEscaped structural k ∧ vals.all (wellEscaped structuralValue) then
      some (percentDecode k, vals.map percentDecode)
    else none
  | _ => none

def parseAttrs (col : Str) : Option (List (Str × List Str)) :=
  (splitOnChar ';' col).mapM parseAttr

/-- one parsed line -/
structure PRow where
  seqid : Str
  source : Str
  type : Str
  start : Nat
  stop : Nat
  score : Str
  strand : Strand
  phase : Option Nat
  attrs : List (Str × List Str)
  deriving Repr, DecidableEq, Inhabited

/-- Syntax of one line (clause "nine tab-separated columns, 1-based inclusive start ≤ end, strand symbols,
    attributes split unambiguously").  `none` = not a GFF3 feature line. -/
def parseLine (line : Str) : Option PRow :=
  match splitOnChar '\t' line with
  | [c1, c2, c3, c4, c5, c6, c7, c8, c9] =>
    match parseNat c4, parseNat c5, parseStrand c7, parsePhase c8, parseAttrs c9 with
    | some s, some e, some st, some ph, some attrs =>
      if c1 ≠ [] ∧ c2 ≠ [] ∧ c3 ≠ [] ∧ c6 ≠ [] ∧ 1 ≤ s ∧ s ≤ e then
        some ⟨c1, c2, c3, s, e, c6, st, ph, attrs⟩
      else none
    | _, _, _, _, _ => none
  | _ => none

def kID : Str := ['I', 'D']
def kParent : Str := ['P', 'a', 'r', 'e', 'n', 't']
def kName : Str := ['N', 'a', 'm', 'e']
def tGene : Str := ['g', 'e', 'n', 'e']
def tTranscript : Str := ['t', 'r', 'a', 'n', 's', 'c', 'r', 'i', 'p', 't']
def tExon : Str := ['e', 'x', 'o', 'n']
def tCDS : Str := ['C', 'D', 'S']
def tFc : Str := ['b', 'i', 'o', 'l', 'o', 'g', 'i', 'c', 'a', 'l', '_', 'r', 'e', 'g', 'i', 'o', 'n']
def tFeat : Str := ['f', 'e', 'a', 't', 'u', 'r', 'e', '_', 'i', 'n', 't', 'e', 'r', 'v', 'a', 'l']
def tSub : Str := ['s', 'u', 'b', 'r', 'e', 'g', 'i', 'o', 'n']

/-- all values of a tag (tags may repeat: values are concatenated) -/
def attrVals (k : Str) (attrs : List (Str × List Str)) : List Str :=
  (attrs.filter (·.1 = k)).flatMap (·.2)

def attrCount (k : Str) (attrs : List (Str × List Str)) : Nat := (attrs.filter (·.1 = k)).length

/-- the single value of a reserved tag -/
def attr1 (k : Str) (attrs : List (Str × List Str)) : Option Str :=
  match attrVals k attrs with
  | [v] => some v
  | _ => none

def PRow.id (r : PRow) : Option Str := attr1 kID r.attrs
def PRow.parent (r : PRow) : Option Str := attr1 kParent r.attrs
def PRow.name (r : PRow) : Option Str := attr1 kName r.attrs

/-- phase of a block whose first base is codon position `f` -/
def phaseOfFrame : CDSFrame → Option Nat
  | .ZERO => some 0 | .ONE => some 2 | .TWO => some 1 | .NONE => none

def frameOfPhase : Nat → Option CDSFrame
  | 0 => some .ZERO | 1 => some .TWO | 2 => some .ONE | _ => none

/-- Frames of a CDS without programmed frameshift, in 5'→3' order, by the documented convention of
    `construct_frames_from_location` (docstring example: blocks of 5, 4, 6 bases give `[0,2,0]`, `[1,1,2]`,
    `[2,0,1]` for start frames 0, 1, 2): the 5'-most block carries the start frame `f0`; a later block carries
    (bases of the CDS before it − f0) mod 3. -/
def frameNat : CDSFrame → Int
  | .ZERO => 0 | .ONE => 1 | .TWO => 2 | .NONE => -1

def frameOfInt3 (v : Int) : CDSFrame := if v % 3 = 0 then .ZERO else if v % 3 = 1 then .ONE else .TWO

def laterFrames (acc : Int) : List Nat → List CDSFrame
  | [] => []
  | [_] => []
  | l :: more => frameOfInt3 (acc + l) :: laterFrames (acc + l) more

def inFrame (blocks : List Blk) (strand : Strand) (frames : List CDSFrame) : Bool :=
  let lens := (if strand = .minus then blocks.reverse else blocks).map fun b => b.2 - b.1
  let fr := if strand = .minus then frames.reverse else frames
  match fr with
  | [] => blocks.isEmpty
  | f0 :: _ => fr = f0 :: laterFrames (-(frameNat f0)) lens

/-! ## Part 3 — reference decoder and the expected structure -/

/-- insertion sort of strings (code-point order), used for canonical forms only -/
def insertStr (x : Str) : List Str → List Str
  | [] => [x]
  | y :: ys => if strLe x y then x :: y :: ys else y :: insertStr x ys
def sortStrs (l : List Str) : List Str := l.foldr insertStr []

def insertKV (x : Str × List Str) : List (Str × List Str) → List (Str × List Str)
  | [] => [x]
  | y :: ys =>
    if x.1 = y.1 then (y.1, y.2 ++ x.2) :: ys
    else if strLt x.1 y.1 then x :: y :: ys
    else y :: insertKV x ys

def dedupSorted : List Str → List Str
  | [] => []
  | [a] => [a]
  | a :: b :: rest => if a = b then dedupSorted (b :: rest) else a :: dedupSorted (b :: rest)

/-- canonical multimap: one entry per tag (sorted by tag), values sorted, duplicates removed -/
def canonAttrs (attrs : List (Str × List Str)) : List (Str × List Str) :=
  (attrs.foldr insertKV []).map fun kv => (kv.1, dedupSorted (sortStrs kv.2))

/-- what is known of a row beyond its coordinates: ID, Name, the remaining tags (canonical) -/
structure Info where
  id : Option Str
  name : Option Str
  attrs : List (Str × List Str)
  deriving Repr, DecidableEq, Inhabited

def isReservedTag (k : Str) : Bool := k = kID || k = kParent || k = kName

def PRow.info (r : PRow) : Info :=
  ⟨r.id, r.name, canonAttrs (r.attrs.filter fun kv => !isReservedTag kv.1)⟩

structure DTx where
  info : Info
  strand : Strand
  span : Blk
  exons : List (Blk × Strand × Info)
  cds : List (Blk × Strand × CDSFrame × Info)
  deriving Repr, DecidableEq, Inhabited

structure DGene where
  info : Info
  strand : Strand
  span : Blk
  txs : List DTx
  deriving Repr, DecidableEq, Inhabited

structure DFeat where
  info : Info
  strand : Strand
  span : Blk
  regions : List (Blk × Strand × Info)
  deriving Repr, DecidableEq, Inhabited

structure DFc where
  info : Info
  strand : Strand
  span : Blk
  feats : List DFeat
  deriving Repr, DecidableEq, Inhabited

structure Decoded where
  genes : List DGene
  fcs : List DFc
  deriving Repr, DecidableEq, Inhabited

/-- 1-based inclusive row coordinates ↦ 0-based half-open block, shifted back by the chunk offset -/
def PRow.blk (off : Nat) (r : PRow) : Blk := (r.start - 1 + off, r.stop + off)

def insertBy {α} (le : α → α → Bool) (x : α) : List α → List α
  | [] => [x]
  | y :: ys => if le x y then x :: y :: ys else y :: insertBy le x ys
/-- stable insertion sort -/
def sortBy {α} (le : α → α → Bool) (l : List α) : List α := l.foldr (insertBy le) []

def childrenOf (rows : List PRow) (type : Str) (pid : Option Str) : List PRow :=
  match pid with
  | none => []
  | some p => rows.filter fun r => r.type = type ∧ r.parent = some p

def blkLe2 (a b : Blk) : Bool := a.1 < b.1 || (a.1 == b.1 && a.2 ≤ b.2)

def decodeTx (off : Nat) (rows : List PRow) (t : PRow) : DTx :=
  let ex := sortBy (fun a b : PRow => blkLe2 (a.blk off) (b.blk off)) (childrenOf rows tExon t.id)
  let cd := sortBy (fun a b : PRow => blkLe2 (a.blk off) (b.blk off)) (childrenOf rows tCDS t.id)
  { info := t.info, strand := t.strand, span := t.blk off,
    exons := ex.map fun r => (r.blk off, r.strand, r.info),
    cds := cd.filterMap fun r =>
      match r.phase with
      | some p => (frameOfPhase p).map fun f => (r.blk off, r.strand, f, r.info)
      | none => none }

def decodeFeat (off : Nat) (rows : List PRow) (f : PRow) : DFeat :=
  let sub := sortBy (fun a b : PRow => blkLe2 (a.blk off) (b.blk off)) (childrenOf rows tSub f.id)
  { info := f.info, strand := f.strand, span := f.blk off, regions := sub.map fun r => (r.blk off, r.strand, r.info) }

/-- The reference decoder.  Genes = `gene` rows without Parent, in file order; a gene's transcripts = the
    `transcript` rows naming it as Parent, in file order; a transcript's exons / CDS blocks = the `exon` / `CDS`
    rows naming it, ordered by coordinate; frames from the phase column.  Likewise for feature collections. -/
def gffDecode (off : Nat) (rows : List PRow) : Decoded :=
  { genes := (rows.filter fun r => r.type = tGene ∧ r.parent = none).map fun g =>
      { info := g.info, strand := g.strand, span := g.blk off,
        txs := (childrenOf rows tTranscript g.id).map (decodeTx off rows) },
    fcs := (rows.filter fun r => r.type = tFc ∧ r.parent = none).map fun c =>
      { info := c.info, strand := c.strand, span := c.blk off,
        feats := (childrenOf rows tFeat c.id).map (decodeFeat off rows) } }

/-! ### the same structure computed from the source -/

def unspecified : Str := ['u', 'n', 's', 'p', 'e', 'c', 'i', 'f', 'i', 'e', 'd']
def kGeneId : Str := ['g', 'e', 'n', 'e', '_', 'i', 'd']
def kGeneName : Str := ['g', 'e', 'n', 'e', '_', 'n', 'a', 'm', 'e']
def kGeneBiotype : Str := ['g', 'e', 'n', 'e', '_', 'b', 'i', 'o', 't', 'y', 'p', 'e']
def kLocusTag : Str := ['l', 'o', 'c', 'u', 's', '_', 't', 'a', 'g']
def kTxId : Str := ['t', 'r', 'a', 'n', 's', 'c', 'r', 'i', 'p', 't', '_', 'i', 'd']
def kTxName : Str := ['t', 'r', 'a', 'n', 's', 'c', 'r', 'i', 'p', 't', '_', 'n', 'a', 'm', 'e']
def kTxBiotype : Str := ['t', 'r', 'a', 'n', 's', 'c', 'r', 'i', 'p', 't', '_', 'b', 'i', 'o', 't', 'y', 'p', 'e']
def kProteinId : Str := ['p', 'r', 'o', 't', 'e', 'i', 'n', '_', 'i', 'd']
def kProduct : Str := ['p', 'r', 'o', 'd', 'u', 'c', 't']
def kFeatureId : Str := ['f', 'e', 'a', 't', 'u', 'r', 'e', '_', 'i', 'd']
def kFeatureName : Str := ['f', 'e', 'a', 't', 'u', 'r', 'e', '_', 'n', 'a', 'm', 'e']
def kFeatureType : Str := ['f', 'e', 'a', 't', 'u', 'r', 'e', '_', 't', 'y', 'p', 'e']
def kFcId : Str := ['f', 'e', 'a', 't', 'u', 'r', 'e', '_', 'c', 'o', 'l', 'l', 'e', 'c', 't', 'i', 'o', 'n', '_', 'i', 'd']
def kFcName : Str := ['f', 'e', 'a', 't', 'u', 'r', 'e', '_', 'c', 'o', 'l', 'l', 'e', 'c', 't', 'i', 'o', 'n', '_', 'n', 'a', 'm', 'e']
def kFcType : Str := ['f', 'e', 'a', 't', 'u', 'r', 'e', '_', 'c', 'o', 'l', 'l', 'e', 'c', 't', 'i', 'o', 'n', '_', 't', 'y', 'p', 'e']

/-- GFF3 tags with a predefined meaning that the writer passes through with their case kept -/
def gff3Reserved : List Str := [
  ['A', 'l', 'i', 'a', 's'], ['T', 'a', 'r', 'g', 'e', 't'], ['D', 'b', 'x', 'r', 'e', 'f'], ['G', 'a', 'p'],
  ['D', 'e', 'r', 'i', 'v', 'e', 's', '_', 'f', 'r', 'o', 'm'], ['N', 'o', 't', 'e'],
  ['O', 'n', 't', 'o', 'l', 'o', 'g', 'y', '_', 't', 'e', 'r', 'm']]

/-- documented case folding of a qualifier key -/
def foldKey (k : Str) : Str := if gff3Reserved.contains k then k else lowerStr k

/-- an identifier attribute is written when it is a non-empty string -/
def optVal (k : Str) (v : Option Str) : List (Str × List Str) :=
  match v with
  | some s => if s = [] then [] else [(k, [s])]
  | none => []

/-- how one value reads back: the empty string is written `nan`; a comma separates values -/
def valueReadsAs (v : Str) : List Str := if v = [] then [['n', 'a', 'n']] else splitOnChar ',' v

/-- how the ID / Parent / Name column reads back (comma escaped there) -/
def reservedReadsAs (v : Str) : Str := if v = [] then ['n', 'a', 'n'] else v

/-- qualifiers (own, inherited, identifier attributes) as they must read back: the reserved tags
    ID/Parent/Name never come from qualifiers, keys folded, empty value sets dropped -/
def expectAttrs (quals : List (Str × List Str)) : List (Str × List Str) :=
  canonAttrs ((quals.filter fun kv => !isReservedTag kv.1 && !kv.2.isEmpty).map fun kv =>
    (foldKey kv.1, kv.2.flatMap valueReadsAs))

def geneQuals (g : SGene) : Quals :=
  g.quals ++ optVal kGeneId g.gid ++ optVal kGeneName g.sym
    ++ optVal kGeneBiotype (some (match g.gtype with | some t => t | none => unspecified)) ++ optVal kLocusTag g.locus

def txQuals (g : SGene) (t : STx) : Quals :=
  t.quals ++ geneQuals g ++ optVal kTxId t.tid ++ optVal kTxName t.sym
    ++ optVal kTxBiotype (some (match t.ttype with | some x => x | none => unspecified)) ++ optVal kProteinId t.pid

def cdsQuals (g : SGene) (t : STx) : Quals := txQuals g t ++ optVal kProteinId t.pid ++ optVal kProduct t.product

/-- decimal digits, most significant first -/
def decDigits : Nat → Nat → List Char
  | 0, _ => []
  | fuel + 1, n => if n < 10 then [Char.ofNat (48 + n)] else decDigits fuel (n / 10) ++ [Char.ofNat (48 + n % 10)]

def natStr (n : Nat) : Str := decDigits (n + 1) n

def minStart : List Blk → Option Nat
  | [] => none
  | b :: bs => match minStart bs with | none => some b.1 | some m => some (min b.1 m)
def maxEnd : List Blk → Option Nat
  | [] => none
  | b :: bs => match maxEnd bs with | none => some b.2 | some m => some (max b.2 m)

def spanOf (bs : List Blk) : Blk :=
  match minStart bs, maxEnd bs with
  | some a, some b => (a, b)
  | _, _ => (0, 0)

def optName (v : Option Str) : Option Str := v.map reservedReadsAs

def zipIdx {α} (l : List α) : List (Nat × α) := (List.range l.length).zip l |>.map fun p => (p.1 + 1, p.2)

def expectTx (g : SGene) (t : STx) : DTx :=
  let tq := expectAttrs (txQuals g t)
  { info := ⟨some t.guid, optName t.sym, tq⟩, strand := t.strand, span := spanOf t.exons,
    exons := (zipIdx t.exons).map fun p =>
      (p.2, t.strand, ⟨some (['e', 'x', 'o', 'n', '-'] ++ t.guid ++ ['-'] ++ natStr p.1), optName t.sym, tq⟩),
    cds := match t.cds with
      | none => []
      | some c => (zipIdx (c.blocks.zip c.frames)).map fun p =>
          (p.2.1, t.strand, p.2.2, ⟨some (c.guid ++ ['-'] ++ natStr p.1), optName t.pid, expectAttrs (cdsQuals g t)⟩) }

def expectGene (g : SGene) : DGene :=
  { info := ⟨some g.guid, optName g.sym, expectAttrs (geneQuals g)⟩, strand := .plus,
    span := spanOf (g.txs.map fun t => spanOf t.exons),
    -- file order = order by start (ties keep the source order)
    txs := (sortBy (fun a b : STx => decide ((spanOf a.exons).1 ≤ (spanOf b.exons).1)) g.txs).map (expectTx g) }

def fcTypes (c : SFc) : List Str := c.feats.flatMap (·.ftypes)

def fcQuals (c : SFc) : Quals :=
  (c.quals.filter fun kv => (fcTypes c).isEmpty || kv.1 ≠ kFeatureType)
    ++ optVal kFcId c.fcid ++ optVal kFcName c.name ++ optVal kLocusTag c.locus ++ optVal kFcType c.fctype
    ++ (if (fcTypes c).isEmpty then [] else [(kFeatureType, fcTypes c)])

def featQuals (c : SFc) (f : SFeat) : Quals :=
  ((f.quals ++ fcQuals c).filter fun kv => f.ftypes.isEmpty || kv.1 ≠ kFeatureType)
    ++ optVal kFeatureName f.name ++ optVal kFeatureId f.fid
    ++ (if f.ftypes.isEmpty then [] else [(kFeatureType, f.ftypes)])

def expectFeat (c : SFc) (f : SFeat) : DFeat :=
  let fq := expectAttrs (featQuals c f)
  { info := ⟨some f.guid, optName f.name, fq⟩, strand := f.strand, span := spanOf f.blocks,
    regions := (zipIdx f.blocks).map fun p =>
      (p.2, f.strand, ⟨some (['f', 'e', 'a', 't', 'u', 'r', 'e', '-'] ++ f.guid ++ ['-'] ++ natStr p.1), optName f.name, fq⟩) }

def expectFc (c : SFc) : DFc :=
  { info := ⟨some c.guid, optName c.name, expectAttrs (fcQuals c)⟩, strand := .plus,
    span := spanOf (c.feats.map fun f => spanOf f.blocks),
    feats := (sortBy (fun a b : SFeat => decide ((spanOf a.blocks).1 ≤ (spanOf b.blocks).1)) c.feats).map (expectFeat c) }

def childStart : SChild → Nat
  | .gene g => (spanOf (g.txs.map fun t => spanOf t.exons)).1
  | .fc c => (spanOf (c.feats.map fun f => spanOf f.blocks)).1

/-- `normalise (structure c)`: children in the collection's own order (sorted by start, stable) -/
def expected (c : SColl) : Decoded :=
  let ch := sortBy (fun a b => decide (childStart a ≤ childStart b)) c.children
  { genes := ch.filterMap fun x => match x with | .gene g => some (expectGene g) | .fc _ => none,
    fcs := ch.filterMap fun x => match x with | .fc f => some (expectFc f) | .gene _ => none }

/-! ## Part 4 — the clauses of the property on one exported text -/

def allGuids (c : SColl) : List Str :=
  c.children.flatMap fun x => match x with
    | .gene g => g.guid :: g.txs.flatMap fun t => t.guid :: (match t.cds with | some k => [k.guid] | none => [])
    | .fc f => f.guid :: f.feats.map (·.guid)

def nodup : List Str → Bool
  | [] => true
  | a :: rest => !rest.contains a && nodup rest

/-- a canonical UUID string: 36 characters, hex digits and `-` -/
def uuidShaped (s : Str) : Bool :=
  s.length == 36 && s.all fun c => (hexVal c).isSome || c = '-'

/-- the merged qualifiers of some row contain a reserved tag with a value -/
def hasReservedQual (c : SColl) : Bool :=
  c.children.any fun x => match x with
    | .gene g => g.quals.any (fun kv => isReservedTag kv.1 && !kv.2.isEmpty) ||
        g.txs.any fun t => t.quals.any (fun kv => isReservedTag kv.1 && !kv.2.isEmpty)
    | .fc f => f.quals.any (fun kv => isReservedTag kv.1 && !kv.2.isEmpty) ||
        f.feats.any fun t => t.quals.any (fun kv => isReservedTag kv.1 && !kv.2.isEmpty)

/-- every Parent names the ID of an EARLIER row -/
def parentsEarlier : List PRow → List Str → Bool
  | [], _ => true
  | r :: rest, seen =>
    (match attrVals kParent r.attrs with
     | [] => true
     | ps => ps.all seen.contains) &&
    parentsEarlier rest (match r.id with | some i => i :: seen | none => seen)

def sortedByStart : List PRow → Bool
  | [] => true
  | [_] => true
  | a :: b :: rest => decide (a.start ≤ b.start) && sortedByStart (b :: rest)

/-- phase present exactly on CDS rows -/
def phaseRule (r : PRow) : Bool := (r.type = tCDS) == r.phase.isSome

/-- reserved tags appear once, ID first; no tag of the row is one of them otherwise -/
def reservedOnce (r : PRow) : Bool :=
  attrCount kID r.attrs == 1 && attrCount kParent r.attrs ≤ 1 && attrCount kName r.attrs ≤ 1 &&
  (match r.attrs with | (k, [_]) :: _ => k = kID | _ => false)

/-- The violated clauses of the property's first sentence for the exported feature lines `lines` of
    collection `c` (offset `off` = chunk start in chunk-relative mode, 0 otherwise).  `[]` = clean. -/
def checkLines (c : SColl) (off : Nat) (lines : List Str) : List String :=
  match lines.mapM parseLine with
  | none => ["nine-columns/start<=end/strand/phase/attribute-syntax"]
  | some rows =>
    let ids := rows.filterMap (·.id)
    (if rows.all fun r => r.seqid = (match c.seqName with | some s => s | none => []) then [] else ["seqid"]) ++
    (if rows.all phaseRule then [] else ["phase-only-on-CDS"]) ++
    (if rows.all reservedOnce then [] else ["reserved-attributes"]) ++
    (if !nodup (allGuids c) || nodup ids then [] else ["unique-ids"]) ++
    (if ids.length == rows.length then [] else ["missing-id"]) ++
    (if parentsEarlier rows [] then [] else ["parent-earlier"]) ++
    (if sortedByStart rows then [] else ["ordered-by-start"]) ++
    (if gffDecode off rows = expected c then [] else ["decode(rows)=source"])

/-! ## Part 5 — the whole file: header, `##sequence-region` pragmas, feature lines, `##FASTA` section

  GFF3: the first line is `##gff-version 3`; `##sequence-region seqid start end` declares a landmark; after
  `##FASTA` the rest of the file is FASTA whose record names are the seqids of column 1. -/

def sHeader : Str := ['#', '#', 'g', 'f', 'f', '-', 'v', 'e', 'r', 's', 'i', 'o', 'n', ' ', '3']
def sFasta : Str := ['#', '#', 'F', 'A', 'S', 'T', 'A']
def sRegion : Str := ['#', '#', 's', 'e', 'q', 'u', 'e', 'n', 'c', 'e', '-', 'r', 'e', 'g', 'i', 'o', 'n']

def isPragma (l : Str) : Bool := match l with | '#' :: _ => true | _ => false

def gName (g : GColl) : Str := match g.coll.seqName with | some s => s | none => []

/-- FASTA lines → records (name, concatenated sequence), read left to right; `none` when text precedes the first
    `>` or a sequence line is empty -/
def readFasta (lines : List Str) : Option (List (Str × Str)) :=
  let step := fun (acc : Option (List (Str × Str))) (l : Str) =>
    match acc with
    | none => none
    | some recs =>
      match l with
      | '>' :: name => some (recs ++ [(name, [])])
      | [] => none
      | _ => match recs.reverse with
        | [] => none
        | (n, s) :: before => some (before.reverse ++ [(n, s ++ l)])
  lines.foldl step (some [])

/-- The violated clauses for the printed lines of `collection_to_gff3` on `cs` (sequence names pairwise distinct).
    `off g` = chunk offset used for `g`'s rows. -/
def checkFile (cs : List GColl) (addSeq ordered chromRel : Bool) (lines : List Str) : List String :=
  let order := if ordered then sortBy (fun a b : GColl => strLe (gName a) (gName b)) cs else cs
  match lines with
  | [] => ["header"]
  | h :: rest =>
    let pragmas := rest.takeWhile (fun l => isPragma l && l != sFasta)
    let afterP := rest.dropWhile (fun l => isPragma l && l != sFasta)
    let feats := afterP.takeWhile (fun l => l != sFasta)
    let tail := afterP.dropWhile (fun l => l != sFasta)
    (if h = sHeader then [] else ["header"]) ++
    (if pragmas = (if addSeq then order.map fun g =>
        sRegion ++ [' '] ++ gName g ++ [' ', '1', ' '] ++ natStr (match g.seq with | some s => s.length | none => 0)
       else []) then [] else ["sequence-region-pragmas"]) ++
    (match addSeq, tail with
     | false, [] => []
     | false, _ => ["unexpected-fasta-section"]
     | true, [] => ["fasta-section-missing"]
     | true, _ :: fa =>
       if readFasta fa = some (order.map fun g => (gName g, match g.seq with | some s => s | none => [])) then []
       else ["fasta-records"]) ++
    (if feats.any isPragma then ["pragma-among-features"] else []) ++
    -- feature lines: one contiguous block per collection, in collection order, each block a clean export
    (let seqidOf := fun (l : Str) => match splitOnChar '\t' l with | c :: _ => c | [] => []
     let blocks := order.map fun g => feats.filter fun l => seqidOf l = gName g
     (if blocks.flatten = feats then [] else ["blocks-by-sequence-name"]) ++
     (order.zip blocks).flatMap fun gb =>
       let off := match chromRel, gb.1.coll.par with | false, .chunk cs _ => cs | _, _ => 0
       checkLines gb.1.coll off gb.2)

end BioCantor.Spec.Gff
