/-
  C12 — reference semantics of the GenBank export / re-import, written from the documentation
  (module docstrings of io/genbank/writer.py and io/genbank/parser.py, the INSDC feature-table rules for
  `complement(join(...))` and `/codon_start`), NOT from the code:

    writer   gene -> `gene`; coding transcript -> `mRNA` (eukaryotic flavour only) + `CDS`; non-coding transcript ->
             its biotype feature (`ncRNA tRNA rRNA misc_RNA tmRNA`, anything else `misc_RNA`); feature collection ->
             `misc_feature`; feature interval -> `feat_interval`.  Every record carries exactly the source blocks,
             the source strand and the source identifiers.
    reader   an INDEPENDENT reader of a record extracts the parts of the location in the order they are listed
             (reverse-complementing each on the minus strand), skips `/codon_start - 1` bases and translates whole
             codons with the standard code; the written `/translation` must be what that reader computes.
    parser   reading the file back gives one gene per `gene` record with the transcript structure (eukaryotic) or
             CDS-as-exons structure (prokaryotic), strand, start frame (through `/codon_start`), symbols, locus
             tags and protein ids of the source; the three grouping strategies agree on position-sorted files
             with unique locus tags.

  Everything is a decidable function of (input, observed answer); a clause that fails is reported by its label,
  followed by a classification OF THE INPUT (strand, number of CDS blocks, start frame, adjacent CDS blocks) that
  narrow findings can refer to.  Imports Base + Spec only.
-/
import BioCantor.Base
import BioCantor.Spec.Qualifiers
import BioCantor.Spec.ReadingFrame
namespace BioCantor.Spec.Gb
open BioCantor
open BioCantor.Spec.Qual (Str QDict)

/-! ### vocabulary -/

inductive Flavor where
  | prokaryotic | eukaryotic
  deriving DecidableEq, Repr, Inhabited

inductive Mode where
  | sorted | locusTag | hybrid
  deriving DecidableEq, Repr, Inhabited

/-- a `TranscriptInterval` as plain data (`cds = []` : non-coding) -/
structure Tx where
  strand : Strand
  exons : List Blk
  cds : List Blk
  frames : List CDSFrame
  txId : Option Str
  txSymbol : Option Str
  txType : Option Str          -- Biotype NAME as given to the constructor (aliases allowed)
  proteinId : Option Str
  product : Option Str
  quals : QDict
  deriving DecidableEq, Repr, Inhabited

structure Gene where
  geneId : Option Str
  geneSymbol : Option Str
  geneType : Option Str
  locusTag : Option Str
  quals : QDict
  txs : List Tx
  deriving DecidableEq, Repr, Inhabited

structure FeatI where
  strand : Strand
  blocks : List Blk
  featName : Option Str
  featId : Option Str
  types : List Str
  quals : QDict
  deriving DecidableEq, Repr, Inhabited

structure FColl where
  name : Option Str
  id : Option Str
  type : Option Str
  locusTag : Option Str
  quals : QDict
  feats : List FeatI
  deriving DecidableEq, Repr, Inhabited

inductive Item where
  | gene (g : Gene)
  | fcoll (f : FColl)
  deriving DecidableEq, Repr, Inhabited

structure Coll where
  seq : Option Str
  items : List Item
  deriving DecidableEq, Repr, Inhabited

/-- one GenBank feature as written / as an independent reader sees it: type, location parts IN THE ORDER LISTED,
    strand, qualifiers -/
structure Rec where
  type : Str
  strand : Strand
  parts : List Blk
  quals : QDict
  deriving DecidableEq, Repr, Inhabited

/-- a parsed transcript / gene model (the fields the property names, + the merged qualifiers) -/
structure PTx where
  strand : Strand
  exons : List Blk
  cds : List Blk
  frames : List CDSFrame
  txId : Option Str
  txSymbol : Option Str
  proteinId : Option Str
  product : Option Str
  txType : Str
  quals : QDict
  deriving DecidableEq, Repr, Inhabited

structure PGene where
  geneId : Option Str
  geneSymbol : Option Str
  locusTag : Option Str
  geneType : Str
  txs : List PTx
  deriving DecidableEq, Repr, Inhabited

/-! ### strings of the format -/

def sGene : Str := "gene".toList
def sMRNA : Str := "mRNA".toList
def sCDS : Str := "CDS".toList
def sMiscRNA : Str := "misc_RNA".toList
def sMiscFeature : Str := "misc_feature".toList
def sFeatInterval : Str := "feat_interval".toList
def sProteinCoding : Str := "protein_coding".toList
def kGene : Str := "gene".toList
def kLocusTag : Str := "locus_tag".toList
def kGeneId : Str := "gene_id".toList
def kTranscriptId : Str := "transcript_id".toList
def kTranscriptName : Str := "transcript_name".toList
def kProteinId : Str := "protein_id".toList
def kCodonStart : Str := "codon_start".toList
def kTranslation : Str := "translation".toList
def kFcId : Str := "feature_collection_id".toList
def kFcName : Str := "feature_collection_name".toList
def kFeatId : Str := "feature_id".toList
def kFeatName : Str := "feature_name".toList

/-- the non-coding transcript feature keys of the format -/
def rnaFeatureTypes : List Str := ["ncRNA".toList, "tRNA".toList, "rRNA".toList, "misc_RNA".toList, "tmRNA".toList]

/-- documented aliases of biotype names (gene/biotype.py lists them with one value) -/
def biotypeAliases : List (Str × Str) := [
  ("protein-coding".toList, "protein_coding".toList), ("mRNA".toList, "protein_coding".toList),
  ("miscRNA".toList, "misc_RNA".toList), ("pseudo".toList, "pseudogene".toList), ("lnc_RNA".toList, "lncRNA".toList)]

def canonBiotype (n : Str) : Str := (biotypeAliases.lookup n).getD n

/-- an absent or empty identifier is "not set" -/
def set? : Option Str → Option Str
  | some s => if s.isEmpty then none else some s
  | none => none

/-! ### what the documentation says is written -/

def Tx.coding (t : Tx) : Bool := !t.cds.isEmpty

/-- transcript-level feature key: the biotype's own key when the format has one, else mRNA / misc_RNA -/
def txFeatureType (t : Tx) : Str :=
  match (set? t.txType).map canonBiotype with
  | some n => if rnaFeatureTypes.contains n then n else if t.coding then sMRNA else sMiscRNA
  | none => if t.coding then sMRNA else sMiscRNA

/-- a CDS record is written for a coding transcript whose transcript-level key is mRNA -/
def Tx.writesCds (t : Tx) : Bool := t.coding && txFeatureType t == sMRNA

def geneSymbolWritten (g : Gene) : Option Str := (set? g.geneSymbol).orElse fun _ => set? g.geneId
def geneTagWritten (g : Gene) : Option Str := (set? g.locusTag).orElse fun _ => geneSymbolWritten g
def fcSymbolWritten (f : FColl) : Option Str := (set? f.name).orElse fun _ => set? f.id
def fcTagWritten (f : FColl) : Option Str := (set? f.locusTag).orElse fun _ => fcSymbolWritten f

def minStart : List Blk → Option Nat
  | [] => none
  | b :: bs => some (bs.foldl (fun m x => min m x.1) b.1)

def maxEnd : List Blk → Option Nat
  | [] => none
  | b :: bs => some (bs.foldl (fun m x => max m x.2) b.2)

def spanOf (bs : List Blk) : Option Blk :=
  match minStart bs, maxEnd bs with
  | some s, some e => some (s, e)
  | _, _ => none

def geneSpan (g : Gene) : Option Blk := spanOf (g.txs.flatMap (·.exons))
def fcSpan (f : FColl) : Option Blk := spanOf (f.feats.flatMap (·.blocks))

/-- start frame of a CDS = the frame of its 5'-most block -/
def startFrame (t : Tx) : Option CDSFrame :=
  match t.strand with
  | .minus => t.frames.getLast?
  | _ => t.frames.head?

def frameNat : CDSFrame → Nat
  | .ONE => 1 | .TWO => 2 | _ => 0

def startFrameNat (t : Tx) : Nat := (startFrame t).elim 0 frameNat

/-- length of the 5'-most CDS block -/
def firstCdsLen (t : Tx) : Nat :=
  match t.strand with
  | .minus => (t.cds.getLast?.map Blk.len).getD 0
  | _ => (t.cds.head?.map Blk.len).getD 0

/-- the start frame can be expressed per block: the skipped bases lie inside the 5'-most block (C05's T4 has the
    same guard; a 1-base first block with start frame 2 has no frame list that means "skip two bases") -/
def Tx.frameFits (t : Tx) : Bool := t.cds.length ≤ 1 || decide (startFrameNat t ≤ firstCdsLen t)

/-! ### qualifiers -/

def qualGet (k : Str) : QDict → List Str
  | [] => []
  | e :: es => if e.1 = k then e.2 else qualGet k es

def hasQual (q : QDict) (k : Str) (v : Str) : Bool := (qualGet k q).contains v

/-- every identifier that is set appears among the values of its key -/
def idsOk (q : QDict) (ids : List (Str × Option Str)) : Bool :=
  ids.all fun kv => match kv.2 with | none => true | some v => hasQual q kv.1 v

def sameBlocks (a b : List Blk) : Bool := a.isPerm b

/-! ### the independent reader -/

def decNat? (s : Str) : Option Nat :=
  if s.isEmpty then none
  else s.foldl (fun acc c => match acc with
    | none => none
    | some n => if c.isDigit then some (10 * n + (c.toNat - '0'.toNat)) else none) (some 0)

/-- reading frame an independent reader assumes: `/codon_start` − 1, 0 without the qualifier -/
def readerFrame (r : Rec) : Option Nat :=
  match qualGet kCodonStart r.quals with
  | [] => some 0
  | v :: _ => match decNat? v with
    | some n => if 1 ≤ n ∧ n ≤ 3 then some (n - 1) else none
    | none => none

def sliceOf (seq : Str) (b : Blk) : Str := (seq.drop b.1).take (b.2 - b.1)

def revComp (s : Str) : Option Str := s.reverse.mapM Spec.complement

/-- the nucleotides of a record as listed: parts in order, each reverse-complemented on the minus strand
    (INSDC: `complement(join(a,b))` = reverse complement of a·b, i.e. rc(b)·rc(a) — a reader that has turned the
    text into a part list p1..pn in 5'→3' order concatenates rc(p1)…rc(pn)) -/
def readerExtract (seq : Str) (r : Rec) : Option Str :=
  match r.strand with
  | .minus => (r.parts.mapM fun b => revComp (sliceOf seq b)).map List.flatten
  | _ => some (r.parts.flatMap (sliceOf seq))

def readerCodons (seq : Str) (r : Rec) : Option (List (List Char)) :=
  match readerExtract seq r, readerFrame r with
  | some nt, some f => some (Spec.triples ((nt.drop f).map Spec.upper))
  | _, _ => none

def tableOf : Flavor → Nat
  | .prokaryotic => 11
  | .eukaryotic => 0

/-- the `/translation` of a CDS record is the reader's translation (no value: nothing translatable) -/
def okTranslationOf (fl : Flavor) (seq : Str) (r : Rec) : Bool :=
  match readerCodons seq r with
  | none => false
  | some cods =>
    match qualGet kTranslation r.quals with
    | [] => cods.isEmpty || (match Spec.startCodonsOf (tableOf fl) with
                            | some st => Spec.strictRefuses st 0 cods | none => false)
    | v :: _ => Spec.okTranslateCodons cods false (tableOf fl) true (some v)

/-! ### classification of a CDS for findings -/

def adjacentBlocks : List Blk → Bool
  | a :: b :: rest => a.2 == b.1 || adjacentBlocks (b :: rest)
  | _ => false

def strandSym : Strand → String
  | .plus => "+" | .minus => "-" | .unstranded => "."

def cdsClass (t : Tx) : String :=
  s!"[strand={strandSym t.strand},blocks={t.cds.length},frame={startFrameNat t},adjacent={if adjacentBlocks t.cds then 1 else 0}]"

/-! ### clause (a): the written feature list -/

/-- single-strand, well-formed collections (the property's quantifier) -/
def txWF (t : Tx) : Bool :=
  t.strand.isDirectional && !t.exons.isEmpty && t.exons.all (fun b => decide (b.1 < b.2)) && nonOverlap t.exons &&
  t.cds.all (fun b => decide (b.1 < b.2)) && nonOverlap t.cds && t.frames.length == t.cds.length &&
  t.frames.all (· != .NONE) &&
  -- the source does not itself carry the qualifier an independent reader takes the reading frame from
  (qualGet kCodonStart t.quals).isEmpty && !(t.quals.any (·.1 == kCodonStart))

def geneWF (g : Gene) : Bool :=
  match g.txs with
  | [] => false
  | t :: ts => g.txs.all txWF && ts.all (·.strand == t.strand)

def fcWF (f : FColl) : Bool :=
  match f.feats with
  | [] => false
  | x :: xs => f.feats.all (fun y => y.strand.isDirectional && !y.blocks.isEmpty &&
      y.blocks.all (fun b => decide (b.1 < b.2)) && nonOverlap y.blocks) && xs.all (·.strand == x.strand)

def itemWF : Item → Bool
  | .gene g => geneWF g
  | .fcoll f => fcWF f

def writeDomain (c : Coll) : Bool := c.items.all itemWF

/-- some record has this type, exactly these blocks, this strand and carries these identifiers -/
def hasRecord (ans : List Rec) (ty : Str) (st : Strand) (blocks : List Blk) (ids : List (Str × Option Str)) : Bool :=
  ans.any fun r => r.type == ty && r.strand == st && sameBlocks r.parts blocks && idsOk r.quals ids

/-- which stage of the search fails (label suffix) -/
def recordStage (ans : List Rec) (ty : Str) (st : Strand) (blocks : List Blk) (ids : List (Str × Option Str)) : String :=
  let a1 := ans.filter (·.type == ty)
  let a2 := a1.filter fun r => sameBlocks r.parts blocks
  let a3 := a2.filter (·.strand == st)
  if a1.isEmpty then "type" else if a2.isEmpty then "blocks" else if a3.isEmpty then "strand"
  else if hasRecord ans ty st blocks ids then "" else "ids"

def need (ans : List Rec) (lbl : String) (ty : Str) (st : Strand) (blocks : List Blk)
    (ids : List (Str × Option Str)) : List String :=
  if hasRecord ans ty st blocks ids then [] else [s!"{lbl}.{recordStage ans ty st blocks ids}"]

def txIds (g : Gene) (t : Tx) : List (Str × Option Str) :=
  [(kTranscriptId, set? t.txId), (kTranscriptName, set? t.txSymbol), (kGene, geneSymbolWritten g),
   (kLocusTag, geneTagWritten g)]

/-- frames of ONE uninterrupted reading frame that starts with `f` skipped bases (C05's clause, reused) -/
def okFramesOf (st : Strand) (cds : List Blk) (f : Nat) (frames : List CDSFrame) : Bool :=
  frames.all (· != .NONE) && Spec.okFrames ⟨cds, st⟩ f (some (frames.map frameNat))

/-- the source CDS is read in one frame (no programmed frameshift: a GenBank location cannot express one, so an
    independent reader cannot reproduce its translation) -/
def Tx.oneFrame (t : Tx) : Bool := okFramesOf t.strand t.cds (startFrameNat t) t.frames

def cdsIds (g : Gene) (t : Tx) : List (Str × Option Str) := txIds g t ++ [(kProteinId, set? t.proteinId)]

/-- STRUCTURAL clauses of one gene: a `gene` record, a transcript-level record per transcript (not for a coding
    transcript in prokaryotic flavour), a `CDS` record per coding transcript — type, blocks, strand, identifiers -/
def geneStructClauses (fl : Flavor) (ans : List Rec) (g : Gene) : List String :=
  match g.txs.head?, geneSpan g with
  | some t0, some sp =>
    need ans "gene" sGene t0.strand [sp]
      [(kGene, geneSymbolWritten g), (kLocusTag, geneTagWritten g), (kGeneId, set? g.geneId)] ++
    g.txs.flatMap fun t =>
      (if txFeatureType t == sMRNA && fl == .prokaryotic then []
       else need ans "transcript" (txFeatureType t) t.strand t.exons (txIds g t)) ++
      (if t.writesCds then need ans "cds" sCDS t.strand t.cds (cdsIds g t) else [])
  | _, _ => ["gene.empty"]

/-- the CDS records that stand for transcript `t` -/
def cdsHits (ans : List Rec) (g : Gene) (t : Tx) : List Rec :=
  ans.filter fun r => r.type == sCDS && r.strand == t.strand && sameBlocks r.parts t.cds && idsOk r.quals (cdsIds g t)

/-- READER clauses of one CDS record: the reading frame an independent reader assumes is the source's start frame;
    a requested translation is the reader's translation -/
def cdsReaderClauses (fl : Flavor) (trans : Bool) (seq : Option Str) (t : Tx) (r : Rec) : List String :=
  (if readerFrame r == some (startFrameNat t) then [] else [s!"codon_start{cdsClass t}"]) ++
  (match trans, seq with
   -- (a source that itself carries a `/translation` qualifier keeps it when nothing can be translated: outside the claim)
   | true, some s => if !t.oneFrame || t.quals.any (·.1 == kTranslation) || okTranslationOf fl s r then []
                     else [s!"translation{cdsClass t}"]
   -- not requested: a /translation the source carried as a qualifier passes through (documented: "calculated or
   -- re-calculated" only on request)
   | _, _ => [])

def geneReaderClauses (fl : Flavor) (trans : Bool) (seq : Option Str) (ans : List Rec) (g : Gene) : List String :=
  g.txs.flatMap fun t =>
    if t.writesCds then
      -- several records can stand for `t` (isoforms with identical CDS blocks and compatible identifiers): one of
      -- them must read correctly; the first one's violations are reported otherwise
      match cdsHits ans g t with
      | r :: rest =>
        if (r :: rest).any (fun x => (cdsReaderClauses fl trans seq t x).isEmpty) then []
        else cdsReaderClauses fl trans seq t r
      | [] => []
    else []

def geneClauses (fl : Flavor) (trans : Bool) (seq : Option Str) (ans : List Rec) (g : Gene) : List String :=
  geneStructClauses fl ans g ++ geneReaderClauses fl trans seq ans g

def fcClauses (ans : List Rec) (f : FColl) : List String :=
  match f.feats.head?, fcSpan f with
  | some x0, some sp =>
    need ans "fcoll" sMiscFeature x0.strand [sp]
      [(kFcId, set? f.id), (kFcName, set? f.name), (kLocusTag, fcTagWritten f)] ++
    f.feats.flatMap fun x =>
      need ans "feature" sFeatInterval x.strand x.blocks [(kFeatId, set? x.featId), (kFeatName, set? x.featName)]
  | _, _ => ["fcoll.empty"]

def expectedCount (fl : Flavor) (c : Coll) : Nat :=
  (c.items.map fun
    | .gene g => 1 + (g.txs.map fun t =>
        (if txFeatureType t == sMRNA && fl == .prokaryotic then 0 else 1) + (if t.writesCds then 1 else 0)).sum
    | .fcoll f => 1 + f.feats.length).sum

/-- violated clauses of (a) for an observed feature list; `[]` = the clause holds -/
def writeViolations (fl : Flavor) (trans : Bool) (c : Coll) (ans : Option (List Rec)) : List String :=
  match ans with
  | none => ["raised"]
  | some rs =>
    (c.items.flatMap fun
      | .gene g => geneClauses fl trans c.seq rs g
      | .fcoll f => fcClauses rs f) ++
    (if rs.length == expectedCount fl c then [] else ["count"])

def okWrite (fl : Flavor) (trans : Bool) (c : Coll) (ans : Option (List Rec)) : Bool :=
  (writeViolations fl trans c ans).isEmpty

/-! ### clause (b): the gene models read back -/

/-- the transcript the documentation promises after write → parse, without the frames (checked by `okFramesOf`) -/
def expectedTx (fl : Flavor) (g : Gene) (t : Tx) : PTx :=
  let ft := txFeatureType t
  let coding := t.writesCds
  { strand := t.strand,
    exons := if coding && fl == .prokaryotic then t.cds else t.exons,
    cds := if coding then t.cds else [],
    frames := [],
    txId := set? t.txId,
    txSymbol := geneSymbolWritten g,       -- the parser documents: transcript symbol = the record's /gene
    proteinId := if coding then set? t.proteinId else none,
    product := none,                        -- the writer has no /product
    txType := if ft == sMRNA then sProteinCoding else ft,
    quals := [] }

def expectedGene (fl : Flavor) (g : Gene) : PGene :=
  let txs := g.txs.map (expectedTx fl g)
  { geneId := set? g.geneId, geneSymbol := geneSymbolWritten g, locusTag := geneTagWritten g,
    geneType := (txs.head?.map (·.txType)).getD [], txs := txs }

def genesOf (c : Coll) : List Gene := c.items.filterMap fun | .gene g => some g | _ => none

/-- identifier alphabet that survives the GenBank text unchanged (no blank, quote, line break) -/
def plainChar (ch : Char) : Bool := ch.isAlphanum || ch == '_' || ch == '.' || ch == '-' || ch == ':'
def plainId : Option Str → Bool
  | none => true
  | some s => s.all plainChar

/-- the records the documentation promises, reduced to (type, start): enough to say "position-sorted" -/
def writtenKeys (fl : Flavor) (c : Coll) : List (Nat × Nat) :=
  (genesOf c).flatMap fun g =>
    match geneSpan g with
    | none => []
    | some sp => (sp.1, 0) :: g.txs.flatMap fun t =>
        (if txFeatureType t == sMRNA && fl == .prokaryotic then []
         else [((minStart t.exons).getD 0, if txFeatureType t == sMRNA then 1 else 3)]) ++
        (if t.writesCds then [((minStart t.cds).getD 0, 2)] else [])

def keysSorted : List (Nat × Nat) → Bool
  | a :: b :: rest => (decide (a.1 < b.1) || (a.1 == b.1 && decide (a.2 ≤ b.2))) && keysSorted (b :: rest)
  | _ => true

def distinctStrs : List Str → Bool
  | [] => true
  | s :: ss => !ss.contains s && distinctStrs ss

/-- collection order = file order must be by start (the writer iterates the collection sorted by start) -/
def startsSorted (gs : List Gene) : Bool :=
  keysSorted (gs.map fun g => (((geneSpan g).map (·.1)).getD 0, 0))

/-- domain of the round-trip clause: single-strand genes with ONE transcript each, CDS inside the exon span,
    identifiers in the plain alphabet; unique (effective) locus tags for the locus-tag mode; a position-sorted file
    for the sorted mode; either for the hybrid mode -/
def rtDomain (fl : Flavor) (m : Mode) (c : Coll) : Bool :=
  let gs := genesOf c
  writeDomain c && !gs.isEmpty && startsSorted gs &&
  gs.all (fun g =>
    g.txs.length == 1 && plainId g.geneId && plainId g.geneSymbol && plainId g.locusTag &&
    g.txs.all fun t =>
      plainId t.txId && plainId t.proteinId &&
      -- a coding transcript whose biotype is an RNA key has no CDS record: outside the claim
      (t.coding → t.writesCds) && t.frameFits &&
      (match spanOf t.exons, spanOf t.cds with
       | some e, some k => decide (e.1 ≤ k.1) && decide (k.2 ≤ e.2)
       | _, _ => true)) &&
  (let uniqueTags := gs.all (fun g => (geneTagWritten g).isSome) && distinctStrs (gs.filterMap geneTagWritten)
   let sortedFile := keysSorted (writtenKeys fl c)
   match m with
   | .sorted => sortedFile
   | .locusTag => uniqueTags
   -- Hybrid documents: features without a locus tag or with duplicate tags are sent to the Sorted parser
   | .hybrid => uniqueTags || sortedFile)

def stripTx (t : PTx) : PTx := { t with frames := [], quals := [] }
def stripGene (g : PGene) : PGene := { g with txs := g.txs.map stripTx }

def optEq (a b : Option Str) : Bool := a == b

def txViolations (src : Tx) (w o : PTx) : List String :=
  (if w.strand == o.strand then [] else ["strand"]) ++
  (if w.exons == o.exons then [] else ["exons"]) ++
  (if w.cds == o.cds then [] else [s!"cds{cdsClass src}"]) ++
  (if w.cds.isEmpty then (if o.frames.isEmpty then [] else ["frames"])
   else if okFramesOf src.strand w.cds (startFrameNat src) o.frames && o.frames.length == w.cds.length then []
   else [s!"frames{cdsClass src}"]) ++
  (if optEq w.txId o.txId then [] else ["transcript_id"]) ++
  (if optEq w.txSymbol o.txSymbol then [] else ["transcript_symbol"]) ++
  (if optEq w.proteinId o.proteinId then [] else ["protein_id"]) ++
  (if w.txType == o.txType then [] else ["transcript_type"]) ++
  -- the transcript's own symbol is not lost: it is kept as a qualifier
  (match set? src.txSymbol with
   | some s => if hasQual o.quals kTranscriptName s then [] else ["transcript_name"]
   | none => [])

def geneViolations (fl : Flavor) (g : Gene) (o : PGene) : List String :=
  let w := expectedGene fl g
  (if optEq w.geneId o.geneId then [] else ["gene_id"]) ++
  (if optEq w.geneSymbol o.geneSymbol then [] else ["gene_symbol"]) ++
  (if optEq w.locusTag o.locusTag then [] else ["locus_tag"]) ++
  (if w.geneType == o.geneType then [] else ["gene_type"]) ++
  (if w.txs.length == o.txs.length then
     ((g.txs.zip (w.txs.zip o.txs)).flatMap fun p => txViolations p.1 p.2.1 p.2.2)
   else ["transcripts"])

/-- pairing of source genes and parsed genes: by locus tag when the tags are unique, else by position -/
def pairGenes (gs : List Gene) (os : List PGene) : List (Gene × Option PGene) :=
  if gs.all (fun g => (geneTagWritten g).isSome) && distinctStrs (gs.filterMap geneTagWritten) then
    gs.map fun g => (g, os.find? fun o => o.locusTag == geneTagWritten g)
  else
    gs.zipIdx.map fun gi => (gi.1, os[gi.2]?)

def rtViolations (fl : Flavor) (c : Coll) (ans : Option (List PGene)) : List String :=
  match ans with
  | none => ["raised"]
  | some os =>
    let gs := genesOf c
    (if os.length == gs.length then [] else ["count"]) ++
    (pairGenes gs os).flatMap fun p =>
      match p.2 with
      | none => ["missing"]
      | some o => geneViolations fl p.1 o

def okRoundTrip (fl : Flavor) (c : Coll) (ans : Option (List PGene)) : Bool := (rtViolations fl c ans).isEmpty

/-! ### clause (c): the three grouping strategies on one feature list -/

def recStart (r : Rec) : Nat := (minStart r.parts).getD 0

def typeRank (ty : Str) : Nat := if ty == sGene then 0 else if ty == sMRNA then 1 else if ty == sCDS then 2 else 3

/-- the documented order of the position-based strategy: by start, and gene < mRNA < CDS < the rest at one start -/
def positionSorted (rs : List Rec) : Bool := keysSorted (rs.map fun r => (recStart r, typeRank r.type))

def geneLikeTypes : List Str := [sGene, sMRNA, sCDS] ++ rnaFeatureTypes ++ ["exon".toList]

def tagOf (r : Rec) : Option Str := (qualGet kLocusTag r.quals).head?

/-- the tags of consecutive records, runs collapsed -/
def tagRuns : List Rec → List (Option Str)
  | [] => []
  | r :: rs => match tagRuns rs with
    | t :: ts => if t == tagOf r then t :: ts else tagOf r :: t :: ts
    | [] => [tagOf r]

def distinctOpts : List (Option Str) → Bool
  | [] => true
  | s :: ss => !ss.contains s && distinctOpts ss

/-- one chain: `gene`, then either mRNA* CDS* (not several of both), or one non-coding transcript -/
def chainShape : List Str → Bool
  | g :: rest =>
    g == sGene &&
    (let ms := rest.takeWhile (· == sMRNA)
     let cs := (rest.dropWhile (· == sMRNA))
     (cs.all (· == sCDS) && !(ms.length > 1 && cs.length > 1)) ||
     (match rest with | [t] => rnaFeatureTypes.contains t | _ => false))
  | [] => false

def runsOf : List Rec → List (List Rec)
  | [] => []
  | r :: rs => match runsOf rs with
    | (x :: g) :: gs => if tagOf x == tagOf r then (r :: x :: g) :: gs else [r] :: (x :: g) :: gs
    | _ => [[r]]

/-- domain of clause (c): gene-like records only, all valid and tagged with one value; position-sorted; every tag
    forms ONE contiguous run which is one chain -/
def modesDomain (rs : List Rec) : Bool :=
  !rs.isEmpty &&
  rs.all (fun r => geneLikeTypes.contains r.type && r.strand.isDirectional && !r.parts.isEmpty &&
                   r.parts.all (fun b => decide (b.1 < b.2)) && (qualGet kLocusTag r.quals).length == 1) &&
  positionSorted rs && distinctOpts (tagRuns rs) &&
  (runsOf rs).all fun run => chainShape (run.map (·.type))

/-! ### exports of a collection built on a SEQUENCE CHUNK

  `seq_chunk_to_parent(letters, name, w.1, w.2, wst)`: the collection carries chromosome coordinates, its sequence is
  the window `[w.1, w.2)` of the chromosome (reverse-complemented when the chunk lies on the minus strand).  The
  export describes THE CHUNK: the sequence of the file is the chunk's; every gene / transcript / CDS / feature record
  carries the part of the source inside the chunk, in chunk coordinates, on the strand the source has on the chunk; an
  independent reader of a CDS record (written location + written `/codon_start`) reads exactly the codons of the
  source's FULL reading frame that lie entirely inside the chunk, and a requested `/translation` is their translation.
  A location without any base in the chunk cannot be written (`EmptyLocationException`, documented): a refusal is
  accepted exactly then. -/

/-- the chunk: window `[w.1, w.2)` of the chromosome, seen on strand `wst` -/
structure Chunk where
  w : Blk
  wst : Strand
  deriving DecidableEq, Repr, Inhabited

/-- the chunk holds at least one base and has a direction -/
def Chunk.ok (k : Chunk) : Bool := decide (k.w.1 < k.w.2) && k.wst.isDirectional

def inChunk (k : Chunk) (p : Nat) : Bool := decide (k.w.1 ≤ p) && decide (p < k.w.2)

/-- part of block `b` inside window `w` (none when they share no position) -/
def clipTo (w b : Blk) : Option Blk :=
  if max w.1 b.1 < min w.2 b.2 then some (max w.1 b.1, min w.2 b.2) else none

/-- a chromosome block lying inside the window, in chunk coordinates (mirrored on a minus-strand chunk) -/
def relBlk (k : Chunk) (b : Blk) : Blk :=
  if k.wst == .minus then (k.w.2 - b.2, k.w.2 - b.1) else (b.1 - k.w.1, b.2 - k.w.1)

/-- the in-chunk parts of a block list in chunk coordinates, ascending on the chunk -/
def chunkBlocks (k : Chunk) (bs : List Blk) : List Blk :=
  let cl := (bs.filterMap (clipTo k.w)).map (relBlk k)
  if k.wst == .minus then cl.reverse else cl

/-- the in-chunk part of a span, in chunk coordinates -/
def chunkSpan (k : Chunk) (sp : Blk) : Option Blk := (clipTo k.w sp).map (relBlk k)

/-- strand of a source of chromosome strand `st` on the chunk -/
def chunkStrand (k : Chunk) (st : Strand) : Strand :=
  if k.wst == .minus then (match st with | .plus => .minus | .minus => .plus | .unstranded => .unstranded) else st

/-- a chunk position lifted back to the chromosome -/
def unchunkPos (k : Chunk) (i : Nat) : Nat := if k.wst == .minus then k.w.2 - 1 - i else k.w.1 + i

/-- the chunk's letters, given the chromosome's -/
def chunkSeq (k : Chunk) (chrom : Str) : Option Str :=
  if k.wst == .minus then revComp (sliceOf chrom k.w) else some (sliceOf chrom k.w)

def cdsLoc (t : Tx) : Loc := ⟨t.cds, t.strand⟩

/-- number of CDS bases (read 5'→3') that lie 5' of the first in-chunk CDS base -/
def upstreamBases (k : Chunk) (t : Tx) : Nat := ((bases (cdsLoc t)).takeWhile fun p => !inChunk k p).length

/-- bases to skip in the in-chunk CDS to reach the first base that begins a codon of the FULL reading frame: with `i`
    CDS bases 5' of the chunk and start frame `f0`, the reading frame begins at CDS base `f0`; the in-chunk base number
    `j` (counted in the whole CDS) begins a codon iff `j ≥ f0` and `3 ∣ j − f0` -/
def chunkStartFrame (k : Chunk) (t : Tx) : Nat :=
  let i := upstreamBases k t
  let f0 := startFrameNat t
  if i < f0 then f0 - i else (3 - (i - f0) % 3) % 3

def natFrame : Nat → CDSFrame
  | 0 => .ZERO | 1 => .ONE | _ => .TWO

/-- frames (5'→3') of one reading frame over blocks listed 5'→3': the 5'-most block carries the number of skipped bases,
    every later block the codon position of its first base = retained bases so far mod 3 -/
def framesWalk : List Blk → Nat → Nat → List Nat
  | [], _, _ => []
  | b :: rest, f, 0 => f :: framesWalk rest f (b.len + 1)
  | b :: rest, f, (seen + 1) => ((seen - f) % 3) :: framesWalk rest f (seen + b.len + 1)

/-- per-block frames (in the order of the ascending blocks) of ONE reading frame with `f` skipped bases -/
def framesFromStart (st : Strand) (cds : List Blk) (f : Nat) : List CDSFrame :=
  match st with
  | .minus => ((framesWalk cds.reverse f 0).map natFrame).reverse
  | _ => (framesWalk cds f 0).map natFrame

/-- the transcript as the chunk shows it -/
def chunkTx (k : Chunk) (t : Tx) : Tx :=
  let st := chunkStrand k t.strand
  let cds := chunkBlocks k t.cds
  { t with strand := st, exons := chunkBlocks k t.exons, cds := cds,
           frames := framesFromStart st cds (chunkStartFrame k t) }

def chunkGene (k : Chunk) (g : Gene) : Gene := { g with txs := g.txs.map (chunkTx k) }

def chunkFeat (k : Chunk) (x : FeatI) : FeatI :=
  { x with strand := chunkStrand k x.strand, blocks := chunkBlocks k x.blocks }

def chunkFColl (k : Chunk) (f : FColl) : FColl := { f with feats := f.feats.map (chunkFeat k) }

def chunkItem (k : Chunk) : Item → Item
  | .gene g => .gene (chunkGene k g)
  | .fcoll f => .fcoll (chunkFColl k f)

/-- the collection as the chunk shows it (chunk coordinates, the chunk's letters) -/
def chunkColl (k : Chunk) (c : Coll) : Coll := ⟨c.seq.bind (chunkSeq k), c.items.map (chunkItem k)⟩

/-- something that has to be written has no base in the chunk -/
def geneMayRefuse (k : Chunk) (g : Gene) : Bool :=
  (match geneSpan g with | some sp => (chunkSpan k sp).isNone | none => true) ||
  g.txs.any fun t => (chunkBlocks k t.exons).isEmpty || (t.writesCds && (chunkBlocks k t.cds).isEmpty)

def fcMayRefuse (k : Chunk) (f : FColl) : Bool :=
  (match fcSpan f with | some sp => (chunkSpan k sp).isNone | none => true) ||
  f.feats.any fun x => (chunkBlocks k x.blocks).isEmpty

def mayRefuse (k : Chunk) (c : Coll) : Bool :=
  c.items.any fun | .gene g => geneMayRefuse k g | .fcoll f => fcMayRefuse k f

/-- STRUCTURAL clauses of one gene on a chunk: the `gene` record carries the in-chunk part of the gene's span, every
    transcript-level / CDS record the in-chunk blocks, all in chunk coordinates on the chunk's view of the strand -/
def geneStructClausesK (fl : Flavor) (ans : List Rec) (k : Chunk) (g : Gene) : List String :=
  match g.txs.head?, (geneSpan g).bind (chunkSpan k) with
  | some t0, some sp =>
    need ans "gene" sGene (chunkStrand k t0.strand) [sp]
      [(kGene, geneSymbolWritten g), (kLocusTag, geneTagWritten g), (kGeneId, set? g.geneId)] ++
    g.txs.flatMap fun t =>
      (if txFeatureType t == sMRNA && fl == .prokaryotic then []
       else need ans "transcript" (txFeatureType t) (chunkStrand k t.strand) (chunkBlocks k t.exons) (txIds g t)) ++
      (if t.writesCds then need ans "cds" sCDS (chunkStrand k t.strand) (chunkBlocks k t.cds) (cdsIds g t) else [])
  | _, _ => ["gene.empty"]

def fcClausesK (ans : List Rec) (k : Chunk) (f : FColl) : List String :=
  match f.feats.head?, (fcSpan f).bind (chunkSpan k) with
  | some x0, some sp =>
    need ans "fcoll" sMiscFeature (chunkStrand k x0.strand) [sp]
      [(kFcId, set? f.id), (kFcName, set? f.name), (kLocusTag, fcTagWritten f)] ++
    f.feats.flatMap fun x =>
      need ans "feature" sFeatInterval (chunkStrand k x.strand) (chunkBlocks k x.blocks)
        [(kFeatId, set? x.featId), (kFeatName, set? x.featName)]
  | _, _ => ["fcoll.empty"]

/-- the CDS records that stand for transcript `t` on the chunk -/
def cdsHitsK (ans : List Rec) (k : Chunk) (g : Gene) (t : Tx) : List Rec :=
  ans.filter fun r => r.type == sCDS && r.strand == chunkStrand k t.strand &&
    sameBlocks r.parts (chunkBlocks k t.cds) && idsOk r.quals (cdsIds g t)

/-- the chromosome positions an independent reader of the record reads, in reading order: the parts as listed, each
    descending on the minus strand, lifted back from the chunk -/
def readerPositions (k : Chunk) (r : Rec) : List Nat :=
  (match r.strand with
   | .minus => r.parts.flatMap blkDesc
   | _ => r.parts.flatMap blkAsc).map (unchunkPos k)

def readerCodonPositions (k : Chunk) (r : Rec) : Option (List (List Nat)) :=
  (readerFrame r).map fun f => Spec.triples ((readerPositions k r).drop f)

/-- the codons of the source's FULL reading frame (walked on the chromosome) that lie entirely inside the chunk -/
def innerCodons (k : Chunk) (t : Tx) : List (List Nat) :=
  (Spec.cdsCodons (cdsLoc t) (t.frames.map frameNat)).filter fun cod => cod.all (inChunk k)

/-- the per-block frames of the in-chunk CDS can carry the start frame (as `Tx.frameFits`) -/
def chunkFits (k : Chunk) (t : Tx) : Bool := (chunkTx k t).frameFits

/-- the letters of the inner codons, read on the CHROMOSOME -/
def innerLetters (chrom : Str) (k : Chunk) (t : Tx) : Option (List (List Char)) :=
  (innerCodons k t).mapM fun cod => (Spec.lettersAt chrom t.strand cod).map fun l => l.map Spec.upper

/-- known deviation class of the pinned library (label only, C05's F-C05a): a single-block CDS with a non-zero start
    frame whose 5' end is cut by the chunk loses codons in `translate` -/
def translationClass (k : Chunk) (t : Tx) : String :=
  if t.cds.length == 1 && startFrameNat t != 0 && ((bases (cdsLoc t)).head?.map (inChunk k)) == some false then
    "[single-exon-5p-cut]" else ""

/-- READER clauses of one CDS record on a chunk (source read in one frame): `/codon_start` is the number of in-chunk
    bases before the first codon of the full reading frame; location + `/codon_start` make the reader read exactly the
    inner codons; a requested `/translation` is the reader's translation, which is the translation of the inner codons -/
def cdsReaderClausesK (fl : Flavor) (trans : Bool) (chrom : Option Str) (k : Chunk) (t : Tx) (r : Rec) : List String :=
  let cls := cdsClass (chunkTx k t) ++ translationClass k t
  if !t.oneFrame then [] else
  (if readerFrame r == some (chunkStartFrame k t) then [] else [s!"codon_start{cdsClass (chunkTx k t)}"]) ++
  (if readerCodonPositions k r == some (innerCodons k t) then [] else [s!"reader_codons{cdsClass (chunkTx k t)}"]) ++
  (match trans, chrom with
   | true, some s =>
     if !chunkFits k t || t.quals.any (·.1 == kTranslation) then []
     else
       (match chunkSeq k s with
        | some ks => if okTranslationOf fl ks r then [] else [s!"translation{cls}"]
        | none => ["chunk-sequence"]) ++
       (match innerLetters s k t, qualGet kTranslation r.quals with
        | some cods, v :: _ =>
          if Spec.okTranslateCodons cods false (tableOf fl) true (some v) then [] else [s!"translation.reference{cls}"]
        | _, _ => [])
   | _, _ => [])

def geneReaderClausesK (fl : Flavor) (trans : Bool) (chrom : Option Str) (ans : List Rec) (k : Chunk) (g : Gene) :
    List String :=
  g.txs.flatMap fun t =>
    if t.writesCds then
      match cdsHitsK ans k g t with
      | r :: rest =>
        if (r :: rest).any (fun x => (cdsReaderClausesK fl trans chrom k t x).isEmpty) then []
        else cdsReaderClausesK fl trans chrom k t r
      | [] => []
    else []

/-- known deviation class of the pinned library (label only): a written CDS has bases in the chunk but none of them is
    retained by the reading frame — the requested translation raises instead of being empty (C07's F-C07b) -/
def cdsWithoutRetainedBase (k : Chunk) (t : Tx) : Bool :=
  t.writesCds && (bases (cdsLoc t)).any (inChunk k) &&
  !((Spec.cdsKept (cdsLoc t) (t.frames.map frameNat)).any (inChunk k))

def raisedClass (trans : Bool) (k : Chunk) (c : Coll) : String :=
  if trans && (genesOf c).any (fun g => g.txs.any (cdsWithoutRetainedBase k)) then
    "[chunk-cds-without-retained-base]" else ""

/-- violated clauses of (a) for the feature list written from a collection built on chunk `k` -/
def writeViolationsK (fl : Flavor) (trans : Bool) (k : Chunk) (c : Coll) (ans : Option (List Rec)) : List String :=
  match ans with
  | none => if mayRefuse k c then [] else [s!"raised{raisedClass trans k c}"]
  | some rs =>
    (c.items.flatMap fun
      | .gene g => geneStructClausesK fl rs k g ++ geneReaderClausesK fl trans c.seq rs k g
      | .fcoll f => fcClausesK rs k f) ++
    (if rs.length == expectedCount fl c then [] else ["count"])

def okWriteK (fl : Flavor) (trans : Bool) (k : Chunk) (c : Coll) (ans : Option (List Rec)) : Bool :=
  (writeViolationsK fl trans k c ans).isEmpty

/-- domain of the chunk clauses: a real chunk, inside the chromosome when there is one, a single-strand collection -/
def chunkDomain (k : Chunk) (c : Coll) : Bool :=
  k.ok && writeDomain c && (match c.seq with | some s => decide (k.w.2 ≤ s.length) | none => true)

/-- every coding transcript is read in one frame (the chunk start frame is defined through the full reading frame) -/
def oneFrameColl (c : Coll) : Bool := (genesOf c).all fun g => g.txs.all fun t => !t.coding || t.oneFrame

/-- clause (b) on a chunk: the gene models read back are the gene models of the chunk view -/
def rtViolationsK (fl : Flavor) (k : Chunk) (c : Coll) (ans : Option (List PGene)) : List String :=
  match ans with
  | none => if mayRefuse k c then [] else ["raised"]
  | some _ => rtViolations fl (chunkColl k c) ans

def rtDomainK (fl : Flavor) (m : Mode) (k : Chunk) (c : Coll) : Bool :=
  chunkDomain k c && oneFrameColl c && (mayRefuse k c || rtDomain fl m (chunkColl k c))

end BioCantor.Spec.Gb
