/-
  C15 — reference tables, written independently of the library (from the NCBI genetic-code page, the
  IUPAC nucleotide nomenclature, the GFF3 specification and INSDC/SO biotype vocabularies).
  Nothing here looks at `Gen/*` or at how the library computes anything.

  Strings are `List Char` (`"…".toList` literals evaluate in the kernel).
-/
import BioCantor.Base
import BioCantor.Spec.Location
namespace BioCantor.Spec.Tab
open BioCantor

/-! ### The standard genetic code (NCBI translation table 1) -/

/-- NCBI table 1, `AAs` line: residues for the 64 codons in TCAG × TCAG × TCAG order. -/
def ncbi1 : List Char := "FFLLSSSSYY**CC*WLLLLPPPPHHQQRRRRIIIMTTTTNNKKSSRRVVVVAAAADDEEGGGG".toList

/-- NCBI base order -/
def tcag : List Char := ['T', 'C', 'A', 'G']

/-- the 64 strict codons in NCBI order -/
def allCodons : List (List Char) :=
  tcag.flatMap fun a => tcag.flatMap fun b => tcag.map fun c => [a, b, c]

/-- codon ↦ residue, 64 entries -/
def stdCode : List (List Char × Char) := allCodons.zip ncbi1

/-- residue of a strict codon; `none` for anything that is not one of the 64 -/
def stdTranslate (c : List Char) : Option Char := stdCode.lookup c

/-- NCBI table 1 / 11 `Starts` lines, and the ATG-only default -/
def startCodonsStandard : List (List Char) := ["TTG".toList, "CTG".toList, "ATG".toList]
def startCodonsProkaryote : List (List Char) :=
  ["TTG".toList, "CTG".toList, "ATT".toList, "ATC".toList, "ATA".toList, "ATG".toList, "GTG".toList]
def startCodonsDefault : List (List Char) := ["ATG".toList]
def stopCodons : List (List Char) := ["TAA".toList, "TAG".toList, "TGA".toList]

/-- translation-table number ↦ initiator codons -/
def startCodonsOf : List (Int × List (List Char)) :=
  [(0, startCodonsDefault), (1, startCodonsStandard), (11, startCodonsProkaryote)]

/-- names of the translation tables the library offers -/
def translationTables : List (List Char × Int) :=
  [("DEFAULT".toList, 0), ("STANDARD".toList, 1), ("PROKARYOTE".toList, 11)]

/-! ### IUPAC nucleotide codes -/

/-- IUPAC code ↦ the bases it stands for (U reads as T) -/
def iupac : List (Char × List Char) :=
  [('A', ['A']), ('C', ['C']), ('G', ['G']), ('T', ['T']), ('U', ['T']),
   ('R', ['A', 'G']), ('Y', ['C', 'T']), ('S', ['C', 'G']), ('W', ['A', 'T']),
   ('K', ['G', 'T']), ('M', ['A', 'C']),
   ('B', ['C', 'G', 'T']), ('D', ['A', 'G', 'T']), ('H', ['A', 'C', 'T']), ('V', ['A', 'C', 'G']),
   ('N', ['A', 'C', 'G', 'T'])]

def iupacLetters : List Char := iupac.map (·.1)

/-- all strict codons an IUPAC triplet stands for; `none` when the input is not an IUPAC triplet -/
def expansions : List Char → Option (List (List Char))
  | [a, b, c] =>
    match iupac.lookup a, iupac.lookup b, iupac.lookup c with
    | some xs, some ys, some zs => some (xs.flatMap fun x => ys.flatMap fun y => zs.map fun z => [x, y, z])
    | _, _, _ => none
  | _ => none

/-- every expansion codes residue `a` -/
def allExpansionsCode (c : List Char) (a : Char) : Bool :=
  match expansions c with
  | some es => !es.isEmpty && es.all (fun e => stdTranslate e == some a)
  | none => false

/-- the residue all expansions agree on, if any -/
def consensus (c : List Char) : Option Char :=
  match expansions c with
  | some (e :: es) =>
    match stdTranslate e with
    | some a => if es.all (fun e' => stdTranslate e' == some a) then some a else none
    | none => none
  | _ => none

/-- `Codon(x).translate(strict)`, `val` = the upper-cased text; `ans = none` ⇔ the call raised.
    * not an IUPAC triplet: must be refused;
    * one of the 64 strict codons: the standard code;
    * ambiguous triplet: `X`, or — only when `strict` is off (docstring: "strict ATGC only") — a residue that
      EVERY expansion of the triplet codes. -/
def okTranslate (val : List Char) (strict : Bool) (ans : Option Char) : Bool :=
  match expansions val with
  | none => ans.isNone
  | some _ =>
    match ans with
    | none => false
    | some a =>
      match stdTranslate val with
      | some s => a == s
      | none => a == 'X' || (!strict && allExpansionsCode val a)

def sameSet (xs ys : List (List Char)) : Bool := xs.all (ys.contains ·) && ys.all (xs.contains ·)

def nodupB : List (List Char) → Bool
  | [] => true
  | x :: xs => !xs.contains x && nodupB xs

/-- the strict codons coding residue `a` -/
def codonsOf (a : Char) : List (List Char) := allCodons.filter (fun c => stdTranslate c == some a)

/-- `synonymous_codons(include_self)`: for a codon coding residue `a` (all expansions) the answer is the set
    of strict codons of `a`, without the codon itself unless `include_self`; an ambiguous triplet may
    instead be left untranslated (`[self]` / `[]`). -/
def okSynonymous (val : List Char) (incl : Bool) (ans : Option (List (List Char))) : Bool :=
  match expansions val with
  | none => ans.isNone
  | some _ =>
    match ans with
    | none => false
    | some cs =>
      let want (a : Char) := if incl then codonsOf a else (codonsOf a).filter (· != val)
      match stdTranslate val with
      | some a => sameSet cs (want a) && nodupB cs
      | none =>
        cs == (if incl then [val] else []) ||
        ncbi1.any (fun a => allExpansionsCode val a && sameSet cs (want a) && nodupB cs)

def okIsStop (val : List Char) (ans : Option Bool) : Bool :=
  match expansions val with
  | none => ans.isNone
  | some _ => ans == some (stopCodons.contains val)

def okIsStrict (val : List Char) (ans : Option Bool) : Bool :=
  match expansions val with
  | none => ans.isNone
  | some _ => ans == some (allCodons.contains val)

/-- `is_start_codon_in_specific_translation_table` for the three offered tables -/
def okIsStart (val : List Char) (table : Int) (ans : Option Bool) : Bool :=
  match expansions val, startCodonsOf.lookup table with
  | some _, some cs => ans == some (cs.contains val)
  | _, _ => ans.isNone

/-! ### histories: a held codon object keeps its answers whatever else is constructed -/

/-- every answer a `Codon` object gives (`none` = the question raised) -/
structure CodonAnswers where
  text : List Char
  trStrict : Option Char
  trLoose : Option Char
  stop : Option Bool
  strict : Option Bool
  canon : Option Bool
  st0 : Option Bool
  st1 : Option Bool
  st11 : Option Bool
  syn0 : Option (List (List Char))
  syn1 : Option (List (List Char))
  deriving DecidableEq, Repr

/-- all answers of the codon whose value is `v` are the table answers -/
def okCodonAnswers (v : List Char) (a : CodonAnswers) : Bool :=
  a.text == v && okTranslate v true a.trStrict && okTranslate v false a.trLoose && okIsStop v a.stop &&
  okIsStrict v a.strict && a.canon == some (v == "ATG".toList) &&
  okIsStart v 0 a.st0 && okIsStart v 1 a.st1 && okIsStart v 11 a.st11 &&
  okSynonymous v false a.syn0 && okSynonymous v true a.syn1

def upperS (s : List Char) : List Char := s.map Char.toUpper

/-- one interleaved construction `Codon(sp)`: (it was accepted, the returned object is the held one) -/
abbrev Outcome := Bool × Bool

/-- a history: hold `Codon(held)`, record its answers, construct `Codon(sp)` for every `sp` (accepted or refused),
    ask the held object again, finally `Codon(held) is obj`, `obj == Codon(held)`, `hash(obj) == hash(value)`.
    Demanded: the held object's answers are the table answers of its value `upper(held)` BEFORE and AFTER (so they
    are equal), a spelling is accepted iff it is an IUPAC triplet, it yields the held object iff it upper-cases to
    the same value, and identity / equality / hash hold.  A `held` that is no codon is refused. -/
def okHist (held : List Char) (sps : List (List Char))
    (ans : Option (CodonAnswers × List Outcome × CodonAnswers × (Bool × Bool × Bool))) : Bool :=
  let v := upperS held
  match expansions v with
  | none => ans.isNone
  | some _ =>
    match ans with
    | none => false
    | some (a0, outs, a1, (same, eq, hsh)) =>
      okCodonAnswers v a0 && okCodonAnswers v a1 && a1 == a0 &&
      outs == sps.map (fun sp =>
        let ok := (expansions (upperS sp)).isSome
        (ok, ok && upperS sp == v)) &&
      same && eq && hsh

/-- `aacodons[aa]`: exactly the strict codons of the residue, each once -/
def okAaCodons (aa : Char) (ans : Option (List (List Char))) : Bool :=
  match ans with
  | some cs => !(codonsOf aa).isEmpty && sameSet cs (codonsOf aa) && nodupB cs
  | none => (codonsOf aa).isEmpty

/-! ### IUPAC complement and the nucleotide alphabets -/

/-- IUPAC complement (upper case); `U` is complemented like `T`; the gap is its own complement -/
def iupacComplementUpper : List (Char × Char) :=
  [('A', 'T'), ('C', 'G'), ('G', 'C'), ('T', 'A'), ('U', 'A'),
   ('R', 'Y'), ('Y', 'R'), ('S', 'S'), ('W', 'W'), ('K', 'M'), ('M', 'K'),
   ('B', 'V'), ('V', 'B'), ('D', 'H'), ('H', 'D'), ('N', 'N'), ('-', '-')]

/-- lower-case form of the letters that occur in nucleotide alphabets (the gap has none) -/
def lowerOf : List (Char × Char) :=
  [('A', 'a'), ('C', 'c'), ('G', 'g'), ('T', 't'), ('U', 'u'), ('R', 'r'), ('Y', 'y'), ('S', 's'), ('W', 'w'),
   ('K', 'k'), ('M', 'm'), ('B', 'b'), ('V', 'v'), ('D', 'd'), ('H', 'h'), ('N', 'n')]

def toLower (c : Char) : Char := match lowerOf.lookup c with | some l => l | none => c

/-- IUPAC complement in both cases (case is preserved) -/
def iupacComplement : List (Char × Char) :=
  iupacComplementUpper ++
  (iupacComplementUpper.filter (fun p => (lowerOf.lookup p.1).isSome)).map (fun p => (toLower p.1, toLower p.2))

/-- the nucleotide alphabets and their (upper-case) letters -/
def ntAlphabets : List (List Char × List Char) :=
  [("NT_STRICT".toList, "ACGT".toList),
   ("NT_EXTENDED".toList, "ACGTURYSWKMBDHVN".toList),
   ("NT_STRICT_GAPPED".toList, "ACGT-".toList),
   ("NT_EXTENDED_GAPPED".toList, "ACGTURYSWKMBDHVN-".toList),
   ("NT_STRICT_UNKNOWN".toList, "ACGTN".toList)]

/-- names of the other alphabets the library offers (no complement exists for them) -/
def otherAlphabets : List (List Char) :=
  ["AA".toList, "AA_EXTENDED".toList, "AA_STRICT_GAPPED".toList, "AA_EXTENDED_GAPPED".toList,
   "AA_STRICT_UNKNOWN".toList, "GENERIC".toList]

/-- the letters of an alphabet in both cases -/
def bothCases (letters : List Char) : List Char :=
  letters ++ (letters.filter (fun c => (lowerOf.lookup c).isSome)).map toLower

/-- IUPAC complement restricted to an alphabet's letters (both cases) -/
def complementOn (letters : List Char) : List (Char × Char) :=
  iupacComplement.filter (fun p => (bothCases letters).contains p.1)

/-- expected complement of a letter in a named alphabet: `none` when the alphabet is not a nucleotide
    alphabet or the letter is not one of its letters (either case) -/
def expectComplement (name : List Char) (c : Char) : Option Char :=
  match ntAlphabets.lookup name with
  | none => none
  | some letters => (complementOn letters).lookup c

def okComplement (name : List Char) (c : Char) (ans : Option Char) : Bool := ans == expectComplement name c

/-- complementing twice gives the letter back (for the letters that have a complement) -/
def okComplementTwice (name : List Char) (c : Char) (ans : Option Char) : Bool :=
  match expectComplement name c with
  | none => ans.isNone
  | some _ => ans == some c

/-- reverse complement of a text of ANY length: the IUPAC complements of its letters, last letter first; refused as
    soon as one letter has no complement in the alphabet, and always for an alphabet that is not a nucleotide alphabet
    (written position by position, independently of the code's
    `reversed` / `join`) -/
def okRevComp (name : List Char) (s : List Char) (ans : Option (List Char)) : Bool :=
  if (ntAlphabets.lookup name).isNone then ans.isNone      -- not a nucleotide alphabet: refused, whatever the text
  else if s.all (fun c => (expectComplement name c).isSome) then
    match ans with
    | none => false
    | some r => r.length == s.length &&
        (List.range s.length).all (fun i => (r[i]?) == (s[s.length - 1 - i]?).bind (expectComplement name))
  else ans.isNone

/-- `Alphabet[name]` letters + `is_nucleotide_alphabet()` -/
def okAlphabet (name : List Char) (letters : List Char) (isNt : Bool) : Bool :=
  match ntAlphabets.lookup name with
  | some ls => isNt && letters.all (ls.contains ·) && ls.all (letters.contains ·)
  | none => otherAlphabets.contains name && !isNt

/-! ### Reading frame / phase (GFF3 specification) -/

/-- residue class 0/1/2 ↦ frame -/
def frameOfResidue (r : Int) : CDSFrame := if r = 0 then .ZERO else if r = 1 then .ONE else .TWO

/-- shifting a frame by `n` bases: `(frame + n) mod 3`; `NONE` stays `NONE` -/
def shift (f : CDSFrame) (n : Int) : CDSFrame :=
  match f with
  | .NONE => .NONE
  | _ => frameOfResidue ((f.value + n) % 3)

/-- GFF3: phase = number of bases to the next codon start = `(3 − frame) mod 3` -/
def phaseOfFrame : CDSFrame → CDSPhase
  | .NONE => .NONE | .ZERO => .ZERO | .ONE => .TWO | .TWO => .ONE

def frameOfPhase : CDSPhase → CDSFrame
  | .NONE => .NONE | .ZERO => .ZERO | .ONE => .TWO | .TWO => .ONE

def frameOfInt? (v : Int) : Option CDSFrame :=
  if v = -1 then some .NONE else if v = 0 then some .ZERO else if v = 1 then some .ONE
  else if v = 2 then some .TWO else none

def phaseOfInt? (v : Int) : Option CDSPhase :=
  if v = -1 then some .NONE else if v = 0 then some .ZERO else if v = 1 then some .ONE
  else if v = 2 then some .TWO else none

/-! ### Strand -/

def strandReverse : Strand → Strand
  | .plus => .minus | .minus => .plus | .unstranded => .unstranded

def strandSymbol : Strand → List Char
  | .plus => ['+'] | .minus => ['-'] | .unstranded => ['.']

def strandOfSymbol? (s : List Char) : Option Strand :=
  if s = ['+'] then some .plus else if s = ['-'] then some .minus else if s = ['.'] then some .unstranded else none

def strandOfInt? (v : Int) : Option Strand :=
  if v = 1 then some .plus else if v = -1 then some .minus else if v = 0 then some .unstranded else none

/-- documented order: PLUS < MINUS < UNSTRANDED -/
def strandRank : Strand → Nat
  | .plus => 1 | .minus => 2 | .unstranded => 3

def strandLt (a b : Strand) : Bool := strandRank a < strandRank b

/-- enum layouts (member name ↦ value) -/
def strandMembers : List (List Char × Int) := [("PLUS".toList, 1), ("MINUS".toList, -1), ("UNSTRANDED".toList, 0)]
def frameMembers : List (List Char × Int) := [("NONE".toList, -1), ("ZERO".toList, 0), ("ONE".toList, 1), ("TWO".toList, 2)]

/-! ### Biotypes: synonym classes (INSDC / SO names; first name of a class is the canonical one) -/

def biotypeClasses : List (List (List Char)) :=
  [["protein_coding".toList, "protein-coding".toList, "mRNA".toList],
   ["ncRNA".toList],
   ["misc_RNA".toList, "miscRNA".toList],
   ["tRNA".toList], ["rRNA".toList],
   ["pseudogene".toList, "pseudo".toList],
   ["lncRNA".toList, "lnc_RNA".toList],
   ["snoRNA".toList], ["V_gene_segment".toList], ["C_gene_segment".toList], ["J_gene_segment".toList],
   ["D_gene_segment".toList], ["primary_transcript".toList], ["miRNA".toList], ["transcript".toList],
   ["SRP_RNA".toList], ["telomerase_RNA".toList], ["tmRNA".toList], ["RNase_MRP_RNA".toList], ["Y_RNA".toList],
   ["antisense_RNA".toList], ["scRNA".toList], ["snRNA".toList], ["vault_RNA".toList], ["J_segment".toList],
   ["C_region".toList], ["V_segment".toList], ["D_segment".toList], ["RNase_P_RNA".toList],
   ["transcribed_pseudogene".toList], ["ncRNA_pseudogene".toList], ["C_region_pseudogene".toList],
   ["J_segment_pseudogene".toList], ["V_segment_pseudogene".toList], ["guide_RNA".toList]]

def biotypeNames : List (List Char) := biotypeClasses.flatMap id

/-- the two names are synonyms (belong to the same class) -/
def sameBiotypeClass (a b : List Char) : Bool := biotypeClasses.any (fun cls => cls.contains a && cls.contains b)

/-- `Biotype[a] == Biotype[b]` must hold exactly for synonyms -/
def okBiotypePair (a b : List Char) (ans : Option (Int × Int)) : Bool :=
  match ans with
  | none => !(biotypeNames.contains a && biotypeNames.contains b)
  | some (va, vb) => biotypeNames.contains a && biotypeNames.contains b && ((va == vb) == sameBiotypeClass a b)

end BioCantor.Spec.Tab
