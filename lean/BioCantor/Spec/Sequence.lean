/-
  C03 — reference semantics of sequence extraction and of derived sequence objects, written without
  looking at how the library computes them:

    the sequence of a location is the list of parent characters at `Spec.bases l` (5'→3'),
    each complemented (IUPAC) when the location is on the minus strand.

  Complement and alphabets come from the reference tables of `Spec/Tables.lean` (never from `Gen`).
-/
import BioCantor.Spec.LocationCheck
import BioCantor.Spec.Tables
namespace BioCantor.Spec.Sq
open BioCantor BioCantor.Spec

abbrev Str := List Char

/-- map with a partial function; `none` as soon as one element has no image -/
def mapOpt {α β} (f : α → Option β) : List α → Option (List β)
  | [] => some []
  | x :: xs =>
    match f x, mapOpt f xs with
    | some y, some ys => some (y :: ys)
    | _, _ => none

/-- IUPAC complement of a letter of the named nucleotide alphabet (either case) -/
def compOf (alph : List Char) (c : Char) : Option Char := Tab.expectComplement alph c

def isNt (alph : List Char) : Bool := (Tab.ntAlphabets.lookup alph).isSome

/-- the parent characters at the given positions -/
def charsAt (P : Str) (ps : List Nat) : Option Str := mapOpt (fun p => P[p]?) ps

/-- the complement table of the named alphabet (computed once per string) -/
def compTable (alph : List Char) : Option (List (Char × Char)) :=
  match Tab.ntAlphabets.lookup alph with
  | none => none
  | some letters => some (Tab.complementOn letters)

/-- complement every letter (`= mapOpt (compOf alph)`, see `Proofs/SeqBasics.compAll_eq`) -/
def compAll (alph : List Char) (s : Str) : Option Str :=
  match compTable alph with
  | some t => mapOpt (fun c => t.lookup c) s
  | none => mapOpt (fun _ => none) s

/-- reverse complement of a string -/
def revcomp (alph : List Char) (s : Str) : Option Str := compAll alph s.reverse

/-- every covered position exists on the parent (what the constructors check through `end <= len(parent)`) -/
def within (P : Str) (l : Loc) : Bool := (bases l).all (fun p => decide (p < P.length))

/-- the parent letters at the positions `B`, each complemented when reading the minus strand -/
def readAt (P : Str) (alph : List Char) (st : Strand) (B : List Nat) : Option Str :=
  match charsAt P B with
  | none => none
  | some cs => if st = .minus then compAll alph cs else some cs

/-- **the property**: base-by-base image of the coordinate map -/
def expectExtractLoc (P : Str) (alph : List Char) (l : Loc) : Option Str :=
  if l.strand = .unstranded then none else readAt P alph l.strand (bases l)

def expectExtract (P : Str) (alph : List Char) : Location → Option Str
  | .single b s => expectExtractLoc P alph ⟨[b], s⟩
  | .compound l => expectExtractLoc P alph l
  | .empty => none

/-- `location.extract_sequence()` on a parent with sequence `P` over a nucleotide alphabet -/
def okExtract (P : Str) (alph : List Char) (l : Location) (ans : Option Str) : Bool :=
  if !isNt alph then true          -- the property speaks about nucleotide alphabets
  else
    match toLoc l with
    | none => ans.isNone
    | some loc => if within P loc then ans == expectExtract P alph l else true

/-! ### identity-like re-constructions -/

/-- `l.reset_strand(s)`, `l.reverse_strand().reverse_strand()`, `l.reset_parent(same)`, `l.optimize_blocks()`,
    `l.shift_position(0)` followed by `extract_sequence()`: the new location `res` is well formed, covers the same
    positions, has the requested strand (`want = some s`) or the old one (`want = none`), and its sequence is the
    base-by-base image of ITS bases (T1 applied to the result).  `seq = none` ⇔ the extraction raised. -/
def okXform (P : Str) (alph : List Char) (l : Location) (want : Option Strand) (res : Location) (seq : Option Str) :
    Bool :=
  match l with
  | .empty => res == .empty && seq.isNone
  | _ =>
    wfLocation res &&
    sortNat (locationBases res) == sortNat (locationBases l) &&
    (res == .empty ||
      locationStrand? res == (match want with | some s => some s | none => locationStrand? l)) &&
    okExtract P alph res seq

/-! ### reversing the strand -/

/-- the same blocks on the opposite strand (re-sorted the way the constructor sorts for that strand) -/
def reverseLoc : Location → Location
  | .single b s => .single b (Tab.strandReverse s)
  | .compound l => .compound ⟨sortBlocks (Tab.strandReverse l.strand) l.blocks, Tab.strandReverse l.strand⟩
  | .empty => .empty

def noU (s : Str) : Bool := s.all (fun c => c != 'U' && c != 'u')

def optBind {α β} (o : Option α) (f : α → Option β) : Option β :=
  match o with
  | some a => f a
  | none => none

/-- the letters read by the location belong to the alphabet and none of them is `U`/`u` -/
def involutiveLetters (P : Str) (alph : List Char) (loc : Loc) : Bool :=
  match charsAt P (bases loc) with
  | some cs => noU cs && (compAll alph cs).isSome
  | none => false

/-- `l.reverse_strand().extract_sequence()`:
    (a) it is the base-by-base image for the re-stranded location, and
    (b) for layouts that are not self-overlapping it is the reverse complement of the original location's
        sequence — provided complementing is an involution on the letters read (excludes `U`/`u`, F-C15a). -/
def okRevStrand (P : Str) (alph : List Char) (l : Location) (ans : Option Str) : Bool :=
  if !isNt alph then true
  else
    match toLoc l with
    | none => ans.isNone
    | some loc =>
      if !within P loc then true
      else
        ans == expectExtract P alph (reverseLoc l) &&
        (if nonOverlap loc.blocks && loc.strand.isDirectional && involutiveLetters P alph loc then
           ans == optBind (expectExtract P alph l) (revcomp alph)
         else true)

/-! ### splitting -/

/-- sequences of `relint(l, 0, k, +)` and `relint(l, k, len, +)`: they concatenate to the sequence of `l`
    and the first has `k` letters (claimed for directional, non-self-overlapping, non-empty locations) -/
def okSplit (P : Str) (alph : List Char) (l : Location) (k : Int) (ans : Option (Str × Str)) : Bool :=
  if !isNt alph then true
  else
    match toLoc l with
    | none => ans.isNone
    | some loc =>
      if within P loc && loc.strand.isDirectional && nonOverlap loc.blocks && decide (0 < loc.len) &&
          decide (0 ≤ k) && decide (k ≤ loc.len) then
        match ans, expectExtract P alph l with
        | some (a, b), some e => a ++ b == e && a.length == k.toNat
        | none, none => true          -- a letter without complement on the minus strand: both refuse
        | _, _ => false
      else true

/-! ### sequence objects: slices, reverse complement, concatenation -/

/-- Python `range(*slice(a, b, c).indices(n))` as index list; `none` for step 0 -/
def pyIndices (n : Nat) (a b c : Option Int) : Option (List Nat) :=
  let step : Int := match c with | some s => s | none => 1
  if step = 0 then none
  else
    let len : Int := n
    let norm (x : Int) (lo hi : Int) : Int :=
      if x < 0 then (if x + len < lo then lo else x + len) else (if x > hi then hi else x)
    if step > 0 then
      let start := match a with | some x => norm x 0 len | none => 0
      let stop := match b with | some x => norm x 0 len | none => len
      -- start, start+step, … < stop
      let cnt := if stop ≤ start then 0 else ((stop - start + step - 1) / step).toNat
      some ((List.range cnt).map fun (i : Nat) => (start + step * (i : Int)).toNat)
    else
      let start := match a with | some x => norm x (-1) (len - 1) | none => len - 1
      let stop := match b with | some x => norm x (-1) (len - 1) | none => -1
      let cnt := if start ≤ stop then 0 else ((start - stop + (-step) - 1) / (-step)).toNat
      some ((List.range cnt).map fun (i : Nat) => (start + step * (i : Int)).toNat)

/-- `s[a:b:c]` -/
def pySlice (s : Str) (a b c : Option Int) : Option Str :=
  match pyIndices s.length a b c with
  | none => none
  | some idx => mapOpt (fun i => s[i]?) idx

/-- one derivation step on a sequence object -/
inductive Step where
  | sl (a b c : Option Int)
  | ix (i : Int)
  | rc
  deriving Repr

/-- expected characters after a step (pure string semantics); `none` = no defined result -/
def stepData (alph : List Char) (s : Str) : Step → Option Str
  | .sl a b c => pySlice s a b c
  | .ix i =>
    let j : Int := if i < 0 then i + s.length else i
    if 0 ≤ j ∧ j < s.length then (s[j.toNat]?).map (fun c => [c]) else none
  | .rc => revcomp alph s

/-- steps on which the call must not refuse: every unit-step slice (any bounds: open-ended, negative, past the
    end, reversed — Python normalises them), in-range indices, reverse complement.  A slice with another step has
    no contiguous image on the parent and may be refused. -/
def plainStep (n : Nat) : Step → Bool
  | .sl _ _ c => (match c with | none => true | some st => st == 1)
  | .ix i => decide (0 ≤ i) && decide (i < n)
  | .rc => true

/-- run a program on the expected data: (data, all steps plain) -/
def runSteps (alph : List Char) : Str → List Step → Option (Str × Bool)
  | s, [] => some (s, true)
  | s, st :: rest =>
    match stepData alph s st with
    | none => none
    | some s' =>
      match runSteps alph s' rest with
      | none => none
      | some (r, pl) => some (r, plainStep s.length st && pl)

/-- observable state of a derived sequence object: characters, and (when it has a parent) the parent's
    strand and the location on the parent -/
structure ObjAns where
  data : Str
  par : Option (Option Strand × Option Location)
  deriving DecidableEq, Repr

def insertChar (x : Char) : List Char → List Char
  | [] => [x]
  | y :: ys => if x ≤ y then x :: y :: ys else y :: insertChar x ys
def sortChars (s : Str) : Str := s.foldr insertChar []

/-- the recorded location reproduces the characters (`exact`: letter by letter; otherwise as a multiset —
    a self-overlapping layout cannot keep the 5'→3' order of a sub-interval, see C01) -/
def consistent (P : Str) (alph : List Char) (exact : Bool) (needLoc : Bool) (o : ObjAns) : Bool :=
  match o.par with
  | none => !needLoc
  | some (_, none) => !needLoc
  | some (st, some m) =>
    wfLocation m &&
    (match toLoc m with
     | none => o.data.isEmpty
     | some loc =>
       within P loc &&
       (match expectExtract P alph m with
        | none => false
        | some e => if exact then e == o.data else sortChars e == sortChars o.data) &&
       (if loc.len = 0 then true else st == some loc.strand))

/-- a program of slices / indexings / reverse complements applied to the sequence object
    `Sequence(extract(l), parent=Parent(location=l))` -/
def okProgram (P : Str) (alph : List Char) (l : Location) (prog : List Step) (ans : Option ObjAns) : Bool :=
  if !isNt alph then true
  else
    match toLoc l with
    | none => ans.isNone
    | some loc =>
      if !(within P loc && loc.strand.isDirectional) then true
      else
        match expectExtract P alph l with
        | none => true
        | some e0 =>
          match runSteps alph e0 prog, ans with
          | none, a => a.isNone
          | some (_, pl), none => !pl || loc.len == 0   -- a location without positions has no sub-intervals (see C01)
          | some (d, _), some o =>
            -- a self-overlapping layout cannot record the order of its positions (C01): the location of a
            -- single slice still covers the right multiset; after a reverse complement or a chain of steps
            -- only the characters are claimed
            o.data == d &&
            (if nonOverlap loc.blocks then consistent P alph true (!d.isEmpty) o
             else match prog with
               | [] => consistent P alph true (!d.isEmpty) o
               | [.sl _ _ _] => consistent P alph false (!d.isEmpty) o
               | [.ix _] => consistent P alph false (!d.isEmpty) o
               | _ => true)

def spanStart (bs : List Blk) : Nat := bs.foldl (fun m b => min m b.1) (match bs with | b :: _ => b.1 | [] => 0)
def spanEnd (bs : List Blk) : Nat := bs.foldl (fun m b => max m b.2) 0

/-- may the two located sequences be concatenated?  same directional strand, both non-empty, and the span of
    the first lies wholly 5' of the span of the second on the parent -/
def appendCompatible (a b : Location) : Bool :=
  match toLoc a, toLoc b with
  | some la, some lb =>
    la.strand == lb.strand && la.strand.isDirectional && decide (0 < la.len) && decide (0 < lb.len) &&
    (if la.strand = .plus then decide (spanEnd la.blocks ≤ spanStart lb.blocks)
     else decide (spanEnd lb.blocks ≤ spanStart la.blocks))
  | _, _ => false

/-- `x.append(y)` for `x = prog₁(obj l₁)`, `y = prog₂(obj l₂)`; `xa`, `ya` are the (already checked) operands -/
def okAppend (P : Str) (alph : List Char) (exact : Bool) (x y : ObjAns) (ans : Option ObjAns) : Bool :=
  let locOf (o : ObjAns) : Option Location := match o.par with | some (_, some m) => some m | _ => none
  match ans with
  | some o =>
    o.data == x.data ++ y.data &&
    (if !exact then true        -- self-overlapping operands: only the characters are claimed
     else match locOf x, locOf y with
       | some lx, some ly => consistent P alph true (appendCompatible lx ly) o
       | _, _ => consistent P alph true false o)
  | none =>
    -- refusing is wrong only for a compatible pair
    if !exact then true
    else match locOf x, locOf y with
      | some lx, some ly => !appendCompatible lx ly
      | _, _ => true

end BioCantor.Spec.Sq
