/-
  Reference semantics of locations, written without looking at how the library computes
  anything: a location *is* the list of parent positions it covers, read 5'→3'.
-/
import BioCantor.Base
namespace BioCantor.Spec
open BioCantor

/-- Positions of one block in ascending order. -/
def blkAsc (b : Blk) : List Nat := List.range' b.1 (b.2 - b.1)

/-- Positions of one block in descending order. -/
def blkDesc (b : Blk) : List Nat := (blkAsc b).reverse

/-- Concatenate ascending blocks in list order. -/
def basesPlus : List Blk → List Nat
  | [] => []
  | b :: bs => blkAsc b ++ basesPlus bs

/-- Read blocks (given in 5'→3' order for the minus strand, i.e. already reversed) descending. -/
def basesMinus : List Blk → List Nat
  | [] => []
  | b :: bs => blkDesc b ++ basesMinus bs

/-- The covered parent positions in 5'→3' order.  For an unstranded location there is no
    direction; we use the plus reading (only used for position *sets*). -/
def bases (l : Loc) : List Nat :=
  match l.strand with
  | .minus => basesMinus l.blocks.reverse
  | _ => basesPlus l.blocks

/-- Position-set semantics: `p` is covered by some block. -/
def coversBlocks (bs : List Blk) (p : Nat) : Bool := bs.any (fun b => decide (b.1 ≤ p) && decide (p < b.2))

def covers (l : Loc) (p : Nat) : Bool := coversBlocks l.blocks p

/-- Index of the first occurrence. -/
def idxOf? (p : Nat) : List Nat → Option Nat
  | [] => none
  | x :: xs => if x = p then some 0 else (idxOf? p xs).map (· + 1)

/-- Strand composition (what the documentation calls "relative to"). -/
def compose : Strand → Strand → Strand
  | .unstranded, _ => .unstranded
  | _, .unstranded => .unstranded
  | .plus, .plus => .plus
  | .minus, .minus => .plus
  | _, _ => .minus

/-- Bases of `Location` values (empty has none). -/
def locationBases : Location → List Nat
  | .single b s => bases ⟨[b], s⟩
  | .compound l => bases l
  | .empty => []

def locationCovers : Location → Nat → Bool
  | .single b _ => coversBlocks [b]
  | .compound l => covers l
  | .empty => fun _ => false

/-- Normal form promised after `optimize_blocks`: no empty block, no block ending where the next begins. -/
def normalBlocks : List Blk → Bool
  | [] => true
  | [a] => decide (a.1 < a.2)
  | a :: b :: rest => decide (a.1 < a.2) && decide (a.2 ≠ b.1) && normalBlocks (b :: rest)

end BioCantor.Spec
