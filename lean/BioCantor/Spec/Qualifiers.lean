/-
  C18 — reference semantics of identifier / qualifier extraction, written from the documentation
  (docstrings of io/features/__init__.py, io/gff3/parser.py, io/genbank/parser.py), NOT from the code:

    * the name / ID of a feature is the first value of the present qualifier key that comes first in the
      documented priority list; keys are matched exactly, ignoring (ASCII) case;
    * with no recognised key at all, `/note` supplies both: its first whitespace-delimited word without
      surrounding punctuation;
    * feature types = the initial types plus every value of every key containing `_class`, `gbkey`, `_type`;
    * merging two qualifier dictionaries is a key-wise set union with sorted values;
    * GFF3 qualifier filtering drops exactly the reserved BioCantor keys and sorts the values;
    * GenBank features grouped by locus tag: one group per tag that has a gene, transcript or CDS feature, holding that tag's gene / transcript / CDS
      features, whatever the order of the records.

  Everything is a decidable predicate on (input, observed answer) pairs; `none` = the call raised.
  Strings are `List Char` (ASCII assumed for case folding).
-/
import BioCantor.Base
namespace BioCantor.Spec.Qual
open BioCantor

abbrev Str := List Char
/-- a Python `Dict[str, List[str]]` in insertion order -/
abbrev QDict := List (Str × List Str)

/-! ### strings -/

def lowerStr (s : Str) : Str := s.map Char.toLower

/-- code-point lexicographic order (Python `str.__lt__`) -/
def strLt : Str → Str → Bool
  | [], [] => false
  | [], _ :: _ => true
  | _ :: _, [] => false
  | a :: as, b :: bs => decide (a.toNat < b.toNat) || (a == b && strLt as bs)

def strLe (a b : Str) : Bool := a == b || strLt a b

def sortedStrict : List Str → Bool
  | [] => true
  | [_] => true
  | a :: b :: rest => strLt a b && sortedStrict (b :: rest)

def sortedWeak : List Str → Bool
  | [] => true
  | [_] => true
  | a :: b :: rest => strLe a b && sortedWeak (b :: rest)

/-- same members (as sets) -/
def sameSet (a b : List Str) : Bool := a.all (b.contains ·) && b.all (a.contains ·)

def keysDistinct : QDict → Bool
  | [] => true
  | e :: es => !(es.any (·.1 == e.1)) && keysDistinct es

/-! ### the documented priority lists (most important first) -/

def nameOrder : List Str := [
  ['f', 'e', 'a', 't', 'u', 'r', 'e', '_', 'n', 'a', 'm', 'e'],
  ['s', 't', 'a', 'n', 'd', 'a', 'r', 'd', '_', 'n', 'a', 'm', 'e'],
  ['n', 'a', 'm', 'e'],
  ['g', 'e', 'n', 'e'],
  ['g', 'e', 'n', 'e', '_', 'n', 'a', 'm', 'e'],
  ['l', 'a', 'b', 'e', 'l'],
  ['o', 'p', 'e', 'r', 'o', 'n']]

def idOrder : List Str := [
  ['f', 'e', 'a', 't', 'u', 'r', 'e', '_', 'i', 'd'],
  ['i', 'd']]

def noteKey : Str := ['n', 'o', 't', 'e']

/-- position of `k` in a priority list -/
def indexIn (k : Str) : List Str → Option Nat
  | [] => none
  | x :: xs => if x = k then some 0 else (indexIn k xs).map (· + 1)

/-- rank of a qualifier key: exact match ignoring case -/
def rank (order : List Str) (k : Str) : Option Nat := indexIn (lowerStr k) order

/-- `ans` is the first value of a present key of least rank (and `None` iff no key is recognised). -/
def okPick (order : List Str) (qs : QDict) (ans : Option Str) : Bool :=
  match ans with
  | none => qs.all fun e => (rank order e.1).isNone
  | some v =>
    qs.any fun e =>
      match rank order e.1 with
      | none => false
      | some r =>
        e.2.head? == some v &&
        qs.all fun e' =>
          match rank order e'.1 with
          | none => true
          | some r' => decide (r ≤ r')

def recognised (k : Str) : Bool := (rank nameOrder k).isSome || (rank idOrder k).isSome

/-! ### `/note` fallback -/

/-- `str.isspace` on ASCII -/
def isSpace (c : Char) : Bool :=
  let n := c.toNat
  (9 ≤ n && n ≤ 13) || (28 ≤ n && n ≤ 32)

/-- `string.punctuation` as code-point ranges -/
def isPunct (c : Char) : Bool :=
  let n := c.toNat
  (33 ≤ n && n ≤ 47) || (58 ≤ n && n ≤ 64) || (91 ≤ n && n ≤ 96) || (123 ≤ n && n ≤ 126)

/-- first whitespace-delimited word -/
def firstWord (s : Str) : Option Str :=
  let t := s.dropWhile isSpace
  if t.isEmpty then none else some (t.takeWhile (fun c => !isSpace c))

def stripPunct (s : Str) : Str :=
  ((s.dropWhile isPunct).reverse.dropWhile isPunct).reverse

def lookupExact (k : Str) : QDict → Option (List Str)
  | [] => none
  | e :: es => if e.1 = k then some e.2 else lookupExact k es

def noteToken (qs : QDict) : Option Str :=
  match lookupExact noteKey qs with
  | some (v :: _) => (firstWord v).map stripPunct
  | _ => none

/-- Domain of the extraction clause: a Python dict (distinct keys) in which every recognised key carries a
    non-empty first value (the property quantifies over keys "with distinct values"). -/
def extractDomain (qs : QDict) : Bool :=
  keysDistinct qs &&
  qs.all fun e => !(recognised e.1) || (match e.2 with | v :: _ => !v.isEmpty | [] => false)

/-- `extract_feature_name_id`: never raises; name and ID by priority; `/note` only without any recognised key. -/
def okExtract (qs : QDict) (ans : Option (Option Str × Option Str)) : Bool :=
  match ans with
  | none => false
  | some (n, i) =>
    if qs.any (fun e => recognised e.1) then okPick nameOrder qs n && okPick idOrder qs i
    else
      match noteToken qs with
      | some t => n == some t && i == some t
      | none => n.isNone && i.isNone

/-- Order independence is promised when no two present keys have the same rank (`gene` next to `GENE` is
    inherently order dependent: both are "the" gene key). -/
def ranksDistinct (order : List Str) : QDict → Bool
  | [] => true
  | e :: es =>
    (match rank order e.1 with
     | none => true
     | some r => !(es.any fun e' => rank order e'.1 == some r)) && ranksDistinct order es

/-! ### feature types -/

def hasSub (pat : Str) : Str → Bool
  | [] => pat.isEmpty
  | c :: cs => pat.isPrefixOf (c :: cs) || hasSub pat cs

def typeLike (k : Str) : Bool :=
  let l := lowerStr k
  hasSub ['_', 'c', 'l', 'a', 's', 's'] l || hasSub ['g', 'b', 'k', 'e', 'y'] l || hasSub ['_', 't', 'y', 'p', 'e'] l

def expectedTypes (init : List Str) (qs : QDict) : List Str :=
  init ++ (qs.filter (fun e => typeLike e.1)).flatMap (·.2)

/-- the resulting set (reported sorted) has exactly the expected members -/
def okTypes (init : List Str) (qs : QDict) (ans : Option (List Str)) : Bool :=
  match ans with
  | none => false
  | some l => sortedStrict l && sameSet l (expectedTypes init qs)

/-! ### merge_qualifiers -/

def valuesUnder (k : Str) (d : QDict) : List Str := (d.filter (·.1 == k)).flatMap (·.2)

def okMerge (a b : QDict) (ans : Option QDict) : Bool :=
  match ans with
  | none => false
  | some m =>
    keysDistinct m &&
    sameSet (m.map (·.1)) ((a ++ b).map (·.1)) &&
    m.all fun e => sortedStrict e.2 && sameSet e.2 (valuesUnder e.1 (a ++ b))

/-! ### filter_and_sort_qualifiers -/

/-- the keys BioCantor itself writes / reserves in GFF3 (gff3/constants.py: BioCantorQualifiers values and
    lower-cased member names, BioCantorGFF3ReservedQualifiers values and lower-cased member names) -/
def reservedKeys : List Str := [
  "transcript_id".toList, "transcript_name".toList, "transcript_biotype".toList, "transcript_type".toList,
  "protein_id".toList, "product".toList, "gene_id".toList, "gene_name".toList, "gene_symbol".toList,
  "gene_biotype".toList, "gene_type".toList, "feature_id".toList, "feature_name".toList,
  "feature_collection_name".toList, "feature_collection_id".toList, "feature_collection_type".toList,
  "feature_colletion_type".toList, "feature_type".toList, "locus_tag".toList,
  "Name".toList, "name".toList, "Parent".toList, "parent".toList, "ID".toList, "id".toList]

/-- values are the same multiset, sorted -/
def okSortedVals (inp out : List Str) : Bool := sortedWeak out && out.isPerm inp

/-- Exact matching: a key is dropped iff it IS a reserved key; the others are kept in order with sorted values;
    an empty result is reported as `None`. -/
def okFilterSort (q : QDict) (ans : Option (Option QDict)) : Bool :=
  match ans with
  | none => false
  | some r =>
    let kept := q.filter fun e => !(reservedKeys.contains e.1)
    match r with
    | none => kept.isEmpty
    | some out =>
      !kept.isEmpty && out.map (·.1) == kept.map (·.1) &&
      (out.zip kept).all fun p => okSortedVals p.2.2 p.1.2

/-! ### locus-tag grouping -/

inductive Kind where
  | gene | transcript | cds | other
  deriving DecidableEq, Repr, Inhabited

structure Feat where
  tag : Str
  kind : Kind
  uid : Nat
  deriving DecidableEq, Repr, Inhabited

structure Group where
  tag : Str
  gene : Option Nat
  transcripts : List Nat
  cdss : List Nat
  deriving DecidableEq, Repr, Inhabited

def uidsOf (fs : List Feat) (t : Str) (k : Kind) : List Nat :=
  (fs.filter fun f => f.tag == t && f.kind == k).map (·.uid)

/-- some tag carries two gene features: the parser must refuse -/
def dupGene (fs : List Feat) : Bool :=
  fs.any fun f => f.kind == .gene && (uidsOf fs f.tag .gene).length ≥ 2

/-- a tag is a single chain when it does not have several transcripts AND several CDSs (otherwise the parser
    warns and keeps an arbitrary transcript: inherently order dependent) -/
def singleChain (fs : List Feat) (t : Str) : Bool :=
  !((uidsOf fs t .transcript).length > 1 && (uidsOf fs t .cds).length > 1)

/-- the features that can make a gene: a tag carried ONLY by features of unknown type yields no group (the parser
    warns about each of them and has no gene to build — documented since 48a0909) -/
def knownFeats (fs : List Feat) : List Feat := fs.filter fun f => f.kind != .other

def okGroup (fs : List Feat) (ans : Option (List Group)) : Bool :=
  match ans with
  | none => dupGene fs
  | some gs =>
    !dupGene fs &&
    sortedStrict (gs.map (·.tag)) &&
    sameSet (gs.map (·.tag)) ((knownFeats fs).map (·.tag)) &&
    gs.all fun g =>
      g.gene == (uidsOf fs g.tag .gene).head? &&
      g.cdss.isPerm (uidsOf fs g.tag .cds) &&
      (if singleChain fs g.tag then g.transcripts.isPerm (uidsOf fs g.tag .transcript)
       else match g.transcripts with
         | [t] => (uidsOf fs g.tag .transcript).contains t
         | _ => false)

/-! ### export_qualifiers(parent_qualifiers) of a feature / transcript / CDS interval (gene/*.py)

  Documented: the interval's own qualifiers are merged with the parent's ("removing redundancy" — a key-wise set
  union), then the interval's identifiers are added under the BioCantor qualifier keys. -/

inductive IvKind where
  | feature | transcript | cds
  deriving DecidableEq, Repr, Inhabited

/-- the BioCantor qualifier keys under which the identifiers of each class are exported, in the order of the
    attributes (feature: name, id; transcript: id, symbol, type, protein id; CDS: protein id, product) -/
def exportKeys : IvKind → List Str
  | .feature => ["feature_name".toList, "feature_id".toList]
  | .transcript => ["transcript_id".toList, "transcript_name".toList, "transcript_biotype".toList, "protein_id".toList]
  | .cds => ["protein_id".toList, "product".toList]

/-- a transcript without a type is exported as `unspecified` -/
def unknownBiotype : Str := "unspecified".toList

def exportAttrs (k : IvKind) (attrs : List (Option Str)) : List (Option Str) :=
  match k, attrs with
  | .transcript, a :: b :: none :: rest => a :: b :: some unknownBiotype :: rest
  | _, l => l

/-- the identifier entries that are exported: attributes that are set and not empty -/
def idEntries (k : IvKind) (attrs : List (Option Str)) : QDict :=
  ((exportKeys k).zip (exportAttrs k attrs)).filterMap fun p =>
    match p.2 with
    | some v => if v.isEmpty then none else some (p.1, [v])
    | none => none

/-- result (values reported sorted) = key-wise set union of own qualifiers, parent qualifiers and identifiers -/
def okExport (k : IvKind) (own : QDict) (parent : Option QDict) (attrs : List (Option Str)) (ans : Option QDict) : Bool :=
  okMerge own ((match parent with | some p => p | none => []) ++ idEntries k attrs) ans

/-! ### gene biotype of a GenBank locus (GeneFeature.to_gene_model) -/

/-- documented (since 3370634): the most common transcript biotype; ties are broken by name, so the result does not
    depend on the order of the records.  `none` = raised (no transcript at all). -/
def okBiotype (types : List Str) (ans : Option Str) : Bool :=
  match ans with
  | none => types.isEmpty
  | some b =>
    types.contains b &&
    types.all fun b' => decide (types.count b' < types.count b) || (types.count b' == types.count b && strLe b b')

end BioCantor.Spec.Qual
