/-
  C01 as decidable predicates on (input, answer) pairs.  An answer is `some v` (the call returned v)
  or `none` (the call raised).  `Props/C01.lean` proves `ok… input (Model.f input)` for every input;
  the harness evaluates the same predicates on the answers of the real library.
-/
import BioCantor.Spec.Location
namespace BioCantor.Spec
open BioCantor

def toLoc : Location → Option Loc
  | .single b s => some ⟨[b], s⟩
  | .compound l => some l
  | .empty => none

/-- expected answer of `relative_to_parent_pos` -/
def expectR2P (l : Location) (r : Int) : Option Int :=
  match toLoc l with
  | none => none
  | some loc =>
    if loc.strand = .unstranded then none
    else if r < 0 then none
    else ((bases loc)[r.toNat]?).map Int.ofNat

/-- expected answer of `parent_to_relative_pos` -/
def expectP2R (l : Location) (p : Int) : Option Int :=
  match toLoc l with
  | none => none
  | some loc =>
    if loc.strand = .unstranded then none
    else if p < 0 then none
    else (idxOf? p.toNat (bases loc)).map Int.ofNat

def okR2P (l : Location) (r : Int) (ans : Option Int) : Bool := ans == expectR2P l r
def okP2R (l : Location) (p : Int) (ans : Option Int) : Bool := ans == expectP2R l p

/-- insertion sort on positions (for multiset comparison) -/
def insertSorted (x : Nat) : List Nat → List Nat
  | [] => [x]
  | y :: ys => if x ≤ y then x :: y :: ys else y :: insertSorted x ys
def sortNat : List Nat → List Nat
  | [] => []
  | x :: xs => insertSorted x (sortNat xs)

/-- Structural well-formedness of a returned location (what the constructors establish). -/
def wfLocation : Location → Bool
  | .single b _ => decide (b.1 ≤ b.2)
  | .compound l => decide l.Canon
  | .empty => true

def locationStrand? : Location → Option Strand
  | .single _ s => some s
  | .compound l => some l.strand
  | .empty => none

def locationBlocks : Location → List Blk
  | .single b _ => [b]
  | .compound l => l.blocks
  | .empty => []

/-- Is the request inside the domain on which `relative_interval_to_parent_location` must answer? -/
def relintDomain (l : Location) (rs re : Int) : Bool :=
  match toLoc l with
  | none => false
  | some loc => loc.strand.isDirectional && decide (0 ≤ rs) && decide (rs ≤ re) && decide (re ≤ loc.len)

/-- C01, interval form: the returned location has the composed strand, is well formed (and normalised
    when non-empty), and covers exactly the bases `(bases l)[rs:re]`
    (normalised = no empty / mergeable-adjacent block; claimed for layouts that are not self-overlapping:
    a sorted block list re-sorted for the other strand cannot stay merged, see DESIGN C01) — in the same 5'→3' order when the
    layout is not self-overlapping, as a multiset otherwise. Outside the domain the call must refuse. -/
def okRelint (l : Location) (rs re : Int) (rst : Strand) (ans : Option Location) : Bool :=
  match toLoc l with
  | none => ans.isNone
  | some loc =>
    if ¬ relintDomain l rs re then ans.isNone
    else if loc.len = 0 ∧ ans.isNone then
      -- a location without any position has no sub-interval with bases; refusing (as the multi-block
      -- class does) and answering with a zero-length interval (as the single-block class does) are
      -- both accepted
      true
    else match ans with
      | none => false
      | some m =>
        let want := ((bases loc).drop rs.toNat).take (re - rs).toNat
        let strandOk := locationStrand? m == some (compose loc.strand rst)
        let got := locationBases m   -- read on m's own strand (plus reading for unstranded)
        let ordered :=
          match compose loc.strand rst with
          | .unstranded => sortNat got == sortNat want
          | s => if s = loc.strand then got == want else got == want.reverse
        let basesOk := if nonOverlap loc.blocks then ordered else sortNat got == sortNat want
        let normalOk := if rs < re ∧ nonOverlap loc.blocks then (normalBlocks (locationBlocks m) && m != .empty) else true
        strandOk && wfLocation m && basesOk && normalOk

end BioCantor.Spec

namespace BioCantor.Spec
open BioCantor

/-- C01, relative-location form: `a.location_relative_to(b)` (= `b.parent_to_relative_location(a)`).
    For non-self-overlapping operands and directional `b` the answer covers exactly the relative
    positions (within `b`) of the parent positions covered by both, has `a`'s strand relative to `b`'s,
    is well formed, and is normalised when `optimize_blocks`; operands sharing no position are refused. -/
def okLocRel (a b : Location) (opt : Bool) (ans : Option Location) : Bool :=
  if a == .empty ∨ b == .empty then ans == some .empty
  else
    let common := (locationBases a).filter (fun p => locationCovers b p)
    if common.isEmpty then ans.isNone
    else if strandOf? b == some .unstranded then true        -- no direction to measure along: refusal accepted
    else if ¬ (nonOverlap (locationBlocks a) && nonOverlap (locationBlocks b)) then
      match ans with | some m => wfLocation m | none => true
    else match ans with
      | none => false
      | some m =>
        let want := common.filterMap (fun p => idxOf? p (locationBases b))
        let strandOk := locationStrand? m == (do let sa ← locationStrand? a; let sb ← locationStrand? b; pure (compose sa sb))
        strandOk && wfLocation m && m != .empty &&
        sortNat ((locationBlocks m).flatMap blkAsc) == sortNat want &&
        (!opt || normalBlocks (locationBlocks m))
where strandOf? (l : Location) : Option Strand := locationStrand? l

end BioCantor.Spec
