/-
  C20 — reference semantics of gene / feature-collection / annotation-collection aggregates, written from the
  documentation (class docstrings of gene/gene.py, gene/feature.py, gene/collections.py and the docstring of
  `_find_primary_feature`), NOT from the code:

    * span              = (minimum child start, maximum child end)
    * is_coding         ⇔ some transcript is coding
    * feature_types     = union of the children's types
    * primary child     = the one flagged by the data source; more than one flag is an error; otherwise the child
                          with the longest CDS, then the longest spliced length, then the earliest in the list
    * merged transcript / CDS / feature covers exactly the union of the children's (CDS) blocks, on the plus strand
    * an annotation collection iterates its members ordered by start (stable), `len` counts genes and feature
      collections, bounds are the given ones or else the span of the members

  Every predicate is decidable on (input, observed answer) pairs; `none` = the call raised.
  Position sets are compared through `Spec.coversBlocks`.
-/
import BioCantor.Spec.Location
import BioCantor.Spec.Qualifiers
namespace BioCantor.Spec.Agg
open BioCantor BioCantor.Spec
open BioCantor.Spec.Qual (sortedStrict sameSet)

/-- strings are `List Char`, ordered by code point (`Spec.Qual.strLt`) -/
abbrev Str := BioCantor.Spec.Qual.Str

/-- A child interval (TranscriptInterval / FeatureInterval) reduced to what the aggregates read.
    The block list is `b0 :: bs` (never empty). -/
structure Child where
  strand : Strand
  primary : Bool                  -- `is_primary_tx` / `is_primary_feature` is True
  b0 : Blk
  bs : List Blk
  cds : Option (List Blk)         -- CDS blocks of a coding transcript
  types : List Str                -- feature types (features only)
  deriving DecidableEq, Repr, Inhabited

def Child.blocks (c : Child) : List Blk := c.b0 :: c.bs

/-- `.start` = first block's start -/
def Child.start (c : Child) : Nat := c.b0.1

def lastEnd : Blk → List Blk → Nat
  | b, [] => b.2
  | _, b' :: rest => lastEnd b' rest

/-- `.end` = last block's end -/
def Child.stop (c : Child) : Nat := lastEnd c.b0 c.bs

/-- spliced length -/
def Child.len (c : Child) : Nat := blocksLen c.blocks

def Child.coding (c : Child) : Bool := c.cds.isSome

/-- CDS length (0 for a non-coding transcript and for every feature) -/
def Child.cdsSize (c : Child) : Nat :=
  match c.cds with
  | some l => blocksLen l
  | none => 0

/-! ### span -/

/-- `s` is the minimum of `xs` (and `xs` is not empty) -/
def isMin (s : Nat) (xs : List Nat) : Bool := xs.contains s && xs.all (fun x => decide (s ≤ x))
def isMax (e : Nat) (xs : List Nat) : Bool := xs.contains e && xs.all (fun x => decide (x ≤ e))

def okSpan (cs : List Child) (s e : Nat) : Bool :=
  isMin s (cs.map Child.start) && isMax e (cs.map Child.stop)

/-! ### primary child -/

/-- `a` is at least as good as `b`: longer CDS, then longer spliced length -/
def keyGe (a b : Nat × Nat) : Bool := decide (a.1 > b.1) || (a.1 == b.1 && decide (a.2 ≥ b.2))

def Child.key (c : Child) : Nat × Nat := (c.cdsSize, c.len)

/-- `p` is the lexicographic argmax of the keys with the earliest index -/
def isArgmaxFirst (keys : List (Nat × Nat)) (p : Nat) : Bool :=
  match keys[p]? with
  | none => false
  | some k => keys.all (fun k' => keyGe k k') && (keys.take p).all (fun k' => !keyGe k' k)

/-- positions of the flagged children -/
def flaggedIdx (cs : List Child) : List Nat :=
  (cs.zipIdx.filter fun p => p.1.primary).map (·.2)

/-- more than one child is flagged: the constructor must refuse -/
def multiFlag (cs : List Child) : Bool := decide ((flaggedIdx cs).length ≥ 2)

def okPrimary (cs : List Child) (p : Nat) : Bool :=
  match flaggedIdx cs with
  | [i] => p == i
  | _ => isArgmaxFirst (cs.map Child.key) p

/-! ### GeneInterval -/

structure GeneAns where
  start : Nat
  stop : Nat
  coding : Bool
  primary : Nat                       -- index of `primary_transcript` in `transcripts`
  primaryCds : Option (List Blk)      -- `get_primary_cds()` blocks
  deriving DecidableEq, Repr, Inhabited

def okGene (cs : List Child) (ans : Option GeneAns) : Bool :=
  if cs.isEmpty || multiFlag cs then ans.isNone
  else match ans with
    | none => false
    | some a =>
      okSpan cs a.start a.stop &&
      a.coding == cs.any Child.coding &&
      okPrimary cs a.primary &&
      (match cs[a.primary]? with
       | some c => a.primaryCds == c.cds
       | none => false)

/-! ### merged transcript / CDS / feature -/

def maxEndOfBlocks : List Blk → Nat
  | [] => 0
  | b :: bs => max b.2 (maxEndOfBlocks bs)

/-- same position set; checked on `0 … hi` where `hi` bounds every coordinate of both sides -/
def sameCover (a b : List Blk) : Bool :=
  let hi := max (maxEndOfBlocks a) (maxEndOfBlocks b)
  (List.range (hi + 1)).all fun p => coversBlocks a p == coversBlocks b p

/-- a merged feature: plus strand, valid blocks, exactly the union of the given blocks -/
def okMergedBlocks (src : List Blk) (ans : Option (Strand × List Blk)) : Bool :=
  match ans with
  | none => false
  | some (st, out) => st == .plus && blocksValid out && !out.isEmpty && sameCover out src

/-- `get_merged_transcript` / `get_merged_feature`: all exon blocks of all children (any strand mix) -/
def okMergedAll (cs : List Child) (ans : Option (Strand × List Blk)) : Bool :=
  okMergedBlocks (cs.flatMap Child.blocks) ans

def cdsBlocksOf (cs : List Child) : List Blk :=
  cs.flatMap fun c => match c.cds with | some l => l | none => []

/-- `get_merged_cds`: refused exactly when no transcript is coding -/
def okMergedCds (cs : List Child) (ans : Option (Strand × List Blk)) : Bool :=
  if cs.any Child.coding then okMergedBlocks (cdsBlocksOf cs) ans else ans.isNone

/-! ### FeatureIntervalCollection -/

structure FcollAns where
  start : Nat
  stop : Nat
  primary : Nat
  types : List Str          -- the set, reported sorted
  deriving DecidableEq, Repr, Inhabited

/-- for features the CDS size is 0 by definition -/
def featKey (c : Child) : Nat × Nat := (0, c.len)

def okPrimaryFeat (cs : List Child) (p : Nat) : Bool :=
  match flaggedIdx cs with
  | [i] => p == i
  | _ => isArgmaxFirst (cs.map featKey) p

def okFcoll (cs : List Child) (ans : Option FcollAns) : Bool :=
  if cs.isEmpty || multiFlag cs then ans.isNone
  else match ans with
    | none => false
    | some a =>
      okSpan cs a.start a.stop && okPrimaryFeat cs a.primary &&
      sortedStrict a.types && sameSet a.types (cs.flatMap Child.types)

/-! ### AnnotationCollection -/

/-- a member of an annotation collection: `true` = gene, index in its own list, start, end -/
structure Member where
  isGene : Bool
  idx : Nat
  start : Nat
  stop : Nat
  deriving DecidableEq, Repr, Inhabited

structure AcollAns where
  len : Nat
  empty : Bool
  bounds : Option (Nat × Nat)
  order : List (Bool × Nat)          -- iteration order: (isGene, idx)
  deriving DecidableEq, Repr, Inhabited

def sortedByStart : List Member → Bool
  | [] => true
  | [_] => true
  | a :: b :: rest => decide (a.start ≤ b.start) && sortedByStart (b :: rest)

/-- `out` is `inp` sorted by start, members of equal start in their original order -/
def isStableSortByStart (inp out : List Member) : Bool :=
  sortedByStart out && out.isPerm inp &&
  inp.all fun m => out.filter (fun x => x.start == m.start) == inp.filter (fun x => x.start == m.start)

/-- the members named by the reported iteration order `(isGene, idx)` -/
def recoverOrder (chain : List Member) (order : List (Bool × Nat)) : Option (List Member) :=
  order.mapM fun k => chain.find? fun m => m.isGene == k.1 && m.idx == k.2

/-- length, emptiness and iteration order -/
def okCommon (chain : List Member) (a : AcollAns) : Bool :=
  a.len == chain.length && a.empty == chain.isEmpty &&
  (match recoverOrder chain a.order with
   | some out => isStableSortByStart chain out
   | none => false)

/-- bounds inferred from the members: none for an empty collection, else (min start, max end) -/
def okBoundsInferred (chain : List Member) (b : Option (Nat × Nat)) : Bool :=
  if chain.isEmpty then b.isNone
  else match b with
    | some (s, e) => isMin s (chain.map (·.start)) && isMax e (chain.map (·.stop))
    | none => false

/-- `genes`, `fcs` as passed to the constructor; `bnd` = the explicit (start, end) arguments; `pb` = the location
    (start, end) of the chromosome-typed ancestor of `parent_or_seq_chunk_parent`, when there is one.
    Documented: explicit bounds (both or neither) win; else the bounds are inferred from the parent if possible;
    else from the members; an empty collection without either has no bounds. -/
def okAcollP (pb : Option (Nat × Nat)) (genes fcs : List Member) (bnd : Option Nat × Option Nat)
    (ans : Option AcollAns) : Bool :=
  let chain := genes ++ fcs
  match bnd with
  | (some _, none) => ans.isNone                       -- documented: both or neither
  | (none, some _) => ans.isNone
  | (some s, some e) =>
    if e < s then ans.isNone                           -- not an interval
    else match ans with
      | none => false
      | some a => okCommon chain a && a.bounds == some (s, e)
  | (none, none) =>
    match ans with
    | none => false
    | some a =>
      okCommon chain a &&
      (match pb with
       | some b => a.bounds == some b
       | none => okBoundsInferred chain a.bounds)

/-- without a parent -/
def okAcoll (genes fcs : List Member) (bnd : Option Nat × Option Nat) (ans : Option AcollAns) : Bool :=
  okAcollP none genes fcs bnd ans

/-! ### accessors of the primary member -/

/-- what the accessors of a gene return, for member methods `seq` (spliced sequence), `cdsSeq`, `prot` given as
    arbitrary functions of the member: (primary transcript index, primary feature index, CDS, sequence, feature
    sequence, CDS sequence, protein) -/
structure AccAns (α : Type) where
  transcript : Option Nat
  feature : Option Nat
  cds : Option (List Blk)
  seq : Option α
  featureSeq : Option α
  cdsSeq : Option α
  protein : Option α

/-- every accessor returns the value of member `p`; the CDS-dependent ones are `None` for a non-coding member -/
def okAccessors {α : Type} [DecidableEq α] (seq cdsSeq prot : Child → α) (c : Child) (p : Nat) (a : AccAns α) : Bool :=
  a.transcript == some p && a.feature == some p && a.cds == c.cds &&
  a.seq == some (seq c) && a.featureSeq == some (seq c) &&
  a.cdsSeq == some (cdsSeq c) &&
  a.protein == (if c.coding then some (prot c) else none)

end BioCantor.Spec.Agg
